"""C09 - a crash at any storage write leaves a node that restarts into a consistent chain.

1. TLC explores spec/ChainStore.tla through MC_ChainStore (block insertion of every kind, ResetTo, fork
   switch, insertion followed by a sibling branch, fast sync ending in the atomic prefix switch; every
   durable step a crash point; start-up = InitChain, InitState, EnsureIntegrity with ITS write sequence;
   up to 2 crashes per behaviour) twice:
     - constants "code as is": the clauses BootOk / HeadMatchesState / HeadInWindow hold everywhere and the
       other clauses are broken only in the behaviours the two orderings named in the constants explain
       (ExplainedAsIs); every finished behaviour is exported as a crash schedule with the clauses the
       MODEL sees broken,
     - constants "repaired design": every clause holds (NoBrokenClause).
2. The exported schedules (all single-crash ones, a seeded sample of the double-crash classes) and the
   driver's own seeded enumeration (larger scenarios, EVERY write index) are executed on the REAL node:
   a crash-injecting dbm.DB kills the process inside the scheduled durable write, the normal start-up
   sequence runs on the survivor, the interrupted and following blocks and a rollback probe are applied
   and compared with a node that never crashed.
3. TLC validates the recorded trace against Trace_ChainStore: the C09 clauses on the OBSERVED state are the
   verdict; write-kind sequences, tracked store, start-up outcome against the specification's prediction
   are conformance (drift, reported).
"""
import collections
import concurrent.futures
import json
import os
import random
import time

import vlib

CLOCKS = ["blockchain/blockchain.go"]
LEVEL = "model_checking"   # TLC decides (bounded model + trace validation); the fault counts travel as extra coverage keys

# clauses a lost canonical-hash write explains (insertHeader writes the head first)
CANON_CLAUSES = {"HeadIndexed", "IndexMatchesReference", "ContinuationAccepted", "ReachesReference", "BootOk"}
KEY_CANON = "C09:canonical-hash-lost-after-head-write"
# an orphan tree version explains a rejected sibling block: start-up kept a saved tree version above the head and the
# rejected block sits at such a height with another root
KEY_ORPHAN = "C09:orphan-tree-version-rejects-sibling-block"


def orphan_conflict(run, line):
    """Was the step rejected at trace line `line` an Add of a block at a height where the last start-up left a saved
    tree version (above the head it restarted at) with a different root - or the Add right after such a block (with
    pruning pending, CommitTree hides the error of the conflicting commit and the NEXT block fails)?  Returns the call
    whose interruption left that version behind ("Add" for block insertion), or None."""
    rows = run["rows"]
    i = line - run["start"] - 2
    if i < 0 or i >= len(rows) or rows[i]["ev"] != "Apply" or rows[i]["what"] != "Add":
        return None
    j = i
    while j >= 0 and rows[j]["ev"] != "Restart":
        j -= 1
    if j < 0 or not rows[j]["ok"]:
        return None
    o = rows[j]["obs"]
    hit = None
    for r in rows[j:i + 1]:
        if r["ev"] != "Apply" or r["what"] != "Add" or r["b"]["h"] < rows[i]["b"]["h"] - 1:
            continue
        b = r["b"]
        for tree, vers, want in (("svr", o["svr"], b["root"]), ("ivr", o["ivr"], b["idr"])):
            for v in vers:
                if v["h"] == b["h"] and v["h"] > o["head"]["h"] and v["r"] != want:
                    hit = (tree, v["h"], v["r"])
    if hit is None:
        return None
    # the first start-up that shows this version above its head: the crash in front of it left it behind
    creator = None
    for k, r in enumerate(rows[:j + 1]):
        if r["ev"] == "Crash":
            creator = r
        if r["ev"] == "Restart" and r["ok"] and any(v["h"] == hit[1] and v["r"] == hit[2] and v["h"] > r["obs"]["head"]["h"]
                                                     for v in r["obs"][hit[0]]):
            return (creator or {}).get("step") or "?"
    return "?"


def case_class(c):
    return (c["sc"]["op"], c["sc"]["h0"] > c["retain"], tuple((x["ph"], x["k"]) for x in c["crashes"]))


def pick_cases(exports, rnd, quick):
    single = [c for c in exports if len(c["crashes"]) <= 1]
    double = [c for c in exports if len(c["crashes"]) > 1]
    if not quick:
        rnd.shuffle(double)
        double = double[:8000]           # seeded sample when the model exports more
        return single + double, len(single), len(double)
    by = collections.defaultdict(list)
    for c in double:
        by[(c["sc"]["op"], tuple((x["ph"], x["k"]) for x in c["crashes"]))].append(c)
    chosen = []
    for k in sorted(by):
        chosen.append(rnd.choice(by[k]))
    return single + chosen, len(single), len(chosen)


def split_runs(rows):
    runs, cur = [], None
    for i, r in enumerate(rows):
        if r["ev"] == "Reset":
            cur = {"reset": r, "start": i, "rows": []}
            runs.append(cur)
        elif cur is not None:
            cur["rows"].append(r)
    return runs


def validate_parts(ctx, parts):
    """Validate every trace part with its own TLC; returns list of (path, ok, info)."""
    def one(arg):
        k, p = arg
        time.sleep(0.35 * k)      # distinct scratch directory names inside vlib.tlc
        ok, info = vlib.trace_validate(ctx, "Trace_ChainStore.tla", "Trace_ChainStore.cfg", p, timeout=3000)
        return p, ok, info
    with concurrent.futures.ThreadPoolExecutor(max_workers=max(1, min(len(parts), ctx.cores // 2, 8))) as ex:
        return list(ex.map(one, list(enumerate(parts))))


def attribute(run, clauses):
    """Map the clauses TLC found broken in one run ({clause: trace line}) to finding keys."""
    res = {}
    crashes = [(run["start"] + 2 + i, r) for i, r in enumerate(run["rows"]) if r["ev"] == "Crash"]   # 1-based lines
    left = set(clauses)
    # head written, canonical hash lost, while inserting a block
    if "HeadIndexed" in left and any(r.get("lost") == "Canon" and r.get("step") == "Add" for _, r in crashes):
        hit = left & CANON_CLAUSES
        res[KEY_CANON] = hit
        left -= hit
    if "ContinuationAccepted" in left:
        by = orphan_conflict(run, clauses["ContinuationAccepted"])
        if by == "Add":
            hit = left & {"ContinuationAccepted", "ReachesReference"}
            res[KEY_ORPHAN] = hit
            left -= hit
        elif by is not None:
            hit = left & {"ContinuationAccepted", "ReachesReference"}
            res["C09:orphan-tree-version-left-by-interrupted-%s" % by] = hit
            left -= hit
    for c in sorted(left):
        before = [r for line, r in crashes if line <= clauses[c]]
        last = before[-1] if before else {}
        res["C09:%s:%s:lost-%s" % (c, last.get("step") or "none", last.get("lost") or "none")] = {c}
    return res


def describe(run, key, clauses):
    reset = run["reset"]
    s = "scenario %s %s, pre-state head %d" % (reset["scn"], json.dumps({k: reset["sc"][k] for k in ("op", "h0", "k", "kinds")}),
                                               reset["pre"]["head"]["h"])
    writes = []
    for r in run["rows"]:
        ev = r["ev"]
        if ev == "W":
            writes.append(r["k"])
        elif ev == "OpEnd":
            s += "; op writes %s, completed%s" % (writes, "" if r["ok"] else " WITH ERROR " + r["err"])
            writes = []
        elif ev == "Crash" and r["clean"]:
            s += ", clean stop"
        elif ev == "Crash":
            s += "; %s writes %s then the process dies inside the next write (%s)" % (r["ph"], writes, r.get("lost", "?"))
            writes = []
        elif ev == "Restart":
            if r["ok"]:
                o = r["obs"]
                can = {c["h"]: c for c in o["canon"]}
                s += "; start-up (writes %s) -> head=%d/%s, loaded roots %s, canonical[%d]=%s" % (
                    writes, o["head"]["h"], o["head"]["id"],
                    "match" if (o["lives"] == o["head"]["root"] and o["livei"] == o["head"]["idr"]) else "DIFFER",
                    o["head"]["h"], can.get(o["head"]["h"], {}).get("id", "MISSING"))
            else:
                s += "; start-up (writes %s) FAILED: %s" % (writes, r["err"])
            writes = []
        elif ev == "Plan":
            s += "; then %s" % " ".join("%s(%s)" % (x["what"], x["b"]["h"] or x["to"]) for x in r["steps"])
        elif ev == "Apply" and not r["ok"]:
            s += "; %s(%s) REJECTED: %s" % (r["what"], r["b"]["h"] or r["to"], r["err"])
        elif ev == "Final":
            s += "; end: reached=%s head=%s, never-crashed reference head=%s" % (r["reached"], r["obs"]["head"]["h"], reset["ref"]["head"]["h"])
    return "clauses %s broken on the real node: %s" % (sorted(clauses), s)


def selftest(ctx, runs_by_part, broken_runs):
    """Binding self-test: a recorded good trace is accepted, corrupted copies are rejected."""
    good_rows = []
    n = 0
    for part, runs in runs_by_part.items():
        for idx, run in enumerate(runs):
            if (part, idx) in broken_runs:
                continue
            if not any(r["ev"] == "Restart" and r["ok"] for r in run["rows"]):
                continue
            good_rows += [run["reset"]] + run["rows"]
            n += 1
            if n >= 25:
                break
        if n >= 25:
            break
    if n < 5:
        raise vlib.CheckError("binding self-test: not enough good runs recorded")
    good = ctx.path("selftest", "good.ndjson")
    vlib.write_ndjson(good, good_rows)
    ok, info = vlib.trace_validate(ctx, "Trace_ChainStore.tla", "Trace_ChainStore.cfg", good)
    if not ok:
        raise vlib.CheckError("binding self-test: good runs re-validated alone are rejected: %s" % info)

    def corrupt(fn, want):
        rows = json.loads(json.dumps(good_rows))
        if not fn(rows):
            raise vlib.CheckError("binding self-test could not build a corrupted trace (%s)" % want)
        bad = ctx.path("selftest", "bad_%s.ndjson" % want)
        vlib.write_ndjson(bad, rows)
        ok2, info2 = vlib.trace_validate(ctx, "Trace_ChainStore.tla", "Trace_ChainStore.cfg", bad)
        clauses = [c for _, c in info2.get("broken", [])]
        if ok2 or want not in clauses:
            raise vlib.CheckError("binding self-test failed: corrupted trace (%s) gave %s" % (want, clauses or "accepted"))
        ctx.log("binding self-test: corrupted trace rejected with %s at line %s" % (want, info2.get("line")))

    def root(rows):
        for r in rows:
            if r["ev"] == "Restart" and r["ok"]:
                r["obs"]["lives"] = "0000000000000000"     # the loaded state tree is not the head's
                return True
        return False

    def canon(rows):
        for r in rows:
            if r["ev"] == "Restart" and r["ok"]:
                h = r["obs"]["head"]["h"]
                r["obs"]["canon"] = [c for c in r["obs"]["canon"] if c["h"] != h]   # head not in the canonical index
                return True
        return False

    def reject(rows):
        for r in rows:
            if r["ev"] == "Apply" and r["ok"]:
                r["ok"] = False
                return True
        return False
    corrupt(root, "HeadMatchesState")
    corrupt(canon, "HeadIndexed")
    corrupt(reject, "ContinuationAccepted")


def replay(ctx, drv):
    """--replay <file written by report_violation>: run that crash schedule again on the real node and judge it."""
    with open(ctx.replay) as f:
        doc = json.load(f)
    case = dict(doc["payload"]["case"])
    case.setdefault("broken", [])
    case.setdefault("retain", 0)
    case["src"] = "replay"
    cf = ctx.path("cases", "replay.json")
    with open(cf, "w") as f:
        f.write(json.dumps(case) + "\n")
    out = ctx.path("traces", "replay.ndjson")
    p = vlib.run_driver(ctx, drv, ["-cases", cf, "-out", out, "-nosweep"], timeout=600)
    if p.returncode != 0:
        raise vlib.CheckError("driver failed:\n" + (p.stdout or "")[-3000:])
    ok, info = vlib.trace_validate(ctx, "Trace_ChainStore.tla", "Trace_ChainStore.cfg", out)
    rows = vlib.read_ndjson(out)
    runs = split_runs(rows)
    if not ok and not info.get("broken"):
        raise vlib.CheckError("replayed trace rejected without a broken clause: %s" % info)
    clauses = {}
    for line, clause in info.get("broken", []):
        clauses.setdefault(clause, line)
    if clauses:
        for key, cl in attribute(runs[0], clauses).items():
            vlib.report_violation(ctx, key, describe(runs[0], key, cl), replay_src=out, payload={"case": case})
    else:
        ctx.log("replayed schedule: every clause holds on the real node")
    return vlib.finish(ctx, LEVEL, {"states": 0, "transitions": 0, "traces_validated_against_impl": len(runs), "faults_injected": len(runs),
                                    "samples": [case], "rule": "replay of one recorded crash schedule"})


def main(ctx):
    quick = ctx.tier == "quick"
    rnd = random.Random(ctx.seed)
    drv = vlib.build_driver(ctx, "d_chainstore", clocks=CLOCKS)
    if getattr(ctx, "replay", None):
        return replay(ctx, drv)

    # 1. bounded model, twice (in parallel): code as is (invariants + export of every finished behaviour) and the
    #    repaired design (every clause holds)
    cfg = "MC_ChainStore_quick.cfg" if quick else "MC_ChainStore_thorough.cfg"
    cfgf = "MC_ChainStore_fixed.cfg" if quick else "MC_ChainStore_fixed_thorough.cfg"
    w = max(2, min(ctx.cores // 2, 8))
    with concurrent.futures.ThreadPoolExecutor(max_workers=2) as ex:
        fa = ex.submit(vlib.tlc, ctx, "MC_ChainStore.tla", cfg, workers=w, timeout=3400, sub="mc_as_is")
        ff = ex.submit(vlib.tlc, ctx, "MC_ChainStore.tla", cfgf, workers=w, timeout=3400, want_exports=False, sub="mc_repaired")
        r, rf = fa.result(), ff.result()
    if not r.ok:
        raise vlib.CheckError("design-level ChainStore model (code as is) violates %s (model-only, not a verdict):\n%s"
                              % (r.invariant, (r.error or "")[:1500]))
    exports = [e for e in r.exports if "sc" in e and "crashes" in e]
    if not exports:
        raise vlib.CheckError("no crash schedules exported (dead generator)")
    predicted_broken = sum(1 for e in exports if e["broken"])
    ctx.log("model (as is): %d generated / %d distinct states, %d behaviours exported (%d with clauses the model sees broken), %.0fs"
            % (r.generated, r.distinct, len(exports), predicted_broken, r.wall))
    if not rf.ok:
        raise vlib.CheckError("design-level ChainStore model (repaired design) violates %s (model-only, not a verdict):\n%s"
                              % (rf.invariant, (rf.error or "")[:1500]))
    ctx.log("model (repaired design): %d generated / %d distinct states, all clauses hold, %.0fs" % (rf.generated, rf.distinct, rf.wall))

    # 2. schedules for the real node
    cases, n_single, n_double = pick_cases(exports, rnd, quick)
    classes = collections.Counter((c["sc"]["op"], x["ph"], x["k"]) for c in cases for x in c["crashes"])
    shards = max(1, min(ctx.cores - 2, 12))
    n_enum, n_dbl = (10, 5) if quick else (40, 20)
    # scenario groups are spread over the driver processes by estimated cost (longest first): a fast sync on a chain
    # beyond the retained versions deletes thousands of keys one by one
    groups = collections.defaultdict(list)
    for c in cases:
        groups[json.dumps(c["sc"], sort_keys=True)].append(c)

    def cost(g):
        sc = g[0]["sc"]
        w = (8.0 if sc["h0"] > g[0]["retain"] else 2.0) if sc["op"] == "FastSync" else (1.5 if sc["h0"] > g[0]["retain"] else 1.0)
        return w * len(g)
    load = [0.0] * shards
    files = [[] for _ in range(shards)]
    for g in sorted(groups.values(), key=cost, reverse=True):
        k = load.index(min(load))
        load[k] += cost(g)
        files[k] += g
    case_files = []
    for k in range(shards):
        pth = ctx.path("cases", "cases%02d.json" % k)
        with open(pth, "w") as f:
            for c in files[k]:
                f.write(json.dumps(c) + "\n")
        case_files.append(pth)

    def run_shard(k):
        out = ctx.path("traces", "part%02d.ndjson" % k)
        p = vlib.run_driver(ctx, drv, ["-cases", case_files[k], "-out", out, "-enum", str(n_enum), "-double", str(n_dbl),
                                       "-enumshard", "%d/%d" % (k, shards)], timeout=3400)
        return k, out, p
    t0 = time.time()
    with concurrent.futures.ThreadPoolExecutor(max_workers=shards) as ex:
        results = list(ex.map(run_shard, range(shards)))
    parts = []
    for k, out, p in results:
        if p.returncode != 0:
            raise vlib.CheckError("driver shard %d failed:\n%s" % (k, (p.stdout or "")[-3000:]))
        if os.path.exists(out) and os.path.getsize(out) > 0:
            parts.append(out)
    ctx.log("real node: %d TLC schedules (%d single/clean, %d double) + enumeration in %d processes, %.0fs"
            % (len(cases), n_single, n_double, shards, time.time() - t0))

    # 3. TLC validates the recorded traces
    t0 = time.time()
    verdicts = validate_parts(ctx, parts)
    runs_by_part, broken_runs = {}, {}
    totals = collections.Counter()
    drift, lines = 0, 0
    pred_mismatch = []
    lost_seen = collections.Counter()
    for path, ok, info in verdicts:
        rows = vlib.read_ndjson(path)
        lines += len(rows)
        runs = split_runs(rows)
        runs_by_part[path] = runs
        drift += info.get("drift") or 0
        if not ok and not info.get("broken"):
            raise vlib.CheckError("trace %s rejected without a broken clause: %s" % (os.path.basename(path), info))
        starts = [run["start"] for run in runs]
        per_run = collections.defaultdict(dict)
        for line, clause in info.get("broken", []):
            idx = max(i for i, s in enumerate(starts) if s < line)        # TLC lines are 1-based
            per_run[idx].setdefault(clause, line)
        for idx, run in enumerate(runs):
            totals["runs"] += 1
            totals["restarts"] += sum(1 for x in run["rows"] if x["ev"] == "Restart")
            totals["recovery_writes"] += sum(1 for x in run["rows"] if x["ev"] == "W" and x["ph"] == "rec")
            totals["clean_restarts"] += sum(1 for x in run["rows"] if x["ev"] == "Crash" and x["clean"])
            totals["double"] += 1 if sum(1 for x in run["rows"] if x["ev"] == "Crash") > 1 else 0
            totals["unresolved"] += sum(1 for x in run["rows"] if x["ev"] == "Final" and x.get("unresolved"))
            totals["src_" + run["reset"].get("src", "")] += 1
            for x in run["rows"]:
                if x["ev"] == "Crash":
                    lost_seen[(run["reset"]["sc"]["op"], x["ph"], x.get("lost", ""))] += 1
            clauses = per_run.get(idx, {})
            if run["reset"].get("src") == "tlc" and not any(x["ev"] == "Final" and x.get("unresolved") for x in run["rows"]):
                if set(run["reset"]["predicted"]) != set(clauses) and len(pred_mismatch) < 10:
                    pred_mismatch.append({"scn": run["reset"]["scn"], "crashes": run["reset"]["crashes"],
                                          "model": sorted(run["reset"]["predicted"]), "real": sorted(clauses)})
                if set(run["reset"]["predicted"]) != set(clauses):
                    totals["prediction_mismatch"] += 1
            if clauses:
                broken_runs[(path, idx)] = clauses
    ctx.log("trace validation: %d lines / %d runs in %d parts, %d runs with broken clauses, drift %d, %.0fs"
            % (lines, totals["runs"], len(parts), len(broken_runs), drift, time.time() - t0))

    # verdicts
    by_key = {}
    for (path, idx), clauses in sorted(broken_runs.items()):
        run = runs_by_part[path][idx]
        for key, cl in attribute(run, clauses).items():
            # reported example: a single crash that already shows the consequence (most clauses), then the shortest run
            size = (sum(1 for y in run["rows"] if y["ev"] == "Crash"), -len(cl), 0 if run["reset"].get("src") == "tlc" else 1,
                    len(run["rows"]))
            ent = by_key.setdefault(key, {"n": 0, "run": run, "clauses": set(), "path": path, "idx": idx, "size": size})
            ent["n"] += 1
            ent["clauses"] |= cl
            if size < ent["size"]:
                ent["run"], ent["path"], ent["idx"], ent["size"] = run, path, idx, size
    for key in sorted(by_key):
        ent = by_key[key]
        ex = ctx.path("replay_%s.ndjson" % key.replace(":", "_")[:60])
        vlib.write_ndjson(ex, [ent["run"]["reset"]] + ent["run"]["rows"])
        what = "%s (%d runs)" % (describe(ent["run"], key, ent["clauses"]), ent["n"])
        vlib.report_violation(ctx, key, what, replay_src=ex,
                              payload={"case": {"sc": ent["run"]["reset"]["sc"], "crashes": ent["run"]["reset"]["crashes"],
                                                "retain": ent["run"]["reset"].get("mretain", 0)}})

    # dead-driver / vacuity checks (a verdict from the real code goes first: code that deviates also starves crash classes)
    if not ctx.violations:
        if totals["runs"] < len(cases):
            raise vlib.CheckError("driver executed %d runs for %d schedules" % (totals["runs"], len(cases)))
        if totals["recovery_writes"] == 0 or totals["clean_restarts"] == 0 or totals["double"] == 0:
            raise vlib.CheckError("vacuous run: recovery writes %d, clean restarts %d, double crashes %d"
                                  % (totals["recovery_writes"], totals["clean_restarts"], totals["double"]))
        missing = [k for k in classes if k[2] != "clean" and lost_seen.get(k, 0) == 0]
        if len(missing) > len(classes) // 10:
            raise vlib.CheckError("crash classes of the model never reached on the real node (dead driver): %s" % missing[:8])
        if totals["unresolved"] > totals["runs"] // 10:
            raise vlib.CheckError("%d of %d schedules could not be resolved on the real write sequence (model and code out of step)"
                                  % (totals["unresolved"], totals["runs"]))

    if not ctx.violations:
        selftest(ctx, runs_by_part, broken_runs)

    some = exports[len(exports) // 3]
    cov = {
        "states": r.distinct + rf.distinct, "transitions": r.generated + rf.generated,
        "states_as_is": r.distinct, "states_repaired_design": rf.distinct,
        "behaviours_exported": len(exports), "behaviours_model_sees_broken": predicted_broken,
        "traces_validated_against_impl": totals["runs"],
        "trace_lines_validated": lines,
        "faults_injected": totals["runs"], "restarts": totals["restarts"], "double_crash_runs": totals["double"],
        "evaluations": totals["runs"],
        "clean_restarts": totals["clean_restarts"], "recovery_writes_observed": totals["recovery_writes"],
        "crash_classes": {"%s/%s/%s" % k: v for k, v in sorted(lost_seen.items())}, "distinct_nontrivial": len(lost_seen),
        "runs_from_tlc_schedules": totals["src_tlc"], "runs_from_enumeration": totals["src_enum"] + totals["src_enum2"], "runs_from_sweep": totals["src_sweep"],
        "unresolved_schedules": totals["unresolved"],
        "drift_steps": drift, "model_vs_real_verdict_mismatches": totals["prediction_mismatch"], "mismatch_samples": pred_mismatch,
        "runs_with_broken_clauses": len(broken_runs),
        "samples": [{"sc": some["sc"], "crashes": some["crashes"], "model_broken": some["broken"]},
                    {"sc": cases[0]["sc"], "crashes": cases[0]["crashes"], "model_broken": cases[0]["broken"]}],
        "model_cfg": [cfg, cfgf],
        "exhaustive": not quick,
        "rule": "bounded ChainStore model explored exhaustively (Retain, scenarios and crash bound in the cfg; every durable step of "
                "operation, recovery and continuation a crash point); every exported single-crash schedule and %s of the double-crash "
                "schedules executed on the real node behind a crash-injecting database; %d seeded larger scenarios with EVERY write "
                "index crashed; all runs validated by TLC against Trace_ChainStore" % (
                    "one per (operation, lost-write pair) class" if quick else "all", n_enum),
    }
    return vlib.finish(ctx, LEVEL, cov, assumptions=[
        "MemDB semantics: a single put/delete or a batch is atomic, writes reach the store in program order (no torn writes, no fsync reordering); goleveldb-specific recovery is out of scope",
        "the in-memory ipfs store is a second durable store written before the header (shared between incarnations)",
        "fast sync: the call sequence of protocol/fast.go (preConsuming / applyDeferredBlocks / postConsuming) is transcribed in the driver and issued on the real IdentityStateDB / StateDB / Blockchain methods (the fastSync type is unexported and bound to the gossip handler and an ipfs download); certificates and the bloom-filtered index writes of fast sync are left out",
        "copying / deleting a whole tree database (many single puts / deletes) is one step of the specification; the driver crashes inside such runs too",
        "proposer-side writes (apply-tx log of filterTxs) and background writers (offline detector, indexer events) are outside the operations under test",
    ])
