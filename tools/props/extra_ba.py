"""Growth module of C07: the agreement protocol that PRODUCES block certificates (consensus/engine.go loop,
proposeBlock, waitForBlock, reduction, binaryBa, countVotes, vote; pengings/proposals.go, pengings/votes.go;
protocol/gossip.go SendVote / ProposeBlock / ProposeProof).

1. TLC explores spec/BA.tla through spec/MC_BA.tla: one round of N = 3..4 honest nodes, the per-node step machine
   exactly as engine.go sequences it, votes and proposals as messages that the network may delay, reorder or lose,
   step timers as explicit actions.  Agreement, CertifiedCommit (Cert!AcceptA of spec/Cert.tla), Validity,
   EmptyOnTimeout are checked exhaustively on bounded instances (reduced interleavings, see MC_BA) and by random
   simulation of the unreduced model; SCHEDULES are exported (who proposes, which proposals and votes reach whom
   before which time-out).
2. harness/cmd/d_ba runs N REAL engines (consensus.Engine.loop in one goroutine per node, real Blockchain /
   Proposals / Votes / gossip handler per node, real frames between the handlers) and realises every schedule
   under a virtual node-local clock in which every sleep of an engine is a scheduling gate; seeded random
   asynchronous schedules are added, with votes that must never count (a member's signature over another round or
   another parent, a stranger's signature, a second signature of a member whose vote the node holds - offered exactly
   when one more vote would complete a quorum) and proposals of nodes whose sortition did not pass.
3. TLC validates the recorded traces against spec/Trace_BA.tla: every observed vote, count result, commit and
   give-up must be the step BA allows from the observed pre-state; Agreement / CertifiedCommit / Validity are
   evaluated on the observed commits; every certificate is also judged by the real ValidateBlockCert of a
   witness node and of another participant.

run(ctx, quick) returns a coverage dict, reports violations with keys "C07:BA:<clause>:<signature>" and never
calls vlib.finish (the caller does).
"""
import concurrent.futures
import json
import os
import random
import re
import time

import vlib

CLOCKS = ["consensus/engine.go", "consensus/future_blocks.go", "pengings/proposals.go", "blockchain/blockchain.go"]
JAVA = {"_JAVA_OPTIONS": "-Xmx4g"}

ASSUMPTIONS = [
    "BA: nodes are honest (one vote per step, the code's rule) except, in the N=4 instances marked so, ONE committee member that does "
    "not run the protocol and signs arbitrary, receiver-specific votes of the round (equivocation); Agreement then relies on 2T-N > 1 "
    "(holds for 4 validators, T=3; TLC finds the disagreement for 3 validators, T=2, which the check does not run against the code); "
    "equivocating PROPOSERS are not modelled; votes that must never count (other round / parent, stranger's key, re-signed copy) are offered too",
    "BA: committee = all validators (registries of 3 and 4 identities, thresholds 2 and 3 from the table of "
    "GetCommitteeVotesThreshold); the committee draw for larger registries is C07's Cert model",
    "BA: one round, one attempt: a node that ends with 'No consensus' or without the block is not followed into its retry of the round",
    "BA: timers are node-local and unconstrained against each other; a message that arrives during the last sleep of a poll loop "
    "is a message that arrives after the time-out (the driver does not deliver in that window)",
    "BA: liveness is not checked",
]

# (cfg, TLC workers).  quick: N=3 k<=1 5 steps | N=3 k=2 3 steps | N=4 k<=1 3 steps
# thorough: N=3 k<=2 5 steps | N=3 k=3 3 steps | N=4 k<=1 5 steps | N=3 k<=1 7 steps
# MC_BA_t4.cfg (N=4, k=2, 3 steps: 3.2 million distinct states, ~10 min on 6 workers) passes too; it is left out of the tiers for time.
# z1 / z5: N=4 with one equivocating member (3 steps k<=1 | 5 steps k<=2)
QUICK_MODELS = [("MC_BA_q1.cfg", 3), ("MC_BA_q2.cfg", 4), ("MC_BA_q3.cfg", 4), ("MC_BA_z1.cfg", 2)]
THOROUGH_MODELS = [("MC_BA_t1.cfg", 5), ("MC_BA_t2.cfg", 6), ("MC_BA_t3.cfg", 5), ("MC_BA_t5.cfg", 3), ("MC_BA_z5.cfg", 4)]


def _tlc(ctx, cfg, workers, sub, **kw):
    try:
        return vlib.tlc(ctx, "MC_BA.tla", cfg, workers=workers, env=JAVA, sub=sub, **kw)
    except vlib.CheckError as ex:
        if "TLC failed" not in str(ex):
            raise
        ctx.log("TLC died without a verdict on %s, retrying once" % cfg)
        return vlib.tlc(ctx, "MC_BA.tla", cfg, workers=workers, env=JAVA, sub=sub + "_retry", **kw)


def models(ctx, quick):
    """Exhaustive bounded runs + simulation; returns (results, exported schedules by source)."""
    specs = QUICK_MODELS if quick else THOROUGH_MODELS
    nsim = 30 if quick else 800
    res, scheds = [], []
    with concurrent.futures.ThreadPoolExecutor(max_workers=len(specs) + 2) as ex:
        futs = {}
        for cfg, w in specs:
            futs[ex.submit(_tlc, ctx, cfg, w, "ba_" + cfg[6:-4], timeout=3000, extra=["-seed", str(ctx.seed)])] = cfg
        futs[ex.submit(_tlc, ctx, "MC_BA_sim.cfg", 1 if quick else 4, "ba_sim", timeout=3000, simulate=True,
                       extra=["-simulate", "num=%d" % nsim, "-depth", "500", "-seed", str(ctx.seed)])] = "sim"
        if not quick:       # the same with an equivocating member
            futs[ex.submit(_tlc, ctx, "MC_BA_simz.cfg", 2, "ba_simz", timeout=3000, simulate=True,
                           extra=["-simulate", "num=%d" % (nsim // 2), "-depth", "500", "-seed", str(ctx.seed)])] = "simz"
        for fu in concurrent.futures.as_completed(futs):
            cfg, r = futs[fu], fu.result()
            if cfg in ("sim", "simz"):
                m = re.findall(r"(\d+) states checked", r.out) or re.findall(r"number of states generated: (\d+)", r.out)
                r.generated = r.distinct = int(m[-1]) if m else 0
                if r.error:
                    raise vlib.CheckError("simulation of the BA model failed (model-only, not a verdict): %s\n%s"
                                          % (r.invariant, (r.error or "")[:1500]))
            elif not r.ok:
                raise vlib.CheckError("design-level BA model %s violates %s (model-only counterexample, not a verdict):\n%s"
                                      % (cfg, r.invariant, (r.error or "")[:2500]))
            ex_ = [e for e in r.exports if isinstance(e, dict) and "sched" in e]
            for e in ex_:
                e["src"] = "sim" if cfg in ("sim", "simz") else "mc:" + cfg[6:-4]
            scheds += ex_
            res.append((cfg, r))
            ctx.log("BA model %s: %d generated / %d distinct in %.0fs, %d schedules exported" % (cfg, r.generated, r.distinct, r.wall, len(ex_)))
    return res, scheds


def pick(scheds, rnd, per_kind, sim_cap):
    by = {}
    for e in scheds:
        by.setdefault((e["src"] == "sim", e["kind"] if e["src"] != "sim" else "sim:" + e["kind"]), []).append(e)
    out, kinds = [], {}
    for key in sorted(by):
        lst = sorted(by[key], key=lambda e: json.dumps(e["sched"]))
        rnd.shuffle(lst)
        take = lst[:per_kind]
        out += take
        kinds[key[1]] = len(take)
    sims = [e for e in out if e["src"] == "sim"]
    if len(sims) > sim_cap:
        keep = set(id(e) for e in sims[:sim_cap])
        out = [e for e in out if e["src"] != "sim" or id(e) in keep]
    return out, kinds


def split_after_r2():
    """Liveness observation kept as a reproducible case (allowed by BA, so it is no verdict): every node votes the block in
    both reduction steps, two of four nodes see the reduction-two quorum, two time out.  From then on the network is perfect,
    and still no step of binaryBa ever reaches a quorum: odd steps vote the reduction result again (the value computed in
    the even step is lost with the re-declared `hash`), so the 2:2 split repeats until MaxSteps ("No consensus")."""
    s = [{"a": "Start", "n": n} for n in range(1, 5)]
    for n in (1, 2, 3):
        s += [{"a": "Deliver", "n": n, "t": "proof", "p": 4}, {"a": "Deliver", "n": n, "t": "block", "p": 4}]
    s += [{"a": "SortDone", "n": n} for n in range(1, 5)] + [{"a": "GotBlock", "n": n} for n in range(1, 5)]
    for n in range(1, 5):
        s += [{"a": "Deliver", "n": n, "t": "vote", "w": w, "s": 253, "v": 4} for w in range(1, 5) if w != n]
    s += [{"a": "CountOK", "n": n} for n in range(1, 5)]
    for n in (1, 2):
        s += [{"a": "Deliver", "n": n, "t": "vote", "w": w, "s": 254, "v": 4} for w in range(1, 5) if w != n] + [{"a": "CountOK", "n": n}]
    s += [{"a": "CountTimeout", "n": n} for n in (3, 4)]
    return {"n": 4, "k": 1, "maxsteps": 9, "src": "hand", "kind": "split-after-R2", "sched": s, "drain": "sync"}


def hand_cases():
    res = [split_after_r2()]
    for n in (3, 4):
        for k in range(0, n + 1):
            for ms in (3, 5):
                res.append({"n": n, "k": k, "maxsteps": ms, "src": "hand", "kind": "synchronous", "sched": [], "drain": "sync"})
                res.append({"n": n, "k": k, "maxsteps": ms, "src": "hand", "kind": "silent", "sched": []})
    return res


def random_cases(rnd, count):
    res = []
    for i in range(count):
        n = rnd.choice((3, 3, 4, 4, 4))
        c = {"n": n, "k": rnd.randint(0, n), "maxsteps": rnd.choice((3, 5, 5, 7)), "src": "random", "kind": "random",
             "sched": [], "random": rnd.randint(1, 2 ** 40)}
        if n == 4 and c["k"] < 4 and rnd.randint(0, 2) == 0:
            c["byz"] = [1]                  # member 1 (not a proposer) does not run: the harness signs equivocating votes with its key
        res.append(c)
    return res


def run_driver(ctx, drv, cases_path, ncases, conc):
    """The cases are spread over short-lived driver processes (a finished case leaves idle goroutines of its handlers
    behind; a process runs ~120 cases), `conc` of them at a time."""
    parts = max(conc, (ncases + 119) // 120)
    traces = [ctx.path("ba", "trace_%d.ndjson" % i) for i in range(parts)]

    def one(i):
        return vlib.run_driver(ctx, drv, ["-cases", cases_path, "-out", traces[i], "-part", str(i), "-parts", str(parts)], timeout=3000)

    with concurrent.futures.ThreadPoolExecutor(max_workers=conc) as ex:
        procs = list(ex.map(one, range(parts)))
    for p in procs:
        if p.returncode != 0:
            raise vlib.CheckError("d_ba failed (rc=%d):\n%s" % (p.returncode, (p.stdout or "")[-4000:]))
    trace = ctx.path("ba", "trace.ndjson")
    with open(trace, "w") as out:
        for t in traces:
            with open(t) as f:
                for line in f:
                    out.write(line)
    walls = [float(((p.stdout or "").strip().splitlines() or ["wall=0s"])[-1].split("wall=")[-1].rstrip("s") or 0) for p in procs]
    return trace, "%d processes, %d at a time, %.0fs of driver time in total, slowest %.1fs" % (parts, conc, sum(walls), max(walls))


def split_cases(ctx, trace, max_lines):
    """Chunks of whole cases (a case starts with its Reset line)."""
    paths, out, n, k = [], None, 0, 0
    with open(trace) as f:
        for line in f:
            if out is None or (n >= max_lines and '"ev":"Reset"' in line):
                if out:
                    out.close()
                p = ctx.path("ba", "chunk_%03d.ndjson" % k)
                out = open(p, "w")
                paths.append(p)
                k += 1
                n = 0
            out.write(line)
            n += 1
    if out:
        out.close()
    return paths


def validate(ctx, trace, par, chunk):
    chunks = split_cases(ctx, trace, chunk)

    def one(i):
        time.sleep(0.2 * (i % par))
        try:
            return vlib.trace_validate(ctx, "Trace_BA.tla", "Trace_BA.cfg", chunks[i], timeout=3000, env=JAVA)
        except vlib.CheckError as ex:
            if "TLC failed" not in str(ex):
                raise
            time.sleep(1.0)
            return vlib.trace_validate(ctx, "Trace_BA.tla", "Trace_BA.cfg", chunks[i], timeout=3000, env=JAVA)

    with concurrent.futures.ThreadPoolExecutor(max_workers=par) as ex:
        results = list(ex.map(one, range(len(chunks))))
    lines, drift, broken = 0, 0, []
    for i, (ok, info) in enumerate(results):
        lines += max(info.get("states", 1) - 1, 0)
        drift += info.get("drift") or 0
        if not ok:
            if not info.get("broken"):
                raise vlib.CheckError("trace chunk rejected without a broken clause: %s" % info)
            rows = vlib.read_ndjson(chunks[i])
            for line, clause in info["broken"]:
                broken.append((rows, line, clause))
    return lines, drift, broken


def case_rows(rows, line):
    start = max(i for i in range(line) if rows[i].get("ev") == "Reset")
    end = next((i for i in range(line, len(rows)) if rows[i].get("ev") == "Reset"), len(rows))
    return start, rows[start:end]


def report(ctx, broken, cases, limit=10):
    for rows, line, clause in broken:
        start, crows = case_rows(rows, line)
        bad = rows[line - 1]
        if clause.startswith("Driver:stuck"):
            raise vlib.CheckError("d_ba could not finish case %s (node %s never left its wait)" % (bad.get("c"), bad.get("n")))
        key = "C07:BA:" + clause
        if clause.startswith("Driver:panic"):
            what = bad.get("what", "")
            frames = [l.strip() for l in what.splitlines() if "idena-network/idena-go/" in l and "verifclock" not in l and not l.startswith("\t")]
            fn = frames[0].rsplit("(", 1)[0].split("/")[-1] if frames else "unknown"
            key = "C07:BA:panic:" + fn
        if len(ctx.violations) >= limit and key not in [v["key"] for v in ctx.violations]:
            continue
        case = cases[bad["c"]] if isinstance(bad.get("c"), int) and bad["c"] < len(cases) else {}
        ex = ctx.path("ba", "replay_%s.ndjson" % "".join(ch if ch.isalnum() else "_" for ch in clause)[:60])
        vlib.write_ndjson(ex, crows)
        slim = [{k: v for k, v in r.items() if k != "c"} for r in crows if r.get("ev") in ("Reset", "Count", "Vote", "Commit", "End", "SortDone", "Fetch")
                or r.get("forged")][:60]
        what = ("agreement protocol: clause %s broken by the real engines at trace line %d of case %s (%s, %s): %s; "
                "round so far: %s" % (clause, line - start, bad.get("c"), crows[0].get("src"), crows[0].get("kind"),
                                      json.dumps({k: v for k, v in bad.items() if k != "what"})[:500], json.dumps(slim)[:1800]))
        vlib.report_violation(ctx, key, what, replay_src=ex, payload={"clause": clause, "case": case})


def vacuity(rows):
    c = {"cases": 0, "commit_final": 0, "commit_tentative": 0, "commit_empty": 0, "end_noconsensus": 0, "end_notfound": 0, "fetched": 0,
         "tentative_at_step3+": 0, "empty_at_step4+": 0, "count_ok": 0, "count_timeout": 0, "votes": 0, "deliveries": 0, "forged_offered": 0,
         "forged_in_pool": 0, "ineligible_proposals": 0, "cases_with_equivocator": 0, "equivocator_votes": 0, "equivocator_in_certificate": 0, "proposal_refused_as_worse": 0, "mixed_final_tentative": 0, "cases_n4": 0, "late_block": 0}
    per, byz = {}, set()
    for r in rows:
        ev = r.get("ev")
        if ev == "Reset":
            c["cases"] += 1
            c["cases_n4"] += r["N"] == 4
            c["cases_with_equivocator"] += bool(r.get("byz"))
            byz = set(r.get("byz") or [])
        elif ev == "Commit":
            if r["v"] == 0:
                c["commit_empty"] += 1
                c["empty_at_step4+"] += r["cert"]["s"] >= 4
            elif r["final"]:
                c["commit_final"] += 1
            else:
                c["commit_tentative"] += 1
                c["tentative_at_step3+"] += 3 <= r["cert"]["s"] < 250
            per.setdefault(r["c"], set()).add("final" if r["final"] else "tentative" if r["v"] else "empty")
            c["equivocator_in_certificate"] += bool(byz & set(r["cert"]["voters"]))
        elif ev == "End":
            c["end_" + r["kind"]] = c.get("end_" + r["kind"], 0) + 1
        elif ev == "Fetch":
            c["fetched"] += r.get("got", 0)
        elif ev == "Count":
            c["count_ok" if r["res"] >= 0 else "count_timeout"] += 1
        elif ev == "Vote":
            c["votes"] += 1
        elif ev == "Deliver":
            c["deliveries"] += 1
            if r.get("forged") == "ineligible":
                c["ineligible_proposals"] += 1
            elif r.get("forged"):
                c["forged_offered"] += 1
                c["forged_in_pool"] += r.get("acc", 0)
            elif r["t"] == "block" and not r.get("stored"):
                c["proposal_refused_as_worse"] += 1
            elif r["t"] == "vote" and r["w"] in byz:
                c["equivocator_votes"] += 1
    c["mixed_final_tentative"] = sum(1 for s in per.values() if {"final", "tentative"} <= s)
    return c


def _m_commit_value(cr):
    if any(r.get("ev") == "End" for r in cr):
        return None
    for i, r in enumerate(cr):
        if r.get("ev") == "Commit" and r["v"] > 0:
            r["v"], r["cert"]["v"], r["proposer"] = 0, 0, 0          # the node added the empty block instead
            return i
    return None


def _m_empty_on_timeout(cr):
    for i, r in enumerate(cr):
        if r.get("ev") == "Vote" and r["s"] == 254 and r["v"] == 0 and i > 0 and cr[i - 1].get("ev") == "Count" and cr[i - 1]["res"] == -1 \
                and cr[i - 1]["n"] == r["n"] and cr[0]["props"]:
            r["v"] = cr[0]["props"][-1]                              # a block voted in reduction two after reduction one timed out
            return i
    return None


def _m_count_sound(cr):
    for i, r in enumerate(cr):
        if r.get("ev") == "Count" and r["res"] >= 0 and r["s"] == 253:
            # the votes that reached the node before are declared undelivered: the count has no quorum behind it
            hit = False
            for q in cr[:i]:
                if q.get("ev") == "Deliver" and q["t"] == "vote" and q["n"] == r["n"] and q["s"] == 253 and not q["forged"]:
                    q["ev"] = "Skip"
                    hit = True
            if hit:
                return i
    return None


def _m_certificate(cr):
    for i, r in enumerate(cr):
        if r.get("ev") == "Commit" and len(r["cert"]["voters"]) >= 2:
            r["cert"]["voters"][0] = 0                               # a signature that recovers to a stranger
            return i
    return None


def _m_agreement(cr):
    commits = [i for i, r in enumerate(cr) if r.get("ev") == "Commit" and r["v"] > 0]
    if len(commits) >= 2 and not any(r.get("ev") == "End" for r in cr):
        r = cr[commits[-1]]
        r["v"], r["cert"]["v"], r["proposer"] = 0, 0, 0              # the last node added another block than the others
        return commits[-1]
    return None


MUTATIONS = [("CommitValue", _m_commit_value), ("EmptyOnTimeout", _m_empty_on_timeout), ("CountSound", _m_count_sound),
             ("CertifiedCommit", _m_certificate), ("Agreement", _m_agreement)]


def selftest(ctx, rows):
    """Binding self-test: recorded (and accepted) cases with one corrupted line each must be rejected at exactly
    those lines by the right clauses."""
    cases, cur = [], []
    for r in rows:
        if r.get("ev") == "Reset" and cur:
            cases.append(cur)
            cur = []
        cur.append(r)
    cases.append(cur)
    want, out, todo, spans = {}, [], list(MUTATIONS), []
    for cr in cases:
        if not todo or len(out) > 80000:
            break
        cr = json.loads(json.dumps(cr))
        name, fn = todo[0]
        i = fn(cr)
        if i is not None:
            want[name] = len(out) + i + 1
            spans.append((len(out) + 1, len(out) + len(cr)))
            todo.pop(0)
        out += cr
    if todo:
        raise vlib.CheckError("BA self-test could not build the corrupted trace (missing %s)" % [n for n, _ in todo])
    p = ctx.path("ba", "selftest_bad.ndjson")
    vlib.write_ndjson(p, out)
    ok, info = vlib.trace_validate(ctx, "Trace_BA.tla", "Trace_BA.cfg", p, env=JAVA)
    got = {}
    for line, clause in info.get("broken", []):
        got.setdefault(line, []).append(clause.split(":")[0])
    missing = [(c, l) for c, l in want.items() if c not in got.get(l, [])]
    extra = [l for l in got if not any(a <= l <= b for a, b in spans)]     # follow-up reports inside a corrupted case are fine
    if ok or missing or extra:
        raise vlib.CheckError("BA binding self-test failed: corrupted lines %s, rejected %s" % (sorted(want.items()), sorted(got.items())[:12]))
    ctx.log("BA binding self-test: corrupted vote / count / commit / certificate / agreement lines rejected (%s)" % ", ".join(sorted(want)))


def run(ctx, quick):
    rnd = random.Random(ctx.seed * 7919 + 17)
    drv = vlib.build_driver(ctx, "d_ba", clocks=CLOCKS)

    # 1. the models
    mres, scheds = models(ctx, quick)
    picked, kinds = pick(scheds, rnd, 3 if quick else 30, 60 if quick else 1200)
    for need in ("final@255", "tentative@1", "empty@2", "noconsensus", "notfound", "fetched"):
        if not any(need in k for k in kinds):
            raise vlib.CheckError("BA model never exported a '%s' schedule (vacuous bounds)" % need)
    cases = hand_cases() + picked + random_cases(rnd, 160 if quick else 3000)
    cases_path = ctx.path("ba", "cases.json")
    with open(cases_path, "w") as f:
        for c in cases:
            f.write(json.dumps(c) + "\n")
    ctx.log("BA: %d cases (%d hand, %d from TLC in %d kinds, %d random)" % (len(cases), len(hand_cases()), len(picked), len(kinds), len(cases) - len(picked) - len(hand_cases())))

    # 2. N real engines
    trace, msg = run_driver(ctx, drv, cases_path, len(cases), 4 if quick else 8)
    ctx.log("BA driver: " + msg)

    # 3. the specification judges
    lines, drift, broken = validate(ctx, trace, par=3, chunk=40000 if quick else 120000)
    report(ctx, broken, cases)
    rows = vlib.read_ndjson(trace)
    vac = vacuity(rows)
    ctx.log("BA trace: %d lines validated, %d clause reports, drift %d; %s" % (lines, len(broken), drift, json.dumps(vac)))
    if not broken:
        dead = [k for k in ("commit_final", "commit_tentative", "commit_empty", "end_noconsensus", "end_notfound", "fetched", "tentative_at_step3+",
                            "empty_at_step4+", "count_ok", "count_timeout", "forged_offered", "forged_in_pool", "ineligible_proposals", "proposal_refused_as_worse",
                            "mixed_final_tentative", "cases_n4", "cases_with_equivocator", "equivocator_votes", "equivocator_in_certificate") if not vac.get(k)]
        if dead:
            raise vlib.CheckError("dead BA driver: no case exercised %s" % dead)
        selftest(ctx, rows)
    if drift:
        ctx.notes.append("BA conformance_drift: %d lines where the proposal / vote pool kept something else than the model predicts (no clause broken)" % drift)

    return {
        "ba_states": sum(r.distinct for c, r in mres if not c.startswith("sim")), "ba_transitions": sum(r.generated for c, r in mres if not c.startswith("sim")),
        "ba_simulation_states_checked": sum(r.generated for c, r in mres if c.startswith("sim")),
        "ba_models": {cfg: {"distinct": r.distinct, "generated": r.generated, "wall_s": round(r.wall, 1)} for cfg, r in mres},
        "ba_rounds_on_real_engines": vac["cases"], "ba_trace_lines_validated": lines, "ba_schedule_kinds": len(kinds),
        "ba_classes_exercised": vac, "ba_drift_lines": drift,
        "ba_samples": [{"kind": c["kind"], "src": c["src"], "sched": c["sched"][:25]} for c in picked[:2]],
        "ba_rule": "one round of the agreement protocol: bounded BA models (N=3 T=2, N=4 T=3; %s) explored exhaustively under the reductions stated in "
                   "MC_BA + random simulation of the unreduced model; up to %d schedules per kind of round ending + seeded random asynchronous "
                   "schedules with forged votes, each realised on N real engines (loop() goroutines, real frames) under a virtual clock; "
                   "every observed step judged by TLC against Trace_BA" % (", ".join(c for c, _ in mres), 3 if quick else 30),
        "ba_assumptions": ASSUMPTIONS,
    }


def is_ba_replay(path):
    try:
        return str(json.load(open(path)).get("key", "")).startswith("C07:BA:")
    except (OSError, ValueError):
        return False


def replay(ctx):
    """Re-run the case of a recorded BA violation (tools/check ... --replay <file>): same world seed, same schedule."""
    doc = json.load(open(ctx.replay))
    case = (doc.get("payload") or {}).get("case")
    if not case:
        raise vlib.CheckError("replay file has no BA case payload")
    ctx.seed = int(doc.get("seed", ctx.seed))
    drv = vlib.build_driver(ctx, "d_ba", clocks=CLOCKS)
    cases_path = ctx.path("ba", "cases.json")
    with open(cases_path, "w") as f:
        f.write(json.dumps(case) + "\n")
    trace, msg = run_driver(ctx, drv, cases_path, 1, 1)
    lines, drift, broken = validate(ctx, trace, par=1, chunk=1000000)
    report(ctx, broken, [case])
    ctx.log("BA replay: %d lines, %d clause reports" % (lines, len(broken)))
    return {"ba_states": 0, "ba_transitions": 0, "ba_rounds_on_real_engines": 1, "ba_trace_lines_validated": lines,
            "ba_samples": [{"kind": case.get("kind"), "src": case.get("src"), "sched": case.get("sched", [])[:25]}], "ba_rule": "replay of one recorded round"}


def main(ctx):
    """Stand-alone run (tools/check extra_ba): the same as the part C07 runs, with its own evidence file."""
    ctx.prop = "C07"
    if getattr(ctx, "replay", None):
        cov = replay(ctx)
        ctx.prop = "C07_BA"
        return vlib.finish(ctx, "model_checking", {"states": 0, "transitions": 0, "traces_validated_against_impl": 1, "samples": cov["ba_samples"],
                                                   "rule": cov["ba_rule"]})
    cov = run(ctx, ctx.tier == "quick")
    cov2 = {"states": cov["ba_states"], "transitions": cov["ba_transitions"], "traces_validated_against_impl": cov["ba_rounds_on_real_engines"],
            "samples": cov["ba_samples"], "rule": cov["ba_rule"]}
    cov2.update(cov)
    ctx.prop = "C07_BA"
    return vlib.finish(ctx, "model_checking", cov2, assumptions=ASSUMPTIONS)
