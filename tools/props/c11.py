"""C11 - sync artifacts (identity diffs, snapshots) reproduce the canonical state.

(a) identity diffs: in every seeded history a follower replays, from the genesis identity state, the
    identity diff the node stores and serves for each canonical height (transported as bytes) through the
    real IdentityStateDB.AddDiff and compares the root with the canonical header - also after the
    serving node went through reorganisations (fork switches between sibling blocks whose diffs differ:
    a block that kills an identity vs. an empty sibling).  Clause FollowerRoot of Trace_Registry;
    SyncStore.tla is the design-level model of the diff store under reorganisation.
(b) snapshots: Snapshot.tla / d_snapshot (export, corruption classes, import all-or-nothing)."""
import json

import chainlib
import vlib
from props.c13 import selftest_reject

MINE = {"FollowerRoot"}


def describe(clause, row, rows, line):
    key = "FollowerRoot:%s" % ("after-reorg" if row.get("reorgs") else "after-failed-insertion" if row.get("failedInserts") else "linear")
    what = "replaying the identity diffs served by %s (history %s, head %s, %s reorganisations) gives another identity root than the canonical header at height(s) %s" % (
        row.get("server"), row.get("hid"), row.get("head"), row.get("reorgs"), row.get("bad"))
    return key, what


def main(ctx):
    quick = ctx.tier == "quick"
    r = chainlib.model_run(ctx, "SyncStore.tla", "MC_SyncStore.cfg", workers=4)
    rb = vlib.tlc(ctx, "SyncStore.tla", "MC_SyncStore_bug_difffirst.cfg", workers=2, timeout=600, want_exports=False)
    if rb.ok or rb.invariant != "FollowerRoot":
        raise vlib.CheckError("specification self-test failed: a diff written before the fallible steps of an insertion does not violate FollowerRoot in the model")
    trace, stats, out = chainlib.run_histories(ctx, quick, extra_args=["-identity-heavy", "-reorgs", "-faults"])
    if stats is None:
        vlib.driver_failure(ctx, out)
    ok, info = chainlib.validate(ctx, trace, "Trace_Registry.tla", "Trace_Registry.cfg", MINE, "C11", describe)
    rows = vlib.read_ndjson(trace)
    fol = [x for x in rows if x.get("ev") == "Follower"]
    reorgs = sum(x.get("reorgs", 0) for x in fol)
    failed = [x for x in rows if x.get("ev") == "FailedInsert"]
    if not fol:
        raise vlib.CheckError("no follower replay was recorded (dead driver)")
    if not failed or any(x.get("err") == "ok" for x in failed):
        raise vlib.CheckError("failed insertions: %d recorded, %d of them did not fail (dead fault injection)" % (len(failed), sum(1 for x in failed if x.get("err") == "ok")))

    def mutate(rows_):
        for row in rows_:
            if row.get("ev") == "Follower":
                row["bad"] = [7]
                return rows_
        return None
    if ok:
        selftest_reject(ctx, "Trace_Registry.tla", "Trace_Registry.cfg", trace, mutate, n_lines=100000)
    cov = {"states": r.distinct, "transitions": r.generated,
           "traces_validated_against_impl": len(fol), "heights_replayed": sum(x.get("head", 0) for x in fol),
           "reorganisations": reorgs, "failed_insertions": len(failed),
           "samples": fol[:2],
           "rule": "followers replay every served identity diff from the genesis identity state and compare the root with each canonical header, "
                   "including after fork switches between sibling blocks with different identity diffs"}
    snap = snapshot_part(ctx, quick)
    if snap:
        cov.update(snap)
    # growth module: the real fastSync object / Downloader against honest and lying peers (FastSync.tla)
    cov["fast_sync"] = vlib.run_extra(ctx, "extra_fastsync", quick)
    cov["states"] += cov["fast_sync"].get("fastsync_model_states", 0)
    cov["transitions"] += cov["fast_sync"].get("fastsync_model_transitions", 0)
    return vlib.finish(ctx, "model_checking", cov, assumptions=[
        "snapshot corruption positions are sampled inside each corruption class except for small archives"])


def snapshot_part(ctx, quick):
    try:
        import props.c11_snapshot as s
    except ImportError:
        ctx.notes.append("snapshot part (C11b) not built in this revision")
        return None
    return s.run(ctx, quick)
