"""Fast sync (growth module; serves C01 "fast-synced beforehand", C10 "as a restarted or fast-synced node does", C11 "sync
artifacts reproduce the canonical state", C09 "finishing a fast sync"): a replica that ARRIVES BY FAST SYNC must be
indistinguishable from one that applied every block, every alteration a serving peer can make is refused without leaving a
trace, and the canonical head / state change only in the atomic switch.

1. TLC explores spec/FastSync.tla (the code's steps: preConsuming, processBatch = validateHeader / deferred application =
   validateIdentityState + commit + AddHeaderUnsafe + artifact writes, reload, postConsuming = snapshot import + forced version +
   atomic switch, restart) in a bounded model (MC_FastSync): every chain shape x fault placement x batch split x serving peer x
   resume mode; invariants NoFaultAccepted, CulpritSetAside, ArrivedEqualsApplied, Recoverable, action property NoPartialSwitch.
2. One concrete path per class of interesting transition is exported and run by harness/cmd/d_fastsync on the REAL fastSync
   object (verif shim in package protocol: only the libp2p stream is an in-memory pipe) against real serving handlers over a real
   chain built for the scenario's shape; plus seeded random scenarios on a long real chain (>= 60 blocks, everything mixed).
3. The recorded traces are validated by TLC against spec/Trace_FastSync.tla; the verdict is the set of broken property clauses.
"""
import json
import random
import re

import vlib

PID = "C11"
CLOCKS = ["blockchain/blockchain.go", "protocol/downloader.go"]   # the Downloader's back-off sleeps run on the virtual clock

# which listed property a broken clause belongs to
PREFIX = {
    "NoPartialSwitch": "C11", "BadPeerRefused": "C11", "HonestPeerAccepted": "C11", "NoCrash": "C11",
    "ArrivedArtifacts": "C11", "ArrivedState": "C01", "ArrivedTail": "C01", "ArrivedValidators": "C10", "ArrivedRestart": "C10",
}
VARIANTS = {
    "diff-wrong": ["diff-wrong", "diff-stale", "diff-drop-entry"],
    "cert-outsider": ["cert-outsider", "cert-few", "cert-otherblock"],
    "snap-otherheight": ["snap-otherheight", "snap-truncated", "snap-garbled"],
}


def to_scenarios(e, idx, rnd):   # idx: string
    """TLC export -> driver scenarios.  An abstract fault class stands for several concrete alterations: a bad manifest and an
    altered diff of an identity-update block are run in EVERY variant, the others in a variant chosen by the seed."""
    choices = []   # (kind, peer, key, variants)
    for p in sorted(e["plans"]):
        for i, f in enumerate(e["plans"][p]):
            if f == "none":
                continue
            if f == "diff-wrong" and e["shape"][i] == "U":
                choices.append(("plan", p, str(i + 1), VARIANTS[f]))
            elif f == "cert-outsider":
                choices.append(("plan", p, str(i + 1), [rnd.choice(VARIANTS[f])]))
            else:
                choices.append(("plan", p, str(i + 1), [f]))
    for p in sorted(e["mans"]):
        m = e["mans"][p]
        if m != "ok":
            choices.append(("man", p, "", VARIANTS.get(m, [m])))
    combos = [[]]
    for c in choices:
        combos = [x + [(c[0], c[1], c[2], v)] for x in combos for v in c[3]]
    res = []
    steps = [{"op": s["op"], "peer": s.get("peer", ""), "n": s.get("n", 0)} for s in e["steps"]]
    for j, combo in enumerate(combos):
        plans = {p: {} for p in e["plans"]}
        mans = {}
        for kind, p, key, v in combo:
            if kind == "plan":
                plans[p][key] = v
            else:
                mans[p] = v
        res.append({"id": "m%s.%d" % (idx, j), "class": e["class"], "shape": e["shape"], "plans": plans, "mans": mans, "steps": steps})
    return res


def pick(exports, rnd, per_class):
    by = {}
    for e in exports:
        if "class" in e:
            by.setdefault(e["class"], []).append(e)
    res = []
    for k in sorted(by):
        lst = by[k]
        rnd.shuffle(lst)
        res += lst[:per_class]
    return res, {k: len(v) for k, v in by.items()}


def scenario_of(rows, line):
    start = max(i for i in range(line) if rows[i].get("ev") == "Chain")
    end = next((i for i in range(line, len(rows)) if rows[i].get("ev") == "Chain"), len(rows))
    return start, end


def signature(rows, start, end, line, clause):
    """A stable, specific signature of the violated scenario: the alterations that were really on the wire before the line."""
    faults = set()
    for x in rows[start:line]:
        if x.get("ev") in ("Serve", "Wire"):
            for b in x["blocks"]:
                if b["f"] != "none":
                    faults.add(b["f"])
        if x.get("ev") in ("New", "Post") and x.get("man") not in (None, "", "ok"):
            faults.add(x["man"])
    resumed = any(x.get("ev") == "Restart" for x in rows[start:line])
    sig = "+".join(sorted(faults)) if faults else "honest-peers-only"
    ev = rows[line - 1].get("ev")
    return "%s:at-%s%s" % (sig, ev, ":after-restart" if resumed else "")


def describe(rows, start, end, line, clause):
    ch = rows[start]
    bad = rows[line - 1]
    steps = []
    for x in rows[start + 1:line]:
        ev = x.get("ev")
        if ev in ("Serve", "Wire"):
            steps.append("%s serves %d..%d%s" % (x["peer"], x["from"], x["to"],
                                                 "".join(" [%d:%s]" % (b["h"], b["f"]) for b in x["blocks"] if b["f"] != "none")))
        elif ev in ("New", "BatchEnd", "Post", "Restart", "Tail", "Synced"):
            steps.append("%s%s" % (ev, "(%s)" % x.get("res") if "res" in x else ""))
    shape = " ".join("%d:%s%s%s%s" % (b["h"], b["kind"], "+diff" if b["diff"] else "", "+need" if b["need"] else "", "+cert" if b["cert"] else "")
                     for b in ch["blocks"][:ch["N"]])
    obs = {k: bad.get(k) for k in ("res", "err", "man", "invalid", "leftover", "accepted", "switched", "fast", "rounds", "top", "msg", "stack") if k in bad}
    if "obs" in bad:
        o = bad["obs"]
        obs.update({"head": o["canon"]["head"], "prelim": o["prelim"], "deferred": o["deferred"], "banned": o["banned"], "forked": o["forked"],
                    "new_or_changed_artifacts": [a["h"] for a in o["arts"]]})
    if bad.get("ev") == "Final":
        s, r = bad["sync"], bad["ref"]
        obs["differs"] = {k: [str(s[k])[:160], str(r[k])[:160]] for k in s if s[k] != r.get(k)}
    return ("fast sync, clause %s broken at step %s of scenario %s (%s chain, local head L=%d, manifest height L+%d; blocks above L: %s); "
            "steps: %s; observed: %s" % (clause, bad.get("ev"), ch.get("scenario"), ch.get("kind"), ch["L"], ch["N"], shape[:500],
                                         "; ".join(steps)[-900:], json.dumps(obs)[:900]))


def report(ctx, key, what, replay_src, payload):
    """report_violation matches known findings by ctx.prop: look them up under the property the key belongs to."""
    saved = ctx.prop
    ctx.prop = key.split(":", 1)[0]
    try:
        return vlib.report_violation(ctx, key, what, replay_src=replay_src, payload=payload)
    finally:
        ctx.prop = saved


def trace_validate(ctx, path, timeout=3000):
    """vlib.trace_validate for Trace_FastSync, which also reports WHERE the implementation-shaped prediction drifted."""
    r = vlib.tlc(ctx, "Trace_FastSync.tla", "Trace_FastSync.cfg", workers=1, env={"TRACE_FILE": path}, timeout=timeout, want_exports=False)
    info = {"states": r.distinct, "wall": r.wall, "drift": 0, "drift_at": [], "broken": []}
    rejected = None
    for line in r.out.splitlines():
        m = re.match(r'<<"DRIFT", (\d+)>>', line)
        if m:
            info["drift"] = int(m.group(1))
        m = re.match(r'<<"DRIFT_AT", <<(.*)>>>>', line)
        if m and m.group(1).strip():
            info["drift_at"] = [int(x) for x in m.group(1).split(",")]
        m = re.match(r'<<"CLAUSE_BROKEN", (\d+), "([^"]*)">>', line)
        if m:
            info["broken"].append((int(m.group(1)), m.group(2)))
        m = re.match(r'<<"TRACE_REJECTED_AT", (\d+), (\d+)>>', line)
        if m:
            rejected = int(m.group(1))
    if r.ok:
        return True, info
    if info["broken"]:
        info["line"], info["clause"] = info["broken"][0]
        return False, info
    if rejected is not None:
        raise vlib.CheckError("Trace_FastSync cannot read line %d of %s (no action matches: harness / spec mismatch, not a verdict):\n%s" % (rejected, path, r.out[-1500:]))
    raise vlib.CheckError("TLC error while validating a fast-sync trace (not a verdict):\n" + r.out[-3000:])


def chunks_of(rows, max_lines=6000):
    """Split a trace at scenario boundaries (one JVM validates a few hundred scenarios)."""
    res, cur = [], []
    for x in rows:
        if x.get("ev") == "Chain" and len(cur) >= max_lines:
            res.append(cur)
            cur = []
        cur.append(x)
    if cur:
        res.append(cur)
    return res


def drop_unreliable(ctx, rows):
    """Scenarios in which a real-time time-out may have fired (starved machine) say nothing: they are left out and counted."""
    bad = {x["sid"] for x in rows if x.get("ev") == "Unreliable"}
    if bad:
        ctx.notes.append("%d scenario(s) left out because the machine was too slow for the sync code's real-time time-outs: %s" % (len(bad), sorted(bad)[:10]))
    return [x for x in rows if x.get("sid") not in bad], len(bad)


def validate(ctx, trace, label):
    rows, dropped = drop_unreliable(ctx, vlib.read_ndjson(trace))
    if dropped:
        trace = ctx.path("filtered_%s.ndjson" % label)
        vlib.write_ndjson(trace, rows)
    all_ok, drift, seen = True, 0, {}
    drift_notes = []
    offset = 0
    for ci, chunk in enumerate(chunks_of(rows)):
        path = trace if len(chunk) == len(rows) else ctx.path("chunks", "%s_%d.ndjson" % (label, ci))
        if path != trace:
            vlib.write_ndjson(path, chunk)
        ok, info = trace_validate(ctx, path)
        drift += info.get("drift") or 0
        for dl in info.get("drift_at", []):
            x = rows[offset + dl - 1]
            st, _ = scenario_of(rows, offset + dl)
            drift_notes.append("%s step %s of scenario %s (%s)" % (label, x.get("ev"), rows[st].get("scenario"), rows[st].get("class")))
        if not ok:
            all_ok = False
            broken = info.get("broken")
            if not broken:
                raise vlib.CheckError("%s trace rejected without a broken clause: %s" % (label, json.dumps(info)[:1500]))
            for line, clause in broken:
                line += offset
                start, end = scenario_of(rows, line)
                key = "%s:FastSync%s:%s" % (PREFIX.get(clause, PID), clause, signature(rows, start, end, line, clause))
                seen.setdefault(key, []).append((line, clause, start, end))
        offset += len(chunk)
    order = sorted(seen, key=lambda k: (k.count("+") + (0 if "honest-peers-only" in k else 1), k))
    for key in order[:8]:
        line, clause, start, end = seen[key][0]
        ex = ctx.path("replay_%s_%d.ndjson" % (clause, line))
        vlib.write_ndjson(ex, rows[start:end])
        report(ctx, key, describe(rows, start, end, line, clause) + " (%d scenario(s) with this signature; %d signatures in this run)" % (len(seen[key]), len(seen)),
               ex, {"scenario": rows[start].get("scenario"), "class": rows[start].get("class"), "line": line - start})
    if len(seen) > 8:
        ctx.notes.append("%s: %d further violation signatures not listed: %s" % (label, len(seen) - 8, order[8:40]))
    if drift_notes:
        ctx.notes.append("conformance drift (implementation-shaped prediction differs, no property clause broken): " + "; ".join(drift_notes[:12]))
    return all_ok, {"drift": drift}, rows


def stats_of(rows):
    st = {"scenarios": 0, "switched": 0, "batches": 0, "batches_refused": 0, "reloads": 0, "restarts": 0, "appliers": 0, "resumed_appliers": 0,
          "post_refused_snapshot": 0, "post_early": 0, "tail_blocks": 0, "faults_on_wire": {}, "bad_manifests": {}, "blocks_served": 0,
          "deferred_across_batches": 0, "downloader_runs": 0, "downloader_fast_syncs": 0, "downloader_refusals": 0, "panics": 0}
    for x in rows:
        ev = x.get("ev")
        if ev == "Chain":
            st["scenarios"] += 1
        elif ev == "Final":
            st["switched"] += 1 if x.get("switched") else 0
        elif ev == "BatchEnd":
            st["batches"] += 1
            st["batches_refused"] += 1 if x["res"] != "ok" else 0
            st["reloads"] += max(0, x.get("attempts", 1) - 1)
            st["deferred_across_batches"] += 1 if x["res"] == "ok" and x["obs"]["deferred"] else 0
        elif ev == "Synced":
            st["downloader_runs"] += 1
            st["downloader_fast_syncs"] += 1 if x.get("fast") else 0
            st["downloader_refusals"] += 1 if x["obs"]["banned"] or x["obs"]["forked"] else 0
        elif ev == "Panic":
            st["panics"] += 1
        elif ev in ("Serve", "Wire"):
            st["blocks_served"] += len(x["blocks"])
            for b in x["blocks"]:
                if b["f"] != "none":
                    st["faults_on_wire"][b["f"]] = st["faults_on_wire"].get(b["f"], 0) + 1
        elif ev == "Restart":
            st["restarts"] += 1
        elif ev == "New":
            st["appliers"] += 1
            st["resumed_appliers"] += 1 if x["obs"]["prelim"] > 0 else 0
        elif ev == "Post":
            if x["res"] != "ok":
                if x.get("downloaded"):
                    st["post_refused_snapshot"] += 1
                    st["bad_manifests"][x["man"]] = st["bad_manifests"].get(x["man"], 0) + 1
                else:
                    st["post_early"] += 1
        elif ev == "Tail":
            st["tail_blocks"] += x.get("accepted", 0)
    return st


class SyncCrashed(Exception):
    """The repository's sync code panicked in one of its own goroutines and took the process down (a real node dies the same way)."""


def driver_failed(ctx, p, what):
    out = p.stdout or ""
    i = out.find("panic: ")
    if i >= 0 and not out[i:].startswith("panic: driver:") and "verifh/" not in out[i:i + 2500].split("\ncreated by")[0].replace("verifh/internal/vclock", ""):
        frames = out[i:i + 2500]
        if "idena-go/protocol" in frames or "idena-go/core/state" in frames or "idena-go/blockchain" in frames:
            msg = out[i:].splitlines()[0][:200]
            where = [l.strip() for l in frames.splitlines() if "idena-go/" in l and "(" in l][:4]
            report(ctx, "C11:FastSyncNoCrash:panic-in-sync-goroutine",
                   "the sync code panicked in its own goroutine while %s and killed the process: %s; frames: %s" % (what, msg, "; ".join(where)[:600]),
                   None, {"output": out[i:i + 3000]})
            raise SyncCrashed()
    raise vlib.CheckError("driver failed on %s:\n%s" % (what, out[-3000:]))


def selftest(ctx, trace, mutations, n_lines=150):
    """Binding self-test: the recorded prefix is accepted, each corrupted copy of it is rejected."""
    rows = vlib.read_ndjson(trace)[:n_lines]
    good = ctx.path("selftest", "good.ndjson")
    vlib.write_ndjson(good, rows)
    ok, info = trace_validate(ctx, good)
    if not ok:
        raise vlib.CheckError("binding self-test: the recorded prefix is not accepted: %s" % json.dumps(info)[:600])
    for m in mutations:
        bad_rows = m(json.loads(json.dumps(rows)))
        if bad_rows is None:
            raise vlib.CheckError("binding self-test %s could not build a corrupted trace" % m.__name__)
        bad = ctx.path("selftest", "bad_%s.ndjson" % m.__name__)
        vlib.write_ndjson(bad, bad_rows)
        ok, info = trace_validate(ctx, bad)
        if ok:
            raise vlib.CheckError("binding self-test failed: corrupted trace (%s) was accepted by Trace_FastSync" % m.__name__)
        ctx.log("binding self-test %s: rejected at line %s (%s)" % (m.__name__, info.get("line"), info.get("clause")))


def _run(ctx, quick):
    rnd = random.Random(ctx.seed)
    drv = vlib.build_driver(ctx, "d_fastsync", clocks=CLOCKS)

    # 1. bounded models: invariants in every state, scenario export;  2. the real code on the exported scenarios
    models = [("MC_FastSync_quick.cfg", 1)] if quick else [("MC_FastSync_thorough.cfg", 4), ("MC_FastSync_thorough2.cfg", 2)]
    need = ["refuse/reload/", "refuse/forked/", "refuse/fail/", "post/snap-otherheight", "post/snap-unavailable", "switch", "restart/", "resume/",
            "deferred-across-batches", "honest-blamed"]
    states = transitions = exported = 0
    all_classes = {}
    model_traces = []
    for mi, (cfg, per_class) in enumerate(models):
        r = vlib.tlc(ctx, "MC_FastSync.tla", cfg, workers=12, timeout=3000, extra=["-seed", str(ctx.seed)])
        if not r.ok:
            raise vlib.CheckError("design-level FastSync model (%s) violates %s (model-only, not a verdict):\n%s" % (cfg, r.invariant, (r.error or "")[:1800]))
        chosen, classes = pick(r.exports, rnd, per_class)
        states += r.distinct
        transitions += r.generated
        exported += len(r.exports)
        all_classes.update(classes)
        cases = ctx.path("cases_%d.json" % mi)
        nsc = 0
        with open(cases, "w") as f:
            for i, e in enumerate(chosen):
                for sc in to_scenarios(e, "%d.%d" % (mi, i), rnd):
                    f.write(json.dumps(sc) + "\n")
                    nsc += 1
        ctx.log("model %s: %d generated / %d distinct states; %d transitions exported in %d classes; %d scenarios"
                % (cfg, r.generated, r.distinct, len(r.exports), len(classes), nsc))
        t_model = ctx.path("trace_model_%d.ndjson" % mi)
        p = vlib.run_driver(ctx, drv, ["-cases", cases, "-out", t_model], timeout=3000)
        if p.returncode != 0:
            driver_failed(ctx, p, "the exported scenarios")
        ctx.log("exported scenarios: " + (p.stdout or "").strip().splitlines()[-1])
        model_traces.append(t_model)
    classes = all_classes
    for n in need:
        if not any(n in k for k in classes):
            raise vlib.CheckError("the models never exercised a '%s' transition (vacuous bounds)" % n)
    if not quick and not any("/attn/" in k for k in classes):
        raise vlib.CheckError("the double-fault model never reloaded from a second lying peer (vacuous bounds)")

    # seeded random scenarios over a long chain (step-wise applier and whole Downloader)
    t_rand = ctx.path("trace_random.ndjson")
    nrand, ndown, clen = (70, 25, 70) if quick else (800, 300, 110)
    p = vlib.run_driver(ctx, drv, ["-random", str(nrand), "-downloader", str(ndown), "-len", str(clen), "-out", t_rand], timeout=3000)
    if p.returncode != 0:
        driver_failed(ctx, p, "the random scenarios")
    ctx.log("random scenarios: " + " | ".join((p.stdout or "").strip().splitlines()[-2:]))

    # 3. the specification judges what happened
    ok1, drift1, rows1 = True, 0, []
    for mi, t in enumerate(model_traces):
        ok, info, rows = validate(ctx, t, "model-scenario-%d" % mi)
        ok1 = ok1 and ok
        drift1 += info.get("drift") or 0
        rows1 += rows
    info1 = {"drift": drift1}
    ok2, info2, rows2 = validate(ctx, t_rand, "random-scenario")
    s1, s2 = stats_of(rows1), stats_of(rows2)
    # vacuity: on a run without a verdict every kind of step must have been exercised (a violating run is a verdict already:
    # the counts below depend on what the code did)
    if ok1 and ok2 and not ctx.violations:
        for k, v in (("batches_refused", 20), ("reloads", 5), ("restarts", 5), ("resumed_appliers", 10), ("post_refused_snapshot", 2), ("switched", 20),
                     ("deferred_across_batches", 5), ("downloader_fast_syncs", 10), ("downloader_refusals", 2)):
            if s1[k] + s2[k] < v:
                raise vlib.CheckError("dead driver: only %d '%s' in all traces" % (s1[k] + s2[k], k))
        if len(s1["faults_on_wire"]) < 9:
            raise vlib.CheckError("dead driver: only these alterations reached the wire: %s" % sorted(s1["faults_on_wire"]))

    # 4. binding self-tests: a recorded trace with one observation altered must be rejected
    if ok1 and ok2:
        def stored_diff_altered(rows_):
            for row in rows_:
                if row.get("ev") == "BatchEnd" and row["obs"]["arts"]:
                    row["obs"]["arts"][-1]["diffd"] = "00ff00ff00ff00ff"   # the node stored another diff than the canonical one
                    return rows_
            return None

        def head_moved_early(rows_):
            for row in rows_:
                if row.get("ev") == "BatchEnd":
                    row["obs"]["canon"]["head"] = 1                        # the canonical head moved outside the switch
                    return rows_
            return None

        def arrived_differs(rows_):
            for row in rows_:
                if row.get("ev") == "Final" and row.get("switched"):
                    row["sync"]["canon"]["view"] = "1/1/1:0000000000000000"  # another validator view than the reference's
                    return rows_
            return None
        selftest(ctx, model_traces[0], (stored_diff_altered, head_moved_early, arrived_differs))

    sample = [x for x in rows1 if x.get("ev") == "Chain"]
    cov = {
        "fastsync_model_states": states, "fastsync_model_transitions": transitions, "fastsync_model_cfg": [m[0] for m in models],
        "fastsync_exported_transitions": exported, "fastsync_classes": len(classes),
        "fastsync_scenarios_from_model": s1["scenarios"], "fastsync_scenarios_random": s2["scenarios"],
        "fastsync_trace_lines": len(rows1) + len(rows2),
        "fastsync_model_run": s1, "fastsync_random_run": s2,
        "fastsync_drift_steps": (info1.get("drift") or 0) + (info2.get("drift") or 0),
        "fastsync_samples": [{k: x.get(k) for k in ("scenario", "class", "abstract", "plans", "mans")} for x in sample[:3]],
        "fastsync_orchestration": "fastSync object, handler, peers, wire codec, serving side, SnapshotManager are the repository's; in the step-wise "
                                  "scenarios the request loop of Downloader.Load (applier construction, one GetBlocksRange per batch, postConsuming) is "
                                  "mirrored by the driver; in the downloader scenarios the repository's whole Downloader.SyncBlockchain runs (fast sync, then "
                                  "full sync of the rest) and nothing is mirrored",
    }
    return cov


def run(ctx, quick):
    """Entry for the property checks that include this module: returns a coverage dict, violations are reported through vlib."""
    try:
        return _run(ctx, quick)
    except SyncCrashed:
        return {"fastsync_crashed": "the sync code crashed the process; see the violation", "fastsync_model_states": 0, "fastsync_model_transitions": 0,
                "fastsync_scenarios_from_model": 0, "fastsync_scenarios_random": 0, "fastsync_samples": []}


def main(ctx):
    quick = ctx.tier == "quick"
    cov = run(ctx, quick)
    out = {
        "states": cov["fastsync_model_states"], "transitions": cov["fastsync_model_transitions"],
        "traces_validated_against_impl": cov["fastsync_scenarios_from_model"] + cov["fastsync_scenarios_random"],
        "samples": cov["fastsync_samples"],
        "rule": "bounded FastSync model explored exhaustively (all chain shapes of the configured length x single / double fault placements x batch "
                "splits x serving peers x restarts); one scenario per class of refusing / switching / resuming transition run on the real fastSync "
                "against real serving handlers over a real chain of that shape; plus seeded random scenarios on a long real chain",
    }
    out.update(cov)
    return vlib.finish(ctx, "model_checking", out, assumptions=[
        "upgrade blocks / NewGenesis during a fast sync are not generated",
        "the libp2p stream is an in-memory pipe; time-outs of silent peers (20 s) are not exercised",
        "step-wise scenarios mirror the request loop of Downloader.Load; the downloader scenarios run the real one (see fastsync_orchestration)",
    ])
