"""C13 — speculative and historical state views are isolated and exact.

Part A (copy-on-write store): TLC explores OverlayDb exhaustively (implementation-shaped overlay vs. a
reference ordinary store, invariant Refines), exports an edge cover of the bounded model; the Go driver
replays every exported transition on the real BackedMemDb/backedMemBatch and logs the complete
observation; TLC validates the recorded trace against Trace_OverlayDb (the reference store is the
oracle).  Seeded random long sequences over 12 keys are validated the same way.
Part B (chain level: canonical state untouched by speculative work, historical views exact) lives in
the chain driver (see c13_chain in chainlib) and is merged into the same verdict when available.
Part C (the layer in between: StateDB / IdentityStateDB / AppState views and their in-memory buffers) is
tools/props/c13_views.py (spec/StateViews.tla, d_stateviews), merged into the same verdict.
"""
import json
import os
import random

import vlib


def selftest_reject(ctx, spec, cfg, trace_path, mutate, n_lines=400, env=None):
    """Binding self-test: a corrupted copy of a recorded prefix must be rejected."""
    rows = vlib.read_ndjson(trace_path)[:n_lines]
    good = ctx.path("selftest", "good.ndjson")
    vlib.write_ndjson(good, rows)
    ok, info = vlib.trace_validate(ctx, spec, cfg, good, env=env)
    if not ok:
        return  # the real verdict run will report it
    bad_rows = mutate(json.loads(json.dumps(rows)))
    if bad_rows is None:
        raise vlib.CheckError("self-test could not build a corrupted trace")
    bad = ctx.path("selftest", "bad.ndjson")
    vlib.write_ndjson(bad, bad_rows)
    ok, info = vlib.trace_validate(ctx, spec, cfg, bad, env=env)
    if ok:
        raise vlib.CheckError("binding self-test failed: corrupted trace was accepted by %s" % spec)
    ctx.log("binding self-test: corrupted trace rejected at line %s" % info.get("line"))


def main(ctx):
    quick = ctx.tier == "quick"
    drv = vlib.build_driver(ctx, "d_overlaydb")

    # 1. exhaustive model run + export
    cfg = "MC_OverlayDb_quick.cfg" if quick else "MC_OverlayDb_thorough.cfg"
    r = vlib.tlc(ctx, "MC_OverlayDb.tla", cfg, workers=1 if quick else 8, timeout=3000)
    if not r.ok:
        raise vlib.CheckError("design-level model violates %s (model-only counterexample, not a verdict):\n%s"
                              % (r.invariant, (r.error or "")[:2000]))
    ctx.log("model: %d generated / %d distinct, %d transitions exported" % (r.generated, r.distinct, len(r.exports)))
    if not r.exports:
        raise vlib.CheckError("no transitions exported (dead generator)")
    cases = ctx.path("cases.json")
    with open(cases, "w") as f:
        for c in r.exports:
            f.write(json.dumps(c) + "\n")

    # 2. replay on the real store
    trace = ctx.path("trace_model.ndjson")
    p = vlib.run_driver(ctx, drv, ["-cases", cases, "-out", trace])
    if p.returncode != 0:
        return crash_verdict(ctx, p, r)
    ok, info = vlib.trace_validate(ctx, "Trace_OverlayDb.tla", "Trace_OverlayDb.cfg", trace, timeout=3000)
    n_traces = len(r.exports)
    lines = sum(1 for _ in open(trace))
    if not ok:
        explain(ctx, trace, info, "exported transition")

    # 3. random long sequences
    trace2 = ctx.path("trace_random.ndjson")
    nrand, rlen = (20, 50) if quick else (300, 200)
    p = vlib.run_driver(ctx, drv, ["-random", str(nrand), "-len", str(rlen), "-keys", "12", "-vals", "3", "-out", trace2])
    if p.returncode != 0:
        return crash_verdict(ctx, p, r)
    ok2, info2 = vlib.trace_validate(ctx, "Trace_OverlayDb.tla", "Trace_OverlayDb.cfg", trace2, timeout=3000)
    lines += sum(1 for _ in open(trace2))
    if not ok2:
        explain(ctx, trace2, info2, "random sequence")

    # 4. binding self-test: flip one observed value
    def mutate(rows):
        for row in rows:
            if row.get("ev") == "Obs" and row["get"]:
                row["get"][0][1] = (row["get"][0][1] + 1) % 3
                return rows
        return None
    selftest_reject(ctx, "Trace_OverlayDb.tla", "Trace_OverlayDb.cfg", trace, mutate)

    # 5. chain level (part B): canonical state untouched by speculative work, read-only / historical views exact
    chain_cov = chain_part(ctx, quick)

    # 6. state-object level (part C): views of StateDB / IdentityStateDB / AppState share no in-memory buffer
    from props import c13_views
    views_cov = c13_views.run(ctx, quick)

    samples = [r.exports[0], r.exports[len(r.exports) // 2], r.exports[-1]]
    cov = {
        "states": r.distinct, "transitions": r.generated,
        "traces_validated_against_impl": n_traces + nrand,
        "trace_lines_validated": lines,
        "samples": samples,
        "exhaustive": True,
        "model_cfg": cfg,
        "chain_level": chain_cov,
        "state_views": views_cov,
        "rule": "every transition of the bounded OverlayDb model (all base contents x set/delete/batch) replayed on the "
                "real BackedMemDb with a complete observation (Get/Has for every key, forward+reverse iteration over "
                "every border pair); plus %d seeded random sequences of %d ops over 12 keys" % (nrand, rlen),
    }
    return vlib.finish(ctx, "model_checking", cov, assumptions=[
        "tm-db MemDB is the reference semantics of an ordinary store",
        "iteration is atomic (no writes while an iterator is open), as in the IAVL callers",
    ] + c13_views.ASSUMPTIONS)


CHAIN_CLAUSES = {"CanonUntouched", "HistoricalExact", "ReadonlyHeadExact"}


def chain_describe(clause, row, rows, line):
    if clause == "CanonUntouched":
        who = sorted(k for k, v in (row.get("canon") or {}).items() if not v)
        return ("CanonUntouched", "speculative validation / proposal / read-only query changed the canonical database or live root on replica(s) %s "
                "around block %s of history %s" % (who, row.get("h"), row.get("hid")))
    reorged = any(x.get("ev") == "Reset" and x.get("hid") == row.get("hid") for x in rows[:line])
    key = "%s:%s" % (clause, "after-fork-switch" if reorged else "linear")
    what = "read-only view of height %s (history %s, block line %s) does not return what was committed there: %s" % (
        (row.get("hist") or {}).get("h", row.get("h")), row.get("hid"), row.get("h"),
        json.dumps({k: row.get(k) for k in ("hist", "rohead")})[:400])
    return key, what


def chain_part(ctx, quick):
    import chainlib
    trace, stats, out = chainlib.run_histories(ctx, quick, extra_args=["-reorgs"])
    if stats is None:
        vlib.driver_failure(ctx, out)
    ok, info = chainlib.validate(ctx, trace, "Trace_Replicas.tla", "Trace_Replicas.cfg", CHAIN_CLAUSES, "C13", chain_describe)
    rows = vlib.read_ndjson(trace)
    blocks = [x for x in rows if x.get("ev") == "Block" and not x.get("refused")]
    spec_ops = sum(len(x.get("canon") or {}) for x in blocks)
    hist_q = sum(1 for x in blocks if "hist" in x)
    if spec_ops == 0 or hist_q == 0:
        raise vlib.CheckError("chain part never exercised a speculative operation / historical query (dead driver)")
    return {"histories": stats.get("histories", 0), "blocks": len(blocks), "speculative_ops_digested": spec_ops,
            "historical_queries": hist_q, "readonly_head_queries": sum(1 for x in blocks if "rohead" in x),
            "fork_switches": sum(1 for x in rows if x.get("ev") == "Reset")}


def crash_verdict(ctx, p, r):
    out = (p.stdout or "")[-3000:]
    if "panic:" in out and ("idena-go/database" in out):
        vlib.report_violation(ctx, "C13:overlay-panic", "BackedMemDb panicked during a replayed sequence: " + out[-600:])
        return vlib.finish(ctx, "model_checking", {"states": max(r.distinct, 1), "transitions": max(r.generated, 1),
                                                   "traces_validated_against_impl": 0, "samples": ["driver panic"]})
    raise vlib.CheckError("driver failed:\n" + out)


def explain(ctx, trace, info, kind):
    line = info.get("line")
    rows = vlib.read_ndjson(trace)
    # find the sequence containing the offending line
    start = 0
    if line:
        for i in range(min(line, len(rows)) - 1, -1, -1):
            if rows[i].get("ev") == "Reset":
                start = i
                break
    excerpt = rows[start:line] if line else rows[:5]
    ex = ctx.path("replay_excerpt.ndjson")
    vlib.write_ndjson(ex, excerpt)
    ops = [r_ for r_ in excerpt if r_.get("ev") != "Obs"]
    what = "%s on real BackedMemDb not explained by the reference store at trace line %s (%s); ops=%s" % (
        kind, line, info.get("invariant") or "no enabled spec action", json.dumps(ops)[:600])
    vlib.report_violation(ctx, "C13:overlay-vs-reference", what, replay_src=ex, payload={"info": info})
