"""Stand-alone entry for the growth module "LIFE" of C05 (the lifecycle of an identity: every plain transaction type attempted by
or against an identity in every status x validation period x online / delegation / stake / penalty situation, the identity-update
steps and the epoch end with every outcome of the decision table):
   tools/check C05LIFE --tier quick|thorough
runs props.extra_life.run exactly as the C05 check does when it includes the module, and writes evidence/C05LIFE.json.
Findings are matched against the known findings of C05."""
import vlib
from props import extra_life


def main(ctx):
    ctx.prop = "C05"          # violations of this module are C05 findings (keys C05:LIFE:...)
    try:
        cov = extra_life.run(ctx, ctx.tier == "quick")
    finally:
        ctx.prop = "C05LIFE"
    cov2 = {"states": cov["life_states"], "transitions": cov["life_transitions"],
            "traces_validated_against_impl": cov["life_traces_validated_against_impl"],
            "samples": cov["life_samples"], "rule": cov["life_rule"]}
    cov2.update(cov)
    return vlib.finish(ctx, "model_checking", cov2, assumptions=[
        "one focus identity and a cast of six (god, inviter, pool, delegator, fresh key, stranger); contracts are out of scope (C15)",
        "epoch outcomes are injected into the real ApplyNewEpoch (cached-evaluation branch); the first-evaluation branch is C17's",
        "an offline penalty is decided by blocks that carry the Offline flags (the votes behind them are the C10 growth module's subject)",
        "all three switch ranges are set to one value so that the driver can keep the attempts of a path clear of the identity-update block",
        "what the mempools keep for later (a ceremony transaction that came a period early) is withdrawn after each block: one attempt per block",
    ])
