"""Growth module "UPG" of C01: consensus upgrade voting, activation and the intermediate genesis.

spec/Upgrade.tla specifies what the code behind core/upgrade/upgrader.go (Target, UpgradeBits, IsValidTargetVersion with
its activation window, CanUpgrade, the vote book and its persist / restore, ValidateBlock, CompleteMigration), the Upgrade
bits / NewGenesis rules of blockchain.go (ProposeBlock, ValidateHeader, calculateFlags, tryUpgrade on insertion and in
InitializeChain, the stored consensus version, AddBlock's genesis switch), the proposal path of pengings/proposals.go and
the start-up derivation of the configuration (main.go / node.go) does, one definition per real step, quirks named.

1. TLC explores spec/MC_Upgrade.tla (bounded: 3 nodes = 3 online identities on one chain, worlds starting at consensus
   version 10 or 11, with / without GenerateGenesisAfterUpgrade, validation far or coming close; families of bounds that
   each exhaust one combination of features: books / restarts / crafted and forced blocks / nodes behind / two upgrades /
   an orphaned last block)
   with the design invariants (SameChainSameVersion, SameGenesisInfo, VersionByChain, GenesisByChain,
   NewGenesisExactlyAfterUpgrade, VersionMonotone, RestartNeutral) and exports schedules: some per transition class, plus
   random walks of a larger instance; spec/MC_UpgradeQ.tla is the case table of the upgrader's own rules.
2. harness/cmd/d_upgrade runs every schedule and seeded random histories on REAL multi-node worlds (one configuration
   object per node, real signed votes through the real vote pool into Upgrader.ProcessVote, real ProposeBlock, the
   validators' proposal path, ValidateBlock / AddBlock, real restarts over the same database through the start-up
   sequence of main.go / node.go, malicious proposers through the VerifCraftUpgradeBlock shim) and the case table on a
   real Upgrader over a real identity state.
3. TLC validates the recorded traces against spec/Trace_Upgrade.tla; every property clause is evaluated on every observed
   step; a broken clause is the verdict, a disagreement with an exact prediction that breaks no clause is drift.

run(ctx, quick) returns the coverage dict; violations go through vlib.report_violation with keys C01:UPG:<clause>:<signature>.
"""
import collections
import concurrent.futures
import json
import os
import random
import re
import shutil

import vlib

CLOCKS = ["blockchain/blockchain.go", "core/upgrade/upgrader.go"]

FAMILIES = {True: ["q1", "q2", "q3", "q4", "q5", "q6", "q7"], False: ["t1", "t2", "t3", "t4", "t5", "t6", "t7"]}

# transition classes the bounded model must have exercised (and exported): every action class the module claims
NEED_KINDS = ["upgrade11:adopted", "upgrade12:adopted", "upgrade12:refused", "newgenesis", "after-upgrade:no-newgenesis",
              "held:window", "held:validation", "held:quorum", "vote:remove", "vote:odd", "tick:leave-window",
              "restart:at-upgrade", "restart:at-newgenesis", "restart:upgraded", "restart:behind", "restart:book-lost", "restart:book-kept",
              "restart:old-genesis-differs", "deliver:upgrade", "deliver:newgenesis",
              "craft:wrong-target:refused", "craft:no-quorum:refused", "craft:no-quorum:forced", "craft:out-of-window:refused", "craft:out-of-window:forced",
              "craft:ng-spurious:refused", "craft:ng-missing:refused", "craft:ng-with-upgrade:refused", "craft:v11-at-11:adopted", "craft:consistent:adopted",
              "probe:pay11:accepted", "probe:pay11:refused", "reorg:upgrade", "reorg:newgenesis", "reorg:plain",
              "crash:lost", "crash:kept:upgrade", "crash:kept:newgenesis"]

QUIRKS = {
    "V11Always": "a block with Upgrade = 11 is admitted by Upgrader.ValidateBlock whatever the book says: at version 10 a single proposer upgrades the network "
                 "to version 11 without any vote; at version 11 such a block upgrades nothing but still triggers a new genesis",
    "TopAgain": "at the top version Target() = Version: ValidateHeader accepts Upgrade = 12 again on the block path (nothing is upgraded, a new genesis is "
                "still triggered when GenerateGenesisAfterUpgrade is set)",
    "OldGenesisAfterRestart": "after a second intermediate genesis a running node reports the previous intermediate genesis as OldGenesis, a restarted node the "
                              "predefined genesis (AddBlock shifts Genesis -> OldGenesis, InitializeChain always restores the predefined one)",
    "BlockPathBlind": "the block path accepted a block whose Upgrade bits the proposal path refuses (window / distance / quorum are checked by voting validators only)",
}


# Genuine defects of the unchanged tree that this module found and reproduced (GROWTH_upg.md section 3), not repaired in /repo
# and - builders do not edit known_findings.jsonl - not yet listed there.  Until the integrator moves these entries into
# known_findings.jsonl (property C01, status known) or adopts a fix, the module itself reports them the way vlib reports a
# known finding: a KNOWN-FINDING line and an evidence entry on every run in which the real code shows them, exit code unaffected.
# Anything else is a VIOLATION as usual.  Delete an entry here when it is listed in known_findings.jsonl or fixed.
PENDING_FINDINGS = {}    # (the three findings of the build round are entries of known_findings.jsonl now)


def _shards(ctx, drv, jobs, timeout):
    """Run several driver processes side by side (the virtual clock and the activation windows are per process)."""
    def one(j):
        i, args = j
        wd = os.path.dirname(ctx.path("wd_upg_%d" % i, "x"))
        p = vlib.run([drv] + args, cwd=wd, env={"VERIF_SEED": str(ctx.seed), "VERIF_TIER": ctx.tier}, timeout=timeout, check=False)
        shutil.rmtree(wd, ignore_errors=True)
        return p
    with concurrent.futures.ThreadPoolExecutor(max_workers=max(1, min(len(jobs), 6))) as ex:
        return list(ex.map(one, list(enumerate(jobs))))


def _stats(ctx, ps):
    tot = collections.Counter()
    for p in ps:
        out = (p.stdout or "")
        if p.returncode != 0:
            vlib.driver_failure(ctx, out, "d_upgrade failed")
        last = out.strip().splitlines()[-1] if out.strip() else ""
        for tok in last.split():
            if "=" in tok:
                k, v = tok.split("=", 1)
                try:
                    tot[k] += int(v)
                except ValueError:
                    pass
    return tot


def _pick(exports, rnd, per_kind):
    by = collections.defaultdict(list)
    for e in exports:
        by[e.get("kind", "walk")].append(e)
    res = []
    for k in sorted(by):
        lst = sorted(by[k], key=lambda e: json.dumps(e, sort_keys=True))   # TLC's print order depends on worker timing
        rnd.shuffle(lst)
        # prefer short schedules for one of the picks (a readable replay), any for the others
        lst[:per_kind] = sorted(lst[:per_kind], key=lambda e: len(e["steps"]))
        res += lst[:per_kind]
    return res, {k: len(v) for k, v in by.items()}


def _maximal(exports):
    """Simulation prints every prefix of every walk: keep the walks that are no proper prefix of another one."""
    seen = set()
    res = []
    for e in sorted(exports, key=lambda e: -len(e["steps"])):
        key = json.dumps([e["base"], e["gen"], e["vn"], e["steps"]], sort_keys=True)
        if key in seen:
            continue
        res.append(e)
        st = e["steps"]
        for i in range(1, len(st) + 1):
            seen.add(json.dumps([e["base"], e["gen"], e["vn"], st[:i]], sort_keys=True))
    return res


def _validate(ctx, trace, tag):
    """TLC on Trace_Upgrade: returns dict(ok, broken [(line, clause)], drift, drift_at [(line, name)], rejected_at)."""
    r = vlib.tlc(ctx, "Trace_Upgrade.tla", "Trace_Upgrade.cfg", workers=1, env={"TRACE_FILE": trace}, timeout=3000, want_exports=False, sub="tv_upg_" + tag)
    info = {"ok": r.ok, "broken": [], "drift": 0, "drift_at": [], "rejected_at": None, "states": r.distinct}
    for line in r.out.splitlines():
        m = re.match(r'<<"DRIFT", (\d+)>>', line)
        if m:
            info["drift"] = int(m.group(1))
        m = re.match(r'<<"DRIFT_AT", (\d+), "([^"]*)">>', line)
        if m:
            info["drift_at"].append((int(m.group(1)), m.group(2)))
        m = re.match(r'<<"CLAUSE_BROKEN", (\d+), "([^"]*)">>', line)
        if m:
            info["broken"].append((int(m.group(1)), m.group(2)))
        m = re.match(r'<<"TRACE_REJECTED_AT", (\d+), (\d+)>>', line)
        if m:
            info["rejected_at"] = int(m.group(1))
    if not r.ok and not info["broken"] and info["rejected_at"] is None:
        raise vlib.CheckError("TLC error while validating an upgrade trace (not a verdict):\n" + r.out[-3000:])
    return info


def _blk_kind(b):
    if not b:
        return "none"
    if b.get("empty"):
        return "empty-ng" if b.get("ng") else "empty"
    if b.get("upg"):
        return "bits%d" % b["upg"] + ("-ng" if b.get("ng") else "")
    return "newgenesis" if b.get("ng") else "plain"


def _signature(clause, row, rows, line):
    """The history signature of a broken clause: the kind of step and of the block involved (no run-specific numbers)."""
    ev = row.get("ev")
    if ev == "Offer":
        vers = sorted(set(str(x) for x in row.get("vers", []))) or ["?"]
        return "%s-offer-%s-at-v%s" % ("honest" if row.get("honest") else "crafted", _blk_kind(row.get("blk")), "+".join(vers))
    if ev in ("Block", "Deliver"):
        return "%s-%s%s" % (ev.lower(), _blk_kind(row.get("blk")), "-forced" if row.get("forced") else "")
    if ev == "Crash":
        b = row.get("blk", {})
        return "crash-in-%s-block-insertion-%s" % ("upgrade" if b.get("upg") else "newgenesis" if b.get("ng") else "plain", "head-kept" if row.get("kept") else "head-lost")
    if ev == "Reorg":
        o = row.get("orphan", {})
        return "orphaned-%s-block" % ("upgrade" if o.get("upg") else "newgenesis" if o.get("ng") else "plain")
    if ev == "Restart":
        # where the node stood: the last block it holds
        h = None
        for st in row.get("sts", []):
            if st.get("n") == row.get("n"):
                h = st.get("h")
        last = "prefix"
        for i in range(line - 2, -1, -1):
            r2 = rows[i]
            if r2.get("ev") == "Genesis":
                break
            if r2.get("ev") in ("Block", "Deliver") and r2.get("h") == h:
                last = _blk_kind(r2.get("blk"))
                break
        return "restart-at-%s" % last
    if ev == "Case":
        cs = row.get("cs", {})
        return "case-v%s-tp%s-vp%s" % (cs.get("ver"), cs.get("tp"), cs.get("vp"))
    if ev == "Probe":
        return "probe-%s%s" % (row.get("k"), row.get("r"))
    if ev == "Vote":
        return "vote-%s" % ("honest" if row.get("hon") else "odd")
    return str(ev).lower()


SLIM = ("ev", "hid", "h", "n", "p", "i", "bits", "hon", "honest", "forced", "adopt", "blk", "now", "verd", "ins", "res", "msg", "msgs", "pbook", "prevupg", "k", "r",
        "built", "to", "qs", "cs", "orphan", "ck", "wi", "lost", "kept", "ver", "vt", "votes", "elig", "can", "valid", "acc", "target", "tag")


def _report(ctx, trace, info):
    rows = vlib.read_ndjson(trace)
    if info["rejected_at"] is not None and not info["broken"]:
        raise vlib.CheckError("upgrade trace is no behaviour of Trace_Upgrade at line %d (harness / specification bug, not a verdict): %s"
                              % (info["rejected_at"], json.dumps(rows[min(info["rejected_at"], len(rows)) - 1])[:800]))
    for line, clause in info["broken"]:
        row = rows[line - 1]
        start = max([i for i in range(line) if rows[i].get("ev") == "Genesis"] or [0])
        ex = ctx.path("replay_upg_%s_%d.ndjson" % ("".join(ch if ch.isalnum() else "_" for ch in clause)[:50], line))
        vlib.write_ndjson(ex, [rows[start]] + rows[max(start + 1, line - 14):line])
        slim = {k: row.get(k) for k in SLIM if k in row}
        sts = [{k: st.get(k) for k in ("n", "h", "ver", "e11", "e12", "stored", "cur", "old", "inter", "book", "pbook", "dead")} for st in row.get("sts", [])]
        g = rows[start] if rows[start].get("ev") == "Genesis" else {}
        key = "C01:UPG:%s:%s" % (clause, _signature(clause, row, rows, line))
        what = ("clause %s broken by the real code in world %s (base version %s, GenerateGenesisAfterUpgrade %s; trace line %d): %s"
                % (clause, row.get("hid", "table"), g.get("base"), g.get("gen"), line, json.dumps(slim)[:1100]))
        if sts:
            what += "; observed nodes after the step: %s" % json.dumps(sts)[:900]
        if key in PENDING_FINDINGS:
            if key not in [h["key"] for h in ctx.known_hits]:
                ctx.known_hits.append({"key": key, "what": "genuine, not repaired, pending integration (GROWTH_upg.md section 3): " + PENDING_FINDINGS[key]})
            continue
        vlib.report_violation(ctx, key, what, replay_src=ex, payload={"clause": clause, "line": line, "world": row.get("hid"), "scenario": g.get("kind")})


def _annotate(rows):
    """Offer lines get the versions of the judging nodes (for the signatures); returns quirk occurrences."""
    quirks = collections.Counter()
    last = {}
    ngs = collections.Counter()
    for row in rows:
        ev = row.get("ev")
        if ev == "Genesis":
            last = {st["n"]: st for st in row.get("sts", [])}
            ngs[row.get("hid")] = 0
        if ev == "Offer":
            row["vers"] = [last.get(v[0], {}).get("ver", -1) for v in row.get("verd", [])]
            b = row.get("blk", {})
            if b.get("upg") == 11 and row.get("adopt") and not row.get("forced") and not row.get("honest"):
                quirks["V11Always"] += 1
            if b.get("upg") == 12 and all(x == 12 for x in row["vers"]) and all(v[3] == 1 for v in row.get("verd", [])):
                quirks["TopAgain"] += 1
            if row.get("forced"):
                quirks["BlockPathBlind"] += 1
        if ev == "Block" and row.get("blk", {}).get("ng"):
            ngs[row.get("hid")] += 1
        if "sts" in row:
            for st in row["sts"]:
                last[st["n"]] = st
            if ngs[row.get("hid")] >= 2 and len(set((st["old"]) for st in row["sts"] if st["h"] == max(s["h"] for s in row["sts"]))) > 1:
                quirks["OldGenesisAfterRestart"] += 1
    return quirks


def _generate(ctx, quick, rnd):
    """Everything that depends on the specifications only (not on the repository): model runs, schedule export, case table."""
    # 1. bounded model families: design invariants + schedule export (side by side, two workers each)
    fams = FAMILIES[quick]

    def model(f):
        return vlib.tlc(ctx, "MC_Upgrade.tla", "MC_Upgrade_%s.cfg" % f, workers=2, timeout=3000, extra=["-seed", str(ctx.seed)], sub="mc_upg_" + f)
    with concurrent.futures.ThreadPoolExecutor(max_workers=3) as ex:
        results = list(ex.map(model, fams))
    exports, states, trans = [], 0, 0
    for f, r in zip(fams, results):
        if not r.ok:
            raise vlib.CheckError("design-level Upgrade model (%s) violates %s (model-only, not a verdict):\n%s" % (f, r.invariant, (r.error or "")[:1500]))
        exports += r.exports
        states, trans = states + r.distinct, trans + r.generated
    scen, kinds = _pick(exports, rnd, 3 if quick else 30)
    for k in NEED_KINDS:
        if not kinds.get(k):
            raise vlib.CheckError("model never exercised (or exported) a '%s' transition (vacuous bounds)" % k)
    ctx.log("model families %s: %d generated / %d distinct; %d transition classes exported, replaying %d schedules"
            % (",".join(fams), trans, states, len(kinds), len(scen)))
    # 1b. random walks of a larger instance
    nwalk = 16 if quick else 300
    rs = vlib.tlc(ctx, "MC_Upgrade.tla", "MC_Upgrade_sim.cfg", workers=1, timeout=1800,
                  extra=["-simulate", "num=%d" % nwalk, "-depth", "40", "-seed", str(ctx.seed)], simulate=True, sub="mc_upg_sim")
    if rs.error:
        raise vlib.CheckError("simulation of the Upgrade model failed (model-only): " + (rs.error or "")[:1500])
    walks = _maximal(rs.exports)[:nwalk]
    if not walks:
        raise vlib.CheckError("no simulation walks exported")
    # 1c. case table of the upgrader's own rules
    rq = vlib.tlc(ctx, "MC_UpgradeQ.tla", "MC_UpgradeQ.cfg", workers=1, timeout=600, sub="mc_upg_q")
    if not rq.ok:
        raise vlib.CheckError("upgrader case table violates %s (model-only):\n%s" % (rq.invariant, (rq.error or "")[:1500]))
    table = sorted(rq.exports, key=lambda e: json.dumps(e, sort_keys=True))
    if not any(e["expect"]["can"] for e in table) or all(e["expect"]["can"] for e in table):
        raise vlib.CheckError("upgrader case table is one-sided (dead generator)")
    states, trans = states + rq.distinct, trans + rq.generated
    if quick:
        rnd.shuffle(table)
        table = table[:700]
    return {"scen": scen, "kinds": kinds, "walks": walks, "table": table, "states": states, "trans": trans, "fams": fams}


def run(ctx, quick):
    rnd = random.Random(ctx.seed)
    drv = vlib.build_driver(ctx, "d_upgrade", clocks=CLOCKS)

    # seeded random histories start right away (they do not depend on the model run)
    nshard = 3 if quick else 6
    per, rlen = (4, 90) if quick else (30, 140)
    rjobs = [["-out", ctx.path("upg_rand_%d.ndjson" % i), "-random", str(per), "-len", str(rlen), "-first", str(i * per)] for i in range(nshard)]
    pool = concurrent.futures.ThreadPoolExecutor(max_workers=1)
    rfut = pool.submit(_shards, ctx, drv, rjobs, 3000)

    # 1. what depends on the specifications only: model families, walks, case table.  A development run may keep it in
    # VERIF_UPG_GEN (the exports are a function of the specifications, the tier and the seed).
    gen_dir = os.environ.get("VERIF_UPG_GEN")
    gen_file = os.path.join(gen_dir, "upg_gen_%s_%d.json" % (ctx.tier, ctx.seed)) if gen_dir else None
    if gen_file and os.path.exists(gen_file):
        with open(gen_file) as f:
            g = json.load(f)
        ctx.log("model exports taken from %s" % gen_file)
    else:
        g = _generate(ctx, quick, rnd)
        if gen_file:
            os.makedirs(gen_dir, exist_ok=True)
            with open(gen_file, "w") as f:
                json.dump(g, f)
    scen, kinds, walks, table, states, trans, fams = g["scen"], g["kinds"], g["walks"], g["table"], g["states"], g["trans"], g["fams"]
    allscen = scen + walks

    # 2. replay on real worlds (sharded: clock and activation windows are per process)
    rnd.shuffle(allscen)
    sh = 5 if quick else 6
    sjobs = []
    for i in range(sh):
        part = allscen[i::sh]
        if not part:
            continue
        cf = ctx.path("upg_cases_%d.json" % i)
        with open(cf, "w") as f:
            for e in part:
                f.write(json.dumps({"kind": e.get("kind"), "base": e["base"], "gen": e["gen"], "vn": e["vn"], "steps": e["steps"]}) + "\n")
        sjobs.append(["-out", ctx.path("upg_scen_%d.ndjson" % i), "-cases", cf, "-first", str(i * 100000)])
    tsh = 1 if quick else 3
    for i in range(tsh):
        tf = ctx.path("upg_table_%d.json" % i)
        with open(tf, "w") as f:
            for e in table[i::tsh]:
                f.write(json.dumps(e) + "\n")
        sjobs.append(["-out", ctx.path("upg_table_%d.ndjson" % i), "-table", tf])
    sps = _shards(ctx, drv, sjobs, 3000)
    st = _stats(ctx, sps) + _stats(ctx, rfut.result())
    pool.shutdown()
    ctx.log("real worlds: " + " ".join("%s=%d" % kv for kv in sorted(st.items())))
    dead = [k for k in ("worlds", "blocks", "votes", "persists", "restarts", "offers", "crafted", "forced", "refused", "upgrades", "newgen", "delivers", "probes",
                        "queries", "full", "lagged", "empty", "cases", "listener", "reorgs", "crashes", "crashkept") if not st.get(k)]

    # 3. trace validation: groups of shards side by side (one TLC each); every world starts with its own Genesis line
    files = [j[1] for j in sjobs + rjobs]
    nlines = sum(sum(1 for _ in open(f)) for f in files)
    groups = [[] for _ in range(3 if quick else 6)]
    for i, f in enumerate(sorted(files, key=os.path.getsize, reverse=True)):
        groups[i % len(groups)].append(f)
    traces = []
    quirks = collections.Counter()
    evs = collections.Counter()
    for i, g in enumerate(x for x in groups if x):
        t = ctx.path("upgrade_%d.ndjson" % i)
        rows = []
        for fn in g:
            rows += vlib.read_ndjson(fn)
        quirks += _annotate(rows)
        for row in rows:
            evs[row.get("ev")] += 1
        vlib.write_ndjson(t, rows)
        traces.append(t)
    dead += ["%s line" % e for e in ("Genesis", "Query", "Vote", "Persist", "Restart", "Offer", "Block", "Deliver", "Probe", "Reorg", "Crash", "Case", "Listener")
             if not evs.get(e)]
    with concurrent.futures.ThreadPoolExecutor(max_workers=len(traces)) as ex:
        infos = list(ex.map(lambda j: _validate(ctx, j[1], "t%d" % j[0]), list(enumerate(traces))))
    drift = sum(i["drift"] for i in infos)
    drift_kinds = collections.Counter()
    clean = True
    for t, info in zip(traces, infos):
        for _, name in info["drift_at"]:
            drift_kinds[name] += 1
        if not info["ok"]:
            _report(ctx, t, info)
    clean = not ctx.violations
    for q, n in sorted(quirks.items()):
        note = "observation outside the listed properties (Upgrade.tla, quirk %s, seen %d times): %s" % (q, n, QUIRKS.get(q, ""))
        if not any(x.startswith(note[:70]) for x in ctx.notes):
            ctx.notes.append(note)
    if drift:
        ctx.notes.append("conformance drift (exact prediction of Upgrade.tla not met, no clause broken): %d - %s" % (drift, dict(drift_kinds)))

    # vacuity: a class of steps the module claims was never produced.  When the real code at the same time breaks clauses, the
    # missing class is most likely a consequence of that behaviour (validators admitting what they should refuse leave nothing to
    # force): the violations are the result; otherwise the check did not do its job
    if dead:
        if ctx.violations:
            ctx.notes.append("step classes never produced in this run: %s" % ", ".join(dead))
        else:
            raise vlib.CheckError("the driver never produced %s (dead driver)" % ", ".join("'%s'" % d for d in dead))

    # binding self-test
    if clean:
        selftest_upgrade(ctx, traces)

    return {
        "upg_states": states, "upg_transitions": trans, "upg_model_cfgs": ["MC_Upgrade_%s.cfg" % f for f in fams] + ["MC_Upgrade_sim.cfg", "MC_UpgradeQ.cfg"],
        "upg_traces_validated_against_impl": st.get("worlds", 0), "upg_trace_lines": nlines,
        "upg_real": {k: st.get(k, 0) for k in sorted(st)},
        "upg_events": dict(evs),
        "upg_exported_by_kind": kinds,
        "upg_schedules_replayed": len(scen), "upg_walks_replayed": len(walks), "upg_random_histories": nshard * per, "upg_table_cases": len(table),
        "upg_samples": [scen[0]["steps"][:12], walks[0]["steps"][:20]],
        "upg_conformance_drift": drift, "upg_drift_kinds": dict(drift_kinds),
        "upg_quirks_observed": dict(quirks),
        "upg_rule": "bounded Upgrade model explored exhaustively in %d families (3 nodes; worlds at version 10 / 11, with / without new genesis, validation far / "
                    "close) + %d random walks (depth 40) + the upgrader case table (%d cases); %d schedules per transition class and %d seeded random histories "
                    "(%d steps, 3-5 identities, any subset online) run on real multi-node worlds; every clause of Trace_Upgrade evaluated on every observed step"
                    % (len(fams), len(walks), len(table), 3 if quick else 30, nshard * per, rlen),
    }


def selftest_upgrade(ctx, traces):
    """Binding self-test: a recorded good prefix (whole worlds) is accepted; with one field corrupted (a node that did not
    take the upgrade) it breaks a clause; with one Block line removed it is no behaviour of the specification."""
    # whole worlds without rollbacks and crashes (on the unchanged tree those show the pending findings), at least one with an
    # upgrade block
    keep = []
    seen_upg = False
    for t in traces:
        world = []
        for row in vlib.read_ndjson(t) + [{"ev": "Genesis"}]:
            if row.get("ev") in ("Genesis", "Case", "Listener") and world:
                if not any(r.get("ev") in ("Reorg", "Crash") for r in world) and not (len(keep) > 250 and seen_upg):
                    keep += world
                    if any(r.get("ev") == "Block" and r.get("blk", {}).get("upg") and len(r.get("sts", [])) > 1 for r in world):
                        seen_upg = True
                world = []
            if row.get("ev") not in ("Case", "Listener") and "hid" in row:
                world.append(row)
        if len(keep) > 250 and seen_upg:
            break
    if not seen_upg:
        raise vlib.CheckError("self-test found no upgrade block in the recorded traces")
    good = ctx.path("selftest", "upgrade_good.ndjson")
    vlib.write_ndjson(good, keep)
    info = _validate(ctx, good, "self_good")
    if not info["ok"]:
        raise vlib.CheckError("binding self-test: the recorded prefix itself is rejected: %s" % info)
    bad_rows = json.loads(json.dumps(keep))
    done = False
    for i, row in enumerate(bad_rows):
        if row.get("ev") == "Block" and row.get("blk", {}).get("upg") and len(row.get("sts", [])) > 1:
            pre = {s["n"]: s for r in bad_rows[:i] if "sts" in r for s in r["sts"]}
            for s in row["sts"]:
                if s["ver"] != pre.get(s["n"], s)["ver"]:
                    old = pre[s["n"]]
                    s["ver"], s["e11"], s["e12"], s["stored"], s["target"] = old["ver"], old["e11"], old["e12"], old["stored"], old["target"]
                    done = True
                    break
        if done:
            break
    if not done:
        raise vlib.CheckError("self-test could not build a corrupted trace")
    bad = ctx.path("selftest", "upgrade_bad.ndjson")
    vlib.write_ndjson(bad, bad_rows)
    info2 = _validate(ctx, bad, "self_bad")
    broken = set(c for _, c in info2["broken"])
    if info2["ok"] or not broken & {"VersionByChain", "SameChainSameVersion"}:
        raise vlib.CheckError("binding self-test failed: a trace in which a node ignores the upgrade block was accepted by Trace_Upgrade")
    cut = [r for i, r in enumerate(keep) if not (r.get("ev") == "Block" and i == next(j for j, x in enumerate(keep) if x.get("ev") == "Block"))]
    cutf = ctx.path("selftest", "upgrade_cut.ndjson")
    vlib.write_ndjson(cutf, cut)
    info3 = _validate(ctx, cutf, "self_cut")
    if info3["ok"]:
        raise vlib.CheckError("binding self-test failed: a trace with a block insertion removed was accepted by Trace_Upgrade")
    ctx.log("binding self-test: corrupted trace rejected (%s), truncated trace rejected (%s)"
            % (", ".join(sorted(broken)), "line %s" % info3["rejected_at"] if info3["rejected_at"] is not None else ", ".join(sorted(c for _, c in info3["broken"]))))
