"""Stand-alone entry for the growth module "KEYS" of C16 (publication and delivery of flip keys through the key pools):
   tools/check C16K --tier quick|thorough
runs props.extra_keys.run exactly as the C16 check does when it includes the module, and writes evidence/C16K.json.
Findings are matched against the known findings of C16."""
import vlib
from props import extra_keys


def main(ctx):
    ctx.prop = "C16"          # violations of this module are C16 findings (keys C16:KEYS:...)
    try:
        cov = extra_keys.run(ctx, ctx.tier == "quick")
    finally:
        ctx.prop = "C16K"
    cov2 = {"states": cov["keys_states"], "transitions": cov["keys_transitions"],
            "traces_validated_against_impl": cov["keys_traces_validated_against_impl"],
            "samples": cov["keys_samples"], "rule": cov["keys_rule"]}
    cov2.update(cov)
    return vlib.finish(ctx, "model_checking", cov2, assumptions=[
        "the network is the harness: it hands the bytes a node's bus announces (what the gossip handler would broadcast) to other nodes' pools in the scheduled "
        "order; the wire codec and the push / pull tracker are the subjects of C12 / C20",
        "the scripted ceremonies carry no answers: what an identity becomes at the epoch block is scenario input (VerifSetEpochResult); one shard",
        "the two goroutines of the ceremony that wait on the wall clock (short-session timer, delayed package broadcast) are run by the schedule through export "
        "shims; the publication code they call is the repository's",
        "flip encryption keys are a function of identity and epoch (true for the toolchains the repository supports; with go >= 1.20 ecdsa.GenerateKey is not a "
        "function of its reader: the harness pins the keys, see the evidence notes)",
        "every identity's public key is in the state (identities enter through invitation + activation as on the real network)",
    ])
