"""C02 - every block built by an honest proposer is accepted by every honest validator.

Blocks are built by the REAL ProposeBlock from the real mempool fed with a seeded mix of valid, stale,
gapped, under-funded, wrong-period, wrong-epoch, replayed and malformed transactions of every plain
type (and by GenerateEmptyBlock), travel as bytes to five other real replicas that reach the same head
through different node-local histories, and are validated (ValidateBlock) and inserted (AddBlock)
there.  Trace_Replicas evaluates ProposedAccepted on the recorded verdicts: every replica whose head is
the proposal's parent accepts, on both paths."""
import json

import chainlib
import vlib
from props.c01 import export_schedules
from props.c13 import selftest_reject

MINE = {"ProposedAccepted"}


KNOWN_SIDE_EFFECT_TYPES = {18: "DelegateTx", 10: "KillInviteeTx", 20: "KillDelegatorTx"}


def describe(clause, row, rows, line):
    bad = {k: v for k, v in row.get("verdicts", {}).items() if v != "ok"}
    diag = row.get("diag") or {}
    if diag and set(bad.values()) == {"roots-mismatch"} and len(bad) == len(row.get("verdicts", {})) and not diag.get("nondet") \
            and diag.get("sameBodyThroughValidatingPathAccepted"):
        # every replica, the proposer included, deterministically refuses the proposal, while the SAME body assembled through
        # the validating path is accepted by everybody: the building path left something in the proposer's check state.
        culprits = [x for x in (diag.get("skipped") or []) if x.get("type") in KNOWN_SIDE_EFFECT_TYPES and not x.get("toHasIdentityRecord")]
        if culprits:
            key = "ProposedAccepted:filter-skipped-tx-leaves-empty-identity-record"
            what = ("block %s of history %s: the proposer's filter attempted and skipped %s whose recipient has no identity record; validating it reads "
                    "StateDB.Delegatee / GetInviter, which CREATE (and dirty) an empty identity object, so the proposer's check state - and the roots it "
                    "puts in the header - contain a record no validator computes; every replica including the proposer refuses the block (chain stalls "
                    "while the transactions sit in the pools). Body types %s; the same body through the validating path is accepted by all." % (
                        row.get("h"), row.get("hid"),
                        json.dumps([{"type": KNOWN_SIDE_EFFECT_TYPES[c["type"]], "to": c.get("to")} for c in culprits]),
                        sorted({t.get("type") for t in (row.get("txs") or [])})))
            return key, what
        key = "ProposedAccepted:filter-side-effect:%s" % ",".join(str(x.get("type")) for x in (diag.get("skipped") or []))
        return key, "block %s of history %s: building path and validating path of the same node disagree deterministically; skipped by the filter: %s" % (
            row.get("h"), row.get("hid"), json.dumps(diag.get("skipped")))
    types_in = sorted({t.get("type") for t in (row.get("txs") or [])} | {s.get("type") for s in (row.get("subs") or []) if s.get("pool") == "ok"})
    errs = sorted(set(bad.values()))
    key = "ProposedAccepted:%s:%s" % (row.get("kind"), "|".join(e[:40] for e in errs))
    what = "block %s of history %s (kind %s, flags %s) built by honest proposer %s was refused by in-sync replica(s) %s; tx types offered %s; pre-histories %s" % (
        row.get("h"), row.get("hid"), row.get("kind"), row.get("flags"), row.get("proposer"), json.dumps(bad), types_in, json.dumps(row.get("hists")))
    return key, what


def main(ctx):
    quick = ctx.tier == "quick"
    r, sched, samples = export_schedules(ctx, 8 if quick else 64)
    trace, stats, out = chainlib.run_histories(ctx, quick, extra_args=["-big", "-double-delegate"], sched=sched)
    if stats is None:
        raise vlib.CheckError("driver failed:\n" + out[-3000:])
    ok, info = chainlib.validate(ctx, trace, "Trace_Replicas.tla", "Trace_Replicas.cfg", MINE, "C02", describe)
    rows = vlib.read_ndjson(trace)
    blocks = [x for x in rows if x.get("ev") == "Block"]
    included = sum(len(x.get("txs") or []) for x in blocks)
    offered = sum(len(x.get("subs") or []) for x in blocks)
    types_in = sorted({t["type"] for x in blocks for t in (x.get("txs") or [])})
    if included == 0:
        raise vlib.CheckError("no transaction was ever included (dead generator)")

    def mutate(rows_):
        for row in rows_:
            if row.get("ev") == "Block" and row.get("verdicts"):
                k = sorted(row["verdicts"])[-1]
                row["verdicts"][k] = "invalid block cid"
                return rows_
        return None
    # binding self-test on the ordinary histories (the minimal known-finding scenario, history 900, is refused by design)
    st_trace = ctx.path("selftest_src.ndjson")
    vlib.write_ndjson(st_trace, [x for x in rows if x.get("hid") != 900][:80])
    selftest_reject(ctx, "Trace_Replicas.tla", "Trace_Replicas.cfg", st_trace, mutate, n_lines=60)
    cov = {"states": r.distinct, "transitions": r.generated,
           "traces_validated_against_impl": stats.get("histories", 0),
           "proposals": len(blocks), "txs_offered": offered, "txs_included": included, "tx_types_included": types_in,
           "samples": [{k: blocks[len(blocks) // 2].get(k) for k in ("h", "kind", "flags", "proposer", "verdicts", "hists")}],
           "rule": "every block produced by ProposeBlock / GenerateEmptyBlock on a real node from a seeded hostile mempool mix is "
                   "validated and inserted by 5 other real replicas reaching the same head through TLC-exported node-local history "
                   "shapes; included-tx counts per type are reported so that an always-empty block cannot pass vacuously"}
    return vlib.finish(ctx, "model_checking", cov, assumptions=[
        "V12 consensus configuration; contract transactions are exercised by C15's driver",
        "proposer eligibility as enforced on insertion (online identity, or god with no online identity)"])
