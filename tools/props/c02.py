"""C02 - every block built by an honest proposer is accepted by every honest validator.

Blocks are built by the REAL ProposeBlock from the real mempool fed with a seeded mix of valid, stale,
gapped, under-funded, wrong-period, wrong-epoch, replayed and malformed transactions of every plain
type (and by GenerateEmptyBlock), travel as bytes to five other real replicas that reach the same head
through different node-local histories, and are validated (ValidateBlock) and inserted (AddBlock)
there.  Trace_Replicas evaluates ProposedAccepted on the recorded verdicts: every replica whose head is
the proposal's parent accepts, on both paths."""
import json

import chainlib
import vlib
from props.c01 import export_schedules
from props.c13 import selftest_reject

MINE = {"ProposedAccepted"}


KNOWN_SIDE_EFFECT_TYPES = {18: "DelegateTx", 10: "KillInviteeTx", 20: "KillDelegatorTx"}


def describe(clause, row, rows, line):
    bad = {k: v for k, v in row.get("verdicts", {}).items() if v != "ok"}
    diag = row.get("diag") or {}
    if diag and set(bad.values()) == {"roots-mismatch"} and len(bad) == len(row.get("verdicts", {})) and not diag.get("nondet") \
            and diag.get("sameBodyThroughValidatingPathAccepted"):
        # every replica, the proposer included, deterministically refuses the proposal, while the SAME body assembled through
        # the validating path is accepted by everybody: the building path left something in the proposer's check state.
        culprits = [x for x in (diag.get("skipped") or []) if x.get("type") in KNOWN_SIDE_EFFECT_TYPES and not x.get("toHasIdentityRecord")]
        if culprits:
            key = "ProposedAccepted:filter-skipped-tx-leaves-empty-identity-record"
            what = ("block %s of history %s: the proposer's filter attempted and skipped %s whose recipient has no identity record; validating it reads "
                    "StateDB.Delegatee / GetInviter, which CREATE (and dirty) an empty identity object, so the proposer's check state - and the roots it "
                    "puts in the header - contain a record no validator computes; every replica including the proposer refuses the block (chain stalls "
                    "while the transactions sit in the pools). Body types %s; the same body through the validating path is accepted by all." % (
                        row.get("h"), row.get("hid"),
                        json.dumps([{"type": KNOWN_SIDE_EFFECT_TYPES[c["type"]], "to": c.get("to")} for c in culprits]),
                        sorted({t.get("type") for t in (row.get("txs") or [])})))
            return key, what
        key = "ProposedAccepted:filter-side-effect:%s" % ",".join(str(x.get("type")) for x in (diag.get("skipped") or []))
        return key, "block %s of history %s: building path and validating path of the same node disagree deterministically; skipped by the filter: %s" % (
            row.get("h"), row.get("hid"), json.dumps(diag.get("skipped")))
    types_in = sorted({t.get("type") for t in (row.get("txs") or [])} | {s.get("type") for s in (row.get("subs") or []) if s.get("pool") == "ok"})
    errs = sorted(set(bad.values()))
    key = "ProposedAccepted:%s:%s" % (row.get("kind"), "|".join(e[:40] for e in errs))
    what = "block %s of history %s (kind %s, flags %s) built by honest proposer %s was refused by in-sync replica(s) %s; tx types offered %s; pre-histories %s" % (
        row.get("h"), row.get("hid"), row.get("kind"), row.get("flags"), row.get("proposer"), json.dumps(bad), types_in, json.dumps(row.get("hists")))
    return key, what


def gas_part(ctx, quick):
    """Gas.tla: pool offer (static gas), proposer's filter (include, then test) and validator (one crossing transaction tolerated)
    on every list over small weights; one list per relation pattern is realised with real transactions whose cumulative gas lands
    on the real cap exactly where the model list lands on the model cap."""
    import random
    g = chainlib.model_run(ctx, "MC_Gas.tla", "MC_Gas.cfg")
    by = {}
    for e in sorted(g.exports, key=lambda x: json.dumps(x, sort_keys=True)):
        by.setdefault(("".join(e["pat"]), "".join(e["spat"]), e["offered"], e["block"]), []).append(e)
    rnd = random.Random(ctx.seed)
    cases = []
    for k in sorted(by):
        rnd.shuffle(by[k])
        cases += by[k][: (1 if quick else 10)]
    if not any("=" in k[0] and k[3] > k[0].index("=") + 1 for k in by):
        raise vlib.CheckError("Gas model exported no list that lands exactly on the cap and continues (vacuous bounds)")
    cfile = ctx.path("gascases.json")
    with open(cfile, "w") as f:
        for c in cases:
            f.write(json.dumps(c) + "\n")
    drv = vlib.build_driver(ctx, "d_chain", clocks=chainlib.CLOCKS)
    trace = ctx.path("gas.ndjson")
    p = vlib.run_driver(ctx, drv, ["-out", trace, "-gas", cfile], timeout=3000)
    if p.returncode != 0:
        vlib.driver_failure(ctx, p.stdout, "driver failed on the gas-boundary scenarios")
    rows = vlib.read_ndjson(trace)

    def describe_gas(clause, row, rows_, line):
        bad = {k: v for k, v in row.get("verdicts", {}).items() if v != "ok"}
        # the GasCase line that follows tells which boundary pattern the refused block realises
        nxt = next((x for x in rows_[line:] if x.get("ev") == "GasCase" and x.get("hid") == row.get("hid")), {})
        pat = "".join((nxt.get("case") or {}).get("pat") or [])
        errs = sorted(set(bad.values()))
        key = "ProposedAccepted:gas-boundary:%s:%s" % (pat, "|".join(e[:40] for e in errs))
        what = ("gas-boundary scenario %s: the honest proposer's block for the list %s (cumulative totals vs the cap: %s; the pool offered "
                "%s, the model's block takes %s) was refused by in-sync replica(s) %s" % (
                    row.get("hid"), json.dumps((nxt.get("case") or {}).get("txs")), pat, (nxt.get("case") or {}).get("offered"),
                    (nxt.get("case") or {}).get("block"), json.dumps(bad)))
        return key, what
    ok1, _ = chainlib.validate(ctx, trace, "Trace_Replicas.tla", "Trace_Replicas.cfg", MINE, "C02", describe_gas)
    ok2, info = vlib.trace_validate(ctx, "Trace_Gas.tla", "Trace_Gas.cfg", trace, timeout=1200)
    not_realised = [b for b in (info.get("broken") or []) if b[1] == "NotRealised"]
    if not ok2 and not info.get("broken"):
        raise vlib.CheckError("gas trace rejected without a clause: %s" % json.dumps(info)[:800])
    if ok1 and not_realised:
        # (when the block was refused the violation is already reported; a case that is not realised otherwise proves nothing)
        raise vlib.CheckError("gas-boundary scenarios not realised on the real chain (dead scenario): %s"
                              % json.dumps([rows[b[0] - 1] for b in not_realised[:2]])[:1500])
    for line, clause in (info.get("broken") or []):
        if clause == "ProposedAccepted" and ok1:
            row = rows[line - 1]
            vlib.report_violation(ctx, "C02:ProposedAccepted:gas-boundary-leftovers:%s" % "".join(row["case"]["pat"]),
                                  "gas-boundary scenario %s: the block that takes the leftovers of list %s was refused" % (row.get("hid"), json.dumps(row["case"]["txs"])),
                                  payload={"case": row["case"]})
    n = sum(1 for x in rows if x.get("ev") == "GasCase")
    ctx.log("gas boundary: %d model states, %d relation patterns, %d lists realised exactly on the real cap, drift %s"
            % (g.distinct, len(by), n, info.get("drift")))
    return {"gas_model_states": g.distinct, "gas_patterns": len(by), "gas_lists_realised": n, "gas_drift": info.get("drift")}


def filter_part(ctx, quick):
    """Filter.tla: the proposer's filter attempts and SKIPS transactions (at validation: a conflict with an earlier transaction
    of the block; at application: the follow-ups queued behind a refused transaction) and must leave nothing of them in its check
    state.  TLC checks FilterLeavesNoTrace on every offer pattern (cause x follow-ups x account situation of the sender x epoch),
    a deliberately broken filter must violate it, and every pattern is realised with real transactions through the real pools and
    ProposeBlock; the blocks are judged by every replica like all others (ProposedAccepted)."""
    import collections
    f = chainlib.model_run(ctx, "MC_Filter.tla", "MC_Filter.cfg", workers=2)
    fb = vlib.tlc(ctx, "MC_Filter.tla", "MC_Filter_bug_rollover.cfg", workers=2, timeout=600, want_exports=False)
    if fb.ok or fb.invariant != "FilterLeavesNoTrace":
        raise vlib.CheckError("specification self-test failed: the filter with Bug=rollover does not violate FilterLeavesNoTrace")
    cases = sorted(f.exports, key=lambda e: json.dumps(e, sort_keys=True))
    if len(cases) < 40:
        raise vlib.CheckError("Filter model exported only %d offer patterns (vacuous bounds)" % len(cases))
    cfile = ctx.path("filtercases.json")
    with open(cfile, "w") as fo:
        for c in cases:
            fo.write(json.dumps(c) + "\n")
    drv = vlib.build_driver(ctx, "d_chain", clocks=chainlib.CLOCKS)
    trace = ctx.path("filter.ndjson")
    p = vlib.run_driver(ctx, drv, ["-out", trace, "-filter", cfile], timeout=3000)
    if p.returncode != 0:
        vlib.driver_failure(ctx, p.stdout, "driver failed on the filter scenarios")
    rows = vlib.read_ndjson(trace)

    def describe_filter(clause, row, rows_, line):
        bad = {k: v for k, v in row.get("verdicts", {}).items() if v != "ok"}
        nxt = next((x for x in rows_[line:] if x.get("ev") == "FilterCase" and x.get("hid") == row.get("hid")), {})
        cs = nxt.get("case") or {}
        errs = sorted(set(bad.values()))
        key = "ProposedAccepted:filter:%s:%s:%s" % (cs.get("cause", "leftovers"), cs.get("acct", "-"), "|".join(e[:40] for e in errs))
        what = ("filter scenario %s (%s): the honest proposer's block built from a pool holding %s was refused by in-sync replica(s) %s; the filter "
                "included %s and skipped %s of the submitted transactions" % (row.get("hid"), json.dumps(cs), json.dumps(nxt.get("modelOffer")),
                                                                              json.dumps(bad), json.dumps(nxt.get("included")), nxt.get("skipped")))
        return key, what
    chainlib.validate(ctx, trace, "Trace_Replicas.tla", "Trace_Replicas.cfg", MINE, "C02", describe_filter)
    real = collections.Counter()
    for x in rows:
        if x.get("ev") == "FilterCase" and x.get("skipped", 0) > 0:
            cs = x["case"]
            real[cs["cause"]] += 1
            real["acct:" + cs["acct"]] += 1
            real["epoch:" + cs["epoch"]] += 1
            if x["skipped"] >= 2:
                real["skipped-at-application"] += 1
    dead = [k for k in ("double-invite", "killed-invitee", "self-kill", "overspend", "acct:stale", "acct:fresh", "acct:current", "epoch:e1", "skipped-at-application") if not real[k]]
    if dead:
        raise vlib.CheckError("filter scenarios: never realised a skip of class %s (dead scenario); realised %s" % (dead, dict(real)))
    n = sum(1 for x in rows if x.get("ev") == "FilterCase")
    ctx.log("filter: %d model states, %d offer patterns, %d realised on real chains (%d with skips), broken filter rejected by the model"
            % (f.distinct, len(cases), n, sum(1 for x in rows if x.get("ev") == "FilterCase" and x.get("skipped", 0) > 0)))
    return {"filter_model_states": f.distinct, "filter_patterns": len(cases), "filter_cases_realised": n, "filter_skips_realised": dict(real)}


def main(ctx):
    quick = ctx.tier == "quick"
    r, sched, samples = export_schedules(ctx, 8 if quick else 64)
    trace, stats, out = chainlib.run_histories(ctx, quick, extra_args=["-big", "-double-delegate", "-contracts"], sched=sched)
    if stats is None:
        vlib.driver_failure(ctx, out)
    ok, info = chainlib.validate(ctx, trace, "Trace_Replicas.tla", "Trace_Replicas.cfg", MINE, "C02", describe)
    rows = vlib.read_ndjson(trace)
    blocks = [x for x in rows if x.get("ev") == "Block"]
    included = sum(len(x.get("txs") or []) for x in blocks)
    offered = sum(len(x.get("subs") or []) for x in blocks)
    types_in = sorted({t["type"] for x in blocks for t in (x.get("txs") or [])})
    if included == 0:
        raise vlib.CheckError("no transaction was ever included (dead generator)")

    def mutate(rows_):
        for row in rows_:
            if row.get("ev") == "Block" and row.get("verdicts"):
                k = sorted(row["verdicts"])[-1]
                row["verdicts"][k] = "invalid block cid"
                return rows_
        return None
    # binding self-test on the ordinary histories (the minimal known-finding scenario, history 900, is refused by design)
    st_trace = ctx.path("selftest_src.ndjson")
    vlib.write_ndjson(st_trace, [x for x in rows if x.get("hid") != 900][:80])
    selftest_reject(ctx, "Trace_Replicas.tla", "Trace_Replicas.cfg", st_trace, mutate, n_lines=60)
    gcov = gas_part(ctx, quick)
    fcov = filter_part(ctx, quick)
    cov = {"states": r.distinct, "transitions": r.generated,
           "traces_validated_against_impl": stats.get("histories", 0), **gcov, **fcov,
           "proposals": len(blocks), "txs_offered": offered, "txs_included": included, "tx_types_included": types_in,
           "samples": [{k: blocks[len(blocks) // 2].get(k) for k in ("h", "kind", "flags", "proposer", "verdicts", "hists")}],
           "rule": "every block produced by ProposeBlock / GenerateEmptyBlock on a real node from a seeded hostile mempool mix is "
                   "validated and inserted by 5 other real replicas reaching the same head through TLC-exported node-local history "
                   "shapes; included-tx counts per type are reported so that an always-empty block cannot pass vacuously"}
    return vlib.finish(ctx, "model_checking", cov, assumptions=[
        "V12 consensus configuration; contract transactions appear only as embedded multisig deployments in the gas-boundary scenarios (C15 owns contracts)",
        "proposer eligibility as enforced on insertion (online identity, or god with no online identity)"])
