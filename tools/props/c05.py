"""C05 - a transaction can only spend its signer's funds (clause OnlySigner of Ledger.tla on every
block that carries exactly one transaction and does not finish a validation)."""
from props.c04 import run


def main(ctx):
    return run(ctx, "C05")
