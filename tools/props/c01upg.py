"""Stand-alone entry for the growth module "UPG" of C01 (consensus upgrade voting, activation, intermediate genesis):
   tools/check C01UPG --tier quick|thorough
runs props.extra_upgrade.run exactly as the C01 check does when it includes the module, and writes evidence/C01UPG.json.
Findings are matched against the known findings of C01."""
import vlib
from props import extra_upgrade


def main(ctx):
    ctx.prop = "C01"          # violations of this module are C01 findings (keys C01:UPG:...)
    try:
        cov = extra_upgrade.run(ctx, ctx.tier == "quick")
    finally:
        ctx.prop = "C01UPG"
    cov2 = {"states": cov["upg_states"], "transitions": cov["upg_transitions"],
            "traces_validated_against_impl": cov["upg_traces_validated_against_impl"],
            "samples": cov["upg_samples"], "rule": cov["upg_rule"]}
    cov2.update(cov)
    return vlib.finish(ctx, "model_checking", cov2, assumptions=[
        "the chain-level worlds have no pools, no delegations and no discriminated identities (the fork committee is the set of online identities); "
        "discriminated, offline and foreign voters are bound at upgrader level through the MC_UpgradeQ case table",
        "no validation ceremony runs inside a world (the next validation stays ahead; the distance rule is exercised through the configured interval)",
        "restarts are clean process starts over the node's database (crashes inside AddBlock are C09's); main.go's anonymous configuration transformation "
        "(six lines of package main) is repeated in the driver's boot(), everything it calls is the repository's code",
        "MigrationTimeout = 0 (the pause after an upgrade block is not a property of this module)",
        "fast sync across an upgrade block (protocol/fast.go: preliminary consensus version, RevertConfig) is not driven",
    ])
