"""Growth module "OD" of C10: offline detection, offline penalties and online status switching.

spec/Offline.tla specifies what the code behind blockchain/offline_detector.go (ProposeOffline, VoteForOffline,
ValidateBlock, the TurnOffline vote book) and the Offline* header flags in blockchain.go (OnlineStatusTx, the status-switch
block every StatusSwitchRange blocks, delayed offline penalties, penalty seconds served at rewards, epoch clearing) does,
one definition per real step.

1. TLC explores spec/MC_Offline.tla (bounded: 3 identities + god, rounds with proposer / transaction / Byzantine voter /
   deaf node / crafted block / forced block choices, waits, silences, a validation ceremony) with the design invariants
   (ActiveNeverPenalised, OnlineValid, ClockSane) and exports scenarios: one per interesting transition class (sampled),
   plus random walks of a larger instance.
2. harness/cmd/d_offline runs every scenario and seeded random histories on REAL multi-node worlds (real detectors fed by
   real votes through the real vote pool, real ProposeBlock / ValidateBlock / AddBlock, real certificates, malicious
   proposers through the VerifCraftOfflineBlock shim; every proposal is judged by every awake node through
   OfflineDetector.ValidateBlock, Blockchain.ValidateBlock and - when the proposer's sortition is valid - the validators'
   whole proposal path pengings.Proposals.AddProposedBlock) and records what happened.
   The committee rule of verifyOfflineProposing (heads above height 3634300, the rule in force on the main network, not
   reachable by a test chain) is bound through a TLC case table (MC_OfflineThr) replayed on a real detector that gets its
   head through its own event bus, the round's validators through PushValidators and real votes through ProcessVote.
3. TLC validates the recorded trace against spec/Trace_Offline.tla; every property clause is evaluated on the observed
   states; a broken clause is the verdict.

run(ctx, quick) returns the coverage dict; violations go through vlib.report_violation with keys C10:OD:<clause>:<signature>.
"""
import collections
import concurrent.futures
import json
import os
import random
import shutil
import time

import vlib

CLOCKS = ["blockchain/blockchain.go", "blockchain/offline_detector.go"]

GAP_WHAT = {
    "both-flags": "OfflinePropose and OfflineCommit together",
    "no-address": "OfflinePropose without an offline address",
    "target-not-online": "an Offline flag naming an address that is not an online identity",
    "target-already-penalised": "an Offline flag naming an identity that already awaits its offline penalty",
    "during-ceremony": "an Offline flag during a validation ceremony",
    "target-has-pending-switch": "an Offline flag naming an identity with a pending status switch",
    "commit-without-proposal": "OfflineCommit although the previous block carried no OfflinePropose",
    "commit-for-other-address": "OfflineCommit for another address than the one the previous block proposed",
}

NEED_KINDS = ["propose", "commit", "commit-refused", "penalty", "cancel", "switch-on", "switch-off", "serve",
              "craft:commit-without-proposal:refused", "craft:commit-without-proposal:forced", "craft:commit-for-other-address:refused", "craft:both-flags:refused",
              "craft:no-address:refused", "craft:target-not-online:refused", "craft:consistent:adopted:heard", "craft:consistent:adopted:idle-mid"]


def _shards(ctx, drv, jobs, timeout):
    """Run several driver processes side by side (one virtual clock per process), each in its own scratch cwd."""
    def one(j):
        i, args = j
        wd = ctx.path("wd_od_%d" % i, "x")
        wd = os.path.dirname(wd)
        p = vlib.run([drv] + args, cwd=wd, env={"VERIF_SEED": str(ctx.seed), "VERIF_TIER": ctx.tier}, timeout=timeout, check=False)
        shutil.rmtree(wd, ignore_errors=True)
        return p
    with concurrent.futures.ThreadPoolExecutor(max_workers=max(1, min(len(jobs), max(2, ctx.cores - 2)))) as ex:
        return list(ex.map(one, list(enumerate(jobs))))


def _stats(ps):
    tot = collections.Counter()
    for p in ps:
        out = (p.stdout or "")
        if p.returncode != 0:
            raise vlib.CheckError("d_offline failed:\n" + out[-3000:])
        last = out.strip().splitlines()[-1] if out.strip() else ""
        for tok in last.split():
            if "=" in tok:
                k, v = tok.split("=", 1)
                try:
                    tot[k] += int(v)
                except ValueError:
                    pass
    return tot


def _pick(exports, rnd, per_kind):
    by = collections.defaultdict(list)
    for e in exports:
        by[e.get("kind", "walk")].append(e)
    res = []
    for k in sorted(by):
        lst = sorted(by[k], key=lambda e: json.dumps(e, sort_keys=True))   # TLC's print order depends on worker timing
        rnd.shuffle(lst)
        res += lst[:per_kind]
    return res, {k: len(v) for k, v in by.items()}


def _maximal(exports):
    """Simulation prints every prefix of every walk: keep the walks that are no proper prefix of another one."""
    seen = set()
    res = []
    for e in sorted(exports, key=lambda e: -len(e["steps"])):
        key = json.dumps(e["steps"], sort_keys=True)
        if key in seen:
            continue
        res.append(e)
        st = e["steps"]
        for i in range(1, len(st) + 1):
            seen.add(json.dumps(st[:i], sort_keys=True))
    return res


def _signature(clause, row):
    ev = row.get("ev")
    if clause == "ValidatorNoPanic":
        po, off = row.get("prevoff", [0, 0]), row.get("off", [0, 0])
        if po[0] in (1, 3) and po[1] == -1 and off[0] in (2, 3):
            return "commit-after-addressless-proposal"
        return "off%d-after-off%d" % (off[0], po[0])
    if ev == "Offer":
        return "%s-off%d" % ("honest" if row.get("honest") else "crafted", row.get("off", [0])[0])
    if ev == "Block":
        kind = "epoch-block" if row.get("valfin") else "switch-block" if row.get("idupd") else "empty-block" if row.get("empty") else "plain-block"
        return "%s-off%d" % (kind, row.get("off", [0])[0])
    if ev == "Tx":
        return "%s-%s" % ("on" if row.get("on") else "off", row.get("pool"))
    return str(ev)


def _report(ctx, trace, info):
    rows = vlib.read_ndjson(trace)
    broken = info.get("broken")
    if not broken:
        raise vlib.CheckError("offline trace rejected without a broken clause: %s" % json.dumps(info)[:1500])
    gaps = []
    for line, clause in broken:
        row = rows[line - 1]
        start = max(i for i in range(line) if rows[i].get("ev") == "Genesis")
        ex = ctx.path("replay_od_%s.ndjson" % "".join(ch if ch.isalnum() else "_" for ch in clause)[:60])
        vlib.write_ndjson(ex, [rows[start]] + rows[max(start + 1, line - 12):line])
        slim = {k: row.get(k) for k in ("ev", "hid", "h", "t", "prop", "honest", "off", "prevoff", "txs", "verd", "msgs", "forced", "adopt",
                                        "idupd", "valfin", "votes", "from", "on", "pool", "viewdiff", "n", "err", "silent") if k in row}
        if clause.startswith("ChainPathGap:"):
            sig = clause.split(":", 1)[1]
            gaps.append(sig)
            key = "C10:OD:ChainPathGap:" + sig
            what = ("Blockchain.ValidateBlock (block insertion, sync, fork adoption) accepts a block carrying %s; only OfflineDetector.ValidateBlock "
                    "(the proposal path of a voting validator) refuses it. First seen in world %s at height %s: %s"
                    % (GAP_WHAT.get(sig, sig), row.get("hid"), row.get("h"), json.dumps(slim)[:600]))
            # a rule of this growth module's OWN specification, not a clause of a listed property (C10 speaks of the registry's
            # consistency, not of who may be turned offline): recorded as an observation in the evidence, never as a verdict
            note = "observation outside the listed properties (Offline.tla, ChainPathGap:%s): %s" % (sig, what[:500])
            if not any(n.startswith(note[:90]) for n in ctx.notes):
                ctx.notes.append(note)
            continue
        else:
            key = "C10:OD:%s:%s" % (clause, _signature(clause, row))
            what = "clause %s broken by the real code in world %s (trace line %d): %s" % (clause, row.get("hid"), line, json.dumps(slim)[:900])
            if clause == "CacheMatchesState" and row.get("st"):
                what += "; identity-state online flags %s, per-node views (node, live, loaded, live online, loaded online) %s" % (
                    row["st"].get("online"), json.dumps(row.get("views"))[:500])
            elif row.get("ev") == "Block":
                what += "; observed state after the block: %s" % json.dumps({k: row["st"].get(k) for k in ("online", "pend", "delayed", "ps", "pts", "period")})[:600]
        vlib.report_violation(ctx, key, what, replay_src=ex, payload={"clause": clause, "line": line, "world": row.get("hid"), "height": row.get("h")})
    return gaps


def run(ctx, quick):
    rnd = random.Random(ctx.seed)
    drv = vlib.build_driver(ctx, "d_offline", clocks=CLOCKS)

    # seeded random histories start right away (they do not depend on the model run)
    nshard = 4 if quick else 10
    per, rlen = (3, 100) if quick else (20, 200)
    rjobs = [["-out", ctx.path("od_rand_%d.ndjson" % i), "-random", str(per), "-len", str(rlen), "-first", str(i * per)] for i in range(nshard)]
    pool = concurrent.futures.ThreadPoolExecutor(max_workers=1)
    rfut = pool.submit(_shards, ctx, drv, rjobs, 3000)

    # 1. bounded model: design invariants + scenario export
    cfg = "MC_Offline_quick.cfg" if quick else "MC_Offline_thorough.cfg"
    r = vlib.tlc(ctx, "MC_Offline.tla", cfg, workers=8 if quick else 12, timeout=3000, extra=["-seed", str(ctx.seed)])
    if not r.ok:
        raise vlib.CheckError("design-level Offline model violates %s (model-only, not a verdict):\n%s" % (r.invariant, (r.error or "")[:1500]))
    scen, kinds = _pick(r.exports, rnd, 3 if quick else 40)
    for k in NEED_KINDS:
        if not kinds.get(k):
            raise vlib.CheckError("model never exercised a '%s' transition (vacuous bounds)" % k)
    states, trans = r.distinct, r.generated
    ctx.log("model %s: %d generated / %d distinct; %d transition classes exported, replaying %d scenarios" % (cfg, r.generated, r.distinct, len(kinds), len(scen)))
    # 1b. behaviours through a validation ceremony (small exhaustive family)
    rv = vlib.tlc(ctx, "MC_Offline.tla", "MC_Offline_val.cfg", workers=8, timeout=1800, extra=["-seed", str(ctx.seed)])
    if not rv.ok:
        raise vlib.CheckError("design-level Offline model (ceremony family) violates %s (model-only):\n%s" % (rv.invariant, (rv.error or "")[:1500]))
    vscen, vkinds = _pick(rv.exports, rnd, 1 if quick else 12)
    if not vscen:
        raise vlib.CheckError("ceremony family exported nothing (dead generator)")
    states, trans = states + rv.distinct, trans + rv.generated
    kinds.update(vkinds)
    # 1c. random walks of a larger instance
    nwalk = 12 if quick else 220
    rs = vlib.tlc(ctx, "MC_Offline.tla", "MC_Offline_sim.cfg", workers=1, timeout=1800,
                  extra=["-simulate", "num=%d" % nwalk, "-depth", "44", "-seed", str(ctx.seed)], simulate=True)
    if rs.error:
        raise vlib.CheckError("simulation of the Offline model failed (model-only): " + (rs.error or "")[:1500])
    walks = _maximal(rs.exports)[:nwalk]
    if not walks:
        raise vlib.CheckError("no simulation walks exported")
    allscen = scen + vscen + walks
    # 1d. case table of the committee rule (verifyOfflineProposing above height 3634300)
    rt = vlib.tlc(ctx, "MC_OfflineThr.tla", "MC_OfflineThr.cfg", workers=1, timeout=600)
    if not rt.ok:
        raise vlib.CheckError("committee-rule case table violates %s (model-only):\n%s" % (rt.invariant, (rt.error or "")[:1500]))
    thr_cases = sorted(rt.exports, key=lambda e: json.dumps(e, sort_keys=True))
    if not any(e.get("expect") for e in thr_cases) or all(e.get("expect") for e in thr_cases):
        raise vlib.CheckError("committee-rule case table is one-sided (dead generator)")
    states, trans = states + rt.distinct, trans + rt.generated
    ctx.log("ceremony family: %d generated / %d distinct, %d scenarios; simulation: %d walks" % (rv.generated, rv.distinct, len(vscen), len(walks)))

    # 2. replay on real worlds (sharded: the virtual clock is per process)
    rnd.shuffle(allscen)
    sh = 6 if quick else 12
    sjobs = []
    for i in range(sh):
        part = allscen[i::sh]
        if not part:
            continue
        cf = ctx.path("od_cases_%d.json" % i)
        with open(cf, "w") as f:
            for e in part:
                f.write(json.dumps({"kind": e.get("kind"), "nval": e.get("nval", 4), "steps": e["steps"]}) + "\n")
        sjobs.append(["-out", ctx.path("od_scen_%d.ndjson" % i), "-cases", cf, "-first", str(i * 100000)])
    tf = ctx.path("od_thr_cases.json")
    with open(tf, "w") as f:
        for e in thr_cases:
            f.write(json.dumps(e) + "\n")
    sjobs.append(["-out", ctx.path("od_thr.ndjson"), "-thr", tf])
    sps = _shards(ctx, drv, sjobs, 3000)
    st = _stats(sps) + _stats(rfut.result())
    pool.shutdown()
    ctx.log("real worlds: " + " ".join("%s=%d" % kv for kv in sorted(st.items())))
    for k in ("blocks", "proposes", "commits", "penalties", "switches", "refused", "forced", "crafted", "epochs", "restarts", "txs", "thr", "full"):
        if not st.get(k):
            raise vlib.CheckError("the driver never produced '%s' (dead driver)" % k)

    # 3. trace validation: the shards are validated side by side (one TLC each), every world starts with its own Genesis line
    files = [j[1] for j in sjobs + rjobs]
    nlines = sum(sum(1 for _ in open(f)) for f in files)
    groups = [[] for _ in range(4 if quick else 8)]
    for i, f in enumerate(sorted(files, key=os.path.getsize, reverse=True)):
        groups[i % len(groups)].append(f)
    traces = []
    for i, g in enumerate(x for x in groups if x):
        t = ctx.path("offline_%d.ndjson" % i)
        with open(t, "w") as out:
            for fn in g:
                with open(fn) as f:
                    shutil.copyfileobj(f, out)
        traces.append(t)

    def validate(job):
        i, t = job
        time.sleep(0.3 * i)      # vlib.tlc names its scratch directory from a counter and the clock
        return vlib.trace_validate(ctx, "Trace_Offline.tla", "Trace_Offline.cfg", t, timeout=3000)
    with concurrent.futures.ThreadPoolExecutor(max_workers=len(traces)) as ex:
        results = list(ex.map(validate, list(enumerate(traces))))
    gaps = []
    ok = True
    broken_all = []
    for t, (ok1, info) in zip(traces, results):
        if not ok1:
            ok = False
            broken_all += [c for _, c in info.get("broken", [])]
            gaps += _report(ctx, t, info)
    trace = traces[0]

    # binding self-test: an identity that the recorded switch block turned on / off is put back
    def mutate(rows):
        for i, row in enumerate(rows):
            if row.get("ev") == "Block" and row.get("idupd") and i > 0:
                on = row["st"]["online"]
                row["st"]["online"] = on[1:] if on else [1]
                return rows
        return None
    only_gaps = ok or all(c.startswith("ChainPathGap:") or c == "ValidatorNoPanic" for c in broken_all)
    if only_gaps:
        selftest_offline(ctx, trace, mutate)

    return {
        "od_states": states, "od_transitions": trans, "od_model_cfg": cfg,
        "od_traces_validated_against_impl": st.get("worlds", 0), "od_trace_lines": nlines,
        "od_real": {k: st.get(k, 0) for k in ("blocks", "proposes", "commits", "penalties", "switches", "refused", "forced", "crafted", "epochs", "restarts", "txs", "full")},
        "od_exported_by_kind": kinds,
        "od_samples": [scen[0]["steps"][:12], walks[0]["steps"][:20]],
        "od_committee_rule_cases": len(thr_cases),
        "od_chain_path_gaps": sorted(set(gaps)),
        "od_offers_refused_by_detector_but_accepted_by_block_validation": st.get("gap", 0),
        "od_rule": "bounded Offline model explored exhaustively (3 identities + god; <= %s blocks, 2 waits, 1 crafted, 1 forced, 1 Byzantine vote, 1 deaf node, "
                   "1 silence) + ceremony family + %d random walks (depth 44); %d scenarios per transition class and %d seeded random histories (%d steps, "
                   "4-6 identities, restarts, ceremonies, snapshot-triggered switches) run on real multi-node worlds; every clause of Trace_Offline "
                   "evaluated on every observed step" % ("6" if quick else "7", len(walks), 3 if quick else 40, nshard * per, rlen),
    }


def selftest_offline(ctx, trace, mutate):
    """Binding self-test: a corrupted copy of a recorded prefix (whole worlds) must break a clause the recording does not break
    (the recording itself may show the known chain-path gaps)."""
    rows = vlib.read_ndjson(trace)
    keep = []
    for row in rows:
        if row.get("ev") == "Genesis" and len(keep) > 350:
            break
        keep.append(row)
    good = ctx.path("selftest", "offline_good.ndjson")
    vlib.write_ndjson(good, keep)
    ok, info = vlib.trace_validate(ctx, "Trace_Offline.tla", "Trace_Offline.cfg", good)
    base = set(c for _, c in info.get("broken", []))
    bad_rows = mutate(json.loads(json.dumps(keep)))
    if bad_rows is None:
        raise vlib.CheckError("self-test could not build a corrupted trace")
    bad = ctx.path("selftest", "offline_bad.ndjson")
    vlib.write_ndjson(bad, bad_rows)
    ok2, info2 = vlib.trace_validate(ctx, "Trace_Offline.tla", "Trace_Offline.cfg", bad)
    extra = set(c for _, c in info2.get("broken", [])) - base
    if ok2 or not extra:
        raise vlib.CheckError("binding self-test failed: corrupted trace was accepted by Trace_Offline")
    ctx.log("binding self-test: corrupted trace rejected (%s)" % ", ".join(sorted(extra)))
