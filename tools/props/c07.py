"""C07 - a certificate is accepted iff it holds a quorum of distinct committee votes.

1. TLC explores spec/Cert.tla through spec/MC_Cert.tla: every validator-set shape of the bounded
   universe (flags validated / online / discriminated, delegations into two possible pools, god-only
   mode) x vote lists (subsets of the approved members + a deviating vote: byte / malleated / other-flag
   duplicates, non-approved members, delegators voting themselves, strangers, god, stale round / step /
   hash / parent, unrecoverable signatures, first or last in the certificate).  The property invariants
   (Accept => Quorum, Quorum /\\ NoForeign => Accept, every certificate the counter can emit is accepted
   and is a quorum) are checked on every case and the cases are exported.  spec/MC_CertCount.tla walks
   registry sizes 0..150 and exports vote-count boundary cases (Required-1, Required, Required+1, with a
   deviating vote) for registries too large to enumerate as shapes.
2. harness/cmd/d_cert rebuilds every case with REAL keys on the real code: IdentityStateDB ->
   ValidatorsCache.Load, signed votes, FullBlockCert.Compress, the real committee draw, and
   ValidateBlockCert with a nil signer cache, with a shared warm signer cache and through
   ValidateBlockCertOnHead; the votes are also offered to a real pengings.Votes and counted by the real
   consensus countVotes (verif shim), every emitted certificate is fed back into ValidateBlockCert.
   Seeded random larger cases and committee-determinism scenarios (two fresh loads vs. one
   incrementally updated registry over a grid of seeds / rounds / steps) are added.
3. TLC validates the recorded trace against spec/Trace_Cert.tla: the property clauses are evaluated
   on the OBSERVED answers (verdict); equality with the implementation-shaped prediction is drift.
"""
import concurrent.futures
import json
import os
import random
import time

import vlib

CLOCKS = ["consensus/engine.go"]
JAVA = {"_JAVA_OPTIONS": "-Xmx6g"}

ASSUMPTIONS = [
    "secp256k1 recovery is sound: a signature made over other bytes or by another key never recovers to a member's address",
    "the committee draw (seeded permutation) is an input of the model: it is read from the real ValidatorsCache and only "
    "constrained (subset of the sorted registry, right size, identical on every replica)",
    "math.Round(float64(n) * p): at exact decimal ties (n*p = k + 1/2) either rounding is admissible, the code's is taken",
    "countVotes is driven through the verif shim with the threshold expression of its call sites in engine.go; its 500 ms "
    "poll runs under a virtual clock",
]


def tlc_retry(ctx, spec, cfg, **kw):
    """A JVM that dies without a TLC verdict (killed under memory pressure) is retried once."""
    try:
        return vlib.tlc(ctx, spec, cfg, env=JAVA, **kw)
    except vlib.CheckError as ex:
        if "TLC failed" not in str(ex):
            raise
        ctx.log("TLC died without a verdict on %s, retrying once" % cfg)
        kw["sub"] = (kw.get("sub") or "tlc") + "_retry"
        return vlib.tlc(ctx, spec, cfg, env=JAVA, **kw)


def export_lines(r):
    return [e for e in r.exports if isinstance(e, dict)]


def classify(row):
    """Short signature of the deviating content of a case (for violation keys)."""
    votes = row.get("votes") or []
    if not votes:
        return "empty-certificate"
    appr = set(row["comm"]["p"])
    orig = set(row["comm"]["o"])
    vals = set(row["comm"]["v"])
    first = votes[0]
    tags = []
    seen = {}
    for i, v in enumerate(votes):
        hdr = (v["round"], v["step"], v["hash"], v["parent"])
        if v["sig"] == "forged":
            tags.append("unrecoverable-signature")
        elif v["sig"] == "mall":
            tags.append("malleated-duplicate")
        if v["round"] != 0:
            tags.append("other-round")
        if v["parent"] != 0:
            tags.append("other-parent")
        if v["hash"] != row.get("bh", 0):
            tags.append("other-hash")
        if v["step"] != first["step"]:
            tags.append("other-step")
        key = v["voter"]
        if key in seen and v["sig"] != "forged":
            tags.append("same-voter-twice" if (hdr, v["flag"]) == seen[key] else "same-voter-other-flag-or-header")
        seen.setdefault(key, (hdr, v["flag"]))
        if v["voter"] not in appr:
            if v["voter"] in vals:
                tags.append("discriminated-member")
            elif v["voter"] in orig:
                tags.append("delegator-own-key")
            elif v["voter"] == len(row["ids"]) + 1:
                tags.append("stranger")
            elif v["voter"] == 0:
                tags.append("god-key")
            else:
                tags.append("non-member")
    if not tags:
        n = len({v["voter"] for v in votes})
        req = row["thr"] - row["sub"]
        return "distinct-approved-%s-required" % ("below" if n < req else "at" if n == req else "above")
    out = []
    for t in tags:
        if t not in out:
            out.append(t)
    return "+".join(out[:3])


def clause_key(clause, row):
    if row.get("ev") == "Case":
        if clause in ("Sound", "Complete"):
            modes = [m for m, f in (("nil-cache", "acc"), ("shared-cache", "accC"), ("on-head", "accH")) if row.get(f)]
            return "C07:%s:%s:%s" % (clause, classify(row), "accepted-" + "+".join(modes) if modes else "rejected")
        if clause == "CounterSound":
            return "C07:CounterSound:%s" % classify(row)
        shape = "+".join(t for t, f in (("pool-collapse", len(row["comm"]["v"]) < len(row["comm"]["o"])),
                                        ("discriminated", len(row["comm"]["p"]) < len(row["comm"]["v"])),
                                        ("god-only", row["cnt"] == 0 and not any(i["o"] for i in row["ids"]))) if f) or "plain"
        size = "table" if row["cnt"] <= 8 else "percent"
        if clause == "Required":
            return "C07:Required:%s-%s:%s" % (size, "final" if row["cstep"] == 255 else "nonfinal", shape)
        if clause in ("Committee", "Eligibility"):
            return "C07:%s:%s:%s" % (clause, size, shape)
    if row.get("ev") == "Det":
        ops = "+".join(sorted({o["op"] for o in row.get("ops", [])})) or "load"
        return "C07:%s:after-%s" % (clause, ops)
    return "C07:%s" % clause


def describe(clause, row):
    if row.get("ev") == "Case":
        slim = {k: row[k] for k in ("ids", "god", "votes", "bh", "comm", "cnt", "csize", "thr", "sub", "acc", "accC", "accH", "err", "errC") if k in row}
        if len(slim["ids"]) > 12:
            slim["ids"] = "%d identities" % len(slim["ids"])
            slim["comm"] = {k: len(v) for k, v in slim["comm"].items()}
        if clause == "CounterSound":
            slim["counts"] = row.get("counts")
        return "clause %s broken by the real code on case %s (%s): %s" % (clause, row.get("id"), row.get("src"), json.dumps(slim)[:1400])
    if row.get("ev") == "Det":
        bad = [g for g in row["grid"] if not (g["a"] == g["b"] == g["inc"])]
        return "clause %s broken on determinism scenario %s after ops %s: %s" % (
            clause, row.get("id"), json.dumps(row.get("ops")), json.dumps(bad[:1] or row["grid"][:1])[:1200])
    return "clause %s broken on %s" % (clause, json.dumps(row)[:600])


def split_trace(ctx, trace, tag, chunk):
    """Split an ndjson trace into chunks that each start with the Config line."""
    CHUNK = chunk
    paths = []
    with open(trace) as f:
        head = f.readline()
        n, k, out = 0, 0, None
        for line in f:
            if out is None or n >= CHUNK:
                if out:
                    out.close()
                p = ctx.path("chunks", "%s_%03d.ndjson" % (tag, k))
                out = open(p, "w")
                out.write(head)
                paths.append(p)
                k += 1
                n = 0
            out.write(line)
            n += 1
        if out:
            out.close()
    return paths


def validate(ctx, trace, tag, par=3, chunk=10000):
    """Validate a trace (chunked, a few JVMs in parallel). Returns (lines, drift, broken[(row, clause)])."""
    chunks = split_trace(ctx, trace, tag, chunk)
    results = [None] * len(chunks)

    def one(i):
        time.sleep(0.15 * (i % par))
        try:
            return vlib.trace_validate(ctx, "Trace_Cert.tla", "Trace_Cert.cfg", chunks[i], timeout=3000, env=JAVA)
        except vlib.CheckError as ex:
            if "TLC failed" not in str(ex):
                raise
            time.sleep(1.0)
            return vlib.trace_validate(ctx, "Trace_Cert.tla", "Trace_Cert.cfg", chunks[i], timeout=3000, env=JAVA)

    with concurrent.futures.ThreadPoolExecutor(max_workers=par) as ex:
        futs = {ex.submit(one, i): i for i in range(len(chunks))}
        for fu in concurrent.futures.as_completed(futs):
            results[futs[fu]] = fu.result()
    lines, drift, broken = 0, 0, []
    for i, (ok, info) in enumerate(results):
        rows = None
        lines += max(info.get("states", 2) - 2, 0)      # states = lines + 1, one line per chunk is the Config line
        drift += info.get("drift") or 0
        if not ok:
            if not info.get("broken"):
                raise vlib.CheckError("trace chunk rejected without a broken clause: %s" % info)
            rows = vlib.read_ndjson(chunks[i])
            for line, clause in info["broken"]:
                broken.append((rows[line - 1], clause))
    return lines, drift, broken


def report(ctx, broken, trace_tag, limit=12):
    for row, clause in broken:
        if len(ctx.violations) >= limit and clause_key(clause, row) not in [v["key"] for v in ctx.violations]:
            continue
        ex = ctx.path("replay_%s_%s.ndjson" % (trace_tag, clause))
        vlib.write_ndjson(ex, [row])
        payload = {"clause": clause}
        if row.get("ev") == "Case":
            payload["case"] = {k: row[k] for k in ("ids", "god", "votes", "bh") if k in row}
        vlib.report_violation(ctx, clause_key(clause, row), describe(clause, row), replay_src=ex, payload=payload)


def run_driver(ctx, drv, args, what):
    p = vlib.run_driver(ctx, drv, args, timeout=3000)
    if p.returncode != 0:
        out = (p.stdout or "")[-6000:]
        if "panic:" in out or "fatal error:" in out:
            # first frame below the runtime: a panic raised inside the repository's code while it handles a
            # certificate / vote is behaviour of the real code; one raised by the driver itself is not
            frames = [l.strip() for l in out[out.find("goroutine"):].splitlines()
                      if l and not l.startswith(("\t", " ", "goroutine", "panic(", "runtime.", "created by"))]
            if frames and "idena-network/idena-go/" in frames[0] and "verifclock" not in frames[0]:
                fn = frames[0].rsplit("(", 1)[0].split("/")[-1]
                vlib.report_violation(ctx, "C07:panic:" + fn, "the real code panicked while %s: %s" % (what, out[-1200:]))
                return None
        raise vlib.CheckError("driver failed while %s:\n%s" % (what, out[-3000:]))
    return (p.stdout or "").strip().splitlines()[-1] if p.stdout else ""


def selftest(ctx, rows):
    """Binding self-test: a copy of recorded (and just accepted) lines with four corrupted answers must be
    rejected at exactly those lines by the right clauses."""
    stride = max(1, (len(rows) - 1) // 1500)
    bad = json.loads(json.dumps(rows[:1] + [r for r in rows[1::stride] if r.get("ev") == "Case"]))
    want = {}
    for i, r in enumerate(bad):
        if r.get("ev") != "Case" or not r["votes"] or len(r["ids"]) > 12:
            continue
        clean = all(v["sig"] == "good" and (v["round"], v["hash"], v["parent"]) == (0, r["bh"], 0) and v["voter"] in r["comm"]["p"] for v in r["votes"])
        if "Complete" not in want and r["acc"] and r["accC"] and clean and len({v["voter"] for v in r["votes"]}) >= r["thr"] - r["sub"]:
            r["accC"] = False            # a clean quorum that the shared-cache call refused
            want["Complete"] = i + 1
        elif "Sound" not in want and not (r["acc"] or r["accC"] or r["accH"]) and len(r["votes"]) < r["thr"] - r["sub"]:
            r["acc"] = True              # fewer signatures than required votes, yet accepted
            want["Sound"] = i + 1
        elif "Eligibility" not in want and len(r["comm"]["p"]) >= 2:
            r["comm"]["p"] = r["comm"]["p"][1:]     # an approved member went missing
            want["Eligibility"] = i + 1
        elif "Required" not in want and i > 50 and r["cnt"] <= 8:   # the table: no rounding tie that would admit thr + 1
            r["thr"] += 1
            want["Required"] = i + 1
        if len(want) == 4:
            break
    if len(want) < 4:
        raise vlib.CheckError("self-test could not build the corrupted trace (found %s)" % sorted(want))
    p = ctx.path("selftest", "bad.ndjson")
    vlib.write_ndjson(p, bad)
    ok, info = vlib.trace_validate(ctx, "Trace_Cert.tla", "Trace_Cert.cfg", p, env=JAVA)
    got = {(line, clause) for line, clause in info.get("broken", [])}
    exp = {(line, clause) for clause, line in want.items()}
    if ok or not exp <= got or {l for l, _ in got} != {l for l, _ in exp}:
        raise vlib.CheckError("binding self-test failed: corrupted lines %s, rejected %s" % (sorted(exp), sorted(got)[:10]))
    ctx.log("binding self-test: corrupted verdict / committee / threshold lines rejected (%s)" % ", ".join(sorted(want)))


def vacuity(rows):
    """The driver must have exercised every class the property talks about (else: dead driver, exit 2)."""
    c = {"accepted": 0, "rejected": 0, "counter_emitted": 0, "counter_silent": 0, "required>=2": 0, "required>=3": 0, "required<=0": 0,
         "pool_collapse": 0, "discriminated_member": 0, "god_only": 0, "committee_subset": 0, "cache_skip_differs": 0,
         "duplicate": 0, "malleated": 0, "forged": 0, "stale": 0, "foreign_voter": 0, "final_step": 0, "det_grid": 0, "det_ops": 0}
    for r in rows:
        if r.get("ev") == "Det":
            c["det_grid"] += len(r["grid"])
            c["det_ops"] += len(r["ops"])
            continue
        if r.get("ev") != "Case":
            continue
        c["accepted" if r["acc"] else "rejected"] += 1
        req = r["thr"] - r["sub"]
        c["required>=2"] += req >= 2
        c["required>=3"] += req >= 3
        c["required<=0"] += req <= 0
        c["pool_collapse"] += len(r["comm"]["v"]) < len(r["comm"]["o"])
        c["discriminated_member"] += len(r["comm"]["p"]) < len(r["comm"]["v"])
        c["god_only"] += r["cnt"] == 0 and not any(i["o"] for i in r["ids"])
        c["committee_subset"] += r["cnt"] > 8
        c["cache_skip_differs"] += r["acc"] != r["accC"]
        c["final_step"] += r["cstep"] == 255
        vs = r["votes"]
        c["forged"] += any(v["sig"] == "forged" for v in vs)
        c["malleated"] += any(v["sig"] == "mall" for v in vs)
        c["stale"] += any((v["round"], v["parent"]) != (0, 0) for v in vs)
        c["duplicate"] += len({json.dumps(v, sort_keys=True) for v in vs}) < len(vs)
        c["foreign_voter"] += any(v["voter"] not in r["comm"]["p"] for v in vs)
        for k in r["counts"]:
            c["counter_emitted" if k["found"] else "counter_silent"] += 1
    return c


def replay(ctx, drv):
    doc = json.load(open(ctx.replay))
    case = (doc.get("payload") or {}).get("case")
    if not case:
        raise vlib.CheckError("replay file has no case payload")
    cases = ctx.path("replay_case.json")
    with open(cases, "w") as f:
        f.write(json.dumps(case) + "\n")
    trace = ctx.path("trace_replay.ndjson")
    if run_driver(ctx, drv, ["-cases", cases, "-out", trace], "replaying a case") is not None:
        _, _, broken = validate(ctx, trace, "replay", par=1)
        report(ctx, broken, "replay")
    return vlib.finish(ctx, "model_checking", {"states": 1, "transitions": 1, "traces_validated_against_impl": 1,
                                               "samples": [case], "rule": "replay of one recorded case"})


def main(ctx):
    quick = ctx.tier == "quick"
    rnd = random.Random(ctx.seed)
    drv = vlib.build_driver(ctx, "d_cert", clocks=CLOCKS)
    if getattr(ctx, "replay", None):
        from props import extra_ba
        if extra_ba.is_ba_replay(ctx.replay):
            return vlib.finish(ctx, "model_checking", extra_ba.replay(ctx), assumptions=ASSUMPTIONS)
        return replay(ctx, drv)

    # 1. bounded models: property invariants on every case, export
    cfg = "MC_Cert_quick.cfg" if quick else "MC_Cert_thorough.cfg"
    with concurrent.futures.ThreadPoolExecutor(max_workers=2) as ex:
        f1 = ex.submit(tlc_retry, ctx, "MC_Cert.tla", cfg, workers=8 if quick else 12, timeout=3400, extra=["-seed", str(ctx.seed)], sub="mc_cert")
        f2 = ex.submit(tlc_retry, ctx, "MC_CertCount.tla", "MC_CertCount_quick.cfg" if quick else "MC_CertCount_thorough.cfg",
                       workers=2, timeout=1800, sub="mc_count")
        r, rc = f1.result(), f2.result()
    for res, name in ((r, "Cert"), (rc, "CertCount")):
        if not res.ok:
            raise vlib.CheckError("design-level %s model violates %s (model-only counterexample, not a verdict):\n%s"
                                  % (name, res.invariant, (res.error or "")[:2000]))
    cases_mc, cases_sz = export_lines(r), export_lines(rc)
    ctx.log("model Cert: %d generated / %d distinct in %.0fs, %d cases exported; CertCount: %d distinct, %d sized cases"
            % (r.generated, r.distinct, r.wall, len(cases_mc), rc.distinct, len(cases_sz)))
    if len(cases_mc) < 1000 or len(cases_sz) < 100:
        raise vlib.CheckError("too few cases exported (dead generator)")
    model_verdicts = {"accept": sum(1 for c in cases_mc if c["expect"]["acc"]), "reject": sum(1 for c in cases_mc if not c["expect"]["acc"])}
    fm, fs = ctx.path("cases_mc.json"), ctx.path("cases_sized.json")
    with open(fm, "w") as f:
        for c in cases_mc:
            f.write(json.dumps({k: c[k] for k in ("ids", "god", "votes")}) + "\n")
    with open(fs, "w") as f:
        for c in cases_sz:
            f.write(json.dumps(c) + "\n")

    # 2. the real code
    nrand, ndet = (400, 40) if quick else (4000, 400)
    trace = ctx.path("trace.ndjson")
    msg = run_driver(ctx, drv, ["-cases", fm, "-sized", fs, "-random", str(nrand), "-det", str(ndet), "-out", trace],
                     "running the exported, sized and random cases and the determinism scenarios")
    if msg is None:
        return vlib.finish(ctx, "model_checking", {"states": r.distinct, "transitions": r.generated,
                                                   "traces_validated_against_impl": 0, "samples": ["driver panic"]})
    ctx.log(msg)

    # 3. the specification judges what happened
    total_lines, total_drift, broken = validate(ctx, trace, "t", par=3 if quick else 4, chunk=9000 if quick else 40000)
    report(ctx, broken, "t")
    ctx.log("trace: %d lines validated, %d clause reports, drift %d" % (total_lines, len(broken), total_drift))
    rows = vlib.read_ndjson(trace)
    vac = vacuity(rows)
    if not broken:
        dead = [k for k, v in vac.items() if v == 0 and k not in ("required<=0", "cache_skip_differs")]
        if dead:
            raise vlib.CheckError("dead driver: no case exercised %s" % dead)
        selftest(ctx, rows)

    ncases = sum(1 for x in rows if x.get("ev") == "Case")
    ndets = sum(1 for x in rows if x.get("ev") == "Det")
    pick = [c for c in cases_mc if c["expect"]["acc"]][:1] + [c for c in cases_mc if c["expect"]["quorum"] and not c["expect"]["acc"]][:1] \
        + [c for c in cases_mc if not c["expect"]["quorum"] and len(c["votes"]) >= 2][:1]
    cov = {
        "states": r.distinct + rc.distinct, "transitions": r.generated + rc.generated,
        "traces_validated_against_impl": ncases + ndets,
        "trace_lines_validated": total_lines,
        "samples": [{"ids": c["ids"], "god": c["god"], "votes": c["votes"], "expect": c["expect"]} for c in pick] + cases_sz[len(cases_sz) // 2:len(cases_sz) // 2 + 1],
        "model_cfg": cfg, "model_cases": len(cases_mc), "model_verdicts": model_verdicts, "sized_cases": len(cases_sz),
        "random_cases": nrand, "determinism_scenarios": ndets, "classes_exercised": vac, "drift_lines": total_drift,
        "exhaustive": False,
        "rule": "the bounded Cert model (%s: all validator-set shapes over %d identities x vote lists with one deviating vote) is checked exhaustively by TLC; "
                "every case without a deviating vote and a seeded sample of the others (SampleMod in the cfg), and every "
                "boundary case of the counting abstraction (registry sizes 0..150) rebuilt with real keys and run through the real "
                "ValidatorsCache / Compress / ValidateBlockCert (nil cache, shared cache, on head) / AddVote / countVotes; plus %d seeded random "
                "larger cases and %d committee-determinism observations; all judged by TLC against Trace_Cert"
                % (cfg, 3 if quick else 4, nrand, ndets),
    }
    if vac.get("required<=0"):
        ctx.notes.append("%d cases had Required <= 0 (all or most committee members not approved): the code then accepts a certificate "
                         "without any signature; this satisfies accept-iff-quorum for the code's own Required and is not a C07 verdict" % vac["required<=0"])
    if total_drift:
        ctx.notes.append("conformance_drift: %d lines where the real answer differs from the implementation-shaped prediction without breaking a clause" % total_drift)
    # growth module: the agreement protocol that PRODUCES certificates (BA.tla; N real engines running the real loop())
    ba = vlib.run_extra(ctx, "extra_ba", quick)
    cov["agreement_protocol"] = ba
    # unbounded proofs (TLAPS) of the specification-level halves of the property: AcceptA => QuorumA, QuorumA /\ NoForeignA => AcceptA,
    # and what the vote counter holds whenever it can emit (any number of votes, any approved set, any required count)
    cov["tlaps"] = vlib.tlaps(ctx, "CertProof")
    ctx.log("TLAPS CertProof: %s/%s obligations discharged in %ss" % (cov["tlaps"].get("discharged"), cov["tlaps"].get("obligations"), cov["tlaps"]["wall_s"]))
    cov["states"] += ba.get("ba_states", 0) if isinstance(ba.get("ba_states", 0), int) else 0
    cov["transitions"] += ba.get("ba_transitions", 0) if isinstance(ba.get("ba_transitions", 0), int) else 0
    return vlib.finish(ctx, "model_checking", cov, assumptions=ASSUMPTIONS)
