"""C14 - the mempool stays coherent under any submission, block and rebuild order.

1. TLC explores spec/Mempool.tla (implementation-shaped: executable queue / pending set / limits /
   ceremony types / promotion / pruning / sync deferral / candidate construction) exhaustively in a
   bounded model and checks on every transition that it refines spec/MempoolAbs.tla, whose clauses are
   the property (Candidate, Accepted+Retained, BlockCleared, NoStale).
2. Operation sequences are exported from TLC (one concrete path per explored transition, sampled and
   stratified by kind of transition) and replayed on the REAL TxPool attached to a real chain
   (harness/cmd/d_mempool); seeded random scenarios at larger sizes (more senders, long queues of heavy
   transactions so that the block gas cap binds, ceremony walk into the next epoch, foreign blocks,
   sync brackets, a sender running out of funds) are generated on the fly.
3. The recorded traces are validated by TLC against spec/Trace_MempoolAbs.tla: the clauses of
   MempoolAbs are evaluated on the OBSERVED lookups / candidate lists / ledger (verdict); the
   implementation-shaped prediction of Mempool.tla is compared too (drift, reported only).
4. Concurrent part: the same driver built with -race runs submitters, a block producer (with sync
   brackets), a builder and a reader on one pool; a race report, a panic or the watchdog is the
   finding; the pool observed at quiescence and after one more block is judged by the same trace spec.
"""
import collections
import json
import os
import random
import re
import subprocess
import threading
import time

import vlib
from props.c13 import selftest_reject

CLOCKS = ["blockchain/blockchain.go"]
TRACE_SPEC = ("Trace_MempoolAbs.tla", "Trace_MempoolAbs.cfg")


# ------------------------------------------------------------------------------------------------
# helpers

def run_sharded(ctx, drv, name, shards, timeout=3000, env=None):
    """Run several driver processes in parallel, each in its own working directory; returns the list of
    (returncode, output, trace_path)."""
    procs = []
    for i, args in enumerate(shards):
        wd = os.path.dirname(ctx.path("wd_%s_%d" % (name, i), "x"))
        out = ctx.path("trace_%s_%d.ndjson" % (name, i))
        e = dict(os.environ)
        e.update(vlib.GOENV)
        e.update({"VERIF_SEED": str(ctx.seed), "VERIF_TIER": ctx.tier})
        if env:
            e.update(env)
        log = open(ctx.path("log_%s_%d.txt" % (name, i)), "w")
        p = subprocess.Popen([drv] + args + ["-out", out], cwd=wd, env=e, stdout=log, stderr=subprocess.STDOUT)
        procs.append((p, log, out))
    res = []
    for p, log, out in procs:
        try:
            p.wait(timeout=timeout)
        except subprocess.TimeoutExpired:
            p.kill()
            raise vlib.CheckError("driver timed out (%s)" % name)
        log.close()
        with open(log.name, errors="replace") as f:
            res.append((p.returncode, f.read(), out))
    return res


def concat(ctx, name, paths):
    dst = ctx.path(name)
    with open(dst, "w") as fo:
        for p in paths:
            if os.path.exists(p):
                with open(p) as fi:
                    for line in fi:
                        fo.write(line)
    return dst


def pick_cases(exports, rnd, per_kind, cut_extra=0):
    by = collections.defaultdict(list)
    for e in sorted(exports, key=lambda x: json.dumps(x, sort_keys=True)):   # TLC's export order depends on worker scheduling
        by[e.get("kind", "?")].append(e)
    res = []
    for k in sorted(by):
        lst = by[k]
        rnd.shuffle(lst)
        res += lst[:per_kind + (cut_extra if "cut" in k else 0)]
    rnd.shuffle(res)
    return res, {k: len(v) for k, v in by.items()}


def trace_stats(path, c=None):
    """Per-class counts of what the real pool did (vacuity control)."""
    c = c if c is not None else collections.Counter()
    prev = None
    u = None
    cap = 1
    for r in vlib.read_ndjson(path):
        ev = r["ev"]
        if ev == "Reset":
            u, cap, prev = r["u"], r["cap"], None
            c["scenarios"] += 1
            continue
        st = r["st"]
        c[ev] += 1
        if ev == "Add":
            if r["res"] == "ok":
                t = r["tx"]
                if any(t in e for e in st["exec"]) and not (prev and any(t in e for e in prev["exec"])):
                    c["add_executable"] += 1
                elif any(t in e for e in st["pend"]) and not (prev and any(t in e for e in prev["pend"])):
                    c["add_pending"] += 1
                elif t in st["def"]:
                    c["add_deferred"] += 1
                if u[t - 1][3] > 0:
                    c["add_ceremony_ok"] += 1
            else:
                c["add_rejected"] += 1
                if r["valid"] and not (prev and r["tx"] in prev["all"]):
                    c["add_rejected_limits"] += 1      # valid, not a duplicate: refused by a limit
        elif ev == "Build":
            if r["cand"]:
                c["build_nonempty"] += 1
            if any(u[i - 1][3] > 0 for i in r["cand"]):
                c["build_with_ceremony"] += 1
            ex = set(x for e in st["exec"] for x in e)
            if ex - set(r["cand"]):
                c["build_partial"] += 1
            g = sum(u[i - 1][4] for i in r["cand"])
            if ex - set(r["cand"]) and g > 0.5 * cap:
                c["build_gas_bound"] += 1
        elif ev in ("Block", "StopSync") and prev is not None:
            pp = set(prev["all"])
            gone = pp - set(st["all"]) - set(r["txs"])
            if r["txs"]:
                c[ev + "_with_txs"] += 1
            if gone:
                c["pruned"] += 1
                if any(x[1] == 2 for x in st["inv"]):
                    c["pruned_invalid_cascade"] += 1
            pe = set(x for e in prev["pend"] for x in e)
            ne = set(x for e in st["exec"] for x in e)
            if pe & ne:
                c["promoted"] += 1
            if prev["ep"] != st["ep"]:
                c["epoch_switch"] += 1
            if set(r["txs"]) - pp:
                c["block_foreign_txs"] += 1
            if ev == "Block" and prev["sync"]:
                c["block_during_sync"] += 1
        if st["per"] >= 2:
            c["steps_in_sessions"] += 1
        prev = st
    return c


REQUIRED = ["add_executable", "add_pending", "add_deferred", "add_rejected", "add_rejected_limits", "add_ceremony_ok",
            "build_nonempty", "build_with_ceremony", "build_partial", "Block_with_txs", "pruned", "promoted",
            "block_foreign_txs", "block_during_sync", "StopSync", "steps_in_sessions"]
REQUIRED_RANDOM = ["epoch_switch", "build_gas_bound", "pruned_invalid_cascade"]


def explain(ctx, trace, info, what):
    """Turn broken clauses of a validated trace into violations."""
    rows = vlib.read_ndjson(trace)
    broken = info.get("broken")
    if not broken:
        raise vlib.CheckError("trace rejected without a broken clause: %s" % info)
    for line, clause in broken:
        start = max(i for i in range(line) if rows[i].get("ev") == "Reset")
        end = next((i for i in range(line, len(rows)) if rows[i].get("ev") == "Reset"), len(rows))
        bad = rows[line - 1]
        ex = ctx.path("replay_%s.ndjson" % clause)
        vlib.write_ndjson(ex, rows[start:line])
        ops = [{k: v for k, v in x.items() if k != "st"} for x in rows[start + 1:line]]
        u = rows[start]["u"]
        txs = {i + 1: dict(zip(("s", "n", "e", "k", "gas"), t)) for i, t in enumerate(u)}
        key = "C14:%s:%s" % (clause, bad.get("ev"))
        vlib.report_violation(
            ctx, key,
            "clause %s of MempoolAbs broken by the real pool at step %d of a %s (%s, cfg %s); step %s; observed after it %s; last steps %s"
            % (clause, line - start - 1, what, rows[start].get("kind"), json.dumps(rows[start].get("cfg")),
               json.dumps({k: v for k, v in bad.items() if k != "st"})[:300], json.dumps(bad.get("st"))[:700],
               json.dumps(ops[-8:])[:900]),
            replay_src=ex, payload={"ops": ops, "txs": txs, "cfg": rows[start].get("cfg")})


# ------------------------------------------------------------------------------------------------
# race reports

def _frames(block):
    """[(function, file, line)] of one access stack of a race report."""
    res = []
    lines = block.split("\n")
    i = 1
    while i + 1 < len(lines) + 1 and i < len(lines):
        fn = lines[i].strip()
        loc = lines[i + 1].strip() if i + 1 < len(lines) else ""
        m = re.match(r"(\S+):(\d+)", loc)
        if fn and m:
            res.append((fn.split("(")[0] if fn.startswith("main.") else re.sub(r"\(\)$", "", fn), m.group(1), int(m.group(2))))
        i += 2
    return res


def _src_line(path, line):
    try:
        with open(path, errors="replace") as f:
            for i, l in enumerate(f, 1):
                if i == line:
                    return l
    except OSError:
        pass
    return ""


def classify_race(report):
    """Family of one race report: the pool's unsynchronised head field, the unsynchronised object caches of
    the shared StateDB instances, the validators cache cloned by AppState.Readonly while a block commit refreshes it,
    or something else (signature of the two innermost repository frames)."""
    report = report.replace("WARNING: DATA RACE\n", "")
    parts = [p for p in report.split("\n\n") if re.match(r"\s*(Read|Write|Previous read|Previous write|Atomic)", p.strip().split("\n")[0] if p.strip() else "")]
    stacks = [_frames(p.strip()) for p in parts[:2]]
    inner = []
    fam = set()
    for st in stacks:
        repo = [f for f in st if "/idena-go/" in f[0] or f[1].startswith(vlib.REPO)]
        top = repo[0] if repo else (st[0] if st else ("?", "?", 0))
        inner.append(re.sub(r"^github.com/idena-network/idena-go/", "", top[0]))
        # the statement that touches the racing memory, or the statement in the pool that handed the object over
        for f in repo[:2]:
            if f[1].endswith("core/mempool/txpool.go") and "pool.head" in _src_line(f[1], f[2]):
                fam.add("head")
        for f in repo[:4]:
            if f[1].endswith(("core/state/statedb.go", "core/state/state_object.go")):
                fam.add("statedb")
            if f[1].endswith("core/validators/validators.go"):
                fam.add("validators")
    if "head" in fam:
        return "C14:race:pool.head", inner
    if "statedb" in fam:
        return "C14:race:statedb-object-cache", inner
    if "validators" in fam:
        return "C14:race:validators-cache", inner
    return "C14:race:" + "|".join(sorted(inner)), inner


def analyse_conc(ctx, code, out):
    """Violations from the output of the -race driver; returns number of race reports."""
    reports = [b for b in out.split("==================") if "WARNING: DATA RACE" in b]
    fams = collections.defaultdict(list)
    for b in reports:
        key, inner = classify_race(b)
        fams[key].append((inner, b))
    for key, lst in sorted(fams.items()):
        inner, b = lst[0]
        sites = sorted(set(" <-> ".join(x[0]) for x in lst))
        vlib.report_violation(ctx, key, "data race under concurrent submissions / block notifications / building (%d reports; access pairs: %s); first report: %s"
                              % (len(lst), "; ".join(sites)[:600], re.sub(r"\s+", " ", b)[:1200]),
                              payload={"reports": [x[1][:3000] for x in lst[:5]]})
    if "WATCHDOG" in out:
        m = re.search(r"WATCHDOG:[^\n]*", out)
        vlib.report_violation(ctx, "C14:deadlock", "concurrent run did not come back (dead- or livelock): %s; goroutine dump: %s"
                              % (m.group(0), out[out.find("WATCHDOG"):][:3000]), payload={"dump": out[-20000:]})
    elif "panic:" in out or "fatal error:" in out:
        m = re.search(r"(panic:|fatal error:)[^\n]*", out)
        tail = out[out.find(m.group(0)):][:4000]
        if "idena-go/core/mempool" in tail or "idena-go/core/state" in tail or "concurrent map" in tail:
            sig = re.sub(r"[^A-Za-z0-9]+", "-", m.group(0))[:60]
            vlib.report_violation(ctx, "C14:panic:" + sig, "the pool panicked under concurrency: " + tail[:2500], payload={"out": tail})
        else:
            raise vlib.CheckError("concurrent driver crashed outside the pool:\n" + tail)
    elif code not in (0, 66):
        raise vlib.CheckError("concurrent driver failed (rc=%d):\n%s" % (code, out[-3000:]))
    return len(reports), {k: len(v) for k, v in fams.items()}


# ------------------------------------------------------------------------------------------------

def main(ctx):
    quick = ctx.tier == "quick"
    rnd = random.Random(ctx.seed)
    drv = vlib.build_driver(ctx, "d_mempool", clocks=CLOCKS)
    race = {}

    def build_race():
        try:
            # -race switches on checkptr, which rejects the unaligned loads of the repository's sha3 assembly glue;
            # the appengine tag selects its portable implementation (not anchored by this property)
            race["drv"] = vlib.build_driver(ctx, "d_mempool", clocks=CLOCKS, race=True, tags="verif,appengine")
        except Exception as ex:  # noqa
            race["err"] = ex
    th = threading.Thread(target=build_race)
    th.start()

    # 1. bounded models: refinement on every transition + export
    # MC_Mempool_gas: three kinds (a ceremony type that weighs gas) so that the cap can bind in the MIDDLE of a priority run
    cfgs = ["MC_Mempool_quick.cfg", "MC_Mempool_gas.cfg"] if quick else ["MC_Mempool_thorough.cfg", "MC_Mempool_unlimited.cfg", "MC_Mempool_ric.cfg", "MC_Mempool_gas.cfg"]
    per_kind = 6 if quick else 16
    states = trans = 0
    cases, kinds_all, models = [], {}, []
    runs = {}

    def model(cfg, workers):
        try:
            runs[cfg] = vlib.tlc(ctx, "MC_Mempool.tla", cfg, workers=workers, timeout=3400, extra=["-seed", str(ctx.seed)])
        except Exception as ex:  # noqa
            runs[cfg] = ex
    wk = max(2, min(8, ctx.cores // 2))
    for cfg in cfgs:        # one after the other: concurrent JVMs thrash on a loaded machine
        model(cfg, wk)
    for cfg in cfgs:
        r = runs[cfg]
        if isinstance(r, Exception):
            raise r
        if not r.ok:
            raise vlib.CheckError("design-level Mempool model does not refine MempoolAbs / breaks %s (model-only, not a verdict):\n%s"
                                  % (r.invariant, (r.error or "")[:2000]))
        gas = cfg == "MC_Mempool_gas.cfg"
        sel, kinds = pick_cases(r.exports, rnd, 1 if gas and quick else per_kind, cut_extra=40 if gas else 0)
        ctx.log("model %s: %d generated / %d distinct, depth %d, %.0fs; %d transitions exported in %d kinds; replaying %d"
                % (cfg, r.generated, r.distinct, r.depth, r.wall, len(r.exports), len(kinds), len(sel)))
        states += r.distinct
        trans += r.generated
        cases += sel
        models.append({"cfg": cfg, "generated": r.generated, "distinct": r.distinct, "depth": r.depth, "exported": len(r.exports), "kinds": len(kinds)})
        for k, v in kinds.items():
            kinds_all[k] = kinds_all.get(k, 0) + v
    for need in ("Add-exec", "Add-pend", "Add-limit", "Add-sync-deferred", "Block-txs-promote", "Build-some-pri", "Build-some-cut", "StopSync-deferred-added"):
        if not kinds_all.get(need):
            raise vlib.CheckError("model never exercised a '%s' transition (vacuous bounds)" % need)
    if not any("prune" in k for k in kinds_all) or not any("epoch" in k for k in kinds_all):
        raise vlib.CheckError("model never pruned / never switched the epoch (vacuous bounds)")

    # 2. replay on the real pool (sharded over processes: the virtual clock is process-global)
    nproc = max(2, min(8, ctx.cores // 2))
    shards = []
    for i in range(nproc):
        p = ctx.path("cases_%d.json" % i)
        with open(p, "w") as f:
            for c in cases[i::nproc]:
                f.write(json.dumps(c) + "\n")
        shards.append(["-cases", p])
    res = run_sharded(ctx, drv, "model", shards)
    viol_crash = crash_verdict(ctx, res, "replaying a model scenario")
    trace_m = concat(ctx, "trace_model.ndjson", [x[2] for x in res])

    # 3. random scenarios
    nrand, rlen = (48, 60) if quick else (1200, 90)
    per = (nrand + nproc - 1) // nproc
    shards = [["-random", str(min(per, nrand - i * per)), "-len", str(rlen), "-first", str(i * per)] for i in range(nproc) if nrand - i * per > 0]
    res = run_sharded(ctx, drv, "random", shards)
    viol_crash = crash_verdict(ctx, res, "running a random scenario") or viol_crash
    rtraces = [x[2] for x in res]

    stats = trace_stats(trace_m)
    for p in rtraces:
        trace_stats(p, stats)
    if not viol_crash:
        missing = [k for k in REQUIRED + REQUIRED_RANDOM if not stats.get(k)]
        if missing:
            raise vlib.CheckError("dead driver: the real pool was never observed doing: %s (stats %s)" % (missing, dict(stats)))

    # 4. verdict: TLC validates the traces
    lines = drift = 0
    drift_at = []
    ok_all = True
    jobs = [(trace_m, "model-exported scenario")] + [(p, "random scenario") for p in rtraces]
    results = [None] * len(jobs)

    def validate(i):
        try:
            results[i] = vlib.trace_validate(ctx, TRACE_SPEC[0], TRACE_SPEC[1], jobs[i][0], timeout=3000)
        except Exception as ex:  # noqa
            results[i] = ex
    ths = [threading.Thread(target=validate, args=(i,)) for i in range(len(jobs))]
    for batch in range(0, len(ths), 4):
        for t in ths[batch:batch + 4]:
            t.start()
            time.sleep(0.3)     # (vlib.tlc names its scratch directory after the clock)
        for t in ths[batch:batch + 4]:
            t.join()
    for (path, what), r in zip(jobs, results):
        if isinstance(r, Exception):
            raise r
        ok, info = r
        lines += sum(1 for _ in open(path))
        drift += info.get("drift") or 0
        if not ok:
            ok_all = False
            explain(ctx, path, info, what)
    ctx.log("sequential part: %d model scenarios + %d random scenarios, %d trace lines validated, drift %d, %s"
            % (len(cases), nrand, lines, drift, "accepted" if ok_all else "REJECTED"))

    # 5. concurrent part (-race)
    th.join()
    if "err" in race:
        raise race["err"]
    nconc, dur = (2, 1500) if quick else (12, 4000)
    nshard = 1 if quick else 4
    per = (nconc + nshard - 1) // nshard
    shards = [["-conc", str(min(per, nconc - i * per)), "-dur", str(dur), "-first", str(i * per)] for i in range(nshard) if nconc - i * per > 0]
    res = run_sharded(ctx, race["drv"], "conc", shards, env={"GORACE": "halt_on_error=0 history_size=4"}, timeout=1800)
    nraces, fams = 0, {}
    for code, out, path in res:
        n, f = analyse_conc(ctx, code, out)
        nraces += n
        for k, v in f.items():
            fams[k] = fams.get(k, 0) + v
    trace_c = concat(ctx, "trace_conc.ndjson", [x[2] for x in res])
    conc_lines = sum(1 for _ in open(trace_c))
    conc_rows = vlib.read_ndjson(trace_c)
    conc_runs = sum(1 for r_ in conc_rows if r_.get("ev") == "Quiesce")
    stale_q = stale_at_quiescence(conc_rows)
    if conc_lines:
        okc, infoc = vlib.trace_validate(ctx, TRACE_SPEC[0], TRACE_SPEC[1], trace_c, timeout=1800)
        if not okc:
            explain(ctx, trace_c, infoc, "concurrent run (state at quiescence and after)")
        drift += infoc.get("drift") or 0
    ctx.log("concurrent part: %d runs came back, %d race reports %s" % (conc_runs, nraces, fams))

    # 6. binding self-test: a corrupted recorded trace must be rejected
    def mutate(rows_):
        for row in rows_:
            if row.get("ev") == "Block" and row.get("txs") and not row["st"]["sync"]:
                row["st"]["all"] = sorted(set(row["st"]["all"]) | {row["txs"][0]})   # a block transaction stays in the hash index
                return rows_
        return None
    if ok_all:
        selftest_reject(ctx, TRACE_SPEC[0], TRACE_SPEC[1], trace_m, mutate, n_lines=1500)

    samples = [[o for o in c["ops"]][:8] for c in (cases[:2] if cases else [])]
    cov = {
        "states": states, "transitions": trans,
        "traces_validated_against_impl": len(cases) + nrand + conc_runs,
        "trace_lines_validated": lines + conc_lines,
        "samples": samples,
        "models": models,
        "exported_kinds": len(kinds_all),
        "real_pool_step_classes": {k: stats[k] for k in sorted(stats)},
        "drift_steps": drift,
        "concurrent_runs": conc_runs, "race_reports": nraces, "race_families": fams,
        "concurrent_runs_with_consumed_nonces_at_quiescence": stale_q,
        "exhaustive": False,
        "rule": "bounded Mempool model(s) %s explored exhaustively with the refinement of MempoolAbs checked on every transition; "
                "%d exported scenarios per kind of transition (%d kinds) + %d seeded random scenarios of %d operations (3-5 senders, "
                "heavy transactions up to 1/3 of the block gas cap, ceremony walk, foreign blocks, sync brackets) replayed on the real "
                "TxPool attached to a real chain; %d concurrent -race runs of %d ms" % (cfgs, per_kind, len(kinds_all), nrand, rlen, nconc, dur),
    }
    return vlib.finish(ctx, "model_checking", cov, assumptions=[
        "'invalid' is what the ledger's own ValidateTx says on the committed head (logged, not recomputed); validation sessions = periods short/long/after-long",
        "the deferred channel's capacity (100, drop-oldest), the tx-sync counters and the tx keeper (persistence is off: Initialize(useTxKeeper=false)) are not exercised",
        "memory-level data races are decided by Go's race detector in the concurrent runs (operation-granularity interleavings by TLC)",
        "the -race build uses the portable sha3 (build tag appengine): checkptr rejects the repository's unaligned-load glue",
    ])


def stale_at_quiescence(rows):
    """Number of concurrent runs that ended (outside sessions, not syncing) with consumed nonces still in the pool:
    a submission validated before and inserted after a block notification.  Reported, not judged (the next block
    notification removes them, which IS judged)."""
    n = 0
    u = None
    for r in rows:
        if r["ev"] == "Reset":
            u = r["u"]
        elif r["ev"] == "Quiesce":
            st = r["st"]
            if st["per"] > 1 or st["sync"]:
                continue
            ids = set(st["all"]) | set(x for b in st["by"] for x in b)
            for i in ids:
                s, nn, e = u[i - 1][0], u[i - 1][1], u[i - 1][2]
                cn, ce = st["acc"][s - 1]
                if e < st["ep"] or (e == st["ep"] and ce == st["ep"] and nn <= cn):
                    n += 1
                    break
    return n


def crash_verdict(ctx, res, what):
    """A driver process that died: a panic inside the pool is a finding, anything else a check error."""
    hit = False
    for code, out, path in res:
        if code == 0:
            continue
        tail = out[-6000:]
        m = re.search(r"panic: [^\n]*", tail)
        if m and ("idena-go/core/mempool" in tail) and "harness" not in m.group(0) and "[recovered]" not in m.group(0) \
                and not re.search(r"panic: (node [AB] refused|boot|period did not|epoch did not|initial ledger|transaction outside|unknown op|kind)", m.group(0)):
            sig = re.sub(r"[^A-Za-z0-9]+", "-", m.group(0))[:60]
            vlib.report_violation(ctx, "C14:panic:" + sig, "the pool panicked while %s: %s" % (what, tail[tail.find(m.group(0)):][:2500]),
                                  payload={"out": tail})
            hit = True
        else:
            raise vlib.CheckError("driver failed (rc=%d) while %s:\n%s" % (code, what, tail[-3000:]))
    return hit
