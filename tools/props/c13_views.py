"""C13, state-view layer (growth module "SV"): StateDB / IdentityStateDB / AppState views are private.

The layer between the copy-on-write store (c13.py part A, OverlayDb) and the chain-level observations
(c13.py part B): core/state/statedb.go, core/state/identity_statedb.go, core/appstate/appstate.go - every
in-memory buffer a view constructor (ForCheck, ForCheckWithOverwrite, Readonly) must NOT share with the
canonical object, and every way the canonical object drops or flushes its own buffers (Precommit, Commit,
CommitTree(s), AddDiff, Reset, ResetTo).

1. TLC explores spec/StateViews.tla (one action per real call, generic in the KIND of buffer a write lands
   in) exhaustively in a bounded model; CanonUntouched / ViewIsolated / StoreSteps are checked as action
   properties, HistoricalExact as an invariant; the first path of every stratum (set of step classes before x
   class of the step x "somebody else wrote before") is exported.
2. Every exported path is bound to concrete mutating methods (explicit table in d_stateviews: every method of
   StateDB / IdentityStateDB reachable in block processing, mapped to its kind) - every path with a write is
   crossed with every kind, every method is driven on a view - and performed on the REAL objects over MemDBs
   at two levels (AppState API / StateDB+IdentityStateDB API) in two observation modes (getter read-backs
   after every call / only at the end, so that warm and cold object caches are both covered).  TLC random walks
   of a larger instance (3 views, 3 slots, seeded by VERIF_SEED) are performed the same way.
3. The recorded trace is validated by TLC against spec/Trace_StateViews.tla; the property clauses are
   evaluated on the OBSERVED roots / versions / database digest / read-backs (verdict by postcondition).

`run(ctx, quick)` is called from c13.py; it reports violations with keys "C13:<clause>:<signature>" and
returns a coverage dict.  It does not call vlib.finish.
"""
import concurrent.futures
import json
import os
import random

import vlib

CLAUSES = ("CanonUntouched", "ViewIsolated", "CanonMatchesControl", "HistoricalExact", "ResetRestores", "CommitExact",
           "SameContentSameRoot", "CallFailed", "Panic")
WRITE_EVS = ("CanonWrite", "ViewWrite")
KINDS = ("acc", "idn", "glb", "ssw", "dsw", "dpn", "dis", "brn", "cval", "ccode", "ist")   # order of the read-back digests (d_stateviews)
COMBOS = (("app", True), ("sdb", False), ("app", False), ("sdb", True))
CHUNK_LINES = 30000


# ------------------------------------------------------------------------------------------------
# case generation (binding of the abstract paths to concrete methods)

class Binder:
    """Rotates through the method table so that every method gets its share, deterministically per seed."""

    def __init__(self, methods, rnd):
        self.by_kind = {}
        for m in methods:
            self.by_kind.setdefault(m["kind"], []).append(m["name"])
        self.kinds = sorted(self.by_kind)
        for k in self.kinds:
            rnd.shuffle(self.by_kind[k])
        self.pos = {k: 0 for k in self.kinds}
        self.kpos = 0
        self.cpos = 0

    def method(self, kind):
        lst = self.by_kind[kind]
        m = lst[self.pos[kind] % len(lst)]
        self.pos[kind] += 1
        return m

    def other_kind(self, not_kind):
        while True:
            k = self.kinds[self.kpos % len(self.kinds)]
            self.kpos += 1
            if k != not_kind:
                return k

    def combo(self, path):
        """(level, deep) in rotation; a write through a read-only view needs the StateDB level (AppState.Readonly
        hands the same cached object to every caller of a height, by design)."""
        ro_write = any(s["ev"] == "ViewWrite" and s["ctor"] == "readonly" for s in path)
        while True:
            c = COMBOS[self.cpos % len(COMBOS)]
            self.cpos += 1
            if not (ro_write and c[0] == "app"):
                return c


def slots_of(path):
    """slots in order of interest: the first slot a VIEW writes comes first"""
    vs = [s["s"] for s in path if s["ev"] == "ViewWrite"]
    cs = [s["s"] for s in path if s["ev"] == "CanonWrite"]
    res = []
    for s in vs + cs:
        if s not in res:
            res.append(s)
    return res


def bind_case(cases, binder, path, lead_kind=None, tag="", lead_method=None, combo=None):
    slots = slots_of(path)
    bind = {}
    for i, s in enumerate(slots):
        if i == 0 and lead_method:
            bind[str(s)] = lead_method["name"]
            continue
        if i == 0:
            k = lead_kind or binder.other_kind(None)
        else:
            k = binder.other_kind(lead_kind)
        bind[str(s)] = binder.method(k)
    if combo:
        lvl, deep = combo
    elif lead_method:
        # the most observant combination: AppState API (validators cache, read-only cache, nonce cache on top of the
        # StateDB constructors) with read-backs after every call
        ro_write = any(s["ev"] == "ViewWrite" and s["ctor"] == "readonly" for s in path)
        lvl, deep = ("sdb" if ro_write else "app"), True
    else:
        lvl, deep = binder.combo(path)
    cases.append({"id": len(cases), "lvl": lvl, "deep": deep, "bind": bind, "path": path, "tag": tag})


def maximal_walks(exports):
    """TLC's simulator evaluates the export for every candidate successor: keep one longest walk per prefix."""
    if not exports:
        return []
    mx = max(len(e["path"]) for e in exports)
    best = {}
    for e in exports:
        if len(e["path"]) == mx:
            best.setdefault(json.dumps(e["path"][:-1]), e["path"])
    return list(best.values())


# ------------------------------------------------------------------------------------------------
# reading a verdict

def obs_diff(a, b, extra_a=None, extra_b=None):
    out = []
    for f in ("root", "iroot", "ver", "vc"):
        if a.get(f) != b.get(f):
            out.append(f)
    if a.get("d") and b.get("d"):
        ra, rb = a["rb"].split("."), b["rb"].split(".")
        for i, k in enumerate(KINDS):
            if i >= len(ra) or i >= len(rb) or ra[i] != rb[i]:
                out.append("rb." + k)
    if extra_a is not None and extra_b is not None:
        for f in sorted(extra_a):
            if f in extra_b and extra_a[f] != extra_b[f]:
                out.append(f)
    return out


def case_bounds(rows, line):
    start = max(i for i in range(line) if rows[i].get("ev") == "Reset")
    end = next((i for i in range(line, len(rows)) if rows[i].get("ev") == "Reset"), len(rows))
    return start, end


def describe(clause, rows, line):
    """(key, what, excerpt rows) for the first trace line that breaks `clause` (1-based `line`)."""
    start, end = case_bounds(rows, line)
    case = rows[start:end]
    row = rows[line - 1]
    prev = rows[line - 2] if line - 2 >= start else rows[start]
    head = rows[start]
    fields = []
    if row.get("ev") not in ("Reset", "Panic") and "obs" in row and "obs" in prev:
        o, p = row["obs"], prev["obs"]
        if clause == "CanonUntouched":
            fields = obs_diff(p["c"], o["c"], p["cx"], o["cx"])
        elif clause == "ViewIsolated":
            for x in range(len(o["v"])):
                if o["v"][x].get("live") and p["v"][x].get("live") and not (row.get("x") == x + 1 and row["ev"] in ("ViewWrite", "ViewPrecommit", "ViewCommit", "ViewReset", "MakeView")):
                    fields += obs_diff(p["v"][x], o["v"][x])
        elif clause == "CanonMatchesControl":
            fields = [f for f in obs_diff(o["t"], o["c"], {"vers": o["tx"]["vers"]}, {"vers": o["cx"]["vers"]}) if f != "vc"]
        elif clause == "CommitExact":
            fields = [f for f in obs_diff(row.get("hist") or {}, o["c"]) if f != "vc"]
        elif clause in ("HistoricalExact", "ResetRestores"):
            # what was committed at the height concerned, as the driver's historian saw it
            top, com = 2, {1: head["gen"][0], 2: head["gen"][1]}
            for r in rows[start + 1:line]:
                if r.get("ev") in ("CanonCommit", "CanonCommitTree") and "hist" in r:
                    top += 1
                    com[top] = r["hist"]
                elif r.get("ev") == "CanonResetTo":
                    top = r["h"]
            if row["ev"] == "MakeView":
                fields = obs_diff(com.get(row["h"], {}), o["v"][row["x"] - 1])
            elif row["ev"] in ("CanonReset", "CanonResetTo"):
                fields = obs_diff(com.get(top, {}), o["c"])
            fields = [f for f in fields if f != "vc"]
    fields = sorted(set(fields))
    before = [r for r in rows[start + 1:line] if r.get("ev") in WRITE_EVS]
    wk = sorted(set("%s:%s" % ("view" if r["ev"] == "ViewWrite" else "canon", r.get("k")) for r in before))
    ev = row.get("ev") if row.get("ev") != "Panic" else "Panic@" + str((row.get("at") or {}).get("ev"))
    ctor = row.get("ctor") or (row.get("at") or {}).get("ctor") or ""
    sig = "%s%s:%s" % (ev, "." + ctor if ctor else "", "+".join(fields) if fields else "-")
    key = "C13:%s:%s" % (clause, sig)
    steps = [{k: r.get(k) for k in ("ev", "x", "ctor", "h", "s", "v", "m") if r.get(k) not in (None, "", 0)} for r in case[1:]]
    what = ("clause %s broken by the real %s at step %d (%s) of case %s [level %s, read-backs %s, binding %s]; differing: %s; "
            "writes before: %s; steps: %s; err=%s" % (
                clause, "AppState" if head.get("lvl") == "app" else "StateDB/IdentityStateDB", line - start - 1, ev, head.get("id"),
                head.get("lvl"), "after every call" if head.get("deep") else "at the end only", json.dumps(head.get("bind")),
                fields or "-", wk, json.dumps(steps)[:900], (row.get("err") or row.get("msg") or "")[:300]))
    return key, what, case


def validate_chunks(ctx, raw_by_case, timeout, extra_jobs=()):
    """Validate the trace in chunks (whole cases) in parallel JVMs; `extra_jobs` (callables) share the pool.
    Returns (n_lines, [(clause, rows, line)], results of the extra jobs)."""
    chunks, cur, n = [], [], 0
    for case_lines in raw_by_case:
        if cur and n + len(case_lines) > CHUNK_LINES:
            chunks.append(cur)
            cur, n = [], 0
        cur.append(case_lines)
        n += len(case_lines)
    if cur:
        chunks.append(cur)

    def one(i):
        path = ctx.path("chunks", "trace_%d.ndjson" % i)
        nl = 0
        with open(path, "w") as f:
            for c in chunks[i]:
                f.writelines(c)
                nl += len(c)
        ok, info = vlib.trace_validate(ctx, "Trace_StateViews.tla", "Trace_StateViews.cfg", path, timeout=timeout)
        return path, nl, ok, info

    found, lines = [], 0
    with concurrent.futures.ThreadPoolExecutor(max_workers=max(2, min(8, ctx.cores // 2))) as ex:
        extras = [ex.submit(j) for j in extra_jobs]
        for path, nl, ok, info in ex.map(one, range(len(chunks))):
            lines += nl
            if ok:
                continue
            rows = vlib.read_ndjson(path)
            broken = info.get("broken")
            if not broken:
                raise vlib.CheckError("state-views trace rejected without a broken clause (driver and specification disagree on "
                                      "what is enabled; not a verdict): %s\nnear: %s" % (
                                          {k: info.get(k) for k in ("line", "invariant", "error")},
                                          json.dumps({k: v for k, v in rows[min(len(rows), info.get("line") or 1) - 1].items() if k not in ("obs", "gen", "hist")})[:400]))
            for line, clause in broken:
                found.append((clause, rows, line))
        extra_results = [e.result() for e in extras]
    return lines, found, extra_results


# ------------------------------------------------------------------------------------------------

def run(ctx, quick):
    prop0 = ctx.prop
    ctx.prop = "C13"   # known findings / replays of this module belong to C13 whoever calls it
    try:
        return _run(ctx, quick)
    finally:
        ctx.prop = prop0


def _run(ctx, quick):
    rnd = random.Random(ctx.seed)
    drv = vlib.build_driver(ctx, "d_stateviews")
    p = vlib.run(["%s" % drv, "-list"], timeout=60)
    methods = json.loads(p.stdout.strip().splitlines()[-1])
    binder = Binder(methods, rnd)

    # 1. exhaustive bounded model + stratified export (one worker: breadth-first, the first path of a stratum is a shortest one)
    # 2. random walks of a larger instance (run concurrently)
    cfg = "MC_StateViews_quick.cfg" if quick else "MC_StateViews_thorough.cfg"
    nwalk, depth = (120, 14) if quick else (1500, 22)
    acfg = "MC_StateViews_adopt.cfg" if quick else "MC_StateViews_adopt_thorough.cfg"
    with concurrent.futures.ThreadPoolExecutor(max_workers=4) as ex:
        f1 = ex.submit(vlib.tlc, ctx, "MC_StateViews.tla", cfg, workers=1, timeout=3000, sub="tlc_sv_model")
        f2 = ex.submit(vlib.tlc, ctx, "MC_StateViews.tla", "MC_StateViews_sim.cfg", workers=1, timeout=1800, sub="tlc_sv_sim",
                       extra=["-simulate", "num=%d" % nwalk, "-depth", str(depth), "-seed", str(ctx.seed)], simulate=True)
        # the node's block-adoption flow (views at the head, Precommit diffs applied with AddDiff + CommitTrees), deeper
        f3 = ex.submit(vlib.tlc, ctx, "MC_StateViews.tla", acfg, workers=1, timeout=3000, sub="tlc_sv_adopt")
        # thorough: the general model one step deeper, properties only (no export)
        f4 = None if quick else ex.submit(vlib.tlc, ctx, "MC_StateViews.tla", "MC_StateViews_deep.cfg", workers=max(2, ctx.cores // 2),
                                          timeout=3000, sub="tlc_sv_deep", want_exports=False)
        r, rs, ra = f1.result(), f2.result(), f3.result()
        rd = f4.result() if f4 else None
    if rd is not None and not rd.ok:
        raise vlib.CheckError("design-level StateViews model (deep) violates %s (model-only counterexample, not a verdict):\n%s"
                              % (rd.invariant, (rd.error or "")[:2000]))
    if not ra.ok:
        raise vlib.CheckError("design-level StateViews adoption model violates %s (model-only counterexample, not a verdict):\n%s"
                              % (ra.invariant, (ra.error or "")[:2000]))
    apaths = [e["path"] for e in ra.exports]
    if not apaths:
        raise vlib.CheckError("no paths exported from the StateViews adoption model (dead generator)")
    if not r.ok:
        raise vlib.CheckError("design-level StateViews model violates %s (model-only counterexample, not a verdict):\n%s"
                              % (r.invariant, (r.error or "")[:2000]))
    paths = [e["path"] for e in r.exports]
    if not paths:
        raise vlib.CheckError("no paths exported from the StateViews model (dead generator)")
    ctx.log("state views model: %d generated / %d distinct, %d strata exported in %.1fs; adoption model: %d / %d, %d strata in %.1fs" % (
        r.generated, r.distinct, len(paths), r.wall, ra.generated, ra.distinct, len(apaths), ra.wall))
    if rs.error:
        raise vlib.CheckError("simulation of the StateViews model failed (model-only): " + (rs.error or "")[:1500])
    walks = maximal_walks(rs.exports)
    if not walks:
        raise vlib.CheckError("no simulation walks exported from the StateViews model")

    # 3. binding
    cases = []
    full_len, part_len, part_kinds = (3, 4, 4) if quick else (4, 5, 4)
    n_cross = n_vw_paths = 0
    for path in paths:
        has_write = any(s["ev"] in WRITE_EVS for s in path)
        if len(path) <= full_len and any(s["ev"] == "ViewWrite" for s in path):
            # short path with a write by a view x EVERY method (thorough: the 4-step ones x a rotating third of the methods)
            stride = 1 if len(path) <= 3 else 3
            n_vw_paths += 1
            for i, m in enumerate(methods):
                if (i + n_vw_paths) % stride == 0:
                    bind_case(cases, binder, path, lead_kind=m["kind"], tag="method", lead_method=m)
                    n_cross += 1
            continue
        if has_write and len(path) <= full_len:
            ks = binder.kinds                                            # short path with a write x EVERY kind of buffer
        elif has_write and len(path) <= part_len:
            ks = [binder.other_kind(None) for _ in range(part_kinds)]    # longer: a rotating subset of the kinds
        elif not has_write:
            for combo in COMBOS:                                         # nothing to bind: both levels x both read-back modes
                bind_case(cases, binder, path, tag="stratum", combo=combo)
            continue
        else:
            ks = [None] * (1 if quick else 2)
        for k in ks:
            bind_case(cases, binder, path, lead_kind=k, tag="cross" if k else "stratum")
            n_cross += 1 if k else 0
    known = set(json.dumps(p_) for p_ in paths)
    n_adopt = 0
    for path in apaths:
        if len(path) <= part_len or json.dumps(path) in known:
            continue                                                     # (the short ones are strata of the general model too)
        for k in [binder.other_kind(None) for _ in range(2 if quick else 4)]:
            bind_case(cases, binder, path, lead_kind=k, tag="adopt")
            n_adopt += 1
    for wpath in walks:
        for _ in range(1 if quick else 2):
            bind_case(cases, binder, wpath, lead_kind=binder.kinds[rnd.randrange(len(binder.kinds))], tag="walk")
    cfile = ctx.path("sv_cases.json")
    with open(cfile, "w") as f:
        for c in cases:
            f.write(json.dumps(c) + "\n")
    ctx.log("state views: %d cases (%d kind-crossed, %d adoption flows, %d walks of depth %d)" % (len(cases), n_cross, n_adopt, len(walks), depth))

    # 4. the real code
    trace = ctx.path("sv_trace.ndjson")
    p = vlib.run_driver(ctx, drv, ["-cases", cfile, "-out", trace], timeout=3000)
    if p.returncode != 0:
        raise vlib.CheckError("d_stateviews failed:\n" + (p.stdout or "")[-3000:])
    stats = {}
    for line in (p.stdout or "").splitlines():
        if line.startswith("STATS "):
            stats = json.loads(line[6:])
    by_case, cur = [], None
    with open(trace) as f:
        for line in f:
            if line.find('"ev":"Reset"', 0, 600) >= 0:
                cur = []
                by_case.append(cur)
            cur.append(line)
    if len(by_case) != len(cases):
        raise vlib.CheckError("d_stateviews ran %d of %d cases" % (len(by_case), len(cases)))
    ctx.log("state views: real code performed %d calls in %d cases (%d panics)" % (
        sum(v for k, v in stats.items() if k.startswith("ev:")), len(cases), stats.get("panics", 0)))

    # vacuity: every method driven on a view, every action class performed
    missing = [m["name"] for m in methods if not stats.get("vw:" + m["name"])]
    if missing:
        raise vlib.CheckError("methods never driven on a view (dead driver): %s" % missing)
    for ev in ("CanonWrite", "CanonPrecommit", "CanonCommit", "CanonAddDiff", "CanonCommitTree", "CanonReset", "CanonResetTo",
               "MakeView", "ViewWrite", "ViewPrecommit", "ViewCommit", "ViewReset", "DropView", "NonceTouch", "ReadAll"):
        if not stats.get("ev:" + ev):
            raise vlib.CheckError("action %s never performed on the real code (dead driver)" % ev)

    # 5. TLC decides (+ 6. binding self-test, in the same pool: a recorded run in which a view step changes the canonical
    #    root, and one in which a new view does not show the committed version, must be rejected)
    st_good, st_bad = selftest_files(ctx, by_case)
    lines, found, st = validate_chunks(ctx, by_case, timeout=3000, extra_jobs=[
        lambda: vlib.trace_validate(ctx, "Trace_StateViews.tla", "Trace_StateViews.cfg", st_good),
        lambda: vlib.trace_validate(ctx, "Trace_StateViews.tla", "Trace_StateViews.cfg", st_bad)])
    per_clause = {}
    seen_keys = set()
    for clause, rows, line in sorted(found, key=lambda x: CLAUSES.index(x[0]) if x[0] in CLAUSES else 99):
        key, what, excerpt = describe(clause, rows, line)
        if key in seen_keys or per_clause.get(clause, 0) >= 3:
            continue
        seen_keys.add(key)
        per_clause[clause] = per_clause.get(clause, 0) + 1
        ex = ctx.path("sv_replay_%d.ndjson" % len(seen_keys))
        vlib.write_ndjson(ex, excerpt)
        vlib.report_violation(ctx, key, what, replay_src=ex, payload={"clause": clause, "case": {k: excerpt[0].get(k) for k in ("id", "lvl", "deep", "bind")},
                                                                      "path": [{k: r.get(k) for k in ("ev", "x", "ctor", "h", "s", "v", "m", "k")} for r in excerpt[1:]]})
    (ok_good, info_good), (ok_bad, info_bad) = st
    if ok_good:      # (a good prefix that is itself rejected is reported by the verdict run above)
        got = sorted(set(cl for _, cl in info_bad.get("broken", []))) if not ok_bad else []
        if ok_bad or "CanonUntouched" not in got or "HistoricalExact" not in got:
            raise vlib.CheckError("state-views binding self-test failed: corrupted trace gave %s (expected CanonUntouched and HistoricalExact)" % (got or "acceptance"))
        ctx.log("state views binding self-test: corrupted trace rejected (%s)" % ", ".join(got))
    elif not found:
        raise vlib.CheckError("state-views self-test: the recorded good prefix is rejected although the whole trace is accepted: %s" % info_good)

    by_tag = {}
    for c in cases:
        by_tag[c["tag"]] = by_tag.get(c["tag"], 0) + 1
    return {
        "states": r.distinct + ra.distinct + (rd.distinct if rd else 0), "transitions": r.generated + ra.generated + (rd.generated if rd else 0),
        "model_cfg": [cfg, acfg] + (["MC_StateViews_deep.cfg"] if rd else []),
        "strata_exported": len(paths) + len(apaths),
        "simulation_walks": len(walks), "simulation_depth": depth,
        "traces_validated_against_impl": len(cases), "trace_lines_validated": lines, "cases_by_origin": by_tag,
        "methods_in_table": len(methods), "methods_driven_on_a_view": len(methods) - len(missing),
        "kinds": binder.kinds,
        "calls_performed": {k[3:]: v for k, v in sorted(stats.items()) if k.startswith("ev:")},
        "panics": stats.get("panics", 0),
        "samples": [cases[0]["path"], cases[len(cases) // 2]["path"][:8], walks[0][:10]],
        "rule": "every stratum of the bounded StateViews model (set of step classes before x classes of the two steps just before x "
                "situated class of the step x 'another party wrote before'; 2 views, 2 slots, <= %d steps; + the block-adoption flow "
                "AddDiff/CommitTrees with views at the head, <= %d steps) performed on the real StateDB/IdentityStateDB/AppState; every path with a write of "
                "<= %d steps crossed with all %d kinds of buffer, with a write by a view: with EVERY method (<= %d steps: with %d kinds in "
                "rotation); every one of the %d mutating methods driven on a view; %d random walks (3 views, 3 slots, depth %d)" % (
                    4 if quick else 5, 7 if quick else 8, full_len, len(binder.kinds), part_len, part_kinds, len(methods), len(walks), depth),
    }


def selftest_files(ctx, by_case):
    """Writes a recorded good excerpt and a corrupted copy of it; returns the two paths."""
    def pick(pred):
        for c in by_case:
            for i, raw in enumerate(c):
                if i > 0 and pred(raw):
                    return [json.loads(x) for x in c], i
        return None, None

    # (a) a view write after which the canonical object shows another root
    c, i = pick(lambda raw: raw.find('"ev":"ViewWrite"', 0, 600) >= 0)
    # (b) a new view that shows another identity root than the committed version
    c2, i2 = pick(lambda raw: raw.find('"ev":"MakeView"', 0, 600) >= 0 and raw.find('"ctor":"readonly"', 0, 600) >= 0)
    if c is None or c2 is None:
        raise vlib.CheckError("state-views self-test could not find a ViewWrite / MakeView line")
    good = ctx.path("sv_selftest", "good.ndjson")
    vlib.write_ndjson(good, c + c2)
    flip = lambda h: ("00" if not h.startswith("00") else "11") + h[2:]
    bad_c = json.loads(json.dumps(c))
    bad_c[i]["obs"]["c"]["root"] = flip(bad_c[i]["obs"]["c"]["root"])
    bad_c2 = json.loads(json.dumps(c2))
    v = bad_c2[i2]["obs"]["v"][bad_c2[i2]["x"] - 1]
    v["iroot"] = flip(v["iroot"])
    bad = ctx.path("sv_selftest", "bad.ndjson")
    vlib.write_ndjson(bad, bad_c + bad_c2)
    return good, bad


def main(ctx):
    """Stand-alone entry (tools/check C13_VIEWS): the module alone, with its own evidence file."""
    cov = run(ctx, ctx.tier == "quick")
    return vlib.finish(ctx, "model_checking", cov, assumptions=ASSUMPTIONS)


ASSUMPTIONS = [
    "a view whose base version is deleted from the canonical database by ResetTo is dead (never used again)",
    "a ForCheck view saves a version of its own only while the canonical head has not moved past it (real API precondition)",
    "AppState.Readonly hands the same cached object to every caller of a height: writes through read-only views are driven at the StateDB level only",
    "version pruning beyond 100 saved states is covered by the chain-level part of C13, not here",
]
