"""Growth module "QUAL" of C17: qualification of flips and of candidates.

spec/Qualification.tla is a transcription of core/ceremony/qualification.go (qualifyOneFlip, qualifyFlips, qualifyCandidate,
getFlipStatusForCandidate) and reporters.go (the reporters book, the grades book of upgrade 11) - the function family between
the answers recorded in blocks and the inputs of the status decision table (Ceremony.tla) - with the design-level properties
as clauses (GradeConsistent, ReportHonoured, AnswerBacked, ConsensusHonoured, OnlyAssigned, ReportLimit, RewardOnlyReported, ReportersRewarded, NoAnswerNoPoint,
ScoreInRange, PointJustified, QualifiedCounts, TestingFlips, Deterministic, PermutationInvariant, BookConsistent, BookOperation).

1. TLC: MC_QualOne (case table of qualifyOneFlip: every answer split, every committee, the big flips where 66 % is hit
   exactly), MC_QualPop (population families committee / allowance / silent / decode + random populations by simulation),
   MC_QualCand (candidate contexts with free flip qualifications: per position, extra "testing" flips, payload kinds + random
   ones by simulation), MC_QualBook (the reporters book as a state machine, edge cover).  The clauses are checked on the
   model's own results; every case / population / context / operation path is exported.
2. harness/cmd/d_qual runs the REAL code on every export and on seeded random scenarios (real qualification objects filled
   through addAnswers with real attachment payloads, real epoch db with answer hashes; evaluated again, on an object filled in
   another arrival order with later duplicates, on one restored from persist(), with the candidates listed in another order).
3. TLC validates the recorded lines against spec/Trace_Qualification.tla: every clause on every observed result (a broken
   clause is the verdict); the model's exact prediction is compared too, a difference that breaks no clause is drift.

run(ctx, quick) returns the coverage dict; violations go through vlib.report_violation with keys C17:QUAL:<clause>:<signature>.
"""
import collections
import concurrent.futures
import json
import os
import random
import re
import shutil
import threading

import vlib

TRACE = ("Trace_Qualification.tla", "Trace_Qualification.cfg")
CLAUSES = ("GradeConsistent", "ReportHonoured", "AnswerBacked", "ConsensusHonoured", "OnlyAssigned", "ReportLimit", "RewardOnlyReported",
           "ReportersRewarded", "NoAnswerNoPoint", "ScoreInRange", "PointJustified", "QualifiedCounts", "TestingFlips", "Deterministic",
           "PermutationInvariant", "BookConsistent", "BookOperation", "ResultShape")
ASSUMPTIONS = [
    "upgrade flags in force: (upgrade10, upgrade11) in {(off, off), (on, off), (on, on)} - the repository's consensus versions 9, 10, 12; "
    "upgrade 11 without upgrade 10 is no version of the network and outside the model's domain",
    "flip lists of a candidate are duplicate free and index existing flips (what the lottery hands out: C16)",
    "shares are compared as exact rationals; the code's float32 quotients agree with them for counts below 2^20 (checked on the real "
    "code where 66 % and 34 % are hit exactly: 33 of 50, 17 of 50, 66 of 100, ...)",
    "analyzeAuthors (bad / good authors, which runs between qualifyFlips and setValidationResult in the ceremony) is outside this module; "
    "the book is driven through its own methods in every order instead",
]
_lock = threading.Lock()
_seq = [0]


def _tlc(ctx, spec, cfg, **kw):
    with _lock:
        _seq[0] += 1
        sub = "q_%s_%d" % (cfg.replace(".cfg", ""), _seq[0])
    return vlib.tlc(ctx, spec, cfg, sub=sub, **kw)


def _model(ctx, name, spec, cfg, workers=2, extra=(), simulate=False):
    r = _tlc(ctx, spec, cfg, workers=workers, timeout=2400, extra=list(extra), simulate=simulate, env={"VERIF_SEED": str(ctx.seed)})
    if simulate:
        if r.error:
            raise vlib.CheckError("simulation of %s/%s failed (model-only, not a verdict): %s" % (spec, cfg, (r.error or "")[:1500]))
    elif not r.ok:
        raise vlib.CheckError("design-level model %s/%s violates %s (model-only counterexample, not a verdict):\n%s"
                              % (spec, cfg, r.invariant, (r.error or "")[:2000]))
    if not r.exports:
        raise vlib.CheckError("%s/%s exported nothing (dead generator)" % (spec, cfg))
    return name, r


def _dedup(exports, key):
    seen, res = set(), []
    for e in exports:
        k = json.dumps(e[key], sort_keys=True)
        if k not in seen:
            seen.add(k)
            res.append(e)
    res.sort(key=lambda e: json.dumps(e[key], sort_keys=True))      # TLC's print order depends on worker timing
    return res


def _family(e):
    """The generator family of an exported population (for keys and coverage only)."""
    fam = e.get("fam", "random")
    return "committee%d" % len(e["pop"]["cands"]) if fam == "committee" else fam


def _validate(ctx, path, sub):
    r = vlib.tlc(ctx, TRACE[0], TRACE[1], workers=1, env={"TRACE_FILE": path}, timeout=3000, sub=sub, want_exports=False)
    info = {"states": r.distinct, "broken": [], "counts": {}}
    rejected = None
    for line in r.out.splitlines():
        m = re.match(r'<<"TRACE_REJECTED_AT", (\d+), (\d+)>>', line)
        if m:
            rejected = int(m.group(1))
        m = re.match(r'<<"CLAUSE_BROKEN", (\d+), "([^"]*)">>', line)
        if m:
            ln, name = int(m.group(1)), m.group(2)
            if name.startswith("count:"):
                k, n = name[len("count:"):].rsplit("=", 1)
                info["counts"][k] = int(n)
            else:
                info["broken"].append((ln, name))
    if rejected is not None or (not r.ok and not info["broken"]):
        raise vlib.CheckError("TLC could not consume the recorded lines of %s (not a verdict), stopped at line %s:\n%s"
                              % (os.path.basename(path), rejected, r.out[-2500:]))
    return info


def _signature(name, row, scen):
    ev = row.get("ev")
    if ev == "One":
        fl = "u10" * bool(row["u10"]) + "u11" * bool(row["u11"]) or "v9"
        if name == "GradeConsistent":
            return "one:%s:committee%d-reports%d" % (fl, row["rcs"], row["rep"])
        return "one:%s:l%d-r%d-n%d" % (fl, row["l"], row["r"], row["n"])
    if ev in ("Flips", "FlipsV"):
        e = scen.get(row.get("sid"))
        pop = e["pop"] if e else row.get("pop") or {}
        fl = ("u10" * bool(pop.get("u10")) + "u11" * bool(pop.get("u11")) or "v9") if pop else "?"
        return "flips:%s:%s%s" % (fl, _family(e) if e else "random", (":" + row["var"]) if ev == "FlipsV" else "")
    if ev in ("Cand", "CandV"):
        base = row if ev == "Cand" else scen.get(("cand", row.get("sid")), {})
        return "cand:%s%s" % ("short" if base.get("short") else "long", (":" + row["var"]) if ev == "CandV" else ":has%s" % base.get("has"))
    if ev == "Book":
        return "book:%s" % row.get("op")
    return str(ev)


def _slim(row):
    return json.dumps(row, sort_keys=True)[:1400]


def _report(ctx, rows, info, scen, drift, skips):
    for line, name in info["broken"]:
        row = rows[line - 1]
        n = info["counts"].get(name, 1)
        if name == "Concretisation":
            raise vlib.CheckError("driver fault: recorded input outside the model's domain (line %d): %s" % (line, _slim(row)))
        if name.startswith("drift:"):
            d = drift.setdefault(name[len("drift:"):], {"lines": 0, "first": _slim(row)[:700]})
            d["lines"] += n
            continue
        if name.startswith("skip:"):
            skips[0] += n
            continue
        clause = name.split(":")[0]
        if clause not in CLAUSES:
            raise vlib.CheckError("unknown clause name from the trace specification: %s" % name)
        # the lines of the scenario the broken line belongs to
        start = line - 1
        while start > 0 and rows[start].get("ev") in ("FlipsV", "CandV", "Cand", "Book") and line - 1 - start < 80:
            start -= 1
        ex = ctx.path("replay_qual_%s.ndjson" % re.sub(r"[^A-Za-z0-9]", "_", name)[:50])
        vlib.write_ndjson(ex, rows[start:line])
        key = "C17:QUAL:%s:%s" % (clause, _signature(name, row, scen))
        base = ""
        if row.get("ev") in ("FlipsV", "CandV"):
            want = "Flips" if row["ev"] == "FlipsV" else "Cand"
            b = next((rows[i] for i in range(line - 2, -1, -1) if rows[i].get("ev") == want), None)
            base = "; first evaluation: %s" % _slim(b)[:900] if b else ""
        what = ("clause %s of Qualification.tla broken by the real qualification code (%d recorded line(s) break it); first: %s%s"
                % (name, n, _slim(row), base))
        vlib.report_violation(ctx, key, what, replay_src=ex, payload={"clause": name, "line": row, "lines_breaking": n})


def _selftest(ctx, rows):
    """Binding self-test: a sample of recorded lines must be accepted; the same sample with one field corrupted / one event
    removed must be rejected with the clause the corruption breaks."""
    def pick(pred):
        for i, r in enumerate(rows):
            if pred(r):
                return i
        raise vlib.CheckError("self-test: no suitable recorded line (dead driver)")

    # scenarios: whole groups (a Flips / Cand line with its variants)
    i_one = pick(lambda r: r["ev"] == "One" and r["o"][2] != 1 and r["rcs"] >= 2)
    i_fl = pick(lambda r: r["ev"] == "Flips" and any(q[2] == 1 for q in r["o"]["fq"]) and any(r["o"]["rw"]))
    j_fl = i_fl + 1
    while j_fl < len(rows) and rows[j_fl]["ev"] in ("FlipsV", "Cand", "CandV"):
        j_fl += 1
    i_cd = pick(lambda r: r["ev"] == "Cand" and r["o"]["p2"] > 0 and not r["short"])
    i_bk = pick(lambda r: r["ev"] == "BookNew")
    j_bk = i_bk + 1
    while j_bk < len(rows) and rows[j_bk]["ev"] == "Book":
        j_bk += 1
    if not any(len(r["bf"]) > 1 for r in rows[i_bk + 1:j_bk]):
        i_bk = pick(lambda r: r["ev"] == "Book" and len(r["bf"]) > 1) - 1
        while rows[i_bk]["ev"] != "BookNew":
            i_bk -= 1
        j_bk = i_bk + 1
        while j_bk < len(rows) and rows[j_bk]["ev"] == "Book":
            j_bk += 1
    good = [rows[i_one]] + rows[i_fl:j_fl] + [rows[i_cd]] + rows[i_bk:j_bk]
    gp = ctx.path("selftest", "qual_good.ndjson")
    vlib.write_ndjson(gp, good)
    info = _validate(ctx, gp, "q_self_good")
    if [n for _, n in info["broken"] if not n.startswith(("drift:", "skip:"))]:
        raise vlib.CheckError("self-test: a sample of accepted lines was rejected: %s" % info["broken"])

    def corrupt(name, fn, want):
        bad = json.loads(json.dumps(good))
        bad = fn(bad)
        bp = ctx.path("selftest", "qual_bad_%s.ndjson" % name)
        vlib.write_ndjson(bp, bad)
        inf = _validate(ctx, bp, "q_self_" + name)
        names = set(n for _, n in inf["broken"])
        if not any(n == want or n.startswith(want + ":") for n in names):
            raise vlib.CheckError("binding self-test failed: corrupted trace (%s) not rejected as %s: %s" % (name, want, sorted(names)))

    def c_one(b):
        b[0]["o"][2] = 1            # graded Reported without the required share of the committee
        return b

    def c_reward(b):
        r = b[1]["o"]
        f = next(x for x, q in enumerate(r["fq"]) if q[2] != 1)
        r["rw"][f] = [1]            # a reporter kept for a flip that did not end up Reported
        return b

    def c_variant(b):
        v = next(x for x in b[1:] if x["ev"] == "FlipsV")
        v["o"]["fq"][0][0] = (v["o"]["fq"][0][0] + 1) % 4      # a second evaluation that differs
        return b

    def c_drop(b):
        k = next(i for i, x in enumerate(b) if x["ev"] == "Cand" and not x["short"] and x["o"]["p2"] > 0)
        b[k]["noa"] = True
        b[k]["o"]["noa"] = True     # flagged "no answer" although it answered and scored
        return b

    def c_removed(b):
        # one event removed (an add of a new entry that the next observation still shows): that observation then holds an
        # entry no operation added
        for k in range(1, len(b) - 1):
            x, nxt, prev = b[k], b[k + 1], b[k - 1]
            if x["ev"] == "Book" and x["op"] == "add" and nxt["ev"] == "Book" and prev["ev"] in ("Book", "BookNew"):
                pair = [x["f"], x["r"]]
                had = prev["ev"] == "Book" and any(e[:2] == pair for e in prev["bf"])
                if not had and any(e[:2] == pair for e in nxt["bf"]) and not (nxt["op"] == "add" and [nxt["f"], nxt["r"]] == pair):
                    del b[k]
                    return b
        raise vlib.CheckError("self-test: no removable book operation in the sample (dead driver)")

    def c_book(b):
        k = next(i for i, x in enumerate(b) if x["ev"] == "Book" and len(x["bf"]) > 1)
        b[k]["br"] = b[k]["br"][1:]  # the per-reporter index lost an entry the published map still has
        return b

    corrupt("one", c_one, "GradeConsistent")
    corrupt("reward", c_reward, "RewardOnlyReported")
    corrupt("variant", c_variant, "Deterministic")
    corrupt("noanswer", c_drop, "NoAnswerNoPoint")
    corrupt("removed", c_removed, "BookOperation")
    corrupt("book", c_book, "BookConsistent")
    ctx.log("binding self-test: 6 corrupted copies (verdict changed, reward added, variant changed, flag changed, event removed, index entry "
            "removed) rejected with the expected clauses")


def run(ctx, quick):
    rnd = random.Random(ctx.seed)
    pool = concurrent.futures.ThreadPoolExecutor(max_workers=5)
    fdrv = pool.submit(vlib.build_driver, ctx, "d_qual")

    # 1. the bounded models: clauses on the model's own results + export
    tier = "quick" if quick else "thorough"
    nsim, ncsim = (400, 600) if quick else (4000, 5000)
    jobs = [
        pool.submit(_model, ctx, "one", "MC_QualOne.tla", "MC_QualOne_%s.cfg" % tier, 3),
        pool.submit(_model, ctx, "pop", "MC_QualPop.tla", "MC_QualPop_%s.cfg" % tier, 3 if quick else 5),
        pool.submit(_model, ctx, "popsim", "MC_QualPop.tla", "MC_QualPop_sim.cfg", 1,
                    ["-simulate", "num=%d" % nsim, "-depth", "120", "-seed", str(ctx.seed)], True),
        pool.submit(_model, ctx, "cand", "MC_QualCand.tla", "MC_QualCand.cfg", 2),
        pool.submit(_model, ctx, "candsim", "MC_QualCand.tla", "MC_QualCand_sim.cfg", 1,
                    ["-simulate", "num=%d" % ncsim, "-depth", "30", "-seed", str(ctx.seed)], True),
        pool.submit(_model, ctx, "book", "MC_QualBook.tla", "MC_QualBook_%s.cfg" % tier, 1),    # one worker: the exported paths do not depend on timing
    ]
    res = dict(j.result() for j in jobs)
    states = sum(r.distinct for r in res.values())
    trans = sum(r.generated for r in res.values())
    ones = _dedup([e for e in res["one"].exports if "case" in e], "case")
    pops = _dedup([e for e in res["pop"].exports + res["popsim"].exports if "pop" in e], "pop")
    ctxs = _dedup([e for e in res["cand"].exports + res["candsim"].exports if "ctx" in e], "ctx")
    books = _dedup([e for e in res["book"].exports if "ops" in e], "ops")
    if quick:
        # the edge cover of the book model: a seeded third of the paths (every operation kind stays present)
        rnd.shuffle(books)
        books = books[:max(1500, len(books) // 3)]
    # vacuity of the generators: every status, every grade kind, both sides of every rule
    exp1 = collections.Counter((e["expect"]["st"], e["expect"]["gr"] == 1) for e in ones)
    for st in range(4):
        for rep in (False, True):
            if not exp1.get((st, rep)):
                raise vlib.CheckError("case table without a case of status %d / reported=%s (vacuous bounds)" % (st, rep))
    fam = collections.Counter(_family(e) for e in pops)
    nrep = sum(1 for e in pops for q in e["expect"]["fq"] if q["gr"] == 1)
    nrew = sum(1 for e in pops for x in e["expect"]["rw"] if x)
    nwr = sum(1 for e in pops for x in e["expect"]["wr"] if x >= 0)
    if not (nrep and nrew and nwr and all(fam.get(k) for k in ("committee2", "committee3", "allowance", "silent", "decode", "sim"))):
        raise vlib.CheckError("population model without reported flips / rewarded reporters / ignored graders (vacuous bounds): %s" % dict(fam))
    ctx.log("models: %d generated / %d distinct states; exported %d flip cases, %d populations (%s), %d candidate contexts, %d book paths"
            % (trans, states, len(ones), len(pops), ", ".join("%s=%d" % kv for kv in sorted(fam.items())), len(ctxs), len(books)))

    # 2. the real code, sharded; 3. TLC validates every shard
    drv = fdrv.result()
    nshard = 4 if quick else 6
    nrand = (60 if quick else 1500)
    lean = 3 if quick else 2
    scen = {}
    for i, e in enumerate(pops):
        scen[i] = e
    shards = []
    for s in range(nshard):
        d = {}
        for name, lst, key, idk in (("one", ones, "case", "id"), ("pops", pops, "pop", "sid"), ("cands", ctxs, "ctx", "sid"), ("books", books, "ops", "sid")):
            fn = ctx.path("qual_in", "%s_%d.json" % (name, s))
            with open(fn, "w") as f:
                for i in range(s, len(lst), nshard):
                    f.write(json.dumps({idk: i, key: lst[i][key]}) + "\n")
            d[name] = fn
        shards.append(d)

    def shard(s):
        d = shards[s]
        out = ctx.path("qual_trace_%d.ndjson" % s)
        wd = os.path.dirname(ctx.path("wd_qual_%d" % s, "x"))
        p = vlib.run([drv, "-one", d["one"], "-pops", d["pops"], "-cands", d["cands"], "-books", d["books"], "-random", str(nrand),
                      "-first", str(1000000 + s * 100000), "-lean", str(lean), "-out", out],
                     cwd=wd, env={"VERIF_SEED": str(ctx.seed), "VERIF_TIER": ctx.tier}, timeout=3000, check=False)
        shutil.rmtree(wd, ignore_errors=True)
        if p.returncode != 0:
            vlib.driver_failure(ctx, p.stdout or "", "d_qual failed")
        st = collections.Counter()
        last = (p.stdout or "").strip().splitlines()[-1] if (p.stdout or "").strip() else ""
        for tok in last.split():
            if "=" in tok:
                k, v = tok.split("=", 1)
                st[k] += int(v)
        info = _validate(ctx, out, "q_tv_%d" % s)
        if info["states"] != st["lines"] + 1:
            raise vlib.CheckError("trace shard %d not consumed completely (%d states for %d lines)" % (s, info["states"], st["lines"]))
        return out, st, info

    results = list(pool.map(shard, range(nshard)))
    pool.shutdown()
    st = collections.Counter()
    for _, s1, _ in results:
        st.update(s1)
    ctx.log("real code: " + " ".join("%s=%d" % kv for kv in sorted(st.items())))
    # vacuity on the INPUT side only (what the real code made of the inputs is for the clauses to judge)
    need = ["ones", "pops", "cands", "ctxs", "variants", "nopayload", "book_add", "book_delf", "book_delr", "book_res"]
    for k in need:
        if not st.get(k):
            raise vlib.CheckError("the driver never produced '%s' (dead driver)" % k)
    if st["ones"] != len(ones) + 2 * nrand * nshard or st["pops"] != len(pops) + nrand * nshard:
        raise vlib.CheckError("dead driver: %d flip cases / %d populations evaluated, %d / %d expected"
                              % (st["ones"], st["pops"], len(ones) + 2 * nrand * nshard, len(pops) + nrand * nshard))

    drift, skips, clean = {}, [0], True
    for out, _, info in results:
        if info["broken"]:
            rows = vlib.read_ndjson(out)
            before = len(ctx.violations) + len(ctx.known_hits)
            _report(ctx, rows, info, scen, drift, skips)
            clean = clean and before == len(ctx.violations) + len(ctx.known_hits)
    if skips[0] and clean:
        raise vlib.CheckError("%d candidate lines lay outside the model's domain although no clause on the flip qualifications was broken" % skips[0])

    # 4. binding self-test
    if clean:
        rows = vlib.read_ndjson(results[0][0])
        _selftest(ctx, rows)

    sample = rnd.sample(range(len(pops)), min(2, len(pops)))
    return {
        "qual_states": states, "qual_transitions": trans,
        "qual_model_cfgs": ["MC_QualOne_%s" % tier, "MC_QualPop_%s" % tier, "MC_QualPop_sim", "MC_QualCand", "MC_QualCand_sim", "MC_QualBook_%s" % tier],
        "qual_traces_validated_against_impl": st["ones"] + st["pops"] + st["ctxs"] + st["cands"] + st["variants"] + st["bookops"],
        "qual_trace_lines": st["lines"],
        "qual_exported": {"flip_cases": len(ones), "populations": len(pops), "population_families": dict(fam), "candidate_contexts": len(ctxs),
                          "book_paths": len(books)},
        "qual_real": {k: st.get(k, 0) for k in ("ones", "pops", "cands", "ctxs", "variants", "bookops", "nopayload", "reported", "rewarded", "wrong", "noanswer",
                                                "st0", "st1", "st2", "st3", "book_add", "book_delf", "book_delr", "book_res")},
        "qual_random_scenarios": nrand * nshard,
        "qual_drift": {k: v for k, v in sorted(drift.items())},
        "qual_samples": [{"pop": pops[i]["pop"], "expect_fq": pops[i]["expect"]["fq"]} for i in sample] + [ones[len(ones) // 2]],
        "qual_rule": "case table of qualifyOneFlip (every answer split up to %s answers, every committee up to %s members, big flips next to the "
                     "thresholds), population families committee / allowance / silent / decode + %d simulated populations, candidate contexts per "
                     "position / extra flips / payload kinds + %d simulated contexts, edge cover of the reporters book model; every export and %d "
                     "seeded random scenarios of every kind run on the REAL code (variants: again, other arrival order with duplicates, restored "
                     "from persist(), other candidate order); every clause of Trace_Qualification evaluated on every recorded line"
                     % ((("12", "7") if quick else ("24", "11")) + (nsim, ncsim, nrand * nshard)),
    }
