"""C20 — push/pull fetches each announced item once, falling back to the next announcer.

1. TLC explores spec/Tracker.tla (implementation-shaped, loop split at its unlocked peek / sleep /
   remove steps) exhaustively in a bounded model; the property clauses (NoLoss, NoPullAfterStored,
   KnownIgnored, FirstImmediate, DelayRespected, ParallelCap, OnlyAnnouncers, Bounded) are checked as
   an action property on every transition.
2. Schedules are exported from TLC (BFS edge cover of the "interesting" loop transitions + random
   walks of a larger instance) and replayed EXACTLY on the real PushPullManager / DefaultPushTracker /
   DefaultHolder under a virtual clock with the loop gated by the verif hooks.
3. The recorded traces are validated by TLC against spec/Trace_Tracker.tla: the property clauses are
   evaluated on the OBSERVED pre/post states of every step (verdict); the implementation-shaped
   prediction is compared too (drift, reported only).
"""
import json
import random

import vlib
from props.c13 import selftest_reject

CLOCKS = ["common/pushpull/tracker.go"]


def pick_schedules(exports, rnd, per_kind):
    by = {}
    for e in exports:
        by.setdefault(e.get("kind", "walk"), []).append(e)
    res = []
    for k in sorted(by):
        lst = by[k]
        rnd.shuffle(lst)
        res += lst[:per_kind]
    return res, {k: len(v) for k, v in by.items()}


def maximal_walks(exports):
    best = {}
    if not exports:
        return []
    mx = max(len(e["sched"]) for e in exports)
    for e in exports:
        if len(e["sched"]) == mx:
            key = json.dumps(e["sched"][:-1])
            best.setdefault(key, e)
    return list(best.values())


def main(ctx):
    quick = ctx.tier == "quick"
    rnd = random.Random(ctx.seed)
    drv = vlib.build_driver(ctx, "d_tracker", clocks=CLOCKS)

    # 1 + 2a: exhaustive bounded model, property clauses on every transition, BFS export
    cfg = "MC_Tracker_quick.cfg" if quick else "MC_Tracker_thorough.cfg"
    r = vlib.tlc(ctx, "MC_Tracker.tla", cfg, workers=12, timeout=3400, extra=["-seed", str(ctx.seed)])
    if not r.ok:
        raise vlib.CheckError("design-level Tracker model violates %s (model-only, not a verdict):\n%s"
                              % (r.invariant, (r.error or "")[:1500]))
    per_kind = 250 if quick else 4000
    scheds, kinds = pick_schedules(r.exports, rnd, per_kind)
    ctx.log("model: %d generated / %d distinct; exported %s; replaying %d" % (r.generated, r.distinct, kinds, len(scheds)))
    for k in ("headchange", "staleread", "move", "emit", "remove"):
        if not kinds.get(k):
            raise vlib.CheckError("model never exercised a '%s' loop transition (vacuous bounds)" % k)

    # 2a': announcers pre-empted at the cap evaluation (after their atomic ticket): exhaustive small model, export of
    # every resume keyed by (#holds, #resumes, asked/queued)
    rc = vlib.tlc(ctx, "MC_Tracker.tla", "MC_Tracker_cap.cfg", workers=12, timeout=1800, extra=["-seed", str(ctx.seed)])
    if not rc.ok:
        raise vlib.CheckError("design-level Tracker cap model violates %s (model-only, not a verdict):\n%s"
                              % (rc.invariant, (rc.error or "")[:1500]))
    capscheds, capkinds = pick_schedules(sorted(rc.exports, key=lambda e: json.dumps(e, sort_keys=True)), rnd, 40 if quick else 600)
    ctx.log("cap model: %d generated / %d distinct; exported %s; replaying %d" % (rc.generated, rc.distinct, capkinds, len(capscheds)))
    for k in ("hold3resume3queue", "hold2resume2ask", "hold3resume2ask"):
        if not capkinds.get(k):
            raise vlib.CheckError("cap model never exercised '%s' (vacuous bounds)" % k)
    scheds = scheds + capscheds
    kinds.update(capkinds)

    # 2a'': the loop pre-empted INSIDE its critical section (head re-validated, about to ask the holder) while goroutines that
    # do not take the tracker mutex run: item arrivals (RemovePull), registrations of immediate pulls
    rk = vlib.tlc(ctx, "MC_Tracker.tla", "MC_Tracker_crit.cfg", workers=12, timeout=1800, extra=["-seed", str(ctx.seed)])
    if not rk.ok:
        raise vlib.CheckError("design-level Tracker critical-section model violates %s (model-only, not a verdict):\n%s"
                              % (rk.invariant, (rk.error or "")[:1500]))
    critscheds, critkinds = pick_schedules(sorted(rk.exports, key=lambda e: json.dumps(e, sort_keys=True)), rnd, 12 if quick else 300)
    ctx.log("critical-section model: %d generated / %d distinct; %d kinds exported; replaying %d" % (rk.generated, rk.distinct, len(critkinds), len(critscheds)))
    for k in ("crit-arrived-more-drop", "crit-otherarrived-more-emit", "crit-announced-more-move"):
        if not critkinds.get(k):
            raise vlib.CheckError("critical-section model never exercised '%s' (vacuous bounds)" % k)
    scheds = scheds + critscheds
    kinds.update(critkinds)

    # 2a-types: a second push type whose items carry the SAME 128-bit hash values (one registry for all types, keyed by type +
    # hash; its holder does not support pending requests, like the transaction pool and the key pool)
    rt = vlib.tlc(ctx, "MC_Tracker.tla", "MC_Tracker_types.cfg", workers=12, timeout=1800, extra=["-seed", str(ctx.seed)])
    if not rt.ok:
        raise vlib.CheckError("design-level Tracker push-type model violates %s (model-only, not a verdict):\n%s"
                              % (rt.invariant, (rt.error or "")[:1500]))
    typescheds, typekinds = pick_schedules(sorted(rt.exports, key=lambda e: json.dumps(e, sort_keys=True)), rnd, 3 if quick else 120)
    ctx.log("push-type model: %d generated / %d distinct; %d kinds exported; replaying %d" % (rt.generated, rt.distinct, len(typekinds), len(typescheds)))
    for k in ("types-plain-own0-twin2-ask", "types-plain-own0-twin3-ask", "types-tracked-own0-twin2-ask", "types-plain-own0-twin1-twinstored-ask"):
        if not typekinds.get(k):
            raise vlib.CheckError("push-type model never exercised '%s' (vacuous bounds); kinds: %s" % (k, sorted(typekinds)[:40]))
    scheds = scheds + typescheds
    kinds.update(typekinds)

    # 2b: random walks of a larger instance
    nwalk = 150 if quick else 3000
    rs = vlib.tlc(ctx, "MC_Tracker.tla", "MC_Tracker_sim.cfg", workers=1, timeout=1800,
                  extra=["-simulate", "num=%d" % nwalk, "-depth", "45", "-seed", str(ctx.seed)], simulate=True)
    if rs.error:
        raise vlib.CheckError("simulation of the Tracker model failed: " + (rs.error or "")[:1500])
    walks = maximal_walks(rs.exports)
    ctx.log("simulation: %d maximal walks" % len(walks))
    if not walks:
        raise vlib.CheckError("no simulation walks exported")

    cases = ctx.path("scheds.json")
    with open(cases, "w") as f:
        for s in scheds + walks:
            f.write(json.dumps({"sched": s["sched"]}) + "\n")

    # replay on the real code
    trace = ctx.path("trace.ndjson")
    p = vlib.run_driver(ctx, drv, ["-cases", cases, "-out", trace, "-delay", "2", "-hashes", "3"], timeout=3000)
    if p.returncode != 0:
        out = (p.stdout or "")[-3000:]
        if "panic:" in out and "pushpull" in out:
            vlib.report_violation(ctx, "C20:panic", "push/pull code panicked while replaying a schedule: " + out[-800:])
            return vlib.finish(ctx, "model_checking", {"states": r.distinct, "transitions": r.generated,
                                                       "traces_validated_against_impl": 0, "samples": [out[-400:]]})
        raise vlib.CheckError("driver failed:\n" + out)
    ctx.log((p.stdout or "").strip().splitlines()[-1] if p.stdout else "")

    ok, info = vlib.trace_validate(ctx, "Trace_Tracker.tla", "Trace_Tracker.cfg", trace, timeout=3000)
    if not ok:
        rows = vlib.read_ndjson(trace)
        broken = info.get("broken")
        if not broken:
            raise vlib.CheckError("trace rejected without a broken clause: %s" % info)
        for line, clause in broken:
            start = max(i for i in range(line) if rows[i].get("ev") == "Reset")
            end = next((i for i in range(line, len(rows)) if rows[i].get("ev") == "Reset"), len(rows))
            sched = [{k: x[k] for k in ("want", "p", "h")} for x in rows[start + 1:end]]
            ex = ctx.path("replay_%s.ndjson" % clause)
            vlib.write_ndjson(ex, rows[start:end])
            key = "C20:%s" % clause
            bad = rows[line - 1]
            if clause == "NoLoss" and bad.get("want") in ("LoopWake", "LoopPoll"):
                # a loop step dropped a pending announcer that it did not ask
                key = "C20:NoLoss:loop-removes-index-0-after-unlocked-peek"
            vlib.report_violation(ctx, key, "clause %s broken by the real tracker at step %d of schedule %s; observed %s"
                                  % (clause, line - start - 1, json.dumps(sched)[:700], json.dumps(bad)[:500]),
                                  replay_src=ex, payload={"schedule": sched})

    # binding self-test: drop a pending entry from one observation
    def mutate(rows_):
        for row in rows_:
            if row.get("ev") == "Announce" and row.get("out"):
                row["out"] = []      # the first announcer was not asked: FirstImmediate must fail
                return rows_
        return None
    if ok:
        selftest_reject(ctx, "Trace_Tracker.tla", "Trace_Tracker.cfg", trace, mutate, n_lines=3000)

    cov = {
        "states": r.distinct + rc.distinct + rk.distinct, "transitions": r.generated + rc.generated + rk.generated,
        "traces_validated_against_impl": len(scheds) + len(walks),
        "samples": [scheds[0]["sched"][:20], walks[0]["sched"][:45]],
        "exported_by_kind": kinds,
        "drift_steps": info.get("drift"),
        "model_cfg": cfg,
        "exhaustive": False,
        "rule": "bounded Tracker model explored exhaustively (2 peers x 2 hashes, delay 2, horizon 4, <= 6 announcements, one pre-empted announcer) + cap model "
                "(4 peers x 1 hash, <= 3 announcers pre-empted between their atomic ticket and the cap comparison, horizon 2) + critical-section "
                "model (3 peers x 2 hashes, the loop pre-empted between its head re-validation and its holder query, horizon 3); "
                "%d schedules per kind of loop transition + %d random walks (5 peers x 3 hashes, depth 45) replayed exactly "
                "on the real tracker under a virtual clock" % (per_kind, len(walks)),
    }
    return vlib.finish(ctx, "model_checking", cov, assumptions=[
        "manager-loop forwarding is folded into the emitting step (both RegisterPull calls see the same virtual instant)",
        "go-cache expiry (3 min real time) and the tracker's gc goroutine (1 min period) do not fire within a schedule",
        "memory-level data races are judged by the race detector in the concurrent driver, not by TLC",
    ])
