"""C01 - state transition is a pure function of (prior state, block) on every node.

TLC enumerates the node-local history shapes of Replicas.tla (which replica restarts / rolls back and
re-applies / speculates on another block / validates first, before which block) and exports them as
schedules; the Go driver applies every block of seeded random histories (all plain tx types, empty,
identity-update, snapshot and validation-finished blocks, epoch results through the real
ceremony.ApplyNewEpoch) on six real replicas that follow those schedules (two of them in other host
time zones); Trace_Replicas evaluates Agreement / LiveMatchesHead on the observations every replica
reported (head hash, roots, flags, epoch, period, next validation time, fee rate, VRF threshold,
shards, discrimination threshold, validator-view sizes)."""
import json
import random

import chainlib
import vlib
from props.c13 import selftest_reject

MINE = {"Agreement", "LiveMatchesHead", "SameTransition", "SyncedAgrees"}


def export_schedules(ctx, n):
    r = chainlib.model_run(ctx, "MC_Replicas.tla", "MC_Replicas.cfg")
    if not r.exports:
        raise vlib.CheckError("no history schedules exported")
    rnd = random.Random(ctx.seed)
    ex = sorted(r.exports, key=lambda e: json.dumps(e, sort_keys=True))   # TLC's print order depends on worker timing
    rnd.shuffle(ex)
    path = ctx.path("sched.json")
    with open(path, "w") as f:
        for e in ex[:n]:
            f.write(json.dumps(e) + "\n")
    return r, path, ex[:3]


def describe(clause, row, rows, line):
    obs = row.get("obs", {})
    if clause == "SyncedAgrees":
        o, ro = row.get("obs", {}), row.get("refobs", {})
        diff = {k: (ro.get(k), o.get(k)) for k in ro if ro.get(k) != o.get(k)}
        if row.get("verdict") != "ok":
            key = "SyncedAgrees:full-sync-refuses-canonical-chain:%s" % row.get("verdict")
        else:
            key = "SyncedAgrees:%s" % "+".join(sorted(diff))
        what = ("history %s: a replica catching up by full sync on blocks %s..%s (%s blocks in one batch, %s certificates, %s identity-update "
                "blocks) ended with verdict %s (%s) at head %s; differences to the replicas that followed block by block: %s" % (
                    row.get("hid"), row.get("from"), row.get("to"), row.get("n"), row.get("certs"), row.get("idupd"), row.get("verdict"),
                    (row.get("msg") or "")[:200], row.get("head"), json.dumps(diff)[:500]))
        return key, what
    if clause == "SameTransition":
        who = sorted(k for k, v in row.get("verdicts", {}).items() if v == "roots-mismatch")
        flags = row.get("flags", 0)
        kinds = sorted({row.get("hists", {}).get(k, "?").rstrip("0123456789") for k in who})
        zone = all(k in ("r4", "r5") for k in who)
        key = "SameTransition:%s:%s" % ("epoch-block" if flags & 32 else "block", "other-time-zone-replica" if zone else "+".join(kinds))
        what = "in-sync replica(s) %s recomputed block %s of history %s (kind %s, flags %s, proposer %s) to other roots than the block states; pre-histories %s; next validation times now %s" % (
            who, row.get("h"), row.get("hid"), row.get("kind"), flags, row.get("proposer"), json.dumps(row.get("hists")),
            json.dumps({k: v.get("nextval") for k, v in obs.items()}))
        return key, what
    diff = {}
    names = sorted(obs)
    if names:
        base = obs[names[0]]
        for n in names[1:]:
            d = {k: (base.get(k), obs[n].get(k)) for k in base if base.get(k) != obs[n].get(k)}
            if d:
                diff[n] = d
    fields = sorted({k for d in diff.values() for k in d})
    key = "%s:%s" % (clause, "+".join(fields) or "state")
    what = "replicas holding the same chain disagree after block %s of history %s (kind %s, flags %s); differing fields vs %s: %s; pre-histories %s" % (
        row.get("h"), row.get("hid"), row.get("kind"), row.get("flags"), names[0] if names else "?", json.dumps(diff)[:600], json.dumps(row.get("hists")))
    return key, what


def describe_graph(clause, row, rows, line):
    pre = {a["a"]: a.get("delegatee") for a in (row.get("pre") or {}).get("accts", [])} if row.get("pre") else {}
    who = sorted(k for k, v in row.get("verdicts", {}).items() if v == "roots-mismatch")
    if row.get("flags", 0) & 32:
        key = "%s:epoch-block:delegation-chain-map-order" % clause
    else:
        key = "%s:delegation-graph-scenario" % clause
    what = ("epoch block %s of delegation-graph scenario %s: replicas %s computed other roots than the proposer (ApplyNewEpoch applies "
            "per-identity results in map order and applyOnState reads the delegatee's delegatee); delegations before the block %s" % (
                row.get("h"), row.get("hid"), who, json.dumps({k: v for k, v in pre.items() if v})))
    return key, what


def main(ctx):
    quick = ctx.tier == "quick"
    r, sched, samples = export_schedules(ctx, 8 if quick else 64)
    extra = ["-big", "-fsync", "-contracts"]
    trace, stats, out = chainlib.run_histories(ctx, quick, extra_args=extra, sched=sched)
    if stats is None:
        vlib.driver_failure(ctx, out)
    ok, info = chainlib.validate(ctx, trace, "Trace_Replicas.tla", "Trace_Replicas.cfg", MINE, "C01", describe)

    # order-sensitive epoch-loop configurations: EpochLoop.tla (canonical order: Confluent holds) exports every delegation
    # graph over 4 identities for which SOME pair of visiting orders of the ApplyNewEpoch loop disagrees; each graph is built
    # with real DelegateTx transactions, all members are validated in the same epoch, and the epoch block is evaluated by
    # the proposer and 6 replicas (independent samples of Go's map order)
    g = chainlib.model_run(ctx, "EpochLoop.tla", "MC_EpochLoop.cfg")
    graphs = sorted([e for e in g.exports if "graph" in e], key=lambda e: json.dumps(e, sort_keys=True))
    if not graphs:
        raise vlib.CheckError("EpochLoop exported no order-sensitive graph")
    rnd = random.Random(ctx.seed)
    rnd.shuffle(graphs)
    gfile = ctx.path("graphs.json")
    with open(gfile, "w") as f:
        for e in graphs[: (8 if quick else len(graphs))] * (1 if quick else 3):
            f.write(json.dumps(e) + "\n")
    drv = vlib.build_driver(ctx, "d_chain", clocks=chainlib.CLOCKS)
    gtrace = ctx.path("graphs.ndjson")
    p = vlib.run_driver(ctx, drv, ["-out", gtrace, "-blocks", "120", "-graphs", gfile], timeout=3000)
    if p.returncode != 0:
        vlib.driver_failure(ctx, p.stdout, "driver failed on the delegation-graph scenarios")
    grows = vlib.read_ndjson(gtrace)
    epochs_g = sum(1 for x in grows if x.get("ev") == "Block" and x.get("flags", 0) & 32)
    if epochs_g == 0:
        raise vlib.CheckError("no delegation-graph scenario reached its epoch block (dead scenario)")
    okg, infog = chainlib.validate(ctx, gtrace, "Trace_Replicas.tla", "Trace_Replicas.cfg", MINE, "C01", describe_graph)
    ok = ok and okg

    def mutate(rows):
        for row in rows:
            if row.get("ev") == "Block" and len(row.get("obs", {})) > 1:
                k = sorted(row["obs"])[1]
                row["obs"][k]["nextval"] += 86400
                return rows
        return None
    if ok:
        selftest_reject(ctx, "Trace_Replicas.tla", "Trace_Replicas.cfg", trace, mutate, n_lines=60)
    cov = {"states": r.distinct, "transitions": r.generated,
           "traces_validated_against_impl": stats.get("histories", 0),
           "blocks_applied": stats.get("blocks", 0), "replicas_per_block": 6,
           "full_sync_batches": sum(1 for x in vlib.read_ndjson(trace) if x.get("ev") == "Catchup"),
           "samples": samples, "order_sensitive_graphs_replayed": epochs_g, "epochloop_model_states": g.distinct,
           "rule": "history-shape schedules exported by TLC from Replicas.tla (3 scheduled replicas x 6 pre-history kinds x 4-block "
                   "cycle, at most one deviating replica per block) drive 6 real replicas (2 in other time zones) through seeded random "
                   "histories; every block applied on every replica; Agreement evaluated by TLC on the reported observations",
           "map_order_note": "Go re-randomises map iteration per loop: each replica is an independent sample of every map order "
                             "(K=6 replicas per block)"}
    # growth module: consensus upgrade voting, activation, the intermediate genesis and restarts / rollbacks / crashes around them
    # (Upgrade.tla; real multi-node worlds with real votes, proposals, insertions and restarts)
    cov["consensus_upgrade"] = vlib.run_extra(ctx, "extra_upgrade", quick)
    return vlib.finish(ctx, "model_checking", cov, assumptions=[
        "epoch results are injected per identity into the real ceremony.ApplyNewEpoch (cached-evaluation branch); the answers "
        "themselves are not scripted here (C17)",
        "map-iteration-order coverage is by repetition across replicas, not exhaustive",
    ])
