"""C17 part (a) — the status decision table of a validation ceremony follows the published rules.

1. TLC enumerates the COMPLETE abstract input space of spec/Ceremony.tla (previous status x required flips
   done x missed x no-qualified-short/long x short count/score class x long class x total score class x
   total flips class x three upgrade flags = 186 624 inputs), checks the property clauses
   (AbsentNotPromoted, AbsentNotLeftValidated, InviteTerminated, DeadStaysDead, DeadFixedPoint) on the model's verdict
   `Decide` for every input and exports the table together with the published thresholds.
2. The Go driver concretises every abstract case at boundary representatives of its classes (scores as
   float32 values exactly on / one ulp below / one ulp above each threshold, values produced by the
   ceremony's own float32 arithmetic next to the thresholds, flips 12/13/23/24, ...), calls the REAL
   determineNewIdentityState through the verif shim and records arguments + returned status; seeded random
   concrete inputs are added.
3. TLC validates the recorded calls against spec/Trace_Ceremony.tla: the specification re-abstracts the
   concrete arguments, evaluates the property clauses on the OBSERVED status (a broken clause = the
   property is violated) and compares the observed status with Decide (clause DecisionTable: the table is
   the published rule; reported under its own key).
Part (b) (real ceremony variants: restart, cache, arrival orders) is a separate check.
"""
import collections
import concurrent.futures
import json
import random
import re

import vlib

PROPERTY_CLAUSES = ("IsStatus", "AbsentNotPromoted", "AbsentNotLeftValidated", "InviteTerminated", "DeadStaysDead", "DeadFixedPoint")
N_ABSTRACT = 9 * 2 * 2 * 2 * 2 * 3 * 3 * 2 * 3 * 3 * 2 * 2 * 2
CHUNK = 150000
TRACE_SPEC = ("Trace_Ceremony.tla", "Trace_Ceremony.cfg")
_re_id = re.compile(r'"id":(-?\d+)')


def split_broken(info):
    """(line, clause) entries of the postcondition -> clauses {name: (first line, expected)}, counts {name: n}."""
    clauses, counts, expect = {}, {}, {}
    for line, c in info.get("broken") or []:
        if c.startswith("count:"):
            name, n = c[len("count:"):].split("=")
            counts[name] = int(n)
        elif c.startswith("expect="):
            expect[line] = c[len("expect="):]
        elif c not in clauses:
            clauses[c] = line
    return {c: (l, expect.get(l)) for c, l in clauses.items()}, counts


def describe(row):
    import struct

    def f(bits):
        return struct.unpack("<f", struct.pack("<I", bits))[0]
    return ("prev=%s requiredFlips=%d madeFlips=%d missed=%s noQualShort=%s noQualLong=%s shortScore=%.9g(bits %d) "
            "shortQualifiedFlips=%d longScore=%.9g(bits %d) totalScore=%.9g(bits %d) totalQualifiedFlips=%d "
            "epoch>=93=%s upgrade10=%s upgrade12=%s" % (
                row["prev"], row["req"], row["made"], row["missed"], row["nqs"], row["nql"], f(row["sb"]), row["sb"],
                row["sc"], f(row["lb"]), row["lb"], f(row["tb"]), row["tb"], row["tf"], row["fix"], row["u10"], row["u12"]))


def validate_file(ctx, path, sub):
    """One TLC trace-validation run (like vlib.trace_validate, with an explicit scratch name so that
    several runs can go in parallel)."""
    r = vlib.tlc(ctx, TRACE_SPEC[0], TRACE_SPEC[1], workers=1, env={"TRACE_FILE": path}, timeout=3000, sub=sub, want_exports=False)
    info = {"states": r.distinct, "broken": []}
    rejected = None
    for line in r.out.splitlines():
        m = re.match(r'<<"DRIFT", (\d+)>>', line)
        if m:
            info["drift"] = int(m.group(1))
        m = re.match(r'<<"TRACE_REJECTED_AT", (\d+), (\d+)>>', line)
        if m:
            rejected = int(m.group(1))
        m = re.match(r'<<"CLAUSE_BROKEN", (\d+), "([^"]*)">>', line)
        if m:
            info["broken"].append((int(m.group(1)), m.group(2)))
    if r.ok:
        return True, info
    if rejected is not None or not info["broken"]:
        raise vlib.CheckError("TLC could not consume the recorded calls (not a verdict), stopped at line %s:\n%s" % (rejected, r.out[-2500:]))
    return False, info


def validate_chunks(ctx, rows, tag="v"):
    """Validate recorded calls chunk by chunk (4 JVMs in parallel); returns (clauses, counts, drift, states)."""
    jobs = []
    for k in range(0, len(rows), CHUNK):
        part = rows[k:k + CHUNK]
        path = ctx.path("chunks", "%s_%03d.ndjson" % (tag, k // CHUNK))
        with open(path, "w") as f:
            f.write("\n".join(part) + "\n")
        jobs.append((k, part, path))
    with concurrent.futures.ThreadPoolExecutor(max_workers=4) as ex:
        results = list(ex.map(lambda j: validate_file(ctx, j[2], "tv_%s_%03d" % (tag, j[0] // CHUNK)), jobs))
    clauses, counts, drift, states = {}, {}, 0, 0
    for (k, part, path), (ok, info) in zip(jobs, results):
        states += info.get("states", 0)
        drift += info.get("drift") or 0
        if info.get("states") != len(part) + 1:
            raise vlib.CheckError("trace chunk not consumed completely (%s states for %d lines)" % (info.get("states"), len(part)))
        if ok:
            continue
        cl, cn = split_broken(info)
        for c, (line, exp) in cl.items():
            if c not in clauses:
                clauses[c] = (json.loads(part[line - 1]), exp)
        for c, n in cn.items():
            counts[c] = counts.get(c, 0) + n
    return clauses, counts, drift, states


def selftest(ctx, rows, rnd):
    """Binding self-test: a sample of the recorded calls must be accepted; the same sample with (1) one
    recorded verdict changed against a property clause, (2) one score moved one ulp across a threshold that
    matters, must be rejected with the right clause."""
    sample = [json.loads(x) for x in rnd.sample(rows, min(300, len(rows)))]
    inv = next((json.loads(x) for x in rows if '"prev":"Invite"' in x), None)
    hum = next((r for r in (json.loads(x) for x in rows if '"out":"Human"' in x and '"prev":"Verified"' in x)
                if not r["nqs"] and not r["nql"] and r["tb"] == ctx.params["minHuman"]), None)
    if inv is None or hum is None:
        raise vlib.CheckError("self-test: no suitable recorded calls (dead driver)")
    good = sample + [inv, hum]
    gp = ctx.path("selftest", "good.ndjson")
    vlib.write_ndjson(gp, good)
    ok, info = validate_file(ctx, gp, "selftest_good")
    if not ok:
        raise vlib.CheckError("self-test: a sample of accepted calls was rejected: %s" % info)
    bad1 = json.loads(json.dumps(good))
    bad1[-2]["out"] = "Candidate"            # an invitation that survives validation
    bad2 = json.loads(json.dumps(good))
    bad2[-1]["tb"] -= 1                      # total score one ulp below 0.92 but still "Human"
    for name, bad, at, want, unwanted in (("verdict", bad1, len(good) - 1, "InviteTerminated", None),
                                          ("boundary", bad2, len(good), "DecisionTable", PROPERTY_CLAUSES)):
        bp = ctx.path("selftest", "bad_%s.ndjson" % name)
        vlib.write_ndjson(bp, bad)
        ok, info = validate_file(ctx, bp, "selftest_" + name)
        cl, _ = split_broken(info) if not ok else ({}, {})
        if ok or want not in cl or cl[want][0] != at:
            raise vlib.CheckError("binding self-test failed: corrupted trace (%s) not rejected as %s: %s" % (name, want, info))
        if unwanted and any(c in cl for c in unwanted):
            raise vlib.CheckError("binding self-test failed: a changed table entry was reported as a property clause: %s" % cl)
    ctx.log("binding self-test: corrupted verdict rejected (InviteTerminated), score moved one ulp across 0.92 rejected (DecisionTable only)")
    return True


def main(ctx):
    quick = ctx.tier == "quick"
    rnd = random.Random(ctx.seed)
    drv = vlib.build_driver(ctx, "d_ceremony")

    # 1. the complete abstract input space: invariants on the model's verdict + export of the table
    r = vlib.tlc(ctx, "MC_Ceremony.tla", "MC_Ceremony.cfg", workers=4, timeout=1500)
    if not r.ok:
        raise vlib.CheckError("design-level decision table violates %s (model-only counterexample, not a verdict):\n%s"
                              % (r.invariant, (r.error or "")[:2000]))
    params = [e["params"] for e in r.exports if "params" in e]
    cases = [e for e in r.exports if "case" in e]
    if len(params) != 1:
        raise vlib.CheckError("thresholds not exported by the model")
    ctx.params = params[0]
    if len(cases) != N_ABSTRACT or sorted(c["id"] for c in cases) != list(range(N_ABSTRACT)) or r.distinct != 2 * N_ABSTRACT:
        raise vlib.CheckError("model did not enumerate the complete abstract input space: %d cases, %d states" % (len(cases), r.distinct))
    ctx.log("model: %d generated / %d distinct states, %d abstract cases exported, all clauses hold on Decide" % (r.generated, r.distinct, len(cases)))
    table = {c["id"]: c for c in cases}
    pfile = ctx.path("params.json")
    with open(pfile, "w") as f:
        json.dump(ctx.params, f)

    # --replay: re-evaluate the recorded call(s) of a replay artefact on the current code
    if getattr(ctx, "replay", None) and "scenario" in (json.load(open(ctx.replay)).get("payload") or {}):
        # an artefact of part (b): a behaviour of the real ceremony
        from props import c17b
        return vlib.finish(ctx, "model_checking", c17b.run(ctx, quick), assumptions=c17b.ASSUMPTIONS)
    if getattr(ctx, "replay", None):
        doc = json.load(open(ctx.replay))
        calls = ctx.path("replay_calls.ndjson")
        vlib.write_ndjson(calls, [doc["payload"]["call"]])
        trace = ctx.path("trace_replay.ndjson")
        p = vlib.run_driver(ctx, drv, ["-params", pfile, "-calls", calls, "-out", trace], timeout=600)
        if p.returncode != 0:
            raise vlib.CheckError("driver failed:\n" + (p.stdout or "")[-3000:])
        rows = [x for x in open(trace).read().splitlines() if x]
        clauses, counts, drift, _ = validate_chunks(ctx, rows)
        report(ctx, clauses, counts, table)
        return vlib.finish(ctx, "model_checking", {"states": r.distinct, "transitions": r.generated,
                                                   "traces_validated_against_impl": len(rows), "samples": rows[:3]})

    # 2. the real function at boundary representatives of every abstract case + seeded random inputs
    cfile = ctx.path("cases.json")
    with open(cfile, "w") as f:
        for c in cases:
            f.write(json.dumps({"id": c["id"], "case": c["case"]}) + "\n")
    reps, nrand = (4, 50000) if quick else (16, 2000000)
    trace = ctx.path("trace.ndjson")
    p = vlib.run_driver(ctx, drv, ["-params", pfile, "-cases", cfile, "-reps", str(reps), "-random", str(nrand), "-out", trace], timeout=3000)
    if p.returncode != 0:
        out = (p.stdout or "")[-3000:]
        if "panic:" in out and "ceremony.determineNewIdentityState" in out:
            vlib.report_violation(ctx, "C17:panic", "the decision function panicked on an enumerated input: " + out[-800:])
            return vlib.finish(ctx, "model_checking", {"states": r.distinct, "transitions": r.generated,
                                                       "traces_validated_against_impl": 0, "samples": [out[-400:]]})
        raise vlib.CheckError("driver failed:\n" + out)
    ctx.log((p.stdout or "").strip().splitlines()[-1][:300] if p.stdout else "")
    rows = [x for x in open(trace).read().splitlines() if x]
    if len(rows) != reps * N_ABSTRACT + nrand:
        raise vlib.CheckError("dead driver: %d calls recorded, %d expected" % (len(rows), reps * N_ABSTRACT + nrand))

    seen = collections.Counter(int(m) for x in rows for m in _re_id.findall(x))
    if any(seen.get(i) != reps for i in range(N_ABSTRACT)) or seen.get(-1, 0) != nrand:
        raise vlib.CheckError("dead driver: not every abstract case was evaluated %d times on the real code" % reps)

    # 3. TLC decides on the recorded calls
    clauses, counts, drift, states = validate_chunks(ctx, rows)
    ctx.log("validated %d real calls (%d trace states); table mismatches: %d; broken clauses: %s" % (len(rows), states, drift, sorted(clauses) or "none"))
    if "Concretisation" in clauses:
        row, _ = clauses["Concretisation"]
        raise vlib.CheckError("driver fault: recorded call does not abstract to the case it was generated for (or is outside the "
                              "table's domain): %s" % json.dumps(row))
    report(ctx, clauses, counts, table)

    # 4. binding self-test
    if not clauses:
        selftest(ctx, rows, rnd)

    sample_ids = [rnd.randrange(N_ABSTRACT) for _ in range(4)]
    cov = {
        "states": r.distinct, "transitions": r.generated,
        "abstract_cases": N_ABSTRACT,
        "traces_validated_against_impl": len(rows),
        "real_calls_per_abstract_case": reps,
        "random_real_calls": nrand,
        "table_mismatches": drift,
        "samples": [{"id": i, "case": table[i]["case"], "expect": table[i]["expect"]} for i in sample_ids],
        "exhaustive": True,
        "thresholds_float32_bits": ctx.params,
        "rule": "complete abstract input space of the decision table enumerated by TLC (every input = one initial state, property "
                "clauses checked on Decide); every abstract case replayed on the real determineNewIdentityState at %d concrete "
                "representative(s) (the two borders of every class first: thresholds exactly / one float32 ulp below / above, flips "
                "12/13/23/24, short counts 0/1/2/3, required flips met / one short), plus %d seeded random concrete inputs; every "
                "recorded call validated by TLC (property clauses on the observed status + equality with Decide)" % (reps, nrand),
    }
    # part (b): the real ceremony in variants (restart points, cached re-evaluation, fork switch, rollback, block layouts)
    from props import c17b
    cov["real_ceremony"] = c17b.run(ctx, quick)
    cov["states"] += cov["real_ceremony"].get("states", 0)
    cov["transitions"] += cov["real_ceremony"].get("transitions", 0)
    # growth module: qualification of flips and candidates (Qualification.tla: qualifyOneFlip / qualifyFlips / qualifyCandidate /
    # reporters book transcribed, case tables and populations run on the real functions)
    cov["qualification"] = vlib.run_extra(ctx, "extra_qual", quick)
    return vlib.finish(ctx, "model_checking", cov, assumptions=c17b.ASSUMPTIONS + [
        "scores are non-negative float32 values; short and long scores are never NaN (the ceremony guards those divisions), the total "
        "score may be NaN (0/0) and then fails every threshold",
        "required / made flips fit the code's uint8 counters",
        "how the ceremony derives the arguments (qualification, score history, approval) is outside part (a)",
    ])


def report(ctx, clauses, counts, table):
    for c in sorted(clauses):
        if c == "Concretisation":
            continue
        row, exp = clauses[c]
        n = counts.get(c, 1)
        ex = ctx.path("replay_%s.ndjson" % c)
        vlib.write_ndjson(ex, [row])
        if c == "DecisionTable":
            key = "C17:decision-table"
            what = ("the real decision function returned %s where the published table says %s for %s (%d recorded call(s) differ "
                    "from the table)" % (row["out"], exp, describe(row), n))
        else:
            key = "C17:%s" % c
            what = ("property clause %s broken by the real decision function: returned %s (table: %s) for %s (%d recorded call(s) "
                    "break this clause)" % (c, row["out"], exp, describe(row), n))
        vlib.report_violation(ctx, key, what, replay_src=ex, payload={"call": row, "expected": exp, "clause": c, "calls_breaking": n})
