"""C10 - the validator registry is consistent with the ledger and with its own rebuild.

After every block of the seeded histories (epoch results, kills, delegations / undelegations,
online / offline switches, penalties, discrimination switches, batched into identity-update blocks
by the real switch ranges) the reference replica logs its incrementally maintained ValidatorsCache
through every public getter, the same getters of a fresh cache loaded from the same stored identity
state, the stored registry entries and the identity ledger; Trace_Registry evaluates IncrEqLoad and the
registry/ledger coupling clauses.  ValidatorsIncr.tla is the design-level model of the incremental
update vs. the full load (all small registries x diffs in all orders)."""
import json

import chainlib
import vlib
from props.c13 import selftest_reject

MINE = {"CouplingAssumptions", "IncrEqLoad", "ValidatedIffStatus", "DelegationsMatch", "OnlineOnlyValidatedOrPool", "ViewMatchesRegistry"}


def describe(clause, row, rows, line):
    extra = ""
    if clause == "IncrEqLoad":
        a, b = row.get("vincr", {}), row.get("vload", {})
        d = {k: (a.get(k), b.get(k)) for k in a if a.get(k) != b.get(k)}
        extra = "; getters that differ (incremental, loaded): " + json.dumps(d)[:700]
        key = "IncrEqLoad:" + "+".join(sorted(d))
    else:
        key = clause
    txs = [t.get("type") for t in (row.get("txs") or [])]
    what = "clause %s broken after block %s of history %s (kind %s, flags %s, tx types %s)%s" % (
        clause, row.get("h"), row.get("hid"), row.get("kind"), row.get("flags"), txs, extra)
    return key, what


def main(ctx):
    quick = ctx.tier == "quick"
    r = chainlib.model_run(ctx, "ValidatorsIncr.tla", "MC_ValidatorsIncr.cfg", workers=8)
    trace, stats, out = chainlib.run_histories(ctx, quick, extra_args=["-identity-heavy"])
    if stats is None:
        vlib.driver_failure(ctx, out)
    ok, info = chainlib.validate(ctx, trace, "Trace_Registry.tla", "Trace_Registry.cfg", MINE, "C10", describe)
    rows = vlib.read_ndjson(trace)
    blocks = [x for x in rows if x.get("ev") == "Block" and not x.get("refused")]
    idupd = sum(1 for x in blocks if x.get("flags", 0) & 1)
    pools = sum(1 for x in blocks if x.get("vload", {}).get("pools"))
    if idupd == 0:
        raise vlib.CheckError("no identity-update block was produced (dead generator)")

    def mutate(rows_):
        for row in rows_:
            if row.get("ev") == "Block" and not row.get("refused") and row.get("vincr"):
                row["vincr"]["netsize"] += 1
                return rows_
        return None
    if ok:
        selftest_reject(ctx, "Trace_Registry.tla", "Trace_Registry.cfg", trace, mutate, n_lines=60)
    cov = {"states": r.distinct, "transitions": r.generated,
           "traces_validated_against_impl": stats.get("histories", 0),
           "blocks": len(blocks), "identity_update_blocks": idupd, "blocks_with_pools": pools,
           "samples": [{k: blocks[-1].get(k) for k in ("h", "flags", "vload", "registry")}],
           "rule": "after every block: incremental ValidatorsCache vs fresh Load() on the same identity state through all public getters "
                   "and committees for a grid of seeds/rounds/steps/limits; stored registry vs identity ledger"}
    # growth module: offline proposals / votes / commits / penalties and online-status switching (Offline.tla) on real multi-node worlds
    cov["offline_detection"] = vlib.run_extra(ctx, "extra_offline", quick)
    cov["states"] += cov["offline_detection"].get("od_states", 0)
    cov["transitions"] += cov["offline_detection"].get("od_transitions", 0)
    return vlib.finish(ctx, "model_checking", cov, assumptions=[
        "verdicts only from block-level histories on the real code; the abstract diff model is a design-level lead generator"])
