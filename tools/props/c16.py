"""C16 — flip lottery is deterministic, in-range, duplicate-free; keys reach solvers.

1. TLC explores spec/MC_Lottery.tla: every shard layout with 0..MaxN candidates, any author subset and
   1..MaxK flips per author; a reference lottery is pushed through the guarded actions of
   spec/Lottery.tla (the relation is satisfiable for every layout; its clauses imply the user-level
   statement about key packages).  Every layout is exported as a case.
2. harness/cmd/d_lottery runs the REAL code on every exported layout: GetAuthorsDistribution +
   GetFlipsDistribution through the export shim (several seeds x quotas, twice: alone and inside a
   two-shard call) and the real calculateCeremonyCandidates on a real application state, then
   PrivateEncryptionKeyCandidates, EncryptPrivateKeysPackage, getEncryptedKeyFromPackage, the real
   KeysPool, getPrivateKeyPackageIndex, GetFlipKeys and ECIES decryption for recipients and
   non-recipients; plus seeded larger layouts (up to several hundred candidates, two shards) built to
   reach the fallback paths.  Every real step is one ndjson line.
3. TLC validates the recorded trace against spec/Trace_Lottery.tla: the relation of Lottery.tla is
   evaluated on the OBSERVED outputs; a broken clause is the violation (delivered by the
   postcondition, first trace line per clause).
"""
import concurrent.futures
import json
import os
import re

import vlib

SPEC, CFG = "Trace_Lottery.tla", "Trace_Lottery.cfg"

# classes of runs that the driver must produce whatever the code under test does (else: dead driver, exit 2)
REQUIRED_COVER = ["Evaluate", "Package", "Solve", "eval_noflips", "eval_flips", "authors_gt7", "authors_le7",
                  "try_recipient", "try_non_recipient", "src_ceremony", "src_pure",
                  # candidates without a usable public key, at every position of a recipient list
                  "pkg_keyless_first", "pkg_keyless_middle", "pkg_keyless_last", "pkg_keyless_several",
                  "pkg_keyless_empty", "pkg_keyless_malformed", "solve_keyless"]
# corners of the relation that depend on what the code under test does with the layouts: reported only
REPORTED_COVER = ["placeholder", "authors_ge_quota", "authors_lt_quota", "own_flip", "repeated_recipient", "topped_up"]


def validate(ctx, path, sub, timeout=3000):
    """One TLC run of the trace specification over one trace file.  Returns dict(broken=[(line, clause)],
    cover={name: n}, broken_steps=n, states=n, wall=s).  Raises CheckError when TLC did not deliver a verdict."""
    r = vlib.tlc(ctx, SPEC, CFG, workers=1, env={"TRACE_FILE": path, "JAVA_TOOL_OPTIONS": "-Xss64m -Xmx6g"}, timeout=timeout,
                 sub=sub, want_exports=False, xss=False)
    res = {"broken": [], "cover": {}, "broken_steps": 0, "states": r.distinct, "wall": r.wall, "rejected_at": None}
    seen_steps = False
    for line in r.out.splitlines():
        m = re.match(r'<<"CLAUSE_BROKEN", (\d+), "([^"]*)">>', line)
        if m:
            res["broken"].append((int(m.group(1)), m.group(2)))
            continue
        m = re.match(r'<<"COVER", "([^"]*)", (\d+)>>', line)
        if m:
            res["cover"][m.group(1)] = int(m.group(2))
            continue
        m = re.match(r'<<"BROKEN_STEPS", (\d+)>>', line)
        if m:
            res["broken_steps"] = int(m.group(1))
            seen_steps = True
            continue
        m = re.match(r'<<"TRACE_REJECTED_AT", (\d+), (\d+)>>', line)
        if m:
            res["rejected_at"] = int(m.group(1))
    if not seen_steps:
        raise vlib.CheckError("TLC did not evaluate the postcondition on %s:\n%s" % (path, r.out[-3000:]))
    if res["rejected_at"] is not None:
        raise vlib.CheckError("trace line %d of %s matches no action of Trace_Lottery (harness/spec mismatch, not a verdict):\n%s"
                              % (res["rejected_at"], path, r.out[-1500:]))
    if not r.ok and not res["broken"]:
        raise vlib.CheckError("TLC failed on %s without a broken clause:\n%s" % (path, r.out[-3000:]))
    return res


def split_groups(path):
    """Trace -> list of groups (each starts with a Reset line), as raw lines."""
    groups = []
    with open(path) as f:
        for line in f:
            if not line.strip():
                continue
            if '"ev":"Reset"' in line[:200]:
                groups.append([])
            if not groups:
                groups.append([])
            groups[-1].append(line)
    return groups


def chunks_of(groups, max_lines, max_bytes):
    cur, n, b = [], 0, 0
    for g in groups:
        gl, gb = len(g), sum(len(x) for x in g)
        if cur and (n + gl > max_lines or b + gb > max_bytes):
            yield cur
            cur, n, b = [], 0, 0
        cur.append(g)
        n += gl
        b += gb
    if cur:
        yield cur


def describe(rows, clause):
    """Human-readable account of the group whose last line broke `clause`."""
    bad = rows[-1]
    ev = None
    for r_ in reversed(rows):
        if r_.get("ev") == "Evaluate":
            ev = r_
            break
    head = rows[0]
    what = "clause %s broken by the real code at a %s step" % (clause, bad.get("ev"))
    if bad.get("ev") == "Panic":
        return what + "; input %s; panic: %s; stack: %s; group %s" % (
            json.dumps(bad.get("input"))[:500], bad.get("msg"), json.dumps(bad.get("stack"))[:900],
            json.dumps({k: v for k, v in head.items() if k != "ev"}))
    if ev:
        lay = ev["lay"]
        authors = {i: k for i, k in enumerate(lay["k"]) if k > 0}
        shape = json.dumps(lay["k"]) if lay["n"] <= 16 else "authors(index:flips) %s" % json.dumps(authors)[:300]
        keyless = {i: ("no key" if v == 1 else "malformed key") for i, v in enumerate(lay.get("kl", [])) if v}
        if keyless:
            shape += ", candidates without a usable public key %s" % json.dumps(keyless)[:200]
        what += "; shard layout: %d candidates, %d authors, %d flips, flips per candidate %s, quota %d, seed %s, source %s" % (
            lay["n"], len(authors), len(lay["fa"]), shape, ev["q"], ev["seed"][:16], ev.get("src"))
    if bad.get("ev") == "Evaluate":
        what += "; outputs: %s" % json.dumps(bad["out"])[:500]
    else:
        obs = {k: (v if not isinstance(v, list) or len(v) <= 24 else v[:24] + ["... %d more" % (len(v) - 24)])
               for k, v in bad.items() if k != "ext"}
        what += "; observed: %s" % json.dumps(obs)[:700]
    what += "; group %s" % json.dumps({k: v for k, v in head.items() if k != "ev"})
    return what


def keyless_spots(rows):
    """(Package row, one of its 'ok' entries behind a key-less recipient, Solve row of a key-less candidate that is a
    recipient) of a recorded group, or None."""
    lay = None
    pk = later = sv = None
    for r_ in rows:
        if r_.get("ev") == "Evaluate":
            lay = r_["lay"]
        elif r_.get("ev") == "Package" and lay and r_.get("has") and pk is None:
            rec = r_["recips"]
            first = next((i for i, c in enumerate(rec) if c == -2 or (0 <= c < lay["n"] and lay["kl"][c] != 0)), None)
            if first is not None:
                e = next((e for e in r_["ext"] if e["res"] == "ok" and e["idx"] > first), None)
                if e is not None:
                    pk, later = r_, e
        elif r_.get("ev") == "Solve" and lay and sv is None:
            if lay["kl"][r_["c"]] != 0 and any(t["idx"] != -1 for t in r_["tries"]):
                r_["tries"].sort(key=lambda t: t["idx"] == -1)
                sv = r_
    if pk is None or sv is None:
        return None
    return pk, later, sv


def selftest(ctx, groups):
    """Binding self-test: corrupted copies of an accepted recorded group must be rejected, each with the
    clause that the corruption breaks."""
    pick = None
    attempts = 0
    for g in groups:
        if attempts >= 4:
            break
        if len(g) > 80 or len(g) < 8:
            continue
        rows = [json.loads(x) for x in g]
        evs = [r_ for r_ in rows if r_.get("ev") == "Evaluate"]
        if not evs or any(r_.get("ev") in ("Panic", "HarnessPanic") for r_ in rows):
            continue
        lay = evs[0]["lay"]
        if lay["n"] < 3 or len(lay["fa"]) < 3 or sum(1 for k in lay["k"] if k > 0) < 2:
            continue
        if not any(r_.get("ev") == "Solve" and any(t["res"] == "ok" for t in r_["tries"]) for r_ in rows):
            continue
        if keyless_spots(rows) is None:
            continue
        attempts += 1
        good = ctx.path("selftest", "good.ndjson")
        vlib.write_ndjson(good, rows)
        if validate(ctx, good, "selftest_good")["broken"]:
            continue
        pick = rows
        break
    if pick is None:
        return None

    def clone():
        return json.loads(json.dumps(pick))

    out = []
    expect = []
    # (a) a flip listed twice in a short list
    rows = clone()
    e = next(r_ for r_ in rows if r_["ev"] == "Evaluate" and any(len(s) >= 1 for s in r_["out"]["short"]))
    s = next(s for s in e["out"]["short"] if len(s) >= 1)
    s.append(s[0])
    out += rows
    expect.append("NoDup")
    # (b) one recipient dropped from every list of candidatesPerAuthor that contains it
    rows = clone()
    e = next(r_ for r_ in rows if r_["ev"] == "Evaluate" and any(r_["out"]["cpa"]))
    a = next(i for i, l_ in enumerate(e["out"]["cpa"]) if l_)
    victim = e["out"]["cpa"][a][0]
    e["out"]["cpa"][a] = [x for x in e["out"]["cpa"][a] if x != victim]
    out += rows
    expect.append("Symmetric")
    # (c) an emptied long list
    rows = clone()
    e = next(r_ for r_ in rows if r_["ev"] == "Evaluate")
    e["out"]["long"][0] = []
    out += rows
    expect.append("LongNonEmpty")
    # (d) a second run with the same (layout, quota, seed) and another outcome
    rows = clone()
    evs = [r_ for r_ in rows if r_["ev"] == "Evaluate"]
    twin = next((x for x in evs[1:] if (x["q"], x["seed"]) == (evs[0]["q"], evs[0]["seed"])), None)
    if twin is not None and twin["out"]["short"] and len(twin["out"]["short"][0]) >= 2:
        twin["out"]["short"][0].reverse()
        out += rows
        expect.append("Deterministic")
    # (e) a recipient that did not get the key
    rows = clone()
    sv = next(r_ for r_ in rows if r_["ev"] == "Solve" and any(t["res"] == "ok" for t in r_["tries"]))
    next(t for t in sv["tries"] if t["res"] == "ok")["res"] = "nokey"
    out += rows
    expect.append("KeyReach")
    # (f) a package index pointing at somebody else's entry
    rows = clone()
    sv = next(r_ for r_ in rows if r_["ev"] == "Solve" and any(t["idx"] != -1 for t in r_["tries"]))
    t = next(t for t in sv["tries"] if t["idx"] != -1)
    t["at"] = (t["at"] + 1) % max(2, next(r_ for r_ in pick if r_["ev"] == "Evaluate")["lay"]["n"])
    out += rows
    expect.append("PkgIndex")

    # (g) a packager that drops a key-less recipient: the entry of a later recipient is not its own
    rows = clone()
    pk, later, sv = keyless_spots(rows)
    later["res"] = "fail"
    out += rows
    expect.append("PackageEntry")
    # (h) a key-less candidate that obtained a key
    rows = clone()
    pk, later, sv = keyless_spots(rows)
    sv["tries"][0]["res"] = "ok"
    out += rows
    expect.append("KeyLeak")

    bad = ctx.path("selftest", "bad.ndjson")
    vlib.write_ndjson(bad, out)
    res = validate(ctx, bad, "selftest_bad")
    got = {c for _, c in res["broken"]}
    missing = [c for c in expect if c not in got]
    if missing:
        raise vlib.CheckError("binding self-test failed: corrupted trace not rejected for clause(s) %s (reported: %s)"
                              % (missing, sorted(got)))
    ctx.log("binding self-test: %d corrupted copies of a recorded group rejected (%s)" % (len(expect), ", ".join(expect)))
    return expect


def main(ctx):
    quick = ctx.tier == "quick"
    drv = vlib.build_driver(ctx, "d_lottery")

    # 1. bounded model: all small layouts, relation satisfiable, clauses imply the user-level statement
    cfg = "MC_Lottery_quick.cfg" if quick else "MC_Lottery_thorough.cfg"
    r = vlib.tlc(ctx, "MC_Lottery.tla", cfg, workers=min(8, ctx.cores), timeout=3000)
    if not r.ok:
        raise vlib.CheckError("design-level Lottery model violates %s (model-only, not a verdict):\n%s"
                              % (r.invariant, (r.error or "")[:2000]))
    exported = [e for e in r.exports if "k" in e and "n" in e and "kl" in e]
    # one case per layout, carrying the key-less assignments the model chose for it
    layouts, by_k = [], {}
    for e in exported:
        if not any(e["kl"]):
            by_k[json.dumps(e["k"])] = c = {"n": e["n"], "k": e["k"], "kls": [], "flips": e.get("flips"), "authors": e.get("authors")}
            layouts.append(c)
    n_kl = 0
    for e in exported:
        if any(e["kl"]):
            c = by_k.get(json.dumps(e["k"]))
            if c is None:
                raise vlib.CheckError("key-less assignment exported for an unknown layout: %s" % e)
            if e["kl"] not in c["kls"]:
                c["kls"].append(e["kl"])
                n_kl += 1
    ctx.log("model: %d generated / %d distinct states, %d layouts + %d key-less assignments exported"
            % (r.generated, r.distinct, len(layouts), n_kl))
    if not layouts:
        raise vlib.CheckError("no layouts exported (dead generator)")
    if not n_kl:
        raise vlib.CheckError("no key-less assignments exported (dead generator)")
    cases = ctx.path("cases.json")
    with open(cases, "w") as f:
        for c in layouts:
            f.write(json.dumps({"n": c["n"], "k": c["k"], "kls": c["kls"]}) + "\n")

    # 2. the real code on every layout + seeded larger layouts
    trace = ctx.path("trace.ndjson")
    if quick:
        args = ["-seeds", "2", "-qs", "8,2", "-random", "30", "-maxn", "300"]
    else:
        args = ["-seeds", "3", "-qs", "8,1,2,3", "-random", "240", "-maxn", "600"]
    p = vlib.run_driver(ctx, drv, ["-cases", cases, "-out", trace, "-workers", str(ctx.cores)] + args, timeout=3000)
    if p.returncode != 0:
        out = (p.stdout or "")[-4000:]
        if "panic:" in out and re.search(r"idena-go/(core/ceremony|core/mempool|crypto)", out):
            vlib.report_violation(ctx, "C16:NoPanic", "lottery / key-package code panicked outside a recoverable call: " + out[-1200:])
            return vlib.finish(ctx, "model_checking", {"states": r.distinct, "transitions": r.generated,
                                                       "traces_validated_against_impl": 0, "samples": [out[-400:]]})
        raise vlib.CheckError("driver failed:\n" + out)
    ctx.log((p.stdout or "").strip().splitlines()[-1] if p.stdout else "driver done")

    groups = split_groups(trace)
    for g in groups:
        for line in g:
            if '"ev":"HarnessPanic"' in line:
                raise vlib.CheckError("the driver itself panicked (harness defect, not a verdict): " + line[:1500])
    n_lines = sum(len(g) for g in groups)

    # 3. trace validation, in parallel chunks (groups are independent: every group starts with Reset)
    chunks = list(chunks_of(groups, 6000 if quick else 12000, 24 << 20))
    files = []
    for i, ch in enumerate(chunks):
        pth = ctx.path("chunks", "chunk_%03d.ndjson" % i)
        with open(pth, "w") as f:
            for g in ch:
                f.writelines(g)
        files.append((pth, ch))
    results = [None] * len(files)
    with concurrent.futures.ThreadPoolExecutor(max_workers=max(1, min(8, ctx.cores // 2))) as ex:
        futs = {ex.submit(validate, ctx, files[i][0], "tv_%03d" % i): i for i in range(len(files))}
        for fu in concurrent.futures.as_completed(futs):
            results[futs[fu]] = fu.result()
    cover = {}
    broken_steps = 0
    tlc_wall = 0.0
    for res in results:
        broken_steps += res["broken_steps"]
        tlc_wall += res["wall"]
        for k, v in res["cover"].items():
            cover[k] = cover.get(k, 0) + v
    ctx.log("trace: %d lines in %d groups validated in %d chunks (TLC %.0fs cpu-wall); steps with a broken clause: %d"
            % (n_lines, len(groups), len(files), tlc_wall, broken_steps))

    # verdicts: every (chunk, clause) once; the first group that shows the clause is the replay
    reported = set()
    for (pth, ch), res in zip(files, results):
        rows = None
        for line, clause in res["broken"]:
            if clause.startswith("Harness"):
                raise vlib.CheckError("trace line %d of %s is not a well-formed observation (%s)" % (line, pth, clause))
            if clause in reported:
                continue
            reported.add(clause)
            if rows is None:
                rows = [json.loads(x) for g in ch for x in g]
            start = max(i for i in range(line) if rows[i].get("ev") == "Reset")
            excerpt = rows[start:line]
            exf = ctx.path("replay_%s.ndjson" % re.sub(r"[^A-Za-z0-9]", "_", clause)[:60])
            vlib.write_ndjson(exf, excerpt)
            vlib.report_violation(ctx, "C16:" + clause, describe(excerpt, clause), replay_src=exf,
                                  payload={"group": {k: v for k, v in excerpt[0].items() if k != "ev"}, "clause": clause})

    # vacuity control
    dead = [c for c in REQUIRED_COVER if not cover.get(c)]
    if dead and not ctx.violations:
        raise vlib.CheckError("dead driver: the runs never exercised %s" % dead)
    if dead:
        ctx.notes.append("corners not reached in this run (the code under test broke clauses): %s" % dead)

    # 4. binding self-test
    st = selftest(ctx, groups[len(groups) // 3:] + groups[:len(groups) // 3])
    if st is None:
        if not ctx.violations and not ctx.known_hits:
            raise vlib.CheckError("binding self-test could not find an accepted recorded group to corrupt")
        ctx.notes.append("binding self-test skipped: no recorded group was accepted")

    n_eval = cover.get("Evaluate", 0)
    cov = {
        "states": r.distinct, "transitions": r.generated,
        "traces_validated_against_impl": len(groups),
        "trace_lines_validated": n_lines,
        "lottery_runs_validated": n_eval,
        "packages_validated": cover.get("Package", 0),
        "solvers_validated": cover.get("Solve", 0),
        "corners_reached": {k: cover.get(k, 0) for k in REQUIRED_COVER + REPORTED_COVER},
        "samples": [layouts[0], layouts[len(layouts) // 2], layouts[-1]],
        "keyless_assignments": n_kl,
        "selftest_clauses": st,
        "model_cfg": cfg,
        "exhaustive": True,
        "rule": "every shard layout of the bounded model (%d layouts: candidates 0..%d, any author subset, 1..3 flips per author) "
                "run on the real lottery for %s, each run twice (alone / inside a two-shard call) and once through the real "
                "calculateCeremonyCandidates with real key packages for every author and key retrieval for every candidate and flip; "
                "the ceremony-level run repeated for %d key-less assignments (candidates whose state record has no / a malformed public "
                "key: every subset of <= 2 candidates for the smallest layouts, a layout-dependent singleton and pair above); "
                "plus %s seeded larger layouts (7..%s candidates, 1-2 shards) with sampled solvers"
                % (len(layouts), max(c["n"] for c in layouts), " ".join(args[:4]), n_kl, args[5], args[7]),
    }
    # growth module: publication and delivery of flip keys through the key pools of real multi-node worlds (KeysPool.tla)
    cov["key_pools"] = vlib.run_extra(ctx, "extra_keys", quick)
    return vlib.finish(ctx, "model_checking", cov, assumptions=[
        "the Go PRNG and the queue rotation are not modelled: the specification is a relation on (layout, outputs)",
        "flip cids are pairwise distinct (the chain refuses a cid that is already used)",
        "ceremony-level runs call calculateCeremonyCandidates on a hand-built application state (identities, flips, shard ids written "
        "directly), not on a state produced by a full epoch of blocks",
        "ECIES ciphertexts are randomised; determinism is required of the lottery outputs, not of package bytes",
    ])
