"""C11b - snapshot export / import is all-or-nothing.  Snapshot.tla (fault classes over an abstract archive, invariant
ImportAllOrNothing with / without the root check) exports the fault cases; d_snapshot applies them to REAL archives
(a chain state, a synthetic state of 12 000 accounts = several archive blocks with contract values incl. empty ones, a small
state) at seeded positions and imports each into a fresh real StateDB; Trace_Snapshot evaluates the clauses."""
import json

import vlib

CLAUSES = {"ImportPanicked", "AcceptedButDifferent", "RefusedButLeftState", "CleanArchiveRefused"}


def run(ctx, quick):
    r = vlib.tlc(ctx, "Snapshot.tla", "MC_Snapshot.cfg", workers=2, timeout=600)
    if not r.ok:
        raise vlib.CheckError("design-level model Snapshot violates %s (model-only):\n%s" % (r.invariant, (r.error or "")[:1200]))
    cases = [e for e in r.exports if "fault" in e]
    if not cases:
        raise vlib.CheckError("Snapshot model exported no fault case")
    cf = ctx.path("sncases.json")
    with open(cf, "w") as f:
        for c in cases:
            f.write(json.dumps(c) + "\n")
    drv = vlib.build_driver(ctx, "d_snapshot", clocks=["blockchain/blockchain.go"])
    trace = ctx.path("snapshot.ndjson")
    p = vlib.run_driver(ctx, drv, ["-cases", cf, "-out", trace, "-per", "4" if quick else "60"], timeout=3000)
    if p.returncode != 0:
        raise vlib.CheckError("snapshot driver failed:\n" + (p.stdout or "")[-2500:])
    ctx.log("snapshots: " + (p.stdout or "").strip().splitlines()[-1])
    ok, info = vlib.trace_validate(ctx, "Trace_Snapshot.tla", "Trace_Snapshot.cfg", trace, timeout=1800)
    rows = vlib.read_ndjson(trace)
    imports = [x for x in rows if x.get("ev") == "Import"]
    if not ok:
        broken = info.get("broken")
        if not broken:
            raise vlib.CheckError("snapshot trace rejected without a broken clause: %s" % json.dumps(info)[:800])
        for line, clause in broken:
            row = rows[line - 1]
            ex = ctx.path("replay_%s.ndjson" % clause)
            vlib.write_ndjson(ex, [row])
            region = row.get("class")
            key = "C11:%s:%s" % (clause, region)
            n = sum(1 for x in imports if x.get("class") == region and (
                (clause == "ImportPanicked" and x.get("panic")) or
                (clause == "AcceptedButDifferent" and x.get("accepted") and not (x.get("rootOk") and x.get("contentsEqual"))) or
                (clause == "RefusedButLeftState" and not x.get("accepted") and not x.get("targetEmpty") and not x.get("panic"))))
            vlib.report_violation(ctx, key, "snapshot import not all-or-nothing: clause %s for fault class %s on source '%s' (%d blocks), byte offset %s: %s (%d such imports in this run)" % (
                clause, region, row.get("source"), row.get("blocks"), row.get("offset"),
                json.dumps({k: row.get(k) for k in ("accepted", "rootOk", "contentsEqual", "targetEmpty", "panic", "err")}), n),
                replay_src=ex, payload={"row": row})
    accepted = sum(1 for x in imports if x.get("accepted"))
    classes = sorted({x.get("class") for x in imports})
    if len(classes) < 6:
        raise vlib.CheckError("snapshot driver exercised only fault classes %s (dead driver)" % classes)
    return {"snapshot_model_states": r.distinct, "snapshot_fault_cases": len(cases), "snapshot_imports": len(imports),
            "snapshot_imports_accepted": accepted, "snapshot_fault_classes": classes,
            "snapshot_sample": imports[len(imports) // 2]}
