"""Growth module "REW" of C04: epoch reward distribution (blockchain/rewards.go, rewardValidIdentities inside applyNewEpoch).

spec/Rewards.tla says WHO is entitled to WHAT reward category on the block that finishes a validation and WHERE the
balance part goes (staking / candidate, flips basic / extra, reports, invitations inviter / invitee by age, foundation,
zero wallet; penalised / missed / failed identities; delegators' balance parts to their pool; invitee rewards to the
locked stake), one definition per real step of the code.

1. TLC explores spec/MC_Rewards.tla: populations built identity by identity (previous status x outcome x age class x
   stake class x delegation x flips by class), related (reports, inviters), distributed by the six real steps; the design
   invariants (PenalisedGetNothing, MissedGetNothing, OnlyValidated, DestSelfOrPool, ...) are checked on every state.
   Families: single (one identity, full profile domain, every consensus version 9..12, exhaustive), pairq (two identities,
   every report / invitation relation, versions 9 and 12, exhaustive), pair (two identities with flips, stakes, delegation
   to each other, exhaustive; thorough tier), walk (5 identities, random walks), rich (4 active identities, random walks).
   Every finished distribution is exported as a case; cases are picked per distinct entitlement pattern, patterns that
   exercise a guard condition (somebody excluded by exactly one rule) first.
2. harness/cmd/d_rewards makes every case REAL history on a real chain (genesis allocation, real InviteTx / ActivationTx /
   DelegateTx / ReplenishStakeTx, up to three set-up epochs that give birthdays, inviter links and invitations, then the
   measured epoch whose flip qualifications / reports / outcomes go through the ceremony's own result assembly), lets the
   real applyNewEpoch / rewardValidIdentities run inside real ProposeBlock / AddBlock on two replicas (each with its own
   recording stats collector) and records population, credits per real step, ledger before / after, replicas.
3. TLC validates the recorded traces against spec/Trace_Rewards.tla: the steps are the actions of Rewards.tla, every
   property clause (NonNeg, Conservation, CategoryWithinShare, OnlyEntitled, PoolGetsDelegatorRewards
   [destination, split, ledger], LockedStakeParts, NoUnexplainedIncrease, ReplicasAgree) is evaluated on every epoch block
   with exact arithmetic (BigNat); exact predictions beyond the properties (EntitledPaid, ExactLedger, ...) are drift.

run(ctx, quick) returns the coverage dict; violations go through vlib.report_violation with keys C04:REW:<clause>:<signature>.
"""
import collections
import concurrent.futures
import json
import os
import random
import re
import shutil
import time

import vlib

CLOCKS = ["blockchain/blockchain.go"]
CATS9 = ["staking", "candidate", "flipsBasic", "flipsExtra", "reports", "inviter", "invitee", "foundation", "zero"]
NEED_CATS = ["staking", "candidate", "flipsBasic", "flipsExtra", "reports", "inviter1", "inviter2", "inviter3", "invitee1", "invitee2", "invitee3",
             "foundation", "zero"]
# categories whose weights are float32 stake weights summed in float32 (the divisor is the rounded sum, the payments use
# the single weights): the only ones where the known rounding excess can occur
FLOAT_SHARES = ("staking", "flipsExtra", "invitations")
ST = {0: "U", 1: "I", 2: "C", 3: "V", 4: "S", 5: "K", 6: "Z", 7: "N", 8: "H"}
PAR = 6     # processes / TLC runs side by side (shared machine)


def base_cat(c):
    return c.rstrip("123")


def pattern(e):
    """Entitlement pattern of an exported case: what the model says each identity (and the god address) earns."""
    per = []
    for i, d in enumerate(e["ids"], 1):
        cats = tuple(sorted(c for c, w, dst in e["paid"] if w == i))
        pooled = any(w == i and dst != i for c, w, dst in e["paid"])
        per.append((cats, pooled, d["new"] == "N", d["new"] in "NVH", d["missed"], d["new"] == "K"))
    god = tuple(sorted(c for c, w, dst in e["paid"] if w == 0))
    return json.dumps([e["upg"] >= 10, god, sorted(per)])


def ncats(e):
    return len(set(base_cat(c) for c, w, dst in e["paid"]))


def uniq(exports):
    seen, res = set(), []
    for e in exports:
        k = json.dumps(e, sort_keys=True)
        if k not in seen:
            seen.add(k)
            res.append(e)
    res.sort(key=lambda e: json.dumps(e, sort_keys=True))      # TLC's print order depends on worker timing
    return res


def pick_per_pattern(exports, rnd, per):
    by = collections.defaultdict(list)
    for e in exports:
        by[pattern(e)].append(e)
    res = []
    for k in sorted(by):
        lst = by[k]
        rnd.shuffle(lst)
        res += lst[:per]
    return res, len(by)


def guards(e):
    """How many guard conditions of the rules a case exercises: somebody who WOULD earn a category but for one exclusion
    (a failed or penalised inviter of a successful invitee, a penalised invitee, a failed or penalised reporter of a
    reported flip, an author who missed or was penalised, a penalised staker, an author one flip / a stake short of the
    extra flip reward)."""
    ids, n = e["ids"], 0

    def pen(d):
        return d["rep"] > 0 or (d["nq"] > 0 and d["good"] == 0)

    def valid(d):
        return d["new"] in "NVH"
    for d in ids:
        succ = d["inviter"] >= 0 and d["new"] in "NV" and d["age"] < 3
        if succ and d["inviter"] > 0 and (not valid(ids[d["inviter"] - 1]) or pen(ids[d["inviter"] - 1])):
            n += 1
        if succ and pen(d):
            n += 1
        if d["reports"] and any(ids[t - 1]["rep"] > 0 for t in d["reports"]) and (not valid(d) or pen(d)):
            n += 1
        if d["good"] >= 1 and (d["missed"] or pen(d)):
            n += 1
        if pen(d) and valid(d):
            n += 1
        if valid(d) and not pen(d) and not d["missed"] and (d["good"] > 3 and d["stake"] == 0 or d["good"] == 3 and d["stake"] > 0):
            n += 1      # would earn extra flip rewards but for the stake / for one more flip
    return n


def pick_guarded(exports, rnd, limit):
    """One case per entitlement pattern, patterns that exercise a guard condition first."""
    by = collections.defaultdict(list)
    for e in exports:
        by[pattern(e)].append(e)
    hot, cold = [], []
    for k in sorted(by):
        lst = by[k]
        rnd.shuffle(lst)
        top = max(guards(e) for e in lst)
        g = [e for e in lst if guards(e) == top]
        (hot if top > 0 else cold).append(g[0])
    rnd.shuffle(hot)
    rnd.shuffle(cold)
    nh = min(len(hot), (limit * 3) // 4)
    return hot[:nh] + cold[:limit - nh], len(by)


def _model(ctx, cfg, workers, seed, sim=None, timeout=2400):
    extra = ["-seed", str(seed)]
    if sim:
        extra = ["-simulate", "num=%d" % sim, "-depth", "24"] + extra
    r = vlib.tlc(ctx, "MC_Rewards.tla", cfg, workers=workers, timeout=timeout, extra=extra, simulate=bool(sim))
    if sim:
        if r.error:
            raise vlib.CheckError("simulation of the Rewards model (%s) failed (model-only): %s" % (cfg, (r.error or "")[:1500]))
    elif not r.ok:
        raise vlib.CheckError("design-level Rewards model (%s) violates %s (model-only, not a verdict):\n%s" % (cfg, r.invariant, (r.error or "")[:1500]))
    return r


def _shards(ctx, drv, jobs, timeout):
    def one(j):
        i, args = j
        wd = ctx.path("wd_rew_%d" % i, "x")
        wd = os.path.dirname(wd)
        p = vlib.run([drv] + args, cwd=wd, env={"VERIF_SEED": str(ctx.seed), "VERIF_TIER": ctx.tier}, timeout=timeout, check=False)
        shutil.rmtree(wd, ignore_errors=True)
        return p
    with concurrent.futures.ThreadPoolExecutor(max_workers=PAR) as ex:
        return list(ex.map(one, list(enumerate(jobs))))


def _stats(ctx, ps):
    tot = collections.Counter()
    for p in ps:
        out = (p.stdout or "")
        if p.returncode != 0:
            vlib.driver_failure(ctx, out, "d_rewards failed")
        last = [l for l in out.strip().splitlines() if l.startswith("cases=")]
        for tok in (last[-1] if last else "").split():
            if "=" in tok:
                k, v = tok.split("=", 1)
                try:
                    tot[k] += int(v)
                except ValueError:
                    pass
    return tot


def validate(ctx, trace, sub=None):
    """TLC on one trace: (accepted, broken [(line, clause)], drift [(line, clause)], states)."""
    r = vlib.tlc(ctx, "Trace_Rewards.tla", "Trace_Rewards.cfg", workers=1, env={"TRACE_FILE": trace}, timeout=3000, want_exports=False, sub=sub)
    broken, drift, rejected = [], [], None
    for line in r.out.splitlines():
        m = re.match(r'<<"CLAUSE_BROKEN", (\d+), "([^"]*)">>', line)
        if m:
            broken.append((int(m.group(1)), m.group(2)))
        m = re.match(r'<<"DRIFT_CLAUSE", (\d+), "([^"]*)">>', line)
        if m:
            drift.append((int(m.group(1)), m.group(2)))
        m = re.match(r'<<"TRACE_REJECTED_AT", (\d+), (\d+)>>', line)
        if m:
            rejected = int(m.group(1))
    if rejected is not None:
        return False, broken, drift, rejected
    if not r.ok and not broken:
        raise vlib.CheckError("TLC error while validating a rewards trace (not a verdict):\n" + r.out[-3000:])
    return r.ok, broken, drift, None


def _val(limbs):
    return sum(x * 10000 ** i for i, x in enumerate(limbs))


def _epoch_of(rows, line):
    """The lines of the epoch block a broken clause points into, and its World line."""
    i = line - 1
    a = i
    while a > 0 and rows[a].get("ev") != "Epoch":
        a -= 1
    b = i
    while b < len(rows) - 1 and rows[b].get("ev") != "Block":
        b += 1
    w = a
    while w > 0 and rows[w].get("ev") != "World":
        w -= 1
    return rows[w], rows[a:b + 1]


def _who_class(ep, k):
    if k == 0:
        return "god"
    if k == 9:
        return "zero-wallet"
    for p in ep["pop"]:
        if p["k"] == k:
            if not p["cand"]:
                return "non-participant"
            return "%s>%s%s%s" % (ST.get(p["prev"], "?"), ST.get(p["new"], "?"), "-missed" if p["missed"] else "", "-penalised" if p["bad"] else "")
    return "stranger"


def _signature(clause, world, lines, line_row):
    ep = lines[0]
    name = clause.split(":")[0]
    if name in ("CategoryWithinShare", "CategoryShareGross"):
        share = clause.split(":")[1]
        if name == "CategoryWithinShare":
            return "%s:%s" % (share, "float32-weight-sum" if share in FLOAT_SHARES else "exact-share")
        return "%s:gross" % share
    if name == "Conservation":
        return "float32-weight-sum"
    if name == "ConservationGross":
        return "gross"
    if name == "OnlyEntitled":
        cat = clause.split(":")[1]
        if cat == "failed-validation":
            return cat
        return "%s:%s" % (cat, _who_class(ep, int(clause.split(":")[2])))
    if name in ("PoolGetsDelegatorRewards", "LockedStakeParts"):
        return "%s:%s" % (clause.split(":")[1], line_row.get("step", "epoch-block"))
    if name == "ReplicasAgree":
        reps = line_row.get("reps", [])
        if any(not r["ok"] for r in reps):
            return "epoch-block-refused"
        if line_row.get("root2") != line_row.get("root"):
            return "reproposal-differs"
        return "collector-digest" if len(set(r["digest"] for r in reps)) > 1 else "roots"
    return "epoch-block"


def _describe(clause, world, lines, line_row):
    ep = lines[0]
    pool = _val(ep["reward"]) * ep["len"]
    sums = collections.Counter()
    for r in lines:
        if r.get("ev") == "Pay":
            for c in r["credits"]:
                b = base_cat(c[0])
                share = "invitations" if b in ("inviter", "invitee") else ("flips" if b == "flipsBasic" and ep["upg"] < 10 else b)
                sums[share] += _val(c[3]) + _val(c[4])
    parts = []
    for s in sorted(sums):
        lim = pool * ep["pm"][s] // 1000
        parts.append("%s paid %d of %d%s" % (s, sums[s], lim, " (EXCESS %d)" % (sums[s] - lim) if sums[s] > lim else ""))
    tot = sum(sums.values())
    return ("world %s (case %s of family %s, consensus v%d), epoch %d block at height %d, epoch length %d: pool %d, credited %d%s; %s; population %s"
            % (ep.get("hid"), ep.get("case"), ep.get("src"), ep["upg"], ep["e"], ep["h"], ep["len"], pool, tot,
               " (EXCESS %d)" % (tot - pool) if tot > pool else "", "; ".join(parts),
               json.dumps([{k: p[k] for k in ("k", "cand", "prev", "new", "missed", "stk", "del", "inviter", "good", "rep", "nq", "reports")} for p in ep["pop"] if p["k"] <= world.get("n", 5)])[:900]))


def _report(ctx, trace, broken):
    rows = vlib.read_ndjson(trace)
    keys = []
    for line, clause in broken:
        world, lines = _epoch_of(rows, line)
        row = rows[line - 1]
        sig = _signature(clause, world, lines, row)
        name = clause.split(":")[0]
        key = "C04:REW:%s:%s" % (name, sig)
        what = "clause %s broken by the real code (trace line %d): %s" % (clause, line, _describe(clause, world, lines, row))
        ex = ctx.path("replay_rew_%s.ndjson" % re.sub(r"[^A-Za-z0-9]", "_", key)[:70])
        vlib.write_ndjson(ex, [world] + lines)
        vlib.report_violation(ctx, key, what[:3000], replay_src=ex, payload={"clause": clause, "line": line, "case": world.get("spec")})
        keys.append(key)
    return keys


def excess_stats(traces):
    """Bookkeeping for the evidence (not a verdict): how often and by how much a category / the whole epoch pool was exceeded."""
    n = collections.Counter()
    worst = {}
    blocks = 0
    for t in traces:
        ep, sums = None, None
        for r in vlib.read_ndjson(t):
            if r["ev"] == "Epoch":
                ep, sums = r, collections.Counter()
            elif r["ev"] == "Pay":
                for c in r["credits"]:
                    b = base_cat(c[0])
                    s = "invitations" if b in ("inviter", "invitee") else ("flips" if b == "flipsBasic" and ep["upg"] < 10 else b)
                    sums[s] += _val(c[3]) + _val(c[4])
            elif r["ev"] == "Block" and ep is not None and not ep["failed"]:
                blocks += 1
                pool = _val(ep["reward"]) * ep["len"]
                for s, v in sums.items():
                    lim = pool * ep["pm"][s] // 1000
                    if v > lim:
                        n[s] += 1
                        worst[s] = max(worst.get(s, 0.0), (v - lim) / lim)
                tot = sum(sums.values())
                if tot > pool:
                    n["epoch-pool"] += 1
                    worst["epoch-pool"] = max(worst.get("epoch-pool", 0.0), (tot - pool) / pool)
    return {"epoch_blocks": blocks, "exceeded": dict(n), "worst_relative_excess": {k: float("%.3g" % v) for k, v in worst.items()}}


def run(ctx, quick):
    rnd = random.Random(ctx.seed)
    t0 = time.time()
    pool = concurrent.futures.ThreadPoolExecutor(max_workers=4)
    # 1. bounded models (side by side with the build)
    futs = {
        "single": pool.submit(_model, ctx, "MC_Rewards_single.cfg", 2, ctx.seed),
        "pairq": pool.submit(_model, ctx, "MC_Rewards_pairq.cfg", 2, ctx.seed),
        "walk": pool.submit(_model, ctx, "MC_Rewards_walk.cfg", 1, ctx.seed, 120 if quick else 1500),
        "rich": pool.submit(_model, ctx, "MC_Rewards_rich.cfg", 1, ctx.seed, 1500 if quick else 9000),
    }
    if not quick:
        futs["pair"] = pool.submit(_model, ctx, "MC_Rewards_pair.cfg", 4, ctx.seed)
    drv = vlib.build_driver(ctx, "d_rewards", clocks=CLOCKS)
    res = {k: f.result() for k, f in futs.items()}
    pool.shutdown()
    states = sum(r.distinct for r in res.values())
    trans = sum(r.generated for r in res.values())
    if quick:
        single, npat1 = pick_guarded(uniq(res["single"].exports), rnd, 90)
    else:
        single, npat1 = pick_per_pattern(uniq(res["single"].exports), rnd, 3)
        single += [e for e in pick_guarded(uniq(res["single"].exports), rnd, 1000)[0] if e not in single]
    pair, npat2 = pick_guarded(uniq(res["pairq"].exports), rnd, 45 if quick else 350)
    if not quick:
        pair2, npat2b = pick_guarded(uniq(res["pair"].exports), rnd, 650)
        pair, npat2 = pair + pair2, npat2 + npat2b
    walk = uniq(res["walk"].exports)
    rnd.shuffle(walk)
    walk = walk[:30 if quick else 300]
    rich_all = uniq(res["rich"].exports)
    rnd.shuffle(rich_all)
    # populations in which every one of the nine categories pays come first (the whole pool is handed out)
    full = [e for e in rich_all if ncats(e) == 9]
    rest = [e for e in rich_all if ncats(e) < 9]
    rich = full[:12 if quick else 80] + rest[:25 if quick else 220]
    if not full:
        raise vlib.CheckError("the rich family exported no population in which all nine categories pay (vacuous bounds)")
    cases = [("single", e) for e in single] + [("pair", e) for e in pair] + [("walk", e) for e in walk] + [("rich", e) for e in rich]
    fam = collections.Counter(s for s, _ in cases)
    ctx.log("models: %d generated / %d distinct states; %d + %d entitlement patterns (single, pair); replaying %d cases %s"
            % (trans, states, npat1, npat2, len(cases), dict(fam)))
    if not single or not walk or not pair:
        raise vlib.CheckError("a model family exported nothing (dead generator)")
    # vacuity: the cases to be replayed must, by the model, credit every category and exercise guard conditions
    predicted = collections.Counter(c for _, e in cases for c, w, d in e["paid"])
    for c in NEED_CATS:
        if not predicted.get(c):
            raise vlib.CheckError("no selected case credits category '%s' in the model (vacuous selection)" % c)
    nguard = sum(1 for _, e in cases if guards(e) > 0)
    if nguard < len(cases) // 10:
        raise vlib.CheckError("only %d of %d selected cases exercise a guard condition (vacuous selection)" % (nguard, len(cases)))

    # 2. real chains (sharded: one virtual clock per process)
    rnd.shuffle(cases)
    jobs = []
    for i in range(PAR):
        part = cases[i::PAR]
        if not part:
            continue
        cf = ctx.path("rew_cases_%d.json" % i)
        with open(cf, "w") as f:
            for j, (src, e) in enumerate(part):
                d = {k: v for k, v in e.items() if k != "paid"}
                d.update(id=i + j * PAR + 1, src=src, pat=str(ncats(e)))
                f.write(json.dumps(d) + "\n")
        jobs.append(["-cases", cf, "-out", ctx.path("rew_%d.ndjson" % i), "-first", str(i * 100000)])
    st = _stats(ctx, _shards(ctx, drv, jobs, 3000))
    ctx.log("real chains (%.0fs): " % (time.time() - t0) + " ".join("%s=%d" % kv for kv in sorted(st.items())))
    for k in ("cases", "blocks", "epochs", "measured", "txs", "invites", "delegs", "full"):
        if not st.get(k):
            raise vlib.CheckError("the driver never produced '%s' (dead driver)" % k)
    if sum(v for k, v in st.items() if k.startswith("cat_")) < st["epochs"]:
        raise vlib.CheckError("the recording stats collector saw fewer credits than epoch blocks (dead driver)")
    if st["measured"] < 0.95 * st["cases"]:
        raise vlib.CheckError("only %d of %d cases reached their measured epoch (driver could not realise them)" % (st["measured"], st["cases"]))
    if st.get("unreal", 0) > 0.05 * st["cases"]:
        raise vlib.CheckError("%d of %d cases were not realised as the model describes them" % (st["unreal"], st["cases"]))

    # 3. trace validation, the shards side by side
    traces = [j[3] for j in jobs]
    nlines = sum(sum(1 for _ in open(f)) for f in traces)

    def val(job):
        i, t = job
        return validate(ctx, t, sub="tv_rew_%d" % i)
    with concurrent.futures.ThreadPoolExecutor(max_workers=PAR) as ex:
        results = list(ex.map(val, list(enumerate(traces))))
    keys, drift, clean = [], collections.Counter(), None
    for t, (ok, broken, dr, rejected) in zip(traces, results):
        if rejected is not None:
            raise vlib.CheckError("rewards trace %s is not a behaviour of Trace_Rewards at line %d (harness / specification mismatch, not a verdict)" % (os.path.basename(t), rejected))
        keys += _report(ctx, t, broken)
        for _, c in dr:
            drift[c] += 1
    for c, nn in sorted(drift.items()):
        note = "REW drift (exact prediction of Rewards.tla beyond the property clauses, not a verdict): %s in %d trace(s)" % (c, nn)
        if note not in ctx.notes:
            ctx.notes.append(note)
    ex_stats = excess_stats(traces)

    # 4. binding self-test on a recorded prefix
    selftest(ctx, traces[0])

    return {
        "rew_states": states, "rew_transitions": trans,
        "rew_model": {k: {"generated": r.generated, "distinct": r.distinct, "exports": len(r.exports), "wall_s": round(r.wall, 1)} for k, r in res.items()},
        "rew_patterns": {"single": npat1, "pair": npat2},
        "rew_cases_by_family": dict(fam), "rew_cases_exercising_a_guard": nguard,
        "rew_predicted_credits_by_category": dict(sorted(predicted.items())),
        "rew_traces_validated_against_impl": st.get("epochs", 0), "rew_trace_lines": nlines,
        "rew_real": {k: st.get(k, 0) for k in ("cases", "worlds", "blocks", "epochs", "measured", "txs", "invites", "delegs", "full", "unreal", "refused")},
        "rew_credits_by_category": {k[4:]: v for k, v in sorted(st.items()) if k.startswith("cat_")},
        "rew_clauses_broken": sorted(set(keys)),
        "rew_drift": dict(drift),
        "rew_share_excess": ex_stats,
        "rew_samples": [{k: v for k, v in single[0].items() if k != "paid"}, {k: v for k, v in full[0].items() if k != "paid"}],
        "rew_rule": "populations of MC_Rewards (single: one identity, full profile domain, consensus versions 9-12, exhaustive; pairq: two identities, reports and invitations, exhaustive%s; walk / rich: random walks with "
                    "5 / 4 identities) picked per distinct entitlement pattern, made real history (up to 3 set-up epochs + the measured one) on 2 replicas; "
                    "every clause of Trace_Rewards evaluated on every epoch block (set-up epochs included) with exact arithmetic"
                    % ("" if quick else "; pair: two identities, every relation, exhaustive"),
    }


def selftest(ctx, trace):
    """Binding self-test: a recorded world must be judged as recorded; with one credit inflated it must break a share /
    conservation clause it did not break before; with one Pay line removed it must be rejected as no behaviour."""
    rows = vlib.read_ndjson(trace)
    keep = []
    for r in rows:
        if r.get("ev") == "World" and len(keep) > 60:
            break
        keep.append(r)
    good = ctx.path("selftest", "rew_good.ndjson")
    vlib.write_ndjson(good, keep)
    ok, broken, _, rej = validate(ctx, good, sub="tv_rew_st0")
    if rej is not None:
        raise vlib.CheckError("self-test: the recorded prefix is not accepted as a behaviour")
    base = set(c for _, c in broken)
    bad_rows = json.loads(json.dumps(keep))
    done = False
    for r in bad_rows:
        if r.get("ev") == "Pay" and r["step"] == "validation" and r["credits"]:
            c = r["credits"][0]
            c[3] = list(c[3]) + [0] * (7 - len(c[3])) if len(c[3]) < 7 else list(c[3])
            c[3][5] += 1          # + 10^20 base units
            done = True
            break
    if not done:
        raise vlib.CheckError("self-test could not build a corrupted trace")
    bad = ctx.path("selftest", "rew_bad.ndjson")
    vlib.write_ndjson(bad, bad_rows)
    ok2, broken2, _, rej2 = validate(ctx, bad, sub="tv_rew_st1")
    extra = set(c for lc in set(broken2) - set(broken) for c in [lc[1]])     # broken anew, or earlier than in the recording
    if rej2 is not None or not any(c.startswith(("CategoryShareGross", "ConservationGross", "NoUnexplainedIncrease")) for c in extra):
        raise vlib.CheckError("binding self-test failed: a trace with an inflated credit was accepted by Trace_Rewards (%s)" % sorted(extra))
    cut = [r for r in keep]
    idx = next(i for i, r in enumerate(cut) if r.get("ev") == "Pay" and r["step"] == "reports")
    del cut[idx]
    short = ctx.path("selftest", "rew_cut.ndjson")
    vlib.write_ndjson(short, cut)
    ok3, _, _, rej3 = validate(ctx, short, sub="tv_rew_st2")
    if rej3 is None:
        raise vlib.CheckError("binding self-test failed: a trace with a removed step was accepted as a behaviour")
    ctx.log("binding self-test: inflated credit rejected (%s), removed step rejected at line %d" % (", ".join(sorted(extra))[:120], rej3))
