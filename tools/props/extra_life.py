"""Growth module "LIFE" of the chain family (attached to C05): the lifecycle of an identity.

spec/Lifecycle.tla specifies, for a focus identity x and the cast it needs (god, its inviter, a pool, a delegator, a fresh key,
a stranger), what every plain transaction type attempted BY x or AGAINST x is answered with in every situation
(status x validation period x online flag / pending status switch x delegation x being a pool x stake parts x penalty x flips
x ceremony transactions x invitations: one clause per validator of blockchain/validation/validation.go, for the mempool and
for a block), what an included transaction does to the identity (applyTxOnState), the block-level steps of an identity-update
block (applyStatusSwitch, applyDelayedOfflinePenalties, applyDelegationSwitch, switchPoolsToOffline) and the epoch end with
every outcome the decision table (Ceremony.tla) allows (ceremony.applyOnState + setNewIdentitiesAttributes).

1. TLC explores spec/MC_Lifecycle.tla (bounded depth, 11 initial situations) with the design-level properties
   (ValidatedIffStatus, OnlineOnlyValidatedOrPool, DeadOwnsNothing, StakeParts, DelegatorQuiet, OnlyNamedRelationships,
   NoResurrection, StatusOnlyByEpoch, RefusedNoEffect) and exports an edge cover: for every stratum of transitions - admissible
   or refused - one shortest path reaching it.
2. harness/cmd/d_chain -life realises the chosen paths on real replicas: every attempt is a real signed transaction in a block
   of its own (offered to the real mempools; what they refuse is offered once more by a proposer whose mempool does not
   filter), real identity-update blocks, real validation periods, real epoch transitions with the model's outcomes injected
   into the real ApplyNewEpoch, offline penalties through blocks carrying the Offline flags.  The trace is the ordinary d_chain
   trace plus the extended projection of the cast.
3. TLC validates the trace against Trace_Lifecycle (verdict clauses; drift of the model's predictions) and against the
   existing trace specifications Trace_Ledger, Trace_Registry, Trace_Replicas (their clause sets judge these histories too).

run(ctx, quick) returns the coverage dict; violations go through vlib.report_violation with keys C05:LIFE:<clause>:<signature>.
"""
import collections
import concurrent.futures
import json
import os
import random
import re
import shutil
import time

import vlib
from chainlib import CLOCKS

STATUS = {0: "Undefined", 1: "Invite", 2: "Candidate", 3: "Verified", 4: "Suspended", 5: "Killed", 6: "Zombie", 7: "Newbie", 8: "Human"}
PERIOD = {0: "None", 1: "FlipLottery", 2: "ShortSession", 3: "LongSession", 4: "AfterLongSession"}
TX_OPS = ["Send", "ActivateSelf", "ActivateOther", "InviteF", "Kill", "KillInviteeF", "KillDelegatorD", "SubmitFlip", "DeleteFlip",
          "AnswersHash", "ShortAnswers", "LongAnswers", "Evidence", "GoOnline", "GoOffline", "ChangeGod", "Burn", "ChangeProfile",
          "Delegate", "Undelegate", "StoreToIpfs", "ReplenishSelf", "InviteX", "InviteXByS", "KillInviteeX", "KillInviteeXByG",
          "KillDelegatorX", "KillDelegatorXByG", "ReplenishX", "DelegateDX", "ActivateF"]
NEVER_ADMITTED = {"ChangeGod", "InviteXByS", "KillInviteeXByG", "KillDelegatorXByG"}
ALWAYS_IN_BLOCK = {"Send", "Burn", "ChangeProfile", "StoreToIpfs"}      # (a mempool refuses them during flip lottery and short session)
BLOCK_OPS = ["Flush", "NextPeriod", "Ceremony", "EpochEnd", "Penalty"]
COST = {"Flush": 8, "NextPeriod": 1, "Ceremony": 4, "EpochEnd": 7, "Penalty": 2}      # blocks a step takes on the chain (estimates for the budget)
TX_TYPES = {0: "SendTx", 1: "ActivationTx", 2: "InviteTx", 3: "KillTx", 4: "SubmitFlipTx", 5: "SubmitAnswersHashTx", 6: "SubmitShortAnswersTx",
            7: "SubmitLongAnswersTx", 8: "EvidenceTx", 9: "OnlineStatusTx", 10: "KillInviteeTx", 11: "ChangeGodAddressTx", 12: "BurnTx",
            13: "ChangeProfileTx", 14: "DeleteFlipTx", 18: "DelegateTx", 19: "UndelegateTx", 20: "KillDelegatorTx", 21: "StoreToIpfsTx",
            22: "ReplenishStakeTx"}
OTHER_SPECS = [("Trace_Ledger.tla", "Trace_Ledger.cfg"), ("Trace_Registry.tla", "Trace_Registry.cfg"), ("Trace_Replicas.tla", "Trace_Replicas.cfg")]


def _cost(path):
    return sum(COST.get(s["n"], 1) for s in path)


def _coarse_keys(e):
    """Strata of the quick tier: every attempt / step with its admissibility in every status and in every period (not in every
    combination), plus the secondary situations one dimension at a time."""
    s, last = e["pre"], e["path"][-1]
    op = last["n"] + (":" + last["out"] if last["n"] == "EpochEnd" else "")
    adm = "%d%d" % (last["pool"], last["block"])
    ks = {"st|%s|%s|%s" % (op, adm, s["st"]), "per|%s|%s|%d" % (op, adm, s["per"])}
    n = last["n"]
    if n in ("Delegate", "Undelegate", "KillDelegatorX", "KillDelegatorXByG", "GoOnline", "GoOffline", "Evidence", "Flush", "Kill", "EpochEnd", "DelegateDX"):
        ks.add("dlg|%s|%s|%s%s%s" % (op, adm, s["dg"], s["sw"], s["dnew"]))
    if n in ("KillDelegatorX", "KillDelegatorXByG", "Undelegate", "GoOnline"):
        ks.add("dlgst|%s|%s|%s%s" % (op, adm, s["st"], s["dg"]))
    if n in ("GoOnline", "GoOffline", "Flush", "Penalty", "Delegate", "Kill", "EpochEnd"):
        ks.add("onl|%s|%s|%s%s%s" % (op, adm, s["on"], s["psw"], s["pen"]))
    if n in ("Delegate", "DelegateDX", "KillDelegatorD", "GoOnline", "Flush", "Kill", "EpochEnd"):
        ks.add("pool|%s|%s|%s%s" % (op, adm, s["dd"], s["dst"]))
    if n in ("Kill", "KillDelegatorX", "KillInviteeX", "EpochEnd", "ReplenishX", "ActivateOther"):
        ks.add("stk|%s|%s|%s%s%s%s%s" % (op, adm, s["st"], s["stk"], s["lck"], s["rep"], last["rw"]))
    if n in ("Flush", "Kill", "KillInviteeX", "KillDelegatorX", "KillInviteeF", "KillDelegatorD", "EpochEnd"):
        ks.add("upd|%s|%s|%s%s%s%s" % (n, s["on"], s["psw"], s["sw"], s["dd"], s["pen"]))
    if n in ("SubmitFlip", "DeleteFlip", "AnswersHash", "ShortAnswers", "LongAnswers", "Evidence"):
        ks.add("flip|%s|%s|%s%s" % (op, adm, s["nfl"] >= s["req"], len(s["vtx"])))
    if n in ("InviteF", "KillInviteeF", "ActivateF", "ActivateOther", "InviteX", "KillInviteeX", "KillInviteeXByG"):
        ks.add("inv|%s|%s|%s%s%s%s" % (op, adm, s["xinv"] > 0, s["fst"], s["flnk"], s["lnk"]))
    return ks


def _is_loop(e):
    """Does the last step of the exported path leave the abstract state as it is (a refused attempt; an admitted one that does
    nothing to the identity)?"""
    a, b = dict(e["pre"]), dict(e["path"][-1]["post"])
    a["vtx"], b["vtx"] = sorted(a["vtx"]), sorted(b["vtx"])
    return a == b


def _pending(s):
    return s["psw"] or s["sw"] != "no" or s["dd"] == "pend" or s["pen"] == "delayed"


def _select(ctx, exports, rnd, quick):
    """One path per stratum (the cheapest the model printed).  In every run: every attempt kind refused and admitted, every
    block-level step, every epoch outcome.  The quick tier then takes the coarse strata in seeded order up to a block budget, so
    that different seeds realise different parts of the cover; the thorough tier takes every stratum the model exported.
    Paths that reach the same state by the same prefix and end in a step that leaves the abstract state alone (a refused attempt,
    an admitted Send / Burn ...) are then run as ONE history: prefix, all those steps one after the other (each a self-loop of the
    model, so the concatenation is a path of the model and every per-step prediction stays what TLC printed), and - when there is
    one - a state-changing last step of another chosen path with that prefix."""
    uniq = {}
    for e in exports:
        uniq.setdefault(json.dumps(e["path"], sort_keys=True) + e["init"], e)
    cands = sorted(uniq.values(), key=lambda e: (_cost(e["path"]), len(e["path"]), json.dumps(e["path"], sort_keys=True), e["init"]))
    keyfn = _coarse_keys if quick else (lambda e: set(e["keys"]))
    near, must = collections.defaultdict(list), {}
    for e in cands:                      # sorted by cost: the first one seen is the cheapest
        last = e["path"][-1]
        must.setdefault((last["n"], last["out"], last["pool"], last["block"]), e)
        for k in keyfn(e):
            if not near[k] or (_cost(e["path"]) <= _cost(near[k][0]["path"]) + 1 and len(near[k]) < 4):
                near[k].append(e)
    # the representative of a stratum: seeded choice among the cheapest paths the model printed for it (with VERIF_LIFE_SECOND
    # set the thorough tier takes a second one where the model printed several)
    best, second = {}, {}
    for k in sorted(near):
        c = list(near[k])
        rnd.shuffle(c)
        best[k] = c[0]
        if not quick and len(c) > 1 and os.environ.get("VERIF_LIFE_SECOND"):
            second[k] = c[1]        # (opt-in: doubles the thorough tier, ~9 000 paths / ~57 000 blocks)
    rest = sorted(best)
    rnd.shuffle(rest)
    budget = 4500 if quick else 10 ** 9
    chosen, covered, paid, blocks = {}, set(), set(), 0

    def take(e, force):
        nonlocal blocks
        pid = json.dumps(e["path"], sort_keys=True) + e["init"]
        if pid not in chosen:
            pre = (e["init"], json.dumps(e["path"][:-1], sort_keys=True))
            c = _cost(e["path"][-1:]) if (_is_loop(e) and pre in paid) else _cost(e["path"])
            if blocks + c > budget and not force:
                return
            chosen[pid] = e
            blocks += c
            if _is_loop(e):
                paid.add(pre)
        covered.update(keyfn(e))
    for m in sorted(must, key=str):
        take(must[m], True)
    for k in rest:
        if k not in covered:
            take(best[k], False)
    for k in sorted(second):
        take(second[k], False)
    # merge
    groups = collections.OrderedDict()
    for pid in sorted(chosen):
        e = chosen[pid]
        g = groups.setdefault((e["init"], json.dumps(e["path"][:-1], sort_keys=True)), {"loops": [], "others": [], "prefix": e["path"][:-1], "init": e["init"], "pre": e["pre"]})
        g["loops" if _is_loop(e) else "others"].append(e)
    runs = []
    for g in groups.values():
        size = 5 if _pending(g["pre"]) else 24        # a pending switch must meet its identity-update block within the switch range
        if g["pre"]["per"] == 4:
            # the fifth block after the start of the after-long period ends the epoch unless ceremony transactions came: four attempts fit
            k = 0
            for st in g["prefix"][::-1]:
                if st["n"] in ("NextPeriod", "Ceremony"):
                    break
                k += 1
            size = max(1, 3 - k)
            if k >= 3:
                g["others"], g["loops"] = g["others"] + g["loops"], []      # no room: every path on its own
        loops, others = g["loops"], list(g["others"])
        for i in range(0, len(loops), size):
            steps = [e["path"][-1] for e in loops[i:i + size]]
            tail = [others.pop()["path"][-1]] if others else []
            runs.append({"init": g["init"], "path": g["prefix"] + steps + tail})
        runs += [{"init": e["init"], "path": e["path"]} for e in others]
    return runs, len(best), len(covered & set(best)), len(chosen)


def _shards(ctx, drv, jobs, timeout):
    def one(j):
        i, args = j
        wd = ctx.path("wd_life_%d" % i, "x")
        wd = os.path.dirname(wd)
        p = vlib.run([drv] + args, cwd=wd, env={"VERIF_SEED": str(ctx.seed), "VERIF_TIER": ctx.tier}, timeout=timeout, check=False)
        shutil.rmtree(wd, ignore_errors=True)
        return p
    with concurrent.futures.ThreadPoolExecutor(max_workers=max(1, min(len(jobs), 6))) as ex:
        return list(ex.map(one, list(enumerate(jobs))))


def _validate_life(ctx, trace):
    """Trace_Lifecycle: (accepted, broken clauses [(line, clause)], drift records [(line, kind, text)], info)"""
    r = vlib.tlc(ctx, "Trace_Lifecycle.tla", "Trace_Lifecycle.cfg", workers=1, env={"TRACE_FILE": trace}, timeout=3000, want_exports=False)
    broken, drift = [], []
    rejected, ndrift = None, None
    for line in r.out.splitlines():
        m = re.match(r'<<"CLAUSE_BROKEN", (\d+), "([^"]*)">>', line)
        if m:
            broken.append((int(m.group(1)), m.group(2)))
        m = re.match(r'"DRIFT_AT (\d+) (\S+) (.*)"$', line)
        if m:
            drift.append((int(m.group(1)), m.group(2), m.group(3).replace('\\"', '"')))
        m = re.match(r'<<"DRIFT", (\d+)>>', line)
        if m:
            ndrift = int(m.group(1))
        m = re.match(r'<<"TRACE_REJECTED_AT", (\d+), (\d+)>>', line)
        if m:
            rejected = int(m.group(1))
    if not r.ok and not broken:
        raise vlib.CheckError("Trace_Lifecycle could not be evaluated on %s (not a verdict): line %s\n%s" % (os.path.basename(trace), rejected, (r.error or r.out)[-2500:]))
    if ndrift is not None and ndrift != len(drift):
        raise vlib.CheckError("Trace_Lifecycle counted %d disagreements but %d were read back" % (ndrift, len(drift)))
    return r.ok, broken, drift, {"states": r.distinct, "wall": r.wall}


def _signature(clause, row):
    st = row.get("lstep") or {}
    txs = row.get("txs") or []
    sig = st.get("op") or "?"
    if st.get("op") == "EpochEnd":
        sig += "-" + str(st.get("out"))
    if st.get("kind") == "attempt":
        sig += "-included" if txs else "-refused"
    elif st.get("kind"):
        sig += "-" + st["kind"]
    if row.get("flags", 0) & 32:
        sig += "-epoch-block"
    elif row.get("flags", 0) & 1:
        sig += "-identity-update"
    return sig


def _report(ctx, trace, spec, broken, rows=None):
    rows = rows or vlib.read_ndjson(trace)
    seen = collections.Counter()
    for line, clause in broken:
        row = rows[line - 1]
        if row.get("ev") not in ("Block", "Genesis", "Follower", "Crafted"):
            continue
        key = "C05:LIFE:%s:%s" % (clause, _signature(clause, row))
        seen[key] += 1
        if seen[key] > 1 or sum(seen.values()) > 400:
            continue
        start = max(i for i in range(line) if rows[i].get("ev") == "Genesis")
        path = [(x.get("lstep") or {}).get("op") for x in rows[start:line] if x.get("ev") == "Block"]
        ex = ctx.path("replay_life_%s.ndjson" % re.sub(r"[^A-Za-z0-9]", "_", clause)[:50])
        vlib.write_ndjson(ex, [rows[start]] + rows[max(start + 1, line - 4):line])
        slim = {k: row.get(k) for k in ("hid", "h", "flags", "kind", "proposer", "txs", "subs", "verdicts") if k in row}
        pre = rows[line - 2].get("life") if line >= 2 else None
        what = ("clause %s (%s) broken by the real node at block %s of lifecycle path %s [initial situation %s, roles %s, steps so far %s]: %s; "
                "cast before %s; cast after %s" % (
                    clause, spec, row.get("h"), row.get("hid"), rows[start].get("init"), json.dumps(rows[start].get("roles")), path,
                    json.dumps(slim)[:700], json.dumps(_slim_cast(pre))[:600], json.dumps(_slim_cast(row.get("life")))[:600]))
        vlib.report_violation(ctx, key, what, replay_src=ex, payload={"clause": clause, "spec": spec, "line": line, "path": row.get("hid"), "height": row.get("h")})


def _slim_cast(life):
    if not life:
        return None
    keep = ("k", "status", "rv", "on", "psw", "sw", "delegatee", "inviter", "invites", "stake", "locked", "repl", "pens", "pend", "nfl", "vtx", "pool")
    return {"per": life.get("per"), "cast": {r: {k: v for k, v in c.items() if k in keep and v not in (False, "", 0, [], "no")} for r, c in life["cast"].items()}}


def _coverage(rows):
    """What was realised on the real code, from the trace: per (tx type x status x period) counts refused / admitted, transitions."""
    cells = collections.Counter()
    ops = collections.Counter()
    trans = set()
    outcomes = collections.Counter()
    steps = collections.Counter()
    pre = None
    for r in rows:
        if r.get("ev") == "Genesis":
            pre = r.get("life")
            continue
        if r.get("ev") != "Block" or r.get("refused") or "life" not in r:
            continue
        st = r.get("lstep") or {}
        if st.get("kind") == "attempt" and pre:
            sub = (r.get("subs") or [{}])[0]
            inc = any(t.get("id") == sub.get("id") for t in (r.get("txs") or []))
            x = pre["cast"]["x"]
            cells[(TX_TYPES.get(sub.get("type"), "?"), STATUS[x["status"]], PERIOD[pre["per"]], "admitted" if inc else "refused")] += 1
            ops[(st["op"], "admitted" if inc else "refused")] += 1
            trans.add((st["op"], inc, sub.get("pool") == "ok", x["status"], pre["per"], x["on"], x["psw"], x["sw"], bool(x["delegatee"]), x["pool"],
                       x["pens"], x["pend"], x["stake"], x["locked"], x["repl"], min(x["nfl"], 3), len(x["vtx"]), min(x["invites"], 1)))
        elif st.get("kind") in ("switch", "epoch", "final") and pre:
            fin = (st["kind"] == "final" or (st["kind"] == "switch" and r["flags"] & 1) or (st["kind"] == "epoch" and r["flags"] & 32))
            if fin:
                steps[st["op"]] += 1
                x = pre["cast"]["x"]
                trans.add((st["op"], st.get("out"), x["status"], pre["per"], x["on"], x["psw"], x["sw"], bool(x["delegatee"]), x["pool"], x["pend"]))
                if st["op"] == "EpochEnd":
                    outcomes["%s->%s" % (STATUS[x["status"]], STATUS[r["life"]["cast"]["x"]["status"]])] += 1
        pre = r["life"]
    return cells, ops, trans, outcomes, steps


def run(ctx, quick):
    rnd = random.Random(ctx.seed)
    drv = vlib.build_driver(ctx, "d_chain", clocks=CLOCKS)

    # 1. bounded model: design-level properties + edge cover
    cfg = "MC_Lifecycle_quick.cfg" if quick else "MC_Lifecycle_thorough.cfg"
    r = vlib.tlc(ctx, "MC_Lifecycle.tla", cfg, workers=4 if quick else 6, timeout=3000)
    if not r.ok:
        raise vlib.CheckError("design-level Lifecycle model violates %s (model-only, not a verdict):\n%s" % (r.invariant, (r.error or "")[:1500]))
    if not r.exports:
        raise vlib.CheckError("the Lifecycle model exported nothing (dead generator)")
    model_keys = set()
    for e in r.exports:
        model_keys |= set(e["keys"])
    paths, nstrata, ncovered, nchosen = _select(ctx, r.exports, rnd, quick)
    model_ops = collections.Counter((e["path"][-1]["n"], e["path"][-1]["block"]) for e in r.exports)
    for op in TX_OPS:
        if (op not in ALWAYS_IN_BLOCK and not model_ops.get((op, False))) or (op not in NEVER_ADMITTED and not model_ops.get((op, True))):
            raise vlib.CheckError("the model never %s a %s attempt (vacuous bounds)" % ("refused" if not model_ops.get((op, False)) else "admitted", op))
    ctx.log("model %s: %d generated / %d distinct states, %d strata of transitions exported; %d strata targeted, %d covered by %d paths, run as %d histories (%d blocks est.)" % (
        cfg, r.generated, r.distinct, len(model_keys), nstrata, ncovered, nchosen, len(paths), sum(_cost(e["path"]) for e in paths)))

    # 2. the paths on real replicas (sharded: one virtual clock per process)
    rnd.shuffle(paths)
    nshard = 5 if quick else 6
    jobs, files = [], []
    for i in range(nshard):
        part = paths[i::nshard]
        if not part:
            continue
        pf = ctx.path("life_paths_%d.json" % i)
        with open(pf, "w") as f:
            for j, e in enumerate(part):
                f.write(json.dumps({"init": e["init"], "id": i * 100000 + j, "path": e["path"]}) + "\n")
        out = ctx.path("life_%d.ndjson" % i)
        files.append(out)
        jobs.append(["-out", out, "-life", pf])
    ps = _shards(ctx, drv, jobs, 3300)
    tot = collections.Counter()
    for p in ps:
        out = p.stdout or ""
        if p.returncode != 0:
            vlib.driver_failure(ctx, out, "d_chain -life failed")
        last = out.strip().splitlines()[-1] if out.strip() else ""
        for tok in last.split():
            if "=" in tok:
                k, v = tok.split("=", 1)
                try:
                    tot[k] += int(v)
                except ValueError:
                    pass
    ctx.log("real replicas: " + " ".join("%s=%d" % kv for kv in sorted(tot.items())))
    if tot["unrealised"] > max(3, len(paths) // 50):
        raise vlib.CheckError("%d of %d lifecycle paths could not be realised by the driver" % (tot["unrealised"], len(paths)))

    # 3. trace validation: Trace_Lifecycle and the three existing chain specifications, side by side
    def job(j):
        i, (kind, spec, cfgf, t) = j
        time.sleep(0.25 * i)         # vlib.tlc names its scratch directory from a counter and the clock
        if kind in ("life", "selftest"):
            return _validate_life(ctx, t)
        return vlib.trace_validate(ctx, spec, cfgf, t, timeout=3000)
    # the ledger specification does exact arithmetic over the whole ledger: one run per shard; the light ones take all shards at once
    allt = ctx.path("life_all.ndjson")
    with open(allt, "w") as out:
        for fn in files:
            with open(fn) as f:
                shutil.copyfileobj(f, out)
    vjobs = [("other", "Trace_Ledger.tla", "Trace_Ledger.cfg", t) for t in files]
    vjobs += [("life", "Trace_Lifecycle.tla", None, allt)]
    vjobs += [("other", s, c, allt) for s, c in OTHER_SPECS[1:]]
    st_files = _selftest_files(ctx, files)
    vjobs += [("selftest", "Trace_Lifecycle.tla", None, t) for t in st_files]
    with concurrent.futures.ThreadPoolExecutor(max_workers=6) as ex:
        results = list(ex.map(job, list(enumerate(vjobs))))
    st_results = [res for (kind, _, _, _), res in zip(vjobs, results) if kind == "selftest"]
    results = [res for (kind, _, _, _), res in zip(vjobs, results) if kind != "selftest"]
    vjobs = [j for j in vjobs if j[0] != "selftest"]
    drift = []
    ok_all = True
    for (kind, spec, cfgf, t), res in zip(vjobs, results):
        if kind == "life":
            ok, broken, dr, info = res
            rows = vlib.read_ndjson(t) if (broken or dr) else None
            for line, k, text in dr:
                row = rows[line - 1]
                drift.append({"kind": k, "what": text[:300], "path": row.get("hid"), "height": row.get("h"), "init": next(
                    (x.get("init") for x in rows[:line][::-1] if x.get("ev") == "Genesis"), None)})
            if broken:
                ok_all = False
                _report(ctx, t, "Trace_Lifecycle", broken, rows)
        else:
            ok, info = res
            if not ok:
                ok_all = False
                broken = info.get("broken")
                if not broken:
                    raise vlib.CheckError("lifecycle trace rejected by %s without a broken clause: %s" % (spec, json.dumps(info)[:1500]))
                _report(ctx, t, spec.replace(".tla", ""), broken)

    # 4. coverage on the real code + vacuity
    rows = vlib.read_ndjson(allt)
    cells, ops, trans, outcomes, steps = _coverage(rows)
    for op in TX_OPS:
        if not ops.get((op, "refused")) and not ops.get((op, "admitted")):
            raise vlib.CheckError("the driver never attempted %s (dead driver)" % op)
    admitted_ops = {op for (op, v) in ops if v == "admitted"}
    refused_ops = {op for (op, v) in ops if v == "refused"}
    if ok_all and not drift:
        missing = [op for op in TX_OPS if op not in NEVER_ADMITTED and op not in admitted_ops] + ["refused " + op for op in TX_OPS if op not in refused_ops and op not in ALWAYS_IN_BLOCK]
        if missing:
            raise vlib.CheckError("never realised on the real code: %s (dead driver)" % ", ".join(missing))
    for op in BLOCK_OPS:
        if not steps.get(op):
            raise vlib.CheckError("the driver never realised a %s step (dead driver)" % op)
    if len(outcomes) < (5 if quick else 15):
        raise vlib.CheckError("only %d kinds of epoch outcomes realised (dead driver)" % len(outcomes))

    # 5. binding self-test: a recorded good trace with the focus identity's status corrupted / one block removed must be rejected
    if ok_all:
        if not st_results[0][0]:
            raise vlib.CheckError("binding self-test: the recorded prefix was rejected although the whole trace was accepted")
        for name, res in zip(("status", "removed"), st_results[1:]):
            if res[0]:
                raise vlib.CheckError("binding self-test failed: the corrupted lifecycle trace (%s) was accepted" % name)
        ctx.log("binding self-test: corrupted lifecycle traces rejected (%s)" % ", ".join(sorted({c for res in st_results[1:] for _, c in res[1]})))
    ctx.log("lifecycle: %d attempts (%d admitted), %d transitions realised, %d drift" % (tot.get("attempts", 0), tot.get("included", 0), len(trans), len(drift)))

    by_kind = collections.Counter(d["kind"] for d in drift)
    per_cell = collections.defaultdict(lambda: {"admitted": 0, "refused": 0})
    for (ty, st, per, v), n in cells.items():
        per_cell["%s|%s|%s" % (ty, st, per)][v] += n
    types_seen = sorted({k.split("|")[0] for k in per_cell})
    return {
        "life_states": r.distinct, "life_transitions": r.generated, "life_model_cfg": cfg,
        "life_model_strata": len(model_keys), "life_strata_targeted": nstrata, "life_strata_chosen": ncovered, "life_paths_chosen": nchosen,
        "life_traces_validated_against_impl": tot.get("histories", 0), "life_blocks": tot.get("blocks", 0),
        "life_attempts": tot.get("attempts", 0), "life_attempts_admitted": tot.get("included", 0),
        "life_attempts_refused": tot.get("attempts", 0) - tot.get("included", 0),
        "life_paths_unrealised": tot.get("unrealised", 0), "life_paths_stopped_by_a_refused_block": tot.get("refused", 0),
        "life_transitions_realised": len(trans),
        "life_cells_tx_status_period": len(per_cell), "life_tx_types": types_seen,
        "life_per_cell": {k: per_cell[k] for k in sorted(per_cell)},
        "life_per_attempt": {"%s|%s" % k: v for k, v in sorted(ops.items())},
        "life_block_level_steps": dict(steps), "life_epoch_outcomes": dict(outcomes),
        "life_drift": len(drift), "life_drift_by_kind": dict(by_kind), "life_drift_list": drift[:40],
        "life_samples": [[(s["n"], s["out"], s["block"]) for s in e["path"]] for e in paths[:3]],
        "life_rule": "bounded Lifecycle model explored exhaustively (%s; 11 initial situations, 31 attempt kinds + 4 block-level steps, epoch end with every "
                     "outcome of the decision table); one shortest path per stratum of transitions realised with real signed transactions (one per block, "
                     "through the mempools and, when refused there, through a non-filtering proposer), real identity-update blocks, validation periods and "
                     "epoch transitions; every clause of Trace_Lifecycle, Trace_Ledger, Trace_Registry and Trace_Replicas evaluated on every block" % cfg,
    }


def _selftest_files(ctx, traces):
    """Binding self-test material: a recorded history (one whole path) as it is, with the focus identity's status corrupted in
    one block, and with the block of an admitted status-changing attempt removed."""
    if isinstance(traces, str):
        traces = [traces]
    CH = ("Kill", "ActivateSelf", "InviteX", "KillInviteeX", "KillDelegatorX", "ActivateOther")
    for trace in traces:
        hist = []
        for row in vlib.read_ndjson(trace) + [{"ev": "Genesis"}]:
            if row.get("ev") == "Genesis" and hist:
                att = [i for i, r in enumerate(hist) if r.get("ev") == "Block" and not r.get("refused") and (r.get("lstep") or {}).get("kind") == "attempt" and r.get("txs")]
                rem = [i for i in att if hist[i]["lstep"]["op"] in CH and i + 1 < len(hist) and hist[i + 1].get("ev") == "Block" and not hist[i + 1].get("refused")]
                if att and rem:
                    bad1 = json.loads(json.dumps(hist))
                    x = bad1[att[0]]["life"]["cast"]["x"]
                    x["status"] = 3 if x["status"] != 3 else 8
                    bad2 = json.loads(json.dumps(hist))
                    del bad2[rem[0]]
                    res = []
                    for name, rws in (("good", hist), ("bad_status", bad1), ("bad_removed", bad2)):
                        f = ctx.path("selftest", "life_%s.ndjson" % name)
                        vlib.write_ndjson(f, rws)
                        res.append(f)
                    return res
                hist = []
            if row.get("ev") in ("Genesis", "Block", "LifeSkip"):
                hist.append(row)
    raise vlib.CheckError("self-test could not build corrupted lifecycle traces")
