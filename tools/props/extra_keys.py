"""Growth module "KEYS" of C16: publication and delivery of flip keys through the key pools.

C16 itself (spec/Lottery.tla, d_lottery) covers the lottery relation and the package one author builds in isolation.  This
module specifies the path a key really travels: core/mempool/keyspool.go (admission rules, first-write-wins, persistence,
Clear, sync offers, the pull interface), core/mempool/async_keyspool.go, the publication moments of core/ceremony/ceremony.go
(block handlers, short-session timer, delayed package broadcast) and decryption through GetDecryptedFlip / GetFlipKeys with
the pooled keys.

1. TLC explores spec/MC_KeysPool.tla (identities with their own nodes at positions of one chain, a clock, per node a key
   pool and the ceremony's publication flags; messages: genuine, a second machine's, an equivocating author's, replayed,
   corrupted, over-size, a non-author's, a stranger's; restarts; sync offers) in three bounded families - publication
   timing with lagging nodes, admission / delivery orders, the epoch change and the next round - with the design invariants
   (Admission, OnePerAuthorEpoch, HonestAgreement, OrderIndependent, FirstWins, ClearedAtEpoch, OwnIsOwn, PublishedBySession,
   NoEarlyReveal, PkgAfterLottery), exports one schedule per transition class (sampled), random walks of a larger instance,
   and shows the counterexample to NoSplit (an equivocating author splits the pools for good).
2. harness/cmd/d_keys runs every schedule - plus generated permutation and sync-cap schedules and seeded random ones - on
   REAL multi-node worlds (real chain with invitations, activations, flips submitted through the flipper, two scripted
   ceremonies; real KeysPool / Flipper / ValidationCeremony per node; really signed keys, really encrypted flips and
   packages) and records per step what the pool holds, serves, persists, and what the node's identity can decrypt.
3. TLC validates the trace against spec/Trace_KeysPool.tla; every clause is evaluated on every step.

run(ctx, quick) returns the coverage dict; violations go through vlib.report_violation with keys C16:KEYS:<clause>:<signature>.
"""
import collections
import concurrent.futures
import json
import os
import random
import shutil
import time

import vlib

CLOCKS = ["blockchain/blockchain.go", "core/ceremony/ceremony.go", "core/appstate/evidence_map.go"]

# transition classes the bounded models must have reached (vacuity of the generator)
NEED_KINDS = [
    "adv:LotLate:pkg", "adv:Short:key", "adv:Short:none", "adv:LongLate:none:stop", "adv:Epoch:none:holding", "adv:LotLate2:pkg", "adv:Short2:key",
    "timer:key:LotLate", "delayed:pkg:Lot", "restart:Short:holding:none:own", "restart:Lot:empty:pkg", "restart:Lot2:empty:pkg", "restart:Epoch:empty:none",
    "dlv:0:g:ok:lottery", "dlv:0:g:already:lottery:self", "dlv:0:x:ok:nolottery", "dlv:0:x:already:lottery", "dlv:0:len:len:lottery", "dlv:0:next:epoch:lottery",
    "dlv:0:old:epoch:lottery", "dlv:0:nosig:sig:lottery", "dlv:0:stranger:flips:lottery", "dlv:1:g:ok:lottery", "dlv:1:e:ok:lottery", "dlv:1:s:ok:lottery",
    "dlv:1:big:big:lottery", "dlv:1:e:already:lottery", "dlv:0:x:flips:noflips", "dlv:1:g:epoch:noflips:otherround",
    "dlv:0:g:epoch:lottery:otherround", "sync:offer", "sync:priority", "sync:capped", "sync:capped:round2", "sync:stopped", "sync:othershard", "sync:offer:nofilter",
]

# driver-side classes that a run must have exercised (dead driver otherwise)
NEED_STATS = ["adv:Lot", "adv:LotLate", "adv:Short", "adv:Long", "adv:LongLate", "adv:After", "adv:Epoch", "adv:Ready2", "adv:Lot2", "adv:Short2",
              "timer", "delayed", "restart", "sync", "bulk", "in:x", "in:e", "in:s", "in:len", "in:big", "in:next", "in:old", "in:nosig",
              "in:stranger", "in:flip", "dlv:batch"]     # (inputs, not the pools' answers: what the code makes of them is for the clauses to judge)

# findings of this module's OWN rules that are no clause of the listed property C16 (which speaks of who can decrypt what):
# recorded as observations in the evidence, never as a verdict
OBSERVATIONS = {
    "OfferAdmitted:key-counter-survived-epoch":
        "KeysPool.Clear resets flipKeyPackagesSyncCounts twice and flipKeysSyncCounts (keyed by the SENDER's address) never: once a node has offered an "
        "author's public flip key more than maxFlipKeySyncCounts (20) times to syncing peers, it withholds that author's public keys of every LATER epoch "
        "from peers with more than three peers (GetFlipKeysForSync with the filter on) until the process restarts; packages are not affected",
}

MODEL_FAMILIES = ["timing", "admit", "epoch"]


def _shards(ctx, drv, jobs, timeout):
    """Run several driver processes side by side (one virtual clock and one set of base worlds per process)."""
    def one(j):
        i, args = j
        wd = ctx.path("wd_keys_%d" % i, "x")
        wd = os.path.dirname(wd)
        p = vlib.run([drv] + args, cwd=wd, env={"VERIF_SEED": str(ctx.seed), "VERIF_TIER": ctx.tier}, timeout=timeout, check=False)
        shutil.rmtree(wd, ignore_errors=True)
        return p
    with concurrent.futures.ThreadPoolExecutor(max_workers=max(1, min(len(jobs), 6))) as ex:
        return list(ex.map(one, list(enumerate(jobs))))


def _stats(ctx, ps):
    tot = collections.Counter()
    for p in ps:
        out = (p.stdout or "")
        if p.returncode != 0:
            vlib.driver_failure(ctx, out, "d_keys failed")
        last = out.strip().splitlines()[-1] if out.strip() else ""
        if not last.startswith("d_keys:"):
            raise vlib.CheckError("d_keys printed no summary:\n" + out[-2000:])
        for tok in last.split():
            if "=" in tok:
                k, v = tok.rsplit("=", 1)
                try:
                    tot[k] += int(v)
                except ValueError:
                    pass
    return tot


def _pick(exports, rnd, per_kind):
    by = collections.defaultdict(list)
    for e in exports:
        by[e.get("kind", "walk")].append(e)
    res = []
    for k in sorted(by):
        lst = sorted(by[k], key=lambda e: json.dumps(e, sort_keys=True))   # TLC's print order depends on worker timing
        rnd.shuffle(lst)
        res += lst[:per_kind]
    return res, {k: len(v) for k, v in by.items()}


def _maximal(exports, n, rnd):
    """Simulation prints candidate continuations of the walks: keep the longest, at most two continuations per walk prefix."""
    seen = collections.Counter()
    res = []
    lst = sorted(exports, key=lambda e: (-len(e["steps"]), json.dumps(e["steps"], sort_keys=True)))
    for e in lst:
        key = json.dumps(e["steps"][:-1], sort_keys=True)
        if seen[key] >= 2:
            continue
        seen[key] += 1
        res.append(e)
    rnd.shuffle(res)
    res.sort(key=lambda e: -len(e["steps"]))
    return res[:n]


def _to_world_end(nodes, upto):
    """rel + adv of every node, segment by segment, up to chain position `upto`."""
    st = []
    for _ in range(upto):
        st.append({"k": "rel"})
        for n in range(1, nodes + 1):
            st.append({"k": "adv", "n": n})
    return st


def _perm_scenarios(rnd, count):
    """OrderIndependent on the real pools: every node is handed the same set of messages (every genuine one of the round, some
    that must be refused; no two that compete) in its own order, with duplicates, singly or in batches."""
    res = []
    invalid = [(0, "len"), (0, "next"), (0, "old"), (0, "nosig"), (0, "stranger"), (1, "big"), (1, "next"), (1, "old"), (1, "nosig"), (1, "stranger")]
    for i in range(count):
        nodes = 4
        steps = _to_world_end(nodes, 3)
        base = [{"kd": kd, "a": a, "c": "g", "r": 1} for a in (1, 2, 4) for kd in (0, 1)]
        extra = [{"kd": kd, "a": rnd.choice([1, 2, 3]), "c": c, "r": 1} for kd, c in rnd.sample(invalid, 3)]
        for n in range(1, nodes + 1):
            ms = base + extra + rnd.sample(base + extra, 3)
            rnd.shuffle(ms)
            while ms:
                k = rnd.choice([1, 1, 2, 3])
                steps.append({"k": "dlv", "n": n, "ms": ms[:k], "via": "batch" if k > 1 and rnd.random() < 0.5 else "one"})
                ms = ms[k:]
        if i % 2 == 1:
            steps.append({"k": "restart", "n": rnd.randint(1, nodes)})
        res.append({"id": "perm%d" % i, "kind": "gen:perm", "world": "small", "nodes": nodes, "steps": steps})
    return res


def _cap_scenarios():
    """The offer counters: a relay offers an entry 21 times and then no more (unless the peer is nearly alone: noFilter);
    across the epoch change the counters must start again."""
    res = []
    for w in ("small", "large"):
        steps = _to_world_end(2, 3)
        steps.append({"k": "dlv", "n": 2, "ms": [{"kd": 0, "a": 1, "c": "g", "r": 1}, {"kd": 1, "a": 1, "c": "g", "r": 1}]})
        steps.append({"k": "sync", "n": 2, "sh": 0, "nf": 0, "rep": 23})
        steps.append({"k": "sync", "n": 2, "sh": 0, "nf": 1, "rep": 2})
        steps.append({"k": "sync", "n": 1, "sh": 1, "nf": 0, "rep": 2})
        steps.append({"k": "restart", "n": 1})
        steps.append({"k": "sync", "n": 1, "sh": 0, "nf": 0, "rep": 2})
        for _ in range(4, 12):
            steps.append({"k": "rel"})
            steps.append({"k": "adv", "n": 1})
            steps.append({"k": "adv", "n": 2})
        steps.append({"k": "dlv", "n": 2, "ms": [{"kd": 0, "a": 1, "c": "g", "r": 2}, {"kd": 1, "a": 1, "c": "g", "r": 2}]})
        steps.append({"k": "sync", "n": 2, "sh": 0, "nf": 0, "rep": 3})
        steps.append({"k": "sync", "n": 2, "sh": 0, "nf": 1, "rep": 1})
        res.append({"id": "cap-" + w, "kind": "gen:cap", "world": w, "nodes": 2, "steps": steps})
    return res


def _signature(clause, row):
    ev = row.get("ev")
    pos = (row.get("view") or {}).get("pos")
    if ev == "Dlv":
        ms = row.get("ms") or []
        codes = row.get("codes") or []
        parts = sorted(set("%s-%s-%s" % ("key" if m[1] == 0 else "pkg", m[4], c) for m, c in zip(ms, codes)))
        return "dlv-%s-%s" % (row.get("via"), "+".join(parts)[:80])
    if ev == "Sync":
        return "sync-sh%s-nf%s" % (row.get("sh"), row.get("nf"))
    if ev in ("Adv", "Restart", "Timer", "Delayed", "Boot"):
        return "%s-pos%s" % (ev.lower(), pos)
    return str(ev)


def _report(ctx, trace, info, obs_hits):
    rows = vlib.read_ndjson(trace)
    broken = info.get("broken")
    if not broken:
        raise vlib.CheckError("keys trace rejected without a broken clause: %s" % json.dumps(info)[:1500])
    for line, clause in broken:
        row = rows[line - 1]
        start = max(i for i in range(line) if rows[i].get("ev") == "World")
        slim = {k: row.get(k) for k in ("ev", "w", "n", "clk", "ms", "codes", "via", "pubs", "sh", "nf", "k", "p", "pk", "pp", "view", "sol") if k in row}
        pool = row.get("pool") or {}
        slim["pool"] = {k: pool.get(k) for k in ("keys", "pkgs", "stop", "has", "cache", "kc")}
        if clause in OBSERVATIONS:
            obs_hits[clause] += 1
            note = "observation outside the listed properties (KeysPool.tla, %s): %s. First seen in scenario %s (trace line %d): %s" % (
                clause, OBSERVATIONS[clause], row.get("w"), line, json.dumps(slim)[:500])
            if not any(n.startswith(note[:120]) for n in ctx.notes):
                ctx.notes.append(note)
            continue
        ex = ctx.path("replay_keys_%s.ndjson" % "".join(ch if ch.isalnum() else "_" for ch in clause)[:60])
        mine = [r for r in rows[start:line] if r.get("ev") in ("World", "Rel") or r.get("n") == row.get("n")]
        world = dict(mine[0])
        world["tab"] = [t for t in world.get("tab", []) if any(t[0] == m[0] for r in mine[1:] for m in (r.get("ms") or []) + (r.get("pubs") or []))]
        vlib.write_ndjson(ex, [world] + mine[1:][-14:])
        key = "C16:KEYS:%s:%s" % (clause, _signature(clause, row))
        what = "clause %s broken by the real code in scenario %s (%s world, trace line %d): %s" % (
            clause, row.get("w"), rows[start].get("world"), line, json.dumps(slim)[:1400])
        vlib.report_violation(ctx, key, what, replay_src=ex, payload={"clause": clause, "line": line, "scenario": row.get("w")})


def run(ctx, quick):
    rnd = random.Random(ctx.seed)
    drv = vlib.build_driver(ctx, "d_keys", clocks=CLOCKS)
    tier = "quick" if quick else "thorough"

    # seeded random scenarios start right away (they do not depend on the model run)
    nshard = 3 if quick else 8
    per, rlen = (6, 90) if quick else (20, 140)
    rjobs = [["-out", ctx.path("keys_rand_%d.ndjson" % i), "-random", str(per), "-len", str(rlen), "-first", str(i * per)] for i in range(nshard)]
    pool = concurrent.futures.ThreadPoolExecutor(max_workers=1)
    rfut = pool.submit(_shards, ctx, drv, rjobs, 3000)

    # 1. bounded model families (side by side): design invariants + schedule export
    def family(job):
        i, fam = job
        time.sleep(0.4 * i)      # vlib.tlc names its scratch directory from a counter and the clock
        return vlib.tlc(ctx, "MC_KeysPool.tla", "MC_KeysPool_%s_%s.cfg" % (fam, tier), workers=4 if quick else 5, timeout=2400, extra=["-seed", str(ctx.seed)])
    with concurrent.futures.ThreadPoolExecutor(max_workers=3) as ex:
        fres = list(ex.map(family, list(enumerate(MODEL_FAMILIES))))
    states = trans = 0
    scen, kinds, famstats = [], {}, {}
    for fam, r in zip(MODEL_FAMILIES, fres):
        if not r.ok:
            raise vlib.CheckError("design-level KeysPool model (%s family) violates %s (model-only, not a verdict):\n%s" % (fam, r.invariant, (r.error or "")[:1500]))
        s1, k1 = _pick(r.exports, rnd, (2 if quick else 6))
        for e in s1:
            e["fam"] = fam
        scen += s1
        for k, v in k1.items():
            kinds[k] = kinds.get(k, 0) + v
        states, trans = states + r.distinct, trans + r.generated
        famstats[fam] = {"distinct": r.distinct, "generated": r.generated, "classes": len(k1), "wall_s": round(r.wall, 1)}
    for k in NEED_KINDS:
        if not kinds.get(k):
            raise vlib.CheckError("model never exercised a '%s' transition (vacuous bounds)" % k)
    ctx.log("models: %d generated / %d distinct states in %d families; %d transition classes exported, replaying %d schedules" % (trans, states, len(MODEL_FAMILIES), len(kinds), len(scen)))
    # 1b. the counterexample to NoSplit: an equivocating author splits the pools for good
    rs = vlib.tlc(ctx, "MC_KeysPool.tla", "MC_KeysPool_split.cfg", workers=1, timeout=600)
    if rs.ok or rs.invariant != "NoSplit":
        raise vlib.CheckError("the model does not show the split caused by an equivocating author any more (expected NoSplit to fail): %s" % (rs.error or "")[:600])
    # 1c. random walks of a larger instance (4 identities, every message class, lagging nodes, restarts, both rounds)
    nwalk = 10 if quick else 90
    rw = vlib.tlc(ctx, "MC_KeysPool.tla", "MC_KeysPool_sim.cfg", workers=1, timeout=1800,
                  extra=["-simulate", "num=%d" % (max(4, nwalk // 3)), "-depth", "82", "-seed", str(ctx.seed)], simulate=True)
    if rw.error:
        raise vlib.CheckError("simulation of the KeysPool model failed (model-only): " + (rw.error or "")[:1500])
    walks = _maximal(rw.exports, nwalk, rnd)
    if not walks:
        raise vlib.CheckError("no simulation walks exported")
    perms = _perm_scenarios(rnd, 4 if quick else 30)
    caps = _cap_scenarios()

    allscen = []
    for i, e in enumerate(scen + walks):
        steps = e["steps"]
        world = "small"
        if i % 5 == 4:
            # every fifth schedule runs in the large world: 11 authors / 21 candidates, so that the lottery leaves non-recipients;
            # the keys of the authors without a node reach every node through the real asynchronous pool first
            world = "large"
            pre = [{"k": "bulk", "n": n} for n in range(1, e.get("nodes", 3) + 1)]
            steps = pre + steps
            j = next((x for x, s in enumerate(steps) if s.get("k") == "adv" and x > 8), None)
            if j is not None:
                steps = steps[:j + 1] + [{"k": "bulk", "n": steps[j]["n"]}] + steps[j + 1:]
        for s in steps:
            if s.get("k") == "sync":
                s["rep"] = 11
        allscen.append({"id": "%s%d" % ("w" if e.get("kind") == "walk" else "m", i), "kind": e.get("kind"), "world": world, "nodes": e.get("nodes", 3), "steps": steps})
    allscen += perms + caps

    # 2. replay on real worlds (sharded: the virtual clock is per process)
    rnd.shuffle(allscen)
    sh = 6 if quick else 12
    sjobs = []
    for i in range(sh):
        part = allscen[i::sh]
        if not part:
            continue
        cf = ctx.path("keys_cases_%d.json" % i)
        with open(cf, "w") as f:
            for e in part:
                f.write(json.dumps(e) + "\n")
        sjobs.append(["-out", ctx.path("keys_scen_%d.ndjson" % i), "-cases", cf])
    sps = _shards(ctx, drv, sjobs, 3000)
    st = _stats(ctx, sps) + _stats(ctx, rfut.result())
    pool.shutdown()
    ctx.log("real worlds: " + " ".join("%s=%d" % kv for kv in sorted(st.items()) if not kv[0].startswith(("dlv:", "skip:", "ev:", "in:"))))
    for k in NEED_STATS:
        if not st.get(k):
            raise vlib.CheckError("the driver never produced '%s' (dead driver)" % k)

    # 3. trace validation: the shards are validated side by side (one TLC each), every scenario starts with its own World line
    files = [j[1] for j in sjobs + rjobs]
    nlines = sum(sum(1 for _ in open(f)) for f in files)
    groups = [[] for _ in range(4 if quick else 6)]
    for i, f in enumerate(sorted(files, key=os.path.getsize, reverse=True)):
        groups[i % len(groups)].append(f)
    traces = []
    for i, g in enumerate(x for x in groups if x):
        t = ctx.path("keys_%d.ndjson" % i)
        with open(t, "w") as out:
            for fn in g:
                with open(fn) as f:
                    shutil.copyfileobj(f, out)
        traces.append(t)

    def validate(job):
        i, t = job
        time.sleep(0.4 * i)
        return _validate(ctx, t)
    with concurrent.futures.ThreadPoolExecutor(max_workers=len(traces)) as ex:
        results = list(ex.map(validate, list(enumerate(traces))))
    obs_hits = collections.Counter()
    tot = collections.Counter()
    drift_kinds = collections.Counter()
    clean = True
    for t, (ok1, info) in zip(traces, results):
        for k in ("drift", "order_pairs", "reach_pairs", "foreign_pairs"):
            tot[k] += info.get(k, 0)
        drift_kinds.update(info.get("drift_kinds", {}))
        if not ok1:
            before = len(ctx.violations) + len(ctx.known_hits)
            _report(ctx, t, info, obs_hits)
            clean = clean and len(ctx.violations) + len(ctx.known_hits) == before
    for k in ("order_pairs", "reach_pairs", "foreign_pairs"):
        if not tot[k]:
            raise vlib.CheckError("no observed step put the clause behind '%s' to the test (vacuous run)" % k)
    derive = sorted(set(r.get("derive") for t in traces[:1] for r in vlib.read_ndjson(t) if r.get("ev") == "World"))
    if derive and derive != [1]:
        note = ("observation outside the listed properties (toolchain): Flipper.generateFlipEncryptionKey derives an identity's flip keys of an epoch with "
                "crypto.GenerateKeyFromSeed = ecdsa.GenerateKey(curve, reader over a signature) and relies on the result being a function of the reader's "
                "bytes; with the go toolchain of this sandbox (>= 1.20) ecdsa.GenerateKey consumes an extra byte with probability 1/2 (randutil.MaybeReadByte): "
                "16 flipper incarnations of one identity derived %s different public flip keys for one epoch, i.e. a node restarted between flip submission and "
                "the ceremony would publish keys that do not open its own flips. The repository does not build with this toolchain without the harness's ipfs "
                "overlay, so this is a hazard of a toolchain upgrade, not a defect of the shipped binaries; the harness pins each identity's keys (fixFlipKeys)." % derive)
        ctx.notes.append(note)

    # binding self-test
    if clean:
        selftest_keys(ctx, traces[0])

    return {
        "keys_states": states, "keys_transitions": trans, "keys_model_families": famstats,
        "keys_traces_validated_against_impl": st.get("worlds", 0), "keys_trace_lines": nlines,
        "keys_real": {k: st.get(k, 0) for k in ("worlds", "lines", "pub0", "pub1", "timer", "delayed", "restart", "sync", "offered", "bulk", "bulkmsgs", "random")},
        "keys_real_deliveries": {k[4:]: v for k, v in sorted(st.items()) if k.startswith("dlv:")},
        "keys_real_delivery_inputs": {k[3:]: v for k, v in sorted(st.items()) if k.startswith("in:")},
        "keys_real_positions": {k[4:]: v for k, v in sorted(st.items()) if k.startswith("adv:")},
        "keys_steps_skipped_as_not_applicable": {k[5:]: v for k, v in sorted(st.items()) if k.startswith("skip:")},
        "keys_exported_by_kind": kinds,
        "keys_schedules": {"model": len(scen), "walks": len(walks), "permutation": len(perms), "cap": len(caps), "random": nshard * per},
        "keys_samples": [scen[0]["steps"][:12], walks[0]["steps"][:16]],
        "keys_drift": tot["drift"], "keys_drift_kinds": dict(drift_kinds),
        "keys_clause_instances": {"OrderIndependent_pairs_with_equal_inputs": tot["order_pairs"], "KeyReach_pairs": tot["reach_pairs"],
                                  "NoForeignReach_pairs": tot["foreign_pairs"]},
        "keys_observations": dict(obs_hits),
        "keys_split_counterexample": "NoSplit fails in the model as expected (equivocating author, first write wins)",
        "keys_rule": "three bounded KeysPool model families explored exhaustively (%s) + %d random walks (4 identities, depth 80) + %d permutation and %d sync-cap "
                     "schedules + %d seeded random scenarios (%d steps) run on real multi-node worlds (small: 3 authors + 1 candidate, large: 11 authors + 10 "
                     "candidates; 2-4 real nodes); every clause of Trace_KeysPool evaluated on every observed step" % (
                         ", ".join("%s %d states" % (f, famstats[f]["distinct"]) for f in MODEL_FAMILIES), len(walks), len(perms), len(caps), nshard * per, rlen),
    }


def _validate(ctx, t):
    e = {"TRACE_FILE": t}
    r = vlib.tlc(ctx, "Trace_KeysPool.tla", "Trace_KeysPool.cfg", workers=1, env=e, timeout=3000, want_exports=False)
    info = {"states": r.distinct, "wall": r.wall, "drift_kinds": collections.Counter()}
    import re
    hw = None
    for line in r.out.splitlines():
        m = re.match(r'<<"(DRIFT|ORDER_PAIRS|REACH_PAIRS|FOREIGN_PAIRS)", (\d+)>>', line)
        if m:
            info[m.group(1).lower()] = int(m.group(2))
        m = re.match(r'<<"DRIFT_AT", (\d+), "([^"]*)">>', line)
        if m:
            info["drift_kinds"][m.group(2)] += 1
        m = re.match(r'<<"TRACE_REJECTED_AT", (\d+), (\d+)>>', line)
        if m:
            hw = int(m.group(1))
        m = re.match(r'<<"CLAUSE_BROKEN", (\d+), "([^"]*)">>', line)
        if m:
            info.setdefault("broken", []).append((int(m.group(1)), m.group(2)))
    if r.ok:
        return True, info
    if hw is not None:
        raise vlib.CheckError("the trace specification cannot read trace line %d of %s (harness / specification mismatch, not a verdict):\n%s" % (hw, t, r.out[-1500:]))
    if "broken" not in info:
        raise vlib.CheckError("TLC error while validating the keys trace (not a verdict):\n" + r.out[-3000:])
    return False, info


def selftest_keys(ctx, trace):
    """Binding self-test: corrupted copies of a recorded prefix (whole scenarios) must each break the clause that guards the
    corrupted fact; the recording itself may only show the known observations."""
    rows = vlib.read_ndjson(trace)
    scen = []                     # whole scenarios
    for row in rows:
        if row.get("ev") == "World":
            scen.append([])
        scen[-1].append(row)
    def m_admit(rows):       # a refused message shows up in the pool
        for row in rows:
            if row.get("ev") == "Dlv" and any(c in ("sig", "epoch", "flips", "len", "big") for c in row["codes"]):
                i = [c in ("sig", "epoch", "flips", "len", "big") for c in row["codes"]].index(True)
                m = row["ms"][i]
                snd = m[2] if m[2] >= 0 else 5
                (row["pool"]["keys"] if m[1] == 0 else row["pool"]["pkgs"]).append([snd, m[0], m[3], 0, 1, 0] if m[1] == 0 else [snd, m[0], m[3], 1, 1, 0, 1, 0])
                if m[1] == 1:
                    row["pool"]["has"].append(m[0])
                return "Admission"

    def m_replace(rows):     # a held key is replaced by a later one
        for row in rows:
            if row.get("ev") == "Dlv" and "already" in row["codes"]:
                i = row["codes"].index("already")
                m = row["ms"][i]
                lst = row["pool"]["keys"] if m[1] == 0 else row["pool"]["pkgs"]
                for ent in lst:
                    if ent[0] == m[2] and ent[1] != m[0]:
                        ent[1] = m[0]
                        if m[1] == 1:
                            row["pool"]["has"] = [m[0] if h == ent[1] else h for h in row["pool"]["has"]]
                        return "OnePerAuthorEpoch"

    def m_drop(rows):        # an admissible message was not taken
        for row in rows:
            if row.get("ev") == "Dlv" and row["codes"] == ["ok"] and row["ms"][0][1] == 0:
                row["pool"]["keys"] = [k for k in row["pool"]["keys"] if k[1] != row["ms"][0][0]]
                return "AdmitValid"

    def m_reach(rows):       # an assigned flip of an author whose genuine key and package are held is not decrypted
        for row in rows:
            for s in row.get("sol") or []:
                if s[2] > 0 and s[3] == s[2]:
                    s[3] -= 1
                    return "KeyReach"

    def m_foreign(rows):     # an identity decrypts without the pool holding the author's package
        for row in rows:
            if row.get("ev") == "Dlv" and row.get("view", {}).get("lot") == 1:
                for s in row.get("sol") or []:
                    if s[3] == 0 and s[7] == "nopub" and all(k[0] != s[0] for k in row["pool"]["keys"]):
                        s[3] = 1
                        s[2] = max(s[2], 1)
                        return "NoKeyNoReach"

    def m_epoch(rows):       # a key survives the epoch change
        for row in rows:
            if row.get("ev") == "Adv" and row["view"]["pos"] == 7:
                row["pool"]["keys"].append([1, 1, 1, 0, 1, 0])
                return "ClearedAtEpoch"

    def m_restart(rows):     # a restart loses an admitted package
        for row in rows:
            if row.get("ev") == "Restart" and row["pool"]["pkgs"] and not row.get("pubs"):
                gone = row["pool"]["pkgs"].pop()
                row["pool"]["has"] = [h for h in row["pool"]["has"] if h != gone[1]]
                return "RestartKeepsAdmitted"

    def m_sync(rows):        # a pool offers a key it does not hold
        for row in rows:
            if row.get("ev") == "Sync":
                row["k"] = row["k"] + [3]
                return "ServeOnlyAdmitted"

    def m_early(rows):       # a public key is revealed before the validation time
        for row in rows:
            if row.get("ev") in ("Adv", "Timer") and any(p[1] == 0 for p in row.get("pubs") or []):
                row["view"]["t"] = row["view"]["v"] - 50
                return "NoEarlyReveal"

    def m_event(rows):       # an event is removed: the next line of that node does not follow from the carried pool
        for i, row in enumerate(rows):
            if row.get("ev") == "Dlv" and "ok" in row["codes"] and any(r.get("n") == row["n"] and r.get("w") == row["w"] and r.get("ev") in ("Dlv", "Adv") and r["view"]["pos"] != 7
                                                                        for r in rows[i + 1:i + 6]):
                del rows[i]
                return "FirstWins"

    muts = (m_admit, m_replace, m_drop, m_reach, m_foreign, m_epoch, m_restart, m_sync, m_early, m_event)
    # the shortest selection of recorded scenarios on which every corruption can be built: for each mutator the first scenario it applies to
    chosen = []
    for mut in muts:
        j = next((j for j, sc in enumerate(scen) if mut(json.loads(json.dumps(sc))) is not None), None)
        if j is None:
            raise vlib.CheckError("binding self-test could not build the corrupted trace %s (no recorded scenario has the step)" % mut.__name__)
        if j not in chosen:
            chosen.append(j)
    keep = [row for j in sorted(chosen) for row in scen[j]]
    good = ctx.path("selftest", "keys_good.ndjson")
    vlib.write_ndjson(good, keep)
    ok, info = _validate(ctx, good)
    base = set(c for _, c in info.get("broken", []))
    if base - set(OBSERVATIONS):
        raise vlib.CheckError("binding self-test: the recorded prefix is not clean: %s" % sorted(base))

    def one(job):
        i, mut = job
        time.sleep(0.4 * i)
        bad_rows = json.loads(json.dumps(keep))
        want = mut(bad_rows)
        if want is None:
            raise vlib.CheckError("binding self-test could not build the corrupted trace %s (the recorded prefix lacks the step)" % mut.__name__)
        bad = ctx.path("selftest", "keys_bad_%s.ndjson" % mut.__name__)
        vlib.write_ndjson(bad, bad_rows)
        ok2, info2 = _validate(ctx, bad)
        extra = set(c for _, c in info2.get("broken", [])) - base
        if ok2 or want not in extra:
            raise vlib.CheckError("binding self-test failed: corrupted trace %s was not rejected by clause %s (broken: %s)" % (mut.__name__, want, sorted(extra)))
        return want
    with concurrent.futures.ThreadPoolExecutor(max_workers=5) as ex:
        caught = list(ex.map(one, list(enumerate(muts))))
    ctx.log("binding self-test: %d corrupted traces rejected (%s)" % (len(caught), ", ".join(caught)))
