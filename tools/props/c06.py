"""C06 - no transaction is ever applied twice; nonces advance strictly per epoch (clauses NoDouble,
Consecutive, EpochMatch of Ledger.tla on every block, and crafted-block / pool replays refused)."""
from props.c04 import run


def main(ctx):
    return run(ctx, "C06")
