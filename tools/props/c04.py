"""C04 / C05 / C06 share one driver run shape and one trace specification (Trace_Ledger); this module
is C04 - no coins from nowhere.  The other two import `run`."""
import collections
import json

import chainlib
import vlib
from props.c13 import selftest_reject

CLAUSES = {
    "C04": {"NonNeg", "BlockIssuance"},
    "C05": {"OnlySigner"},
    "C06": {"NoDouble", "Consecutive", "EpochMatch", "NonceRecorded"},
}


def describe(clause, row, rows, line):
    txs = row.get("txs") or []
    types_ = sorted({t.get("type") for t in txs})
    key = "%s:%s:types=%s" % (clause, row.get("kind"), ",".join(map(str, types_)))
    if row.get("flags", 0) & 32:
        key += ":epoch-block"
    what = "clause %s broken by block %s of history %s (kind %s, flags %s, proposer %s, epochLen %s); txs %s" % (
        clause, row.get("h"), row.get("hid"), row.get("kind"), row.get("flags"), row.get("proposer"), row.get("epochLen"),
        json.dumps([{k: t.get(k) for k in ("id", "type", "from", "to", "nonce", "epoch")} for t in txs])[:700])
    return key, what


def run(ctx, pid):
    quick = ctx.tier == "quick"
    mine = CLAUSES[pid]
    # design-level model: replay / nonce discipline and issuance bound on the abstract ledger
    r = chainlib.model_run(ctx, "MC_Ledger.tla", "MC_Ledger.cfg", workers=8)
    trace, stats, out = chainlib.run_histories(ctx, quick, extra_args=["-replays"])
    if stats is None:
        vlib.driver_failure(ctx, out)
    # (a crafted block carrying a transaction with a transplanted signature is C05's: somebody who did not sign loses coins)
    pred = (lambda c: c in mine or (pid == "C06" and c.startswith("Replay-") and "forged-signature" not in c)
            or (pid == "C05" and c == "Replay-forged-signature-tx-in-block"))
    ok, info = chainlib.validate(ctx, trace, "Trace_Ledger.tla", "Trace_Ledger.cfg", pred, pid, describe_any)
    rel_stats = None
    if pid in ("C04", "C05"):
        # every transaction type that names another address, attempted by every actor role against every target in every
        # relationship state (Relations.tla), as real transactions one per block
        rtrace, rmodel, rel_stats = chainlib.relation_scenarios(ctx, quick)
        ok2, info2 = chainlib.validate(ctx, rtrace, "Trace_Ledger.tla", "Trace_Ledger.cfg", pred, pid, describe_rel)
        ok = ok and ok2
        rel_stats["model_states"] = rmodel.distinct
    cstratum = None
    if pid in ("C04", "C05"):
        # contracts: blocks with contract transactions executed by the real node, judged by this property's own clauses
        # (a stratum of the property itself, not a growth module: what it cannot run makes the check exit 2)
        from props import contract_stratum
        cstratum = contract_stratum.run(ctx, pid, quick)
    growth = None
    if pid == "C05":
        # growth module: the identity lifecycle (Lifecycle.tla: status x period x transaction type x delegation / stake / penalty
        # situation, edge cover realised on real chains, also judged by the ledger / registry / replica clause sets)
        growth = vlib.run_extra(ctx, "extra_life", quick)
    if pid == "C04":
        # growth module: the epoch reward distribution (Rewards.tla: who is entitled to which category, conservation and category
        # shares with exact arithmetic, population shapes enumerated by TLC and run through the real rewardValidIdentities)
        growth = vlib.run_extra(ctx, "extra_rewards", quick)
    rows = vlib.read_ndjson(trace)
    blocks = [x for x in rows if x.get("ev") == "Block" and not x.get("refused")]
    crafted = [x for x in rows if x.get("ev") == "Crafted"]
    included = sum(len(x.get("txs") or []) for x in blocks)
    single = sum(1 for x in blocks if len(x.get("txs") or []) == 1)
    epochs = sum(1 for x in blocks if x.get("flags", 0) & 32)
    if included == 0:
        raise vlib.CheckError("no transaction was ever included (dead generator)")

    def mutate(rows_):
        for row in rows_:
            if row.get("ev") == "Block" and not row.get("refused") and row.get("post", {}).get("accts"):
                if pid == "C04":
                    a = row["post"]["accts"][0]
                    a["bal"] = list(a["bal"]) + [0] * max(0, 6 - len(a["bal"]))
                    a["bal"][5] += 9          # + 9 * 10^20 base units out of nowhere
                    return rows_
                if pid == "C05" and len(row.get("txs") or []) == 1:
                    t = row["txs"][0]
                    for a in row["post"]["accts"]:
                        if a["a"] != t["from"] and a["a"] != t.get("to") and a["bal"]:
                            a["bal"] = []
                            return rows_
                if pid == "C06" and row.get("txs"):
                    row["txs"][0]["nonce"] += 1
                    return rows_
        return None
    if ok:
        selftest_reject(ctx, "Trace_Ledger.tla", "Trace_Ledger.cfg", trace, mutate, n_lines=400)
    cov = {"states": r.distinct, "transitions": r.generated,
           "traces_validated_against_impl": stats.get("histories", 0),
           "blocks": len(blocks), "txs_included": included, "single_tx_blocks": single, "epoch_finishing_blocks": epochs,
           "replay_attempts_crafted": len(crafted), "crafted_by_kind": dict(collections.Counter(x.get("what") for x in crafted)),
           "relationship_scenarios": rel_stats, "contract_stratum": cstratum, ("identity_lifecycle" if pid == "C05" else "epoch_rewards"): growth,
           "tx_types_included": sorted({t["type"] for x in blocks for t in (x.get("txs") or [])}),
           "samples": [{k: blocks[len(blocks) // 3].get(k) for k in ("h", "kind", "flags", "proposer", "txs", "epochLen")}],
           "rule": "seeded random histories on real chains (all plain tx types, targets in every relationship to the signer, amounts on the "
                   "funds boundary, nonce gaps / stale nonces / wrong epochs / replays, penalties, delegations, kills, epoch transitions "
                   "with seeded validation outcomes through the real ApplyNewEpoch); after every block the whole committed ledger is "
                   "iterated from a fresh read-only view and the clauses are evaluated by TLC with exact limb arithmetic"}
    return vlib.finish(ctx, "model_checking", cov, assumptions=[
        "issuance bound per block = BlockReward + FinalCommitteeReward (proposed block) + that sum x epoch length (validation-finished block)",
        "contract transactions: not in the chain histories; blocks with contract transactions are a stratum of their own (C04 / C05: "
        "lifecycle edge cover of ContractOps.tla with at most one deviation per operation, judged by Trace_ContractLedger; the proposer "
        "of those blocks is never a party and none of them finishes a validation); the full contract envelope is C15's"])


def describe_rel(clause, row, rows, line):
    txs = row.get("txs") or []
    at = (txs[0].get("attempt") if txs else None) or {}
    roles = {}
    for x in rows[:line][::-1]:
        if x.get("ev") == "Genesis":
            roles = x.get("roles") or {}
            break
    path = [t.get("attempt") for x in rows[:line] if x.get("ev") == "Block" and x.get("hid") == row.get("hid") for t in (x.get("txs") or []) if t.get("attempt")]
    key = "%s:%s:%s-by-%s-on-%s" % (clause, at.get("op", "?"), "admissible" if at.get("expect") else "inadmissible", at.get("a"), at.get("b"))
    what = "clause %s broken by the %s attempt %s (relationship scenario %s, roles %s); path so far %s; tx %s" % (
        clause, "admissible" if at.get("expect") else "INADMISSIBLE", json.dumps(at), row.get("hid"), json.dumps(roles),
        json.dumps(path)[:500], json.dumps({k: txs[0].get(k) for k in ("type", "from", "to", "tips", "amount")} if txs else {})[:300])
    return key, what


def describe_any(clause, row, rows, line):
    if row.get("ev") == "Crafted":
        return ("%s:%s" % (clause, row.get("what")),
                "a %s was accepted: %s" % (row.get("what"), json.dumps({k: row.get(k) for k in ("hid", "h", "what", "tx", "verdicts")})[:700]))
    return describe(clause, row, rows, line)


def main(ctx):
    return run(ctx, "C04")
