"""C15 — contract execution is atomic, pays for itself and cannot overspend.

1. TLC checks the bounded envelope model spec/ContractTx.tla (Escrow, opaque Run with buffered
   sends / burns / writes / stake moves / sub-calls / sub-deployments, Commit or Rollback+refund,
   Charge): every property clause (NoOverspend, ReceiptTruthful, FailLeavesNoTrace, SuccessAppliesAll,
   GasWithinBought, FeeWithinMax, PaysForItself, Conserved) holds on every completed transaction; the
   completed transactions are exported as abstract coverage classes.  Deliberately broken variants of
   the envelope (commit on failure, no refund, no balance check, ...) must violate the clauses
   (specification self-test).
2. TLC explores spec/ContractOps.tla (operation alphabet of the five embedded contracts, of the
   bundled WASM contracts and of a hand-assembled WASM contract that moves DNA, over a lifecycle abstraction) and exports an edge cover: every operation
   class attempted in every lifecycle state, plus seeded random walks (simulation mode).
3. harness/cmd/d_contract concretises the scenarios into real signed transactions and runs them on
   a real chain (one contract transaction per block, or two for "pair" operations), recording ledger
   projections, receipts and the effects observed by the probes.
   Sandwich blocks (an operation + a balance change outside the contract environment + further contract
   transactions of the same / another embedded / wasm contract in ONE block, 24 shapes) check that nothing
   an earlier transaction leaves in the execution context of the block reaches the state with a later one.
4. TLC validates the recorded trace against spec/Trace_ContractTx.tla: the clauses are evaluated on
   the OBSERVED pre/post states of every transaction (verdict); fee-formula drift is only reported.
"""
import collections
import concurrent.futures
import json
import os
import random
import re

import vlib

CLOCKS = ["blockchain/blockchain.go"]
EMBEDDED = ("timelock", "multisig", "oraclelock", "refundlock", "voting")
BUGS = ("commit_on_fail", "stale_env", "no_refund", "no_balance_check", "no_sub_refund", "subdeploy_forgets_balance")


def dev(c, op):
    """number of dimensions in which an operation deviates from the method's well-formed default"""
    emb = c in EMBEDDED
    defwho = "voter" if op["m"] in ("sendVoteProof", "sendVote", "send", "deposit") else "owner"
    if op["m"] == "deploy":
        defamt = "some" if emb else "zero"
    else:
        defamt = "some" if op["m"] in ("deposit", "sendVoteProof", "addStake") else "zero"
    return (op["arg"] != "valid") + (op["amt"] != defamt) + (op["gas"] != "enough") + (op["who"] != defwho) + (op["pair"] != "no")


def sample_cases(exports, rnd, budget):
    """all well-formed defaults in every lifecycle state + a stratified seeded sample of the rest"""
    groups = collections.defaultdict(list)
    keep = []
    for e in exports:
        last = e["path"][-1]
        if last["m"] in ("fund", "wait", "longwait") or dev(e["c"], last) == 0:
            keep.append(e)
        elif (last["arg"] in ("toself", "tosender") or last["pair"] == "samerin") and dev(e["c"], last) == 1:
            keep.append(e)     # the recipient is the contract itself / the sender: in every lifecycle state
        else:
            groups[(e["c"], e["w"], json.dumps(e["path"][:-1]))].append(e)
    keys = sorted(groups)
    for k in keys:
        rnd.shuffle(groups[k])
    # round robin over the lifecycle states, one-deviation operations first
    for k in keys:
        groups[k].sort(key=lambda e: dev(e["c"], e["path"][-1]))
    i = 0
    while len(keep) < budget and keys:
        nxt = []
        for k in keys:
            if i < len(groups[k]):
                # every third pick is taken from the multi-deviation tail
                lst = groups[k]
                keep.append(lst[i] if i % 3 else lst[len(lst) - 1 - i // 3] if len(lst) - 1 - i // 3 > i else lst[i])
                nxt.append(k)
                if len(keep) >= budget:
                    break
        keys = nxt
        i += 1
    seen = set()
    res = []
    for e in keep:
        s = json.dumps(e, sort_keys=True)
        if s not in seen:
            seen.add(s)
            res.append(e)
    return res


def is_sandwich(e):
    return e["path"][-1]["pair"].startswith("sw-")


# methods that move coins through the contract environment (steers the selection only)
MOVERS = ("transfer", "push", "refund", "finishVoting", "terminate", "pay", "paytwice", "relay", "relayhop", "burn", "addStake", "deposit")


def sample_sandwiches(exports, rnd, budget):
    """sandwich blocks: per (lifecycle state, block shape) the operations that move coins and are expected to succeed
    first; states x shapes are visited in seeded random order, best candidates first"""
    def good(last):
        # (addStake of an oracle voting succeeds in every lifecycle state - it moves the pay amount into the contract stake without
        # changing the lifecycle, so the model's progress flag does not show it)
        return last["good"] or (last["m"] == "addStake" and last["amt"] in ("some", "big") and last["arg"] == "valid")

    def rank(e):
        last = e["path"][-1]
        return (not (good(last) and last["m"] in MOVERS), last["m"] not in MOVERS, not good(last), last["arg"] != "valid")
    # every method that moves coins, of every contract, at least once in each of the key block shapes (in its best-ranked state)
    KEY_SHAPES = ("sw-none-again", "sw-cin-emb", "sw-self-emb", "sw-xout-two", "sw-cin-again")
    must = {}
    for e in sorted(exports, key=lambda e: (rank(e), len(e["path"]), json.dumps(e, sort_keys=True))):
        last = e["path"][-1]
        if last["m"] in MOVERS and good(last) and last["pair"] in KEY_SHAPES:
            must.setdefault((e["c"], last["m"], last["pair"]), e)
    groups = collections.defaultdict(list)
    for e in exports:
        groups[(e["c"], e["w"], json.dumps(e["path"][:-1]), e["path"][-1]["pair"])].append(e)
    keys = sorted(groups)
    rnd.shuffle(keys)
    for k in keys:
        rnd.shuffle(groups[k])
        groups[k].sort(key=rank)
    res, i = [must[k] for k in sorted(must)], 0
    while len(res) < budget and keys:
        # within a pass the groups whose candidate is better come first
        keys = [k for k in keys if i < len(groups[k])]
        for k in sorted(keys, key=lambda k: rank(groups[k][i])):
            res.append(groups[k][i])
            if len(res) >= budget:
                break
        i += 1
    return res


def is_prefund(e):
    return e["path"][-1]["pair"].startswith("pf-")


def sample_prefunds(exports, rnd, budget):
    """operations that create an address which already holds coins: per (lifecycle state, way of pre-funding),
    sub-deployments and well-formed operations with enough gas first"""
    def rank(e):
        last = e["path"][-1]
        return (last["arg"] != "valid", last["gas"] != "enough", last["gas"] != "enough" and last["m"] != "deploy", dev(e["c"], last))
    groups = collections.defaultdict(list)
    for e in exports:
        last = e["path"][-1]
        # (a top-level deployment is the same operation in every lifecycle state: one group per contract)
        groups[(e["c"], "" if last["m"] == "deploy" else json.dumps(e["path"][:-1]), last["pair"], last["m"])].append(e)
    keys = sorted(groups)
    rnd.shuffle(keys)
    for k in keys:
        rnd.shuffle(groups[k])
        lst = sorted(groups[k], key=lambda e: (rank(e), len(e["path"])))
        # the best candidate with enough gas, then the best one with too little gas, then the rest
        small = next((e for e in lst if e["path"][-1]["gas"] != "enough"), None)
        if small is not None:
            lst.remove(small)
            lst.insert(1, small)
        groups[k] = lst
    res, i = [], 0
    while len(res) < budget and keys:
        keys = [k for k in keys if i < len(groups[k])]
        for k in sorted(keys, key=lambda k: (rank(groups[k][i]) if i != 1 else (k[3] != "deploy",))):
            res.append(groups[k][i])
            if len(res) >= budget:
                break
        i += 1
    return res


def pick_walks(exports, n):
    best = {}
    for e in exports:
        key = json.dumps([e["c"], e["w"], e["path"][:-1]])
        best.setdefault(key, e)
    walks = sorted(best.values(), key=lambda e: (-len(e["path"]), json.dumps(e)))
    return walks[:n]


def observed_class(r):
    e = r["eff"]
    acts = []
    if len(e["req"]) >= 2 or (e["req"] and e["req"][0]["a"] != r["tx"]["to"]):
        acts.append("send")
    if e["burnt"]:
        acts.append("burn")
    if e["sh"]["writes"]:
        acts.append("write")
    if e["sh"]["moved"]:
        acts.append("stake")
    if r["tx"]["wasm"] and e["commits"] > 1:
        acts.append("subcall")
    if len(e["deployed"]) > 1:
        acts.append("subdeploy")
    gas = "zero" if r["tx"]["maxFee"] == r["tx"]["sizeFee"] else ("small" if (not r["rc"]["success"] and "gas" in r["err"].lower()) else "enough")
    return (r["tx"]["kind"], r["tx"]["wasm"], bool(r["tx"]["amount"]), gas, r["rc"]["success"]), acts


def validate_chunk(ctx, idx, path):
    r = vlib.tlc(ctx, "Trace_ContractTx.tla", "Trace_ContractTx.cfg", workers=1, env={"TRACE_FILE": path}, timeout=3000,
                 want_exports=False, sub="val_%d" % idx)
    info = {"states": r.distinct, "wall": r.wall, "drift": 0, "broken": []}
    for line in r.out.splitlines():
        m = re.match(r'<<"DRIFT", (\d+)>>', line)
        if m:
            info["drift"] = int(m.group(1))
        m = re.match(r'<<"CLAUSE_BROKEN", (\d+), "([^"]*)">>', line)
        if m:
            info["broken"].append((int(m.group(1)), m.group(2)))
        m = re.match(r'<<"TRACE_REJECTED_AT", (\d+), (\d+)>>', line)
        if m:
            info["rejected_at"] = int(m.group(1))
    if r.ok:
        return info
    if not info["broken"] and "rejected_at" not in info:
        raise vlib.CheckError("TLC error while validating a trace chunk (not a verdict):\n" + r.out[-3000:])
    return info


def chunks_of(rows, size):
    """split at Reset lines"""
    res, cur = [], []
    for r in rows:
        if r["ev"] == "Reset" and len(cur) >= size:
            res.append(cur)
            cur = []
        cur.append(r)
    if cur:
        res.append(cur)
    return res


def signature(row):
    """a stable signature of the operation that broke a clause (for known-finding keys)"""
    op = row.get("op", {})
    sig = "%s.%s" % (row.get("mainc", row.get("c", "?")), op.get("m", "?"))
    pair = op.get("pair", "no")
    if pair.startswith("pf-"):
        sig += "+prefunded-%s" % pair[3:]
    elif pair.startswith("sw-"):
        sig += "+sandwich-%s" % pair[3:]
        if row.get("role") == "tail" and row.get("c") != row.get("mainc"):
            sig += ":" + str(row.get("c"))
    elif pair != "no":
        sig += "+after-failed-%s" % ("terminate" if pair == "term" else "attempt-and-credit" if pair == "samerin" else "attempt")
    return sig


def violation_key(clause, row):
    op = row.get("op", {})
    # a termination attempt of an oracle voting that runs out of gas, followed in the same block by
    # another transaction on the contract: one signature whatever the second transaction is
    if row.get("c") == "voting" and row.get("rc") is not None and (op.get("pair") == "term" or (op.get("pair") == "same" and op.get("m") == "terminate")):
        return "C15:failed-voting-termination-leaves-trace"
    return "C15:%s:%s" % (clause, signature(row))


def main(ctx):
    quick = ctx.tier == "quick"
    rnd = random.Random(ctx.seed)
    drv = vlib.build_driver(ctx, "d_contract", clocks=CLOCKS)

    # 1. envelope model: clauses on every completed transaction + coverage classes
    cfg = "MC_ContractTx_quick.cfg" if quick else "MC_ContractTx_thorough.cfg"
    r = vlib.tlc(ctx, "MC_ContractTx.tla", cfg, workers=min(12, ctx.cores), timeout=3000)
    if not r.ok:
        raise vlib.CheckError("design-level envelope model violates %s (model-only, not a verdict):\n%s"
                              % (r.invariant, (r.error or "")[:1500]))
    model_classes = set()
    model_acts = collections.Counter()
    for e in r.exports:
        model_classes.add((e["kind"], e["wasm"], e["pay"], e["gas"], e["success"]))
        for a in e["acts"]:
            model_acts[a] += 1
    ctx.log("envelope model: %d generated / %d distinct states, %d completed-transaction classes" % (r.generated, r.distinct, len(model_classes)))
    if not model_classes:
        raise vlib.CheckError("envelope model exported no completed transaction (vacuous bounds)")

    # 1a. blocks: two transactions sharing the execution context of a block, with a balance change outside
    #     the contract environment in between (thorough; the quick tier runs its broken variant below)
    blk_states = 0
    if not quick:
        rblk = vlib.tlc(ctx, "MC_ContractTx.tla", "MC_ContractTx_block.cfg", workers=min(12, ctx.cores), timeout=3000, want_exports=False)
        if not rblk.ok:
            raise vlib.CheckError("design-level block model violates %s (model-only, not a verdict):\n%s"
                                  % (rblk.invariant, (rblk.error or "")[:1500]))
        blk_states = rblk.distinct
        ctx.log("block model (2 transactions, shared context): %d distinct states" % rblk.distinct)

    # 1b. specification self-test: broken envelopes must break the clauses
    bugs = BUGS[:2] if quick else BUGS
    for b in bugs:
        rb = vlib.tlc(ctx, "MC_ContractTx.tla", "MC_ContractTx_bug_%s.cfg" % b, workers=min(8, ctx.cores), timeout=1200, want_exports=False)
        if rb.ok or rb.invariant != "ClausesHold":
            raise vlib.CheckError("specification self-test failed: envelope with Bug=%s does not violate ClausesHold" % b)
    ctx.log("specification self-test: %d broken envelopes rejected by the clauses" % len(bugs))

    # 2. scenario generation: edge cover of the lifecycle graph + random walks
    ocfg = "MC_ContractOps_quick.cfg" if quick else "MC_ContractOps_thorough.cfg"
    ro = vlib.tlc(ctx, "ContractOps.tla", ocfg, workers=1, timeout=3000)     # (one worker: the same paths for the same seed)
    if not ro.ok:
        raise vlib.CheckError("scenario generator failed: %s" % (ro.error or "")[:1500])
    ro.exports.sort(key=lambda e: json.dumps(e, sort_keys=True))
    budget = 830 if quick else 12000
    cases = sample_cases([e for e in ro.exports if not is_sandwich(e) and not is_prefund(e)], rnd, budget)
    prefunds = sample_prefunds([e for e in ro.exports if is_prefund(e)], rnd, 110 if quick else 1500)
    sandwiches = sample_sandwiches([e for e in ro.exports if is_sandwich(e)], rnd, 300 if quick else 4000)
    # scenarios behind the > 30000 blocks of waiting (thorough only): a bounded number, cheapest deviations first
    isdeep = lambda c: any(o["m"] == "longwait" for o in c["path"][:-1])
    deep = sorted([c for c in cases if isdeep(c)], key=lambda c: (dev(c["c"], c["path"][-1]), json.dumps(c["path"][-1])))
    cases = [c for c in cases if not isdeep(c)] + deep[:150]
    cases += [c for c in sandwiches if not isdeep(c)] + [c for c in sandwiches if isdeep(c)][:60]
    cases += [c for c in prefunds if not isdeep(c)]
    nwalk = 30 if quick else 400
    rs = vlib.tlc(ctx, "ContractOps.tla", "MC_ContractOps_sim.cfg", workers=1, timeout=1800,
                  extra=["-simulate", "num=%d" % (nwalk * 2), "-depth", "24", "-seed", str(ctx.seed)], simulate=True)
    if rs.error:
        raise vlib.CheckError("simulation of the scenario generator failed: " + (rs.error or "")[:1500])
    rs.exports.sort(key=lambda e: json.dumps(e, sort_keys=True))
    walks = pick_walks(rs.exports, nwalk)
    ctx.log("scenarios: %d transitions of the lifecycle graph (%d states) exported, %d selected (%d sandwich blocks, %d pre-funded creations); %d random walks"
            % (len(ro.exports), ro.distinct, len(cases), len(sandwiches), len(prefunds), len(walks)))
    if not cases or not walks:
        raise vlib.CheckError("no scenarios exported (dead generator)")
    cpath = ctx.path("cases.ndjson")
    with open(cpath, "w") as f:
        for c in cases + walks:
            f.write(json.dumps(c) + "\n")

    # 3. the real code: the scenarios are cut into batches (sorted, so that shared prefixes stay together),
    #    one driver process per batch (a node is never freed: its goroutines run forever), in parallel
    allc = sorted(cases + walks, key=lambda c: (c["c"], c["w"], json.dumps(c["path"])))
    nb = 3 if quick else 12
    per = (len(allc) + nb - 1) // nb
    batches = [allc[i:i + per] for i in range(0, len(allc), per)]

    def run_batch(bi):
        wd = os.path.dirname(ctx.path("wd_%d" % bi, "x"))
        cp = ctx.path("cases_%d.ndjson" % bi)
        with open(cp, "w") as f:
            for c in batches[bi]:
                f.write(json.dumps(c) + "\n")
        tp, sp = ctx.path("trace_%d.ndjson" % bi), ctx.path("summary_%d.json" % bi)
        pr = vlib.run([drv, "-cases", cp, "-out", tp, "-summary", sp], cwd=wd,
                      env={"VERIF_SEED": str(ctx.seed * 1000 + bi), "VERIF_TIER": ctx.tier}, timeout=3400, check=False)
        return bi, pr, tp, sp
    with concurrent.futures.ThreadPoolExecutor(max_workers=max(1, min(nb, ctx.cores // 2))) as ex:
        results = list(ex.map(run_batch, range(len(batches))))
    stats = collections.Counter()
    rows = []
    for bi, pr, tp, sp in results:
        if pr.returncode != 0:
            out = (pr.stdout or "")[-3000:]
            raise vlib.CheckError("driver failed on batch %d (rc=%d):\n%s" % (bi, pr.returncode, out))
        for k, v in json.load(open(sp)).items():
            stats[k] += v
        rows += vlib.read_ndjson(tp)
    ctx.log("real chain: %d scenarios in %d driver processes, %d operations, %d ok / %d failed contract transactions, %d refused by validation, %d trace lines"
            % (stats["cases"], len(batches), stats["ops"], stats["tx_ok"], stats["tx_fail"], stats["rejected"], len(rows)))
    txs = [x for x in rows if x["ev"] == "Tx"]

    # vacuity: the driver must have reached the behaviours the property talks about
    cnt = collections.Counter()
    for x in txs:
        e = x["eff"]
        cnt[(x["c"], x["rc"]["success"])] += 1
        cnt["wasm_ok"] += x["tx"]["wasm"] and x["rc"]["success"]
        cnt["wasm_fail"] += x["tx"]["wasm"] and not x["rc"]["success"]
        cnt["subcall"] += x["tx"]["wasm"] and e["commits"] > 1
        cnt["wasm_transfer"] += x["tx"]["wasm"] and x["rc"]["success"] and len(e["req"]) >= 2
        cnt["wasm_burn"] += x["tx"]["wasm"] and x["rc"]["success"] and bool(e["burnt"])
        cnt["burn"] += bool(e["burnt"]) and x["rc"]["success"]
        cnt["term"] += bool(e["term"]) and x["rc"]["success"]
        cnt["stake_move"] += bool(e["sh"]["moved"]) and x["rc"]["success"]
        cnt["transfer"] += len(e["req"]) >= 2 and x["rc"]["success"]
        cnt["pair"] += x["mid"]
        subdep = bool(e["deployed"]) or bool(e["sh"].get("deployed"))
        created = x["tx"]["kind"] == "deploy" or subdep
        main = x.get("role") != "tail"
        cnt["subdeploy_ok"] += x["tx"]["kind"] == "call" and x["rc"]["success"] and subdep
        cnt["prefunded_toplevel_deploy_ok"] += bool(x.get("prefunded")) and main and x["tx"]["kind"] == "deploy" and x["rc"]["success"]
        cnt["prefunded_toplevel_deploy_failed"] += bool(x.get("prefunded")) and main and x["tx"]["kind"] == "deploy" and not x["rc"]["success"]
        cnt["prefunded_embedded_deploy_ok"] += bool(x.get("prefunded")) and main and x["tx"]["kind"] == "deploy" and x["rc"]["success"] and not x["tx"]["wasm"]
        cnt["prefunded_subdeploy_ok"] += bool(x.get("prefunded")) and main and x["tx"]["kind"] == "call" and x["rc"]["success"] and subdep
        cnt["prefunded_in_same_block"] += bool(x.get("prefunded")) and main and x["op"]["pair"] in ("pf-mid", "pf-mid-emb") and x["rc"]["success"] and created
        cnt["funded_in_same_tx_subdeploy_ok"] += x["op"]["m"] == "payspawn" and main and x["rc"]["success"] and subdep
        cnt["fail_after_writes"] += (not x["rc"]["success"]) and e["sh"]["ran"] and e["sh"]["ok"] and bool(e["sh"]["writes"])
        cnt["escrow_refund"] += (not x["rc"]["success"]) and bool(x["tx"]["amount"]) and (x["tx"]["kind"] == "call" or x["tx"]["wasm"])
        cnt["out_of_gas"] += (not x["rc"]["success"]) and "gas" in x["err"].lower()
        # the maximum fee is not a whole number of gas units and the run used up everything it bought (truncation boundary)
        cnt["out_of_gas_with_fee_remainder"] += (not x["rc"]["success"]) and "gas" in x["err"].lower() and x["op"]["gas"] in ("smallhalf", "smallrem")
    # blocks with several transactions
    blkl = []
    for x in rows:
        if x["ev"] == "Reset":
            blkl = []
            continue
        if x["ev"] not in ("Tx", "Plain"):
            continue
        blkl.append(x)
        if x["ev"] == "Tx" and not x["mid"]:
            ctxs = [y for y in blkl if y["ev"] == "Tx"]
            oks = [y for y in ctxs if y["rc"]["success"]]
            if len(blkl) > 1:
                cnt["multi_tx_blocks"] += 1
                cnt["sandwich_two_successes"] += len(oks) >= 2
                cnt["sandwich_three_contract_txs"] += len(ctxs) >= 3
                cnt["sandwich_first_ok_last_fails"] += len(ctxs) >= 2 and ctxs[0]["rc"]["success"] and not ctxs[-1]["rc"]["success"]
                cnt["sandwich_embedded_and_wasm"] += any(y["tx"]["wasm"] for y in oks) and any(not y["tx"]["wasm"] for y in oks)
                first, lastx = ctxs[0], ctxs[-1]
                moved = first["rc"]["success"] and not first["tx"]["wasm"] and len(first["eff"]["req"]) >= 1
                cnt["sandwich_env_move_then_embedded_success"] += moved and lastx["rc"]["success"] and not lastx["tx"]["wasm"] and len(ctxs) >= 2
                cnt["sandwich_outside_change_between"] += moved and any(y["ev"] == "Plain" for y in blkl) and lastx["rc"]["success"] and not lastx["tx"]["wasm"]
                cnt["sandwich_own_sender_paid"] += moved and any(q["a"] == first["tx"]["from"] for q in first["eff"]["req"]) and lastx["rc"]["success"] and not lastx["tx"]["wasm"]
            blkl = []
    need = ["subdeploy_ok", "prefunded_toplevel_deploy_ok", "prefunded_toplevel_deploy_failed", "prefunded_embedded_deploy_ok",
            "prefunded_subdeploy_ok", "prefunded_in_same_block", "funded_in_same_tx_subdeploy_ok"]
    need += ["sandwich_two_successes", "sandwich_three_contract_txs", "sandwich_first_ok_last_fails", "sandwich_embedded_and_wasm",
            "sandwich_env_move_then_embedded_success", "sandwich_outside_change_between", "sandwich_own_sender_paid"]
    need += ["wasm_ok", "wasm_fail", "subcall", "wasm_transfer", "wasm_burn", "burn", "term", "stake_move", "transfer", "pair", "fail_after_writes", "escrow_refund", "out_of_gas", "out_of_gas_with_fee_remainder"]
    need += [(c, True) for c in EMBEDDED] + [(c, False) for c in EMBEDDED]
    dead = [str(k) for k in need if not cnt[k]]
    if dead:
        raise vlib.CheckError("dead driver: never observed %s (stats %s)" % (", ".join(dead), json.dumps(stats)[:1500]))

    # 4. verdict: TLC validates the trace (in chunks cut at Reset lines); in the same pool the binding self-test:
    #    a prefix of the first chunk in which a bystander's balance changes in a failed transaction must be rejected
    size = 1200 if quick else 2500
    chs = chunks_of(rows, size)
    paths = []
    for i, ch in enumerate(chs):
        pth = ctx.path("chunks", "chunk_%d.ndjson" % i)
        vlib.write_ndjson(pth, ch)
        paths.append(pth)

    def mutate(rows_):
        for row in rows_:
            if row.get("ev") == "Tx" and not row["mid"] and not row["rc"]["success"]:
                for a in row["st"]:
                    if a["a"] not in (row["tx"]["from"], "k0") and a["bal"]:
                        a["bal"][0] = (a["bal"][0] + 1) % 10000
                        return rows_
        return None
    badrows = mutate(json.loads(json.dumps(chs[0][:400])))
    if badrows is None:
        raise vlib.CheckError("self-test could not build a corrupted trace")
    badp = ctx.path("selftest", "bad.ndjson")
    vlib.write_ndjson(badp, badrows)
    jobs = list(enumerate(paths)) + [(len(paths), badp)]
    with concurrent.futures.ThreadPoolExecutor(max_workers=max(1, min(6, ctx.cores // 2))) as ex:
        infos = list(ex.map(lambda a: validate_chunk(ctx, a[0], a[1]), jobs))
    badinfo = infos.pop()
    drift = sum(i["drift"] for i in infos)
    for ci, info in enumerate(infos):
        if "rejected_at" in info and not info["broken"]:
            raise vlib.CheckError("trace chunk %d not consumed completely (line %s): malformed trace" % (ci, info.get("rejected_at")))
        ch = chs[ci]
        for line, clause in info["broken"]:
            if clause == "MidNotDetermined":
                raise vlib.CheckError("trace line %d of chunk %d: first transaction of a block without a determined outcome (harness error)" % (line, ci))
            bad = ch[line - 1]
            start = max(i for i in range(line) if ch[i].get("ev") == "Reset")
            exf = ctx.path("replay_%s_%d.ndjson" % (clause, ci))
            vlib.write_ndjson(exf, ch[start:line])
            key = violation_key(clause, bad)
            slim = {k: bad.get(k) for k in ("c", "mainc", "role", "op", "tx", "rc", "err", "eff", "mid")}
            bstart = line - 1
            while bstart - 1 > start and (ch[bstart - 1]["ev"] == "Plain" or (ch[bstart - 1]["ev"] == "Tx" and ch[bstart - 1]["mid"])):
                bstart -= 1
            blockops = [("%s %s.%s %s" % (y.get("role"), y.get("c"), y.get("method"), "ok" if y["rc"]["success"] else "failed")) if y["ev"] == "Tx"
                        else "plain %s->%s" % (y["from"], y["to"]) for y in ch[bstart:line] if y["ev"] in ("Tx", "Plain")]
            vlib.report_violation(ctx, key, "clause %s broken by the real node on %s (%s, success=%s, error=%r; block: %s); observed %s"
                                  % (clause, signature(bad), json.dumps(bad.get("op")), bad["rc"]["success"], bad.get("err"), blockops,
                                     json.dumps(slim)[:900]),
                                  replay_src=exf, payload={"clause": clause, "line": slim, "block": blockops})
    if not infos[0]["broken"] and not badinfo["broken"]:
        raise vlib.CheckError("binding self-test failed: corrupted trace was accepted by Trace_ContractTx.tla")
    if not infos[0]["broken"]:
        ctx.log("binding self-test: corrupted trace rejected (%s at line %s)" % (badinfo["broken"][0][1], badinfo["broken"][0][0]))

    # coverage against the envelope model
    obs_classes = set()
    obs_acts = collections.Counter()
    for x in txs:
        k, acts = observed_class(x)
        obs_classes.add(k)
        for a in acts:
            obs_acts[a] += 1
    covered = obs_classes & model_classes
    outside = sorted(str(k) for k in obs_classes - model_classes)
    if outside:
        ctx.notes.append("observed transaction classes outside the bounded envelope model: %s" % outside[:8])
    samples = []
    for x in txs:
        if x["rc"]["success"] and len(x["eff"]["req"]) >= 2 and len(samples) < 2:
            samples.append({"contract": x["c"], "op": x["op"], "success": True, "gasUsed": x["rc"]["gasUsed"]})
        if not x["rc"]["success"] and x["eff"]["sh"]["writes"] and len(samples) < 4 and len(samples) >= 2:
            samples.append({"contract": x["c"], "op": x["op"], "success": False, "error": x["err"]})
    cov = {
        "states": r.distinct + ro.distinct + blk_states, "transitions": r.generated + ro.generated,
        "block_model_states": blk_states,
        "envelope_model": {"cfg": cfg, "distinct": r.distinct, "generated": r.generated, "classes": len(model_classes)},
        "scenario_model": {"cfg": ocfg, "lifecycle_states": ro.distinct, "transitions_exported": len(ro.exports)},
        "traces_validated_against_impl": len(cases) + len(walks),
        "contract_txs_validated": len(txs),
        "trace_lines_validated": len(rows),
        "envelope_classes_covered": "%d/%d" % (len(covered), len(model_classes)),
        "observed": {str(k): int(v) for k, v in cnt.items()},
        "observed_effect_kinds": dict(obs_acts),
        "refused_by_validation": stats.get("rejected", 0),
        "expected_progress_failed": stats.get("good_but_failed", 0),
        "drift_steps": drift,
        "samples": samples,
        "exhaustive": False,
        "rule": "envelope model explored exhaustively within bounds; every operation class (method x argument class x pay-amount class x "
                "gas class x caller role x pair, <= %d deviations from the well-formed default) attempted in every lifecycle state of the 5 "
                "embedded, 5 bundled wasm and 1 hand-assembled wasm contracts: %d sampled transitions (all well-formed ones) + %d random walks of 24 operations, "
                "each executed on a real chain, one contract transaction per block (two for pair operations); %d sandwich blocks "
                "(operation + balance change outside the contract environment + further contract transactions of the same / another "
                "embedded / wasm contract, 24 shapes, body order chosen through the repository's block assembly shim)"
                % (2 if quick else 3, len(cases), len(walks), len(sandwiches)),
    }
    return vlib.finish(ctx, "model_checking", cov, assumptions=[
        "the proposer of every block is not a party of the contract transaction (block rewards touch the proposer only)",
        "inside a block with several transactions only the state after the block is observed; the state between two transactions is the specified outcome of the earlier ones (carried by the trace specification), and the recording environments read from the pre-state with the earlier transactions applied one by one, each with a VM of its own (VerifApplyTxFresh shim)",
        "requested balances, burns and wasm deployments are read from the node's own accounting callbacks (stats collector) during the real run",
        "requested store writes / stake moves of embedded contracts are obtained by running the real contract code against a recording environment on the committed pre-state",
        "requested store writes of wasm contracts are obtained by running the contract code with the bought gas through a recording host environment wrapped around the node's own environment object, on a throw-away copy of the committed pre-state",
        "oracle-voting termination (needs > 30000 blocks of waiting) is not reached",
    ])
