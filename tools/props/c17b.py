"""C17 part (b) — the epoch result depends only on data recorded in blocks: real validation ceremonies in variants.

1. TLC explores spec/CeremonyRun.tla (one node going through a ceremony: Add per block, Restart, evaluations of
   proposals for the epoch height, fork switch, rollback of the epoch block; implementation-shaped: per-height
   result cache, persist / restore, completeEpoch) exhaustively within bounds, checks the design-level invariants
   (PersistComplete, StoreMatchesChain, NoForkSame, RepairedSame) and exports EVERY complete behaviour with the
   model's prediction for each evaluation, plus the layout table (where the network puts the ceremony
   transactions).  Behaviours in which the model itself predicts a stale evaluation are candidates: only what the
   real code does with them counts.
2. harness/cmd/d_ceremonyrun runs scripted ceremonies on REAL nodes (real ValidationCeremony objects attached to
   real chains, see the driver's header for what is bypassed): seeded populations with good / absent / partial /
   wrong / unconfirmed / reporting / late participants, identities that lack required flips, an invitation that is
   never activated; every second population is split into TWO SHARDS by the real balanceShards (driver built with small
   shard size limits) and has per-shard participation patterns whose evidence disagrees at the same bit positions; every sampled behaviour is replayed literally by a node (>= 3 nodes per scenario + the
   proposers that built the chains), every call of ApplyNewEpoch and every insertion of the epoch block is logged.
3. TLC validates the trace against spec/Trace_CeremonyRun.tla: SameResult (every evaluation = the reference result
   of its chain, every node accepts the block and reaches the reference roots, layout groups agree),
   AbsentNotValidated, InviteKilled, DeadStaysDead on the observed statuses; the model's predictions are compared
   too (drift, reported only).  Verdict through the postcondition (CLAUSE_BROKEN lines).
"""
import collections
import concurrent.futures
import json
import os
import random

import vlib

CLOCKS = ["blockchain/blockchain.go", "core/ceremony/ceremony.go", "core/appstate/evidence_map.go"]
SLOTS = ["Lot", "S0", "S1", "L0", "L1", "L2", "A0", "A1", "Clean", "Epoch"]
EVALS = ("Validate", "ValidateAlt", "Propose")
STALE_CLASSES = ("fork-switch-after-evaluation", "epoch-block-rolled-back")
PLAIN = ["Add"] * len(SLOTS)
TRACE_SPEC = ("Trace_CeremonyRun.tla", "Trace_CeremonyRun.cfg")
STATUS = {0: "Undefined", 1: "Invite", 2: "Candidate", 3: "Verified", 4: "Suspended", 5: "Killed", 6: "Zombie", 7: "Newbie", 8: "Human"}


def vclass(b):
    """Variant class of a behaviour: the node-local circumstance it exercises (stable: used in violation keys).  A node
    that also learns the blocks days later carries the suffix +late, except in the two fork classes in which the
    implementation-shaped model itself predicts a stale evaluation (lateness plays no part in that mechanism)."""
    c = vclass0(b["hist"], b["layout"], b["late"])
    return c + "+late" if b["late"] and c != "late-sync" and c not in STALE_CLASSES else c


def vclass0(hist, layout, late):
    if "Rollback" in hist:
        return "epoch-block-rolled-back"
    if "Switch" in hist:
        # does a result cached for the epoch height on the abandoned fork survive until the node evaluates on fork b?
        i = hist.index("Switch")
        cached = False
        for a in hist[:i]:
            cached = True if a in EVALS else (False if a == "Restart" else cached)
        nxt = next((a for a in hist[i + 1:] if a in EVALS or a == "Restart"), "Add")
        if cached and nxt != "Restart":
            return "fork-switch-after-evaluation"
        # the process is replaced after the switch: what the reset handler PERSISTED (not only what it kept in memory) decides
        return "fork-switch-then-restart" if "Restart" in hist[i + 1:] else "fork-switch"
    if "Restart" in hist:
        return "restart-after-" + SLOTS[hist[:hist.index("Restart")].count("Add") - 1]
    evs = [a for a in hist if a in EVALS]
    if "Propose" in evs:
        return "own-proposal-first"
    if "ValidateAlt" in evs:
        return "other-proposal-first"
    if evs:
        return "cached-reevaluation"
    if late:
        return "late-sync"
    if layout != "l0":
        return "block-layout"
    return "plain"


REQUIRED_CLASSES = ["plain", "block-layout", "late-sync", "cached-reevaluation", "other-proposal-first", "own-proposal-first",
                    "fork-switch", "fork-switch-then-restart", "fork-switch-after-evaluation", "epoch-block-rolled-back"] + ["restart-after-" + s for s in SLOTS[:-1]]


def sample(behaviours, rnd, per_class, per_stale):
    by = collections.defaultdict(list)
    for b in behaviours:
        by[b["vclass"]].append(b)
    res = []
    for c in sorted(by):
        lst = by[c]
        rnd.shuffle(lst)
        n = per_stale if c in STALE_CLASSES else per_class
        seen, picked, rest = set(), [], []
        for b in lst:                      # distinct shapes first
            k = tuple(b["hist"])
            (rest if k in seen else picked).append(b)
            seen.add(k)
        res += (picked + rest)[:n]
    return res, {c: len(v) for c, v in by.items()}


def compose(chosen, rnd, npops, per_scenario):
    """Scenarios: nodes of one population, a plain node first, at most two layouts besides l0."""
    by_pop = collections.defaultdict(list)
    for b in chosen:
        by_pop[rnd.randrange(npops)].append(b)
    scenarios = []
    sid = 0
    for pop in sorted(by_pop):
        lst = by_pop[pop]
        lst.sort(key=lambda b: b["layout"])
        for i in range(0, len(lst), per_scenario):
            part = lst[i:i + per_scenario]
            nodes = [{"name": "n0", "layout": "l0", "late": False, "key": 1 + rnd.randrange(9), "hist": PLAIN, "vclass": "plain"}]
            for j, b in enumerate(part):
                nodes.append({"name": "n%d" % (j + 1), "layout": b["layout"], "late": b["late"], "key": rnd.randrange(12),
                              "hist": b["hist"], "vclass": b["vclass"]})
            while len(nodes) < 3:
                nodes.append({"name": "n%d" % len(nodes), "layout": "l0", "late": True, "key": 0, "hist": PLAIN, "vclass": "late-sync"})
            scenarios.append({"sid": sid, "pop": pop, "nodes": nodes})
            sid += 1
    return scenarios


def run_driver_parts(ctx, drv, pfile, scenarios, nproc):
    """One driver process per group of populations (a population's chains are built once per process)."""
    pops = sorted({s["pop"] for s in scenarios})
    parts = [[] for _ in range(min(nproc, len(pops)))]
    for i, p in enumerate(pops):
        parts[i % len(parts)] += [s for s in scenarios if s["pop"] == p]

    def one(i):
        sf = ctx.path("parts", "scen_%02d.json" % i)
        vlib.write_ndjson(sf, parts[i])
        tf = ctx.path("parts", "trace_%02d.ndjson" % i)
        wd = ctx.path("wd%02d" % i, "x")
        e = dict(os.environ)
        e.update(vlib.GOENV)
        e.update({"VERIF_SEED": str(ctx.seed), "VERIF_TIER": ctx.tier})
        import subprocess
        try:
            p = subprocess.run([drv, "-params", pfile, "-scenarios", sf, "-out", tf], cwd=os.path.dirname(wd), env=e, timeout=3000,
                               stdout=subprocess.PIPE, stderr=subprocess.STDOUT, text=True, errors="replace")
        except subprocess.TimeoutExpired:
            raise vlib.CheckError("driver timed out")
        return p, tf

    with concurrent.futures.ThreadPoolExecutor(max_workers=len(parts)) as ex:
        return list(ex.map(one, range(len(parts))))


def validate_parts(ctx, files, tag):
    def one(a):
        i, f = a
        r = vlib.tlc(ctx, TRACE_SPEC[0], TRACE_SPEC[1], workers=1, env={"TRACE_FILE": f}, timeout=3000, sub="tv_%s_%02d" % (tag, i), want_exports=False)
        import re
        info = {"states": r.distinct, "broken": [], "drift": 0, "rejected": None, "ok": r.ok}
        for line in r.out.splitlines():
            m = re.match(r'<<"DRIFT", (\d+)>>', line)
            if m:
                info["drift"] = int(m.group(1))
            m = re.match(r'<<"TRACE_REJECTED_AT", (\d+), (\d+)>>', line)
            if m:
                info["rejected"] = int(m.group(1))
            m = re.match(r'<<"DRIFT_AT", (\d+), "([^"]*)", "([^"]*)">>', line)
            if m:
                info.setdefault("drift_at", []).append((int(m.group(1)), m.group(2), m.group(3)))
            m = re.match(r'<<"CLAUSE_BROKEN", (\d+), "([^"]*)">>', line)
            if m:
                info["broken"].append((int(m.group(1)), m.group(2)))
        if not r.ok and (info["rejected"] is not None or not info["broken"]):
            raise vlib.CheckError("TLC could not consume the recorded trace (not a verdict), stopped at line %s of %s:\n%s"
                                  % (info["rejected"], f, r.out[-2500:]))
        return info
    with concurrent.futures.ThreadPoolExecutor(max_workers=4) as ex:
        return list(ex.map(one, enumerate(files)))


def describe(rows, line, scen_by_sid):
    e = rows[line - 1]
    sc = scen_by_sid.get(e.get("sid"), {})
    node = next((n for n in sc.get("nodes", []) if n["name"] == e.get("node")), None)
    ref = None
    for x in rows[:line - 1]:
        if x.get("sid") == e.get("sid") and x.get("grp") == e.get("grp") and x.get("ev") == e.get("ev") and \
                str(x.get("node", "")).startswith("builder") and x.get("chain") == e.get("chain"):
            ref = x
            break
    what = "population %s, layout %s, node %s" % (sc.get("pop"), e.get("grp"), e.get("node"))
    if node:
        what += " (key k%d%s) behaviour %s" % (node["key"], ", learns the blocks days later" if node["late"] else "", "/".join(node["hist"]))
    if e.get("ev") == "Eval":
        what += "; ApplyNewEpoch (%s, chain %s) returned result %s, %d validated, failed=%s, statuses %s" % (
            e["kind"], e["chain"], e["res"], e["count"], e["failed"], [STATUS.get(x[0], x[0]) for x in e["st"]])
        if ref:
            what += "; the proposer of that chain got %s, %d validated, statuses %s" % (ref["res"], ref["count"], [STATUS.get(x[0], x[0]) for x in ref["st"]])
    elif e.get("ev") == "Commit":
        what += "; inserting the epoch block of chain %s: %s, roots %s/%s" % (e["chain"], e["verdict"], e["root"], e["idroot"])
        if ref:
            what += "; the proposer reached %s/%s" % (ref["root"], ref["idroot"])
    return what, node, sc


def offenders(rows, line, clause):
    """Which identities make a status clause fail on the offending line (for the message only; TLC decided)."""
    e = rows[line - 1]
    chain = "a" if e.get("chain") == "a2" else e.get("chain")
    ch = next((x for x in rows[:line] if x["ev"] == "Chain" and x.get("sid") == e.get("sid") and x.get("grp") == e.get("grp") and x.get("chain") == chain), None)
    if ch is None:
        return ""
    sts = [x[0] for x in e["st"]] if e["ev"] == "Eval" else e["post"]
    res = []
    ms = e.get("ms") or [None] * len(sts)
    for f, s_, m in zip(ch["facts"], sts, ms):
        missed = (not f["cand"]) or (not f["flipsDone"]) or (not f["short"]) or (not f["long"]) or 2 * f["appr"] <= f["maps"]
        bad = (clause == "AbsentNotValidated" and missed and s_ in (3, 7, 8)) or \
              (clause == "PresentNotMissed" and not missed and m != 0) or \
              (clause == "InviteKilled" and f["prev"] == 1 and s_ not in (5, 0 if e["ev"] == "Commit" else 5)) or \
              (clause == "DeadStaysDead" and f["prev"] in (0, 5) and s_ not in (0, 5))
        if bad:
            res.append("identity k%d (%s before, shard %s position %s; blocks record: candidate=%s requiredFlipsDone=%s answersHash=%s shortAnswers=%s longAnswers=%s, "
                       "confirmed by %d of the %d evidence maps of its shard) is %s afterwards%s"
                       % (f["k"], STATUS.get(f["prev"]), f.get("shard"), f.get("idx"), f["cand"], f["flipsDone"], f["hash"], f["short"], f["long"], f["appr"], f["maps"],
                          STATUS.get(s_), {1: ", treated as having missed the validation", 2: ", not evaluated as a candidate"}.get(m, "")))
    return "; ".join(res)


def selftest(ctx, rows):
    """Binding self-test on the first scenario (without the nodes of the classes the model itself predicts stale):
    accepted as recorded; rejected with a changed result digest (SameResult) and with the blocks' facts changed so that
    a validated identity has no short answers (AbsentNotValidated)."""
    first = []
    for r in rows:
        if r["ev"] == "Scenario" and first:
            break
        if r.get("variant") in STALE_CLASSES:
            continue
        first.append(r)
    good = ctx.path("selftest", "good.ndjson")
    vlib.write_ndjson(good, first)
    info = validate_parts(ctx, [good], "self_good")[0]
    if not info["ok"]:
        return False       # the verdict run reports it
    bad1 = json.loads(json.dumps(first))
    tgt = max(i for i, r in enumerate(bad1) if r["ev"] == "Eval" and not r["node"].startswith("builder"))
    bad1[tgt]["res"] = "0" * 16
    bad2 = json.loads(json.dumps(first))
    ref = next(r for r in bad2 if r["ev"] == "Eval" and r["chain"] == "a")
    ch = next(r for r in bad2 if r["ev"] == "Chain" and r["chain"] == "a")
    k = next((i for i, s in enumerate(ref["st"]) if s[0] in (3, 7, 8) and ch["facts"][i]["short"]), None)
    if k is None:
        raise vlib.CheckError("self-test: nobody validated in the first scenario (dead driver)")
    ch["facts"][k]["short"] = False
    bad3 = json.loads(json.dumps(first))
    ref3 = next(r for r in bad3 if r["ev"] == "Eval" and r["chain"] == "a")
    ch3 = next(r for r in bad3 if r["ev"] == "Chain" and r["chain"] == "a")
    k3 = next((i for i, f in enumerate(ch3["facts"]) if f["cand"] and f["flipsDone"] and f["short"] and f["long"] and 2 * f["appr"] > f["maps"] and ref3["ms"][i] == 0), None)
    if k3 is None:
        raise vlib.CheckError("self-test: no present and confirmed identity in the first scenario (dead driver)")
    ref3["ms"][k3] = 1
    for name, bad, want, at in (("digest", bad1, "SameResult", tgt + 1), ("facts", bad2, "AbsentNotValidated", None), ("missed", bad3, "PresentNotMissed", None)):
        bp = ctx.path("selftest", "bad_%s.ndjson" % name)
        vlib.write_ndjson(bp, bad)
        info = validate_parts(ctx, [bp], "self_" + name)[0]
        hit = [(ln, c) for ln, c in info["broken"] if c.startswith(want + ":")]
        if info["ok"] or not hit or (at is not None and hit[0][0] != at):
            raise vlib.CheckError("binding self-test failed: corrupted trace (%s) not rejected as %s: %s" % (name, want, info))
    ctx.log("binding self-test: changed result digest rejected (SameResult), identity made absent in the blocks' facts rejected (AbsentNotValidated), "
            "confirmed identity recorded as missed rejected (PresentNotMissed)")
    return True


MIN_SHARD, MAX_SHARD = 5, 12


def build_driver_small_shards(ctx):
    """vlib.build_driver with one more overlay entry: common/sharding.go with small shard size limits (a copy of the
    CURRENT file in which only the two numbers are replaced).  The shard limits are compile-time constants (2400 / 5000
    identities); with small ones the REAL balanceShards splits a population of a dozen identities into two shards at
    the end of the first validation (SetShardsNum, per-identity SetShardId, shard sizes: all set by the repository's
    code), populations below the limit stay in one shard."""
    import re
    import time
    vlib.ensure_gosum()
    ov = vlib.build_overlay(ctx, CLOCKS)
    src = os.path.join(vlib.REPO, "common", "sharding.go")
    try:
        text = open(src).read()
    except OSError as ex:
        raise vlib.CheckError("cannot read %s: %s" % (src, ex))
    text, n1 = re.subn(r"(?m)^const MinShardSize = \d+$", "const MinShardSize = %d" % MIN_SHARD, text)
    text, n2 = re.subn(r"(?m)^const MaxShardSize = \d+$", "const MaxShardSize = %d" % MAX_SHARD, text)
    if n1 != 1 or n2 != 1:
        raise vlib.CheckError("common/sharding.go changed shape: cannot derive the small-shard copy for the build overlay")
    dst = os.path.join(os.path.dirname(ov), "sharding_small.go")
    with open(dst, "w") as f:
        f.write(text)
    doc = json.load(open(ov))
    doc["Replace"][src] = dst
    ov2 = os.path.join(os.path.dirname(ov), "overlay_small_shards.json")
    with open(ov2, "w") as f:
        json.dump(doc, f, indent=1)
    out = ctx.path("bin", "d_ceremonyrun")
    t = time.time()
    p = vlib.run(["go", "build", "-tags", "verif", "-overlay", ov2, "-o", out, "./cmd/d_ceremonyrun"], cwd=vlib.HARNESS, timeout=1800, check=False)
    if p.returncode != 0:
        raise vlib.CheckError("harness build failed:\n" + (p.stdout or "")[-6000:])
    ctx.log("built d_ceremonyrun (shard size limits %d / %d) in %.1fs" % (MIN_SHARD, MAX_SHARD, time.time() - t))
    return out


def ceremony_panic(out):
    """A panic raised inside the repository's ceremony code (not one of the driver's own consistency panics)."""
    i = out.find("panic:")
    if i < 0:
        i = out.find("fatal error:")
    if i < 0:
        return False
    j = out.find("[running]:", i)
    stack = out[j:j + 6000] if j >= 0 else out[i:i + 6000]
    c, m = stack.find("idena-go/core/ceremony."), stack.find("\nmain.")
    return c >= 0 and (m < 0 or c < m)


def run(ctx, quick):
    rnd = random.Random(ctx.seed * 7919 + 17)
    drv = build_driver_small_shards(ctx)

    # 1. the bounded model: invariants + export of every complete behaviour
    cfg = "MC_CeremonyRun_quick.cfg" if quick else "MC_CeremonyRun_thorough.cfg"
    r = vlib.tlc(ctx, "MC_CeremonyRun.tla", cfg, workers=4 if quick else 8, timeout=3000)
    if not r.ok:
        raise vlib.CheckError("design-level CeremonyRun model violates %s (model-only, not a verdict):\n%s" % (r.invariant, (r.error or "")[:2000]))
    rr = vlib.tlc(ctx, "MC_CeremonyRun.tla", "MC_CeremonyRun_repaired.cfg", workers=4, timeout=3000, want_exports=False)
    if not rr.ok:
        raise vlib.CheckError("the repaired design (cache keyed by the evaluated parent) does not have SameResult in the model: %s" % (rr.error or "")[:1500])
    params = [e for e in r.exports if "params" in e]
    behaviours = [e for e in r.exports if "hist" in e]
    if len(params) != 1 or not behaviours:
        raise vlib.CheckError("model exported %d parameter lines and %d behaviours" % (len(params), len(behaviours)))
    # TLC's workers print in no particular order: the sample must be a function of the seed alone
    behaviours.sort(key=lambda b: (b["hist"], b["layout"], b["late"]))
    for b in behaviours:
        b["vclass"] = vclass(b)
    n_stale = sum(1 for b in behaviours if not b["same"])
    odd = [b for b in behaviours if (b["vclass"] in STALE_CLASSES) != (not b["same"])]
    if odd and n_stale:
        ctx.notes.append("the model (CacheByHeight as configured) predicts %d behaviours differently from their variant class, e.g. %s"
                         % (len(odd), json.dumps(odd[0])[:300]))
    shapes = len({tuple(b["hist"]) for b in behaviours})
    ctx.log("model: %d generated / %d distinct states; %d complete behaviours (%d shapes) exported, %d of them predicted stale "
            "(candidates); repaired design: SameResult holds (%d states)" % (r.generated, r.distinct, len(behaviours), shapes, n_stale, rr.distinct))
    pfile = ctx.path("params.json")
    with open(pfile, "w") as f:
        json.dump(params[0], f)

    # 2. sample behaviours, compose scenarios, run them on real nodes
    if getattr(ctx, "replay", None):
        doc = json.load(open(ctx.replay))
        ctx.seed = doc.get("seed", ctx.seed)       # populations are a function of the seed
        scenarios = [doc["payload"]["scenario"]]
        chosen, classes = [n for n in scenarios[0]["nodes"]], {}
        npops, nproc = 1, 1
    else:
        per_class, per_stale, npops, per_scen, nproc = (7, 4, 4, 10, 4) if quick else (250, 60, 16, 10, 12)
        chosen, classes = sample(behaviours, rnd, per_class, per_stale)
        missing = [c for c in REQUIRED_CLASSES if c not in classes]
        if missing:
            raise vlib.CheckError("model never produced behaviours of class(es) %s (vacuous bounds)" % missing)
        scenarios = compose(chosen, rnd, npops, per_scen)
    results = run_driver_parts(ctx, drv, pfile, scenarios, nproc)
    files = []
    for p, tf in results:
        out = (p.stdout or "")[-4000:]
        if p.returncode == 3 and "PROPOSER-REFUSED-OWN-EPOCH-BLOCK" in (p.stdout or ""):
            msg = (p.stdout or "").split("PROPOSER-REFUSED-OWN-EPOCH-BLOCK", 1)[1].strip()[:1500]
            vlib.report_violation(ctx, "C17:SameResult:proposer-own-block", "first evaluation and cached re-evaluation disagree on the proposer's own node: " + msg)
            return {"states": r.distinct, "transitions": r.generated, "traces_validated_against_impl": 0, "samples": [msg[:400]]}
        if p.returncode == 3 and "NODE-REFUSED-EPOCH-BLOCK" in (p.stdout or ""):
            msg = (p.stdout or "").split("NODE-REFUSED-EPOCH-BLOCK", 1)[1].strip()[:1500]
            variant = msg.split()[0].replace("variant=", "")
            vlib.report_violation(ctx, "C17:SameResult:%s" % variant, "a node evaluates an epoch block of the common history differently from its proposer: " + msg)
            return {"states": r.distinct, "transitions": r.generated, "traces_validated_against_impl": 0, "samples": [msg[:400]]}
        if p.returncode != 0:
            if ceremony_panic(p.stdout or ""):
                vlib.report_violation(ctx, "C17:panic", "the ceremony code panicked while a node went through a scripted ceremony: " + out[:1200])
                return {"states": r.distinct, "transitions": r.generated, "traces_validated_against_impl": 0, "samples": [out[:400]]}
            raise vlib.CheckError("driver failed:\n" + out)
        files.append(tf)
    n_nodes = sum(len(s["nodes"]) for s in scenarios)
    ctx.log("ran %d scenarios / %d node behaviours (+ proposers) on real nodes in %d driver processes" % (len(scenarios), n_nodes, len(files)))

    # 3. TLC decides
    infos = validate_parts(ctx, files, "v")
    scen_by_sid = {s["sid"]: s for s in scenarios}
    all_rows = []
    broken_total, drift, states = [], 0, 0
    for f, info in zip(files, infos):
        rows = vlib.read_ndjson(f)
        if info["states"] != len(rows) + 1:
            raise vlib.CheckError("trace %s not consumed completely (%s states for %d lines)" % (f, info["states"], len(rows)))
        drift += info["drift"]
        states += info["states"]
        for line, cv in info["broken"]:
            broken_total.append((rows, line, cv))
        for line, pred, obs in info.get("drift_at", [])[:5]:
            e = rows[line - 1]
            sc = scen_by_sid.get(e.get("sid"), {})
            node = next((n for n in sc.get("nodes", []) if n["name"] == e.get("node")), {})
            note = ("drift: model predicted class '%s', real evaluation was '%s' (seed %s, population %s, layout %s, node key %s, late %s, behaviour %s, %s on chain %s)"
                    % (pred, obs, ctx.seed, sc.get("pop"), e.get("grp"), node.get("key"), node.get("late"), "/".join(node.get("hist", [])), e.get("kind"), e.get("chain")))
            ctx.notes.append(note)
            ctx.log(note)
        all_rows.append(rows)
    flat = [x for rows in all_rows for x in rows]

    # dead-driver checks
    commits = sum(1 for x in flat if x["ev"] == "Commit" and not x["node"].startswith("builder"))
    evals = sum(1 for x in flat if x["ev"] == "Eval" and not x["node"].startswith("builder"))
    restarts = sum(1 for x in flat if x["ev"] == "Step" and x["act"] == "Restart")
    if commits < n_nodes or evals < n_nodes or (restarts == 0 and not getattr(ctx, "replay", None)):
        raise vlib.CheckError("dead driver: %d node behaviours, %d commits, %d evaluations, %d restarts recorded" % (n_nodes, commits, evals, restarts))
    refs = [x for x in flat if x["ev"] == "Eval" and x["node"] == "builder-a" and x["kind"] == "craft"]
    chains = {(x["sid"], x["grp"]): x for x in flat if x["ev"] == "Chain" and x["chain"] == "a"}
    n_missed = n_valid = n_invites = n_noflips = n_present = n_cross = n_two = 0
    for x in refs:
        facts = chains[(x["sid"], x["grp"])]["facts"]
        if not x.get("msok"):
            raise vlib.CheckError("dead driver: a reference evaluation came without the ceremony's per-identity record (missed flags)")
        if x["failed"]:
            continue
        conf = {}
        for f_, s in zip(facts, x["st"]):
            missed = (not f_["cand"]) or (not f_["flipsDone"]) or (not f_["short"]) or (not f_["long"]) or 2 * f_["appr"] <= f_["maps"]
            n_missed += 1 if missed and f_["prev"] in (2, 3, 4, 6, 7, 8) else 0
            n_present += 0 if missed else 1
            n_valid += 1 if s[0] in (3, 7, 8) else 0
            n_invites += 1 if f_["prev"] == 1 else 0
            n_noflips += 1 if not f_["flipsDone"] else 0
            if f_["cand"]:
                conf[(f_["shard"], f_["idx"])] = (2 * f_["appr"] > f_["maps"], f_["maps"])
        shards = {sh for sh, _ in conf}
        n_two += 1 if len(shards) > 1 else 0
        # positions at which the shards' evidence disagrees and the other shard has enough maps to tip a joint vote
        for (sh, i), (ok, m) in conf.items():
            for sh2 in shards - {sh}:
                if (sh2, i) in conf and conf[(sh2, i)][0] != ok and conf[(sh2, i)][1] > 0:
                    n_cross += 1
    want_two = npops > 1 and not getattr(ctx, "replay", None)
    if not refs or n_missed == 0 or n_valid == 0 or n_invites == 0 or n_noflips == 0 or n_present == 0 or (want_two and (n_two == 0 or n_cross == 0)):
        raise vlib.CheckError("vacuous populations: %d reference evaluations (%d with two shards, %d positions at which the shards' evidence disagrees), "
                              "%d absent identities, %d present and confirmed, %d validated, %d invitations, %d without flips"
                              % (len(refs), n_two, n_cross, n_missed, n_present, n_valid, n_invites, n_noflips))
    ctx.log("validated %d trace lines (%d node evaluations, %d insertions of the epoch block, %d restarts); drift vs model: %d; broken: %s"
            % (len(flat), evals, commits, restarts, drift, sorted({cv for _, _, cv in broken_total}) or "none"))

    seen = set()
    for rows, line, cv in broken_total:
        if cv in seen:
            continue
        seen.add(cv)
        clause, variant = cv.split(":", 1)
        what, node, sc = describe(rows, line, scen_by_sid)
        if clause != "SameResult":
            what = offenders(rows, line, clause) + " [" + what + "]"
        n_same = sum(1 for _, _, c in broken_total if c == cv)
        ex = ctx.path("replay_%s.ndjson" % cv.replace(":", "_"))
        sid = rows[line - 1].get("sid")
        vlib.write_ndjson(ex, [x for x in rows if x.get("sid") == sid and (x.get("node") in (None, rows[line - 1].get("node")) or str(x.get("node")).startswith("builder"))])
        vlib.report_violation(ctx, "C17:%s:%s" % (clause, variant),
                              "clause %s broken on the real ceremony in variant '%s': %s" % (clause, variant, what),
                              replay_src=ex, payload={"scenario": {"sid": 0, "pop": sc.get("pop"), "nodes": [n for n in sc.get("nodes", []) if node and n["name"] in ("n0", node["name"])]},
                                                      "clause": clause, "variant": variant, "driver_parts": n_same})

    # 4. binding self-test
    if not getattr(ctx, "replay", None):
        selftest(ctx, all_rows[0])

    ran = collections.Counter(n["vclass"] for s in scenarios for n in s["nodes"])
    beh = next((x["beh"] for x in flat if x["ev"] == "Scenario"), None)
    return {
        "states": r.distinct, "transitions": r.generated,
        "model_cfg": cfg, "complete_behaviours_exported": len(behaviours), "behaviour_shapes": shapes,
        "behaviours_model_predicts_stale": n_stale,
        "traces_validated_against_impl": n_nodes,
        "scenarios": len(scenarios), "populations": npops,
        "trace_lines_validated": len(flat), "node_evaluations": evals, "epoch_block_insertions": commits, "restarts": restarts,
        "variant_classes_run": dict(ran),
        "absent_identities_judged": n_missed, "present_confirmed_identities_judged": n_present, "invitations_judged": n_invites,
        "identities_without_required_flips": n_noflips, "reference_evaluations_with_two_shards": n_two,
        "positions_where_the_shards_evidence_disagrees": n_cross,
        "drift_vs_model": drift,
        "samples": [{"population_behaviours": beh}, scenarios[0]["nodes"][1], scenarios[-1]["nodes"][-1]],
        "exhaustive": False,
        "rule": "every behaviour of one node within the bounds (<= %s restarts, <= 2 evaluations of a proposal before the epoch block is "
                "inserted, fork switch after slot A1 / Clean, rollback of the epoch block, layouts %s, live / late) explored by TLC and exported; "
                "a seeded sample stratified by variant class x live/late (%s per class) replayed literally on real nodes in %d seeded populations (every second one split into two shards)"
                % ("1" if quick else "2", "l0..l5", "7" if quick else "250", npops),
    }


ASSUMPTIONS = [
    "ceremony transactions are signed by the harness with the participants' keys and payloads from the repository's encoders; the RPC entry "
    "points, real flip pictures, flip key packages and their gossip are not exercised (a node's own evidence depends on them, its evaluation does not)",
    "populations of 12 identities in one shard and of 21 identities in two shards (split by the real balanceShards; the driver is built with "
    "shard size limits 5 / 12 instead of 2400 / 5000 through the build overlay, nothing else of common/sharding.go changes); the god identity proposes "
    "every block (nobody is online), consensus configuration = repository default with all upgrades",
    "blocks are assembled through the verif shim VerifCraftBlock (same functions as ProposeBlock, scripted body and time); one variant "
    "evaluates the node's own real ProposeBlock",
    "a restart = new node objects (Blockchain, AppState, TxPool, KeysPool, Flipper, ValidationCeremony) over the same database between two blocks",
    "missed = no short or no long answers recorded in blocks, or not confirmed by more than half of the recorded evidence maps of its own shard "
    "(senders that are lottery candidates of that shard; bits = positions in that shard), or no candidate / required flips missing",
]


def main(ctx):
    cov = run(ctx, ctx.tier == "quick")
    return vlib.finish(ctx, "model_checking", cov, assumptions=ASSUMPTIONS)
