"""C08 — a fork is adopted only if valid and certified; adoption equals a clean sync.

1. TLC explores spec/ForkStore.tla (OfferFork, CheckForkSize, ValidateBlock*, ValidateTip, ResetTo,
   AddBlock/WriteCert*, RefSync) over every fork shape of a bounded model (branch lengths, per block
   kind x validity x certificate class, seed relation, ancestor parity) and checks AdoptOnlyCertified,
   AdoptionCompletes, AdoptionEqualsSync, RevertedReturned, RefusedUnchanged in every state.  A second,
   tiny run with the two places of the code transcribed as they read today (AsRead) must REFUTE
   AdoptOnlyCertified / AdoptionCompletes: the invariants are not vacuous and the counterexamples are
   the candidate shapes.
2. The shapes are exported by TLC; a stratified sample (every class of verdict x weight relation x
   deciding block) plus seeded random longer shapes is realised by harness/cmd/d_fork on REAL nodes:
   both branches built by real proposers, invalid blocks and certificates of every class fabricated as
   a malicious peer would, the bundles shipped as the bytes of a real BlocksRange message into the real
   ForkResolver (checkForkSize, processBlocks -> ValidateSubChain, ApplyFork), a reference replica
   syncing the fork from the ancestor, the next honest block inserted into both.
3. The recorded trace is validated by TLC against spec/Trace_ForkStore.tla: a fork remembered as
   applicable although the specification's AdoptFork is not enabled, or a property clause failing on
   the observed store summaries, is the violation (signature + trace line via the postcondition).
"""
import collections
import json
import os
import random
import subprocess
import threading
import time

import vlib

CLOCKS = ["blockchain/blockchain.go"]
SPEC, CFG = "Trace_ForkStore.tla", "Trace_ForkStore.cfg"

# signature of a broken clause -> key of the finding (anything else: "C08:" + signature)
KEYS = {
    "AdoptOnlyCertified:tip-empty": "C08:empty-tip-cert",
    "AdoptionCompletes:panic-nil-cert": "C08:nil-cert-apply-panic",
    "AdoptionEqualsSync:readonly-view:1v1": "C08:stale-readonly-view-after-1v1-reorg",
}


def klass(c):
    """Stratification class of an exported shape: verdict x relation x the block that decides."""
    f = c["fork"]
    exp = c["expect"]
    own = tuple(sorted(b["k"] for b in c["own"] if b["k"] != "plain"))
    if exp in ("refuse-invalid", "refuse-cert"):
        i = next(i for i, b in enumerate(f) if not passes(b, c, i))
        return (exp, c["rel"], len(f), i, f[i]["k"], f[i]["v"], f[i]["c"])
    if exp == "refuse-tip":
        return (exp, c["rel"], len(f), f[-1]["k"], f[-1]["c"], own)
    if exp == "refuse-size":
        return (exp, c["rel"], len(f), c["seed"], tuple(b["k"] == "empty" for b in c["own"]), tuple(b["k"] == "empty" for b in f))
    return (exp, c["rel"], len(f), c["seed"], own, tuple(sorted(b["k"] for b in f if b["k"] != "plain")),
            tuple(b["c"] for b in f))


def passes(b, c, i):
    # mirrors BlockPasses only for the purpose of naming the class (no verdict depends on it)
    if b["v"] != "valid":
        return False
    if b["c"] in ("under", "forged"):
        return False
    if b["c"] in ("nil", "empty"):
        ks = [x["k"] for x in c["fork"]]
        pend = False
        for j in range(i + 1):
            p = pend or ks[j] == "online"
            even = (c["anc"] + j + 1) % 2 == 0
            flag = ks[j] == "kill" or (even and p)
            pend = False if even else p
        return not flag
    return True


def pick_cases(exports, rnd, n):
    by = collections.defaultdict(list)
    for e in exports:
        by[klass(e)].append(e)
    keys = sorted(by, key=repr)
    for k in keys:
        rnd.shuffle(by[k])
    rnd.shuffle(keys)
    n = max(n, len(keys))          # every class at least once
    res = []
    rnd_round = 0
    while len(res) < n:
        took = False
        for k in keys:
            if rnd_round < len(by[k]):
                res.append(by[k][rnd_round])
                took = True
                if len(res) >= n:
                    break
        if not took:
            break
        rnd_round += 1
    return res, len(keys)


def run_shards(ctx, drv, cases, nrand, maxlen, shards, chunk=100):
    """Run the driver over the cases in short-lived processes of <= `chunk` cases each (`shards` at a
    time, own scratch cwd each): the node constructors of the repository start goroutines that never
    end, so a long-lived driver would keep every node it ever booted.  Returns the trace files in order."""
    jobs = []
    for i in range(0, len(cases), chunk):
        jobs.append((cases[i:i + chunk], 0))
    left = nrand
    while left > 0:
        jobs.append(([], min(chunk, left)))
        left -= chunk
    outs = [None] * len(jobs)
    errors = []
    lock = threading.Lock()
    nxt = [0]
    deadline = time.time() + 3300

    def worker():
        while True:
            with lock:
                if errors or nxt[0] >= len(jobs):
                    return
                j = nxt[0]
                nxt[0] += 1
            part, nr = jobs[j]
            wd = os.path.dirname(ctx.path("wd%d" % j, "x"))
            cf = os.path.join(wd, "cases.json")
            with open(cf, "w") as f:
                for c in part:
                    f.write(json.dumps(c) + "\n")
            out = os.path.join(wd, "trace.ndjson")
            env = dict(os.environ)
            env.update(vlib.GOENV)
            env.update({"VERIF_SEED": str(ctx.seed), "VERIF_TIER": ctx.tier})
            try:
                p = subprocess.run([drv, "-cases", cf, "-random", str(nr), "-maxlen", str(maxlen), "-shard", str(j), "-out", out],
                                   cwd=wd, env=env, stdout=subprocess.PIPE, stderr=subprocess.STDOUT, text=True, errors="replace",
                                   timeout=max(5, deadline - time.time()))
            except subprocess.TimeoutExpired:
                errors.append("driver timed out")
                return
            if p.returncode != 0:
                errors.append("driver failed (rc=%d):\n%s" % (p.returncode, (p.stdout or "")[-3000:]))
                return
            outs[j] = out
    ths = [threading.Thread(target=worker) for _ in range(shards)]
    for t in ths:
        t.start()
    for t in ths:
        t.join()
    if errors:
        raise vlib.CheckError(errors[0])
    return outs


def concat(ctx, traces, name):
    dst = ctx.path(name)
    with open(dst, "w") as fo:
        for t in traces:
            with open(t) as fi:
                for line in fi:
                    fo.write(line)
    return dst


def split_cases(rows):
    """[(start, end)] of every case (Offer .. next Offer) in a list of trace rows."""
    starts = [i for i, r in enumerate(rows) if r["ev"] == "Offer"]
    return [(s, (starts[j + 1] if j + 1 < len(starts) else len(rows))) for j, s in enumerate(starts)]


def validate_chunks(ctx, rows, chunk_cases, parallel):
    """Validate the trace in chunks of whole cases (one JVM each); returns (broken, drift, infos) with
    line numbers relative to `rows` (0-based index of the offending row)."""
    spans = split_cases(rows)
    chunks = [spans[i:i + chunk_cases] for i in range(0, len(spans), chunk_cases)]
    results = [None] * len(chunks)
    errors = []

    def work(ci):
        try:
            lo, hi = chunks[ci][0][0], chunks[ci][-1][1]
            path = ctx.path("chunks", "chunk%d.ndjson" % ci)
            vlib.write_ndjson(path, rows[lo:hi])
            ok, info = vlib.trace_validate(ctx, SPEC, CFG, path, timeout=3000)
            results[ci] = (ok, info, lo)
        except Exception as ex:  # noqa: BLE001
            errors.append(ex)

    sem = threading.Semaphore(parallel)
    threads = []

    def guarded(ci):
        with sem:
            work(ci)
    for ci in range(len(chunks)):
        t = threading.Thread(target=guarded, args=(ci,))
        t.start()
        threads.append(t)
        time.sleep(0.15)       # distinct TLC scratch directories (named by the millisecond)
    for t in threads:
        t.join()
    if errors:
        raise errors[0]
    broken, drift, states = [], 0, 0
    for ok, info, lo in results:
        drift += info.get("drift") or 0
        states += info.get("states") or 0
        if ok:
            continue
        if not info.get("broken"):
            raise vlib.CheckError("trace rejected without a broken clause (harness/trace shape problem): %s" % info)
        for line, sig in info["broken"]:
            broken.append((lo + line - 1, sig))
    return broken, drift, states


def case_of(rows, idx):
    s = max(i for i in range(idx + 1) if rows[i]["ev"] == "Offer")
    e = next((i for i in range(s + 1, len(rows)) if rows[i]["ev"] == "Offer"), len(rows))
    return s, e


def describe(rows, s, e, idx):
    o = rows[s]
    shape = {"anc": o["anc"], "head": o["head"], "seed": o["seed"],
             "own": [{k: b[k] for k in ("k", "empty", "idupd", "h")} | {"ntx": len(b["txs"])} for b in o["own"]],
             "fork": [{k: b[k] for k in ("k", "v", "c", "sub", "empty", "idupd", "h", "sigs", "need")} | {"ntx": len(b["txs"])} for b in o["fork"]]}
    r = rows[idx]
    seen = {k: r[k] for k in ("ev", "loaded", "stage", "err", "panic", "reverted", "aerr", "rerr") if k in r and r[k] not in ("", [], None)}
    return shape, seen


def summary_diff(a, b):
    out = []
    for g in ("head", "state", "vals", "canon"):
        if a.get(g) != b.get(g):
            if isinstance(a.get(g), dict):
                for k in a[g]:
                    if a[g][k] != b[g].get(k):
                        out.append("%s.%s: adopter=%s reference=%s" % (g, k, json.dumps(a[g][k])[:160], json.dumps(b[g].get(k))[:160]))
            else:
                out.append("%s: adopter=%s reference=%s" % (g, json.dumps(a[g])[:240], json.dumps(b[g])[:240]))
    return out[:6]


def selftest(ctx, rows, clean_spans):
    """Binding self-test on recorded CLEAN cases: accepted as they are; rejected with the expected
    signature when (a) a refusal is turned into an adoption, (b) a root of the reference is changed,
    (c) a reverted transaction is dropped."""
    def lost_tx(sp):
        # an adoption whose FIRST reverted transaction is not part of the fork itself
        off = rows[sp[0]]
        infork = {t for b in off["fork"] for t in b["txs"]}
        return any(r["ev"] == "Sync" for r in rows[sp[0]:sp[1]]) and \
            any(r["ev"] == "Apply" and r["reverted"] and r["reverted"][0] not in infork for r in rows[sp[0]:sp[1]])
    adopted = [sp for sp in clean_spans if lost_tx(sp)]
    refused = [sp for sp in clean_spans if any(r["ev"] == "Process" and not r["loaded"] and r["stage"] == "validate" for r in rows[sp[0]:sp[1]])
               and any(b["v"] != "valid" for b in rows[sp[0]]["fork"])]
    if not adopted or not refused:
        raise vlib.CheckError("self-test needs a clean adopted case with reverted transactions and a clean refused case")
    good = []
    for sp in adopted[:3] + refused[:3]:
        good += rows[sp[0]:sp[1]]
    gp = ctx.path("selftest", "good.ndjson")
    vlib.write_ndjson(gp, good)
    ok, info = vlib.trace_validate(ctx, SPEC, CFG, gp)
    if not ok:
        raise vlib.CheckError("self-test: clean recorded cases rejected: %s" % info)

    def mutated(fn):
        bad = json.loads(json.dumps(good))
        fn(bad)
        return bad

    def m_accept(bad):
        r = next(r for r in bad if r["ev"] == "Process" and not r["loaded"])
        r["loaded"], r["stage"], r["err"] = True, "", ""

    def m_root(bad):
        r = next(r for r in bad if r["ev"] == "Sync")
        r["st"]["state"]["liveroot"] = "00" + r["st"]["state"]["liveroot"][2:]

    def m_reverted(bad):
        r = next(r for r in bad if r["ev"] == "Apply" and r["reverted"])
        r["reverted"] = r["reverted"][1:]

    def m_vals(bad):
        r = next(r for r in bad if r["ev"] == "Sync")
        r["st"]["vals"]["live"]["onlineset"] = r["st"]["vals"]["live"]["onlineset"][:-1]

    def m_drop(bad):
        i = next(i for i, r in enumerate(bad) if r["ev"] == "Apply")
        del bad[i]

    muts = (("refusal->adoption", m_accept, "AdoptOnly"), ("reference root", m_root, "AdoptionEqualsSync:state"),
            ("reverted tx dropped", m_reverted, "RevertedReturned"), ("validator view", m_vals, "AdoptionEqualsSync:validators"),
            ("Apply line removed", m_drop, None))
    failures = []

    def one(i, name, fn, want):
        try:
            bp = ctx.path("selftest", "bad%d.ndjson" % i)
            vlib.write_ndjson(bp, mutated(fn))
            ok, info = vlib.trace_validate(ctx, SPEC, CFG, bp)
            sigs = [s for _, s in info.get("broken", [])]
            if ok or (want is not None and not any(s.startswith(want) for s in sigs)):
                failures.append("corrupted trace (%s) gave %s" % (name, "acceptance" if ok else sigs))
        except Exception as ex:  # noqa: BLE001
            failures.append("corrupted trace (%s): %s" % (name, ex))
    ths = []
    for i, (name, fn, want) in enumerate(muts):
        t = threading.Thread(target=one, args=(i, name, fn, want))
        t.start()
        ths.append(t)
        time.sleep(0.15)
    for t in ths:
        t.join()
    if failures:
        raise vlib.CheckError("binding self-test failed: " + "; ".join(failures))
    ctx.log("binding self-test: 5 corrupted copies of recorded cases rejected, the originals accepted")


def main(ctx):
    quick = ctx.tier == "quick"
    rnd = random.Random(ctx.seed)
    drv = vlib.build_driver(ctx, "d_fork", clocks=CLOCKS)

    if ctx.replay:
        doc = json.load(open(ctx.replay))
        cases = [doc["payload"]["case"]]
        ctx.seed = doc.get("seed", ctx.seed)
        traces = run_shards(ctx, drv, cases, 0, 3, 1)
        rows = vlib.read_ndjson(traces[0])
        broken, drift, _ = validate_chunks(ctx, rows, 1000, 1)
        for idx, sig in broken:
            s, e = case_of(rows, idx)
            shape, seen = describe(rows, s, e, idx)
            vlib.report_violation(ctx, KEYS.get(sig, "C08:" + sig), "replay: %s on shape %s; observed %s" % (sig, json.dumps(shape), json.dumps(seen)[:600]),
                                  payload={"case": cases[0], "signature": sig})
        return vlib.finish(ctx, "model_checking", {"states": 0, "transitions": 0, "traces_validated_against_impl": 1, "samples": cases,
                                                   "rule": "replay of one recorded case"})

    # 1. the bounded model: all invariants in every state, shapes exported
    cfg = "MC_ForkStore_quick.cfg" if quick else "MC_ForkStore_thorough.cfg"
    r = vlib.tlc(ctx, "MC_ForkStore.tla", cfg, workers=8 if quick else 12, timeout=3000, extra=["-seed", str(ctx.seed)])
    if not r.ok:
        raise vlib.CheckError("design-level ForkStore model violates %s (model-only, not a verdict):\n%s" % (r.invariant, (r.error or "")[:1500]))
    if not r.exports:
        raise vlib.CheckError("no shapes exported (dead generator)")
    by_expect = collections.Counter(e["expect"] for e in r.exports)
    ctx.log("model: %d states, %d shapes exported %s" % (r.distinct, len(r.exports), dict(by_expect)))
    for need in ("adopt", "refuse-size", "refuse-invalid", "refuse-cert", "refuse-tip"):
        if not by_expect.get(need):
            raise vlib.CheckError("model never produced a '%s' shape (vacuous bounds)" % need)

    # 1b. the invariants can fail: the code-as-read transcription must be refuted by TLC (runs beside the driver)
    candidates, vac_err = {}, []

    def asread(c, inv):
        try:
            ra = vlib.tlc(ctx, "MC_ForkStore.tla", c, workers=2, timeout=900, want_exports=False, sub="tlc_" + c.replace(".cfg", ""))
            if ra.ok or ra.invariant != inv:
                vac_err.append("vacuity check: the as-read model does not violate %s (got %s)" % (inv, ra.invariant))
            candidates[inv] = "refuted in the model of the code as read (candidate; reproduced or not by the conformance run)"
        except Exception as ex:  # noqa: BLE001
            vac_err.append(str(ex))
    bg = [threading.Thread(target=asread, args=a) for a in (("MC_ForkStore_asread.cfg", "AdoptOnlyCertified"), ("MC_ForkStore_asread2.cfg", "AdoptionCompletes"))]
    for t in bg:
        t.start()

    # 2. stratified sample + random longer shapes on the real code
    ncases, nrand, maxlen, shards = (1000, 120, 4, 6) if quick else (5000, 1200, 5, 8)
    exports = sorted(r.exports, key=lambda e: json.dumps(e, sort_keys=True))     # TLC's workers print in any order
    cases, nclasses = pick_cases(exports, rnd, ncases)
    for i, c in enumerate(cases):
        c["id"] = i + 1
        c["src"] = "tlc"
    ctx.log("replaying %d of %d exported shapes (%d classes) + %d random shapes on real nodes, %d driver processes at a time"
            % (len(cases), len(r.exports), nclasses, nrand, shards))
    traces = run_shards(ctx, drv, cases, nrand, maxlen, shards)
    trace = concat(ctx, traces, "trace.ndjson")
    rows = vlib.read_ndjson(trace)
    spans = split_cases(rows)

    for t in bg:
        t.join()
    if vac_err:
        raise vlib.CheckError(vac_err[0])

    # 3. TLC validates what really happened
    broken, drift, tstates = validate_chunks(ctx, rows, 600 if quick else 1000, 2 if quick else 6)
    harness = [b for b in broken if b[1].startswith("HARNESS:")]
    if harness:
        s, e = case_of(rows, harness[0][0])
        raise vlib.CheckError("harness inconsistency %s in case %s" % (harness[0][1], json.dumps(rows[s])[:800]))
    dirty = set()
    first = {}
    for idx, sig in sorted(broken):
        first.setdefault(sig, idx)
    for idx, sig in broken:
        dirty.add(case_of(rows, idx)[0])
    occurrences = collections.Counter(sig for _, sig in broken)
    for sig, idx in sorted(first.items(), key=lambda x: x[1]):
        s, e = case_of(rows, idx)
        shape, seen = describe(rows, s, e, idx)
        extra = ""
        if sig.startswith("AdoptionEqualsSync:") and rows[idx]["ev"] == "Sync":
            ap = next((x for x in rows[s:e] if x["ev"] == "Apply"), None)
            if ap:
                extra = " differences: " + "; ".join(summary_diff(ap["st"], rows[idx]["st"]))
        ex = ctx.path("replay_%d.ndjson" % idx)
        vlib.write_ndjson(ex, rows[s:e])
        case = {"id": 1, "src": "replay", "anc": (rows[s]["anc"] % 2), "seed": rows[s]["reqseed"],
                "own": [{"k": b["k"]} for b in rows[s]["own"]],
                "fork": [{"k": b["k"], "v": b["v"], "c": b["c"]} for b in rows[s]["fork"]]}
        vlib.report_violation(ctx, KEYS.get(sig, "C08:" + sig),
                              "%s (%d cases; first at trace line %d): own branch %s, offered fork %s (seed %s): observed %s%s"
                              % (sig, occurrences[sig], idx + 1, json.dumps(shape["own"]), json.dumps(shape["fork"]), shape["seed"], json.dumps(seen)[:500], extra[:900]),
                              replay_src=ex, payload={"case": case, "signature": sig, "shape": shape})

    # vacuity: what was really exercised
    cov = collections.Counter()
    refused_ok = collections.Counter()
    unrealised = 0
    by_id = {c["id"]: c for c in cases}
    for s, e in spans:
        o = rows[s]
        evs = {x["ev"]: x for x in rows[s:e]}
        pr = evs["Process"]
        out = "adopted" if "Apply" in evs and not evs["Apply"]["err"] and not evs["Apply"]["panic"] else \
              ("apply-failed" if "Apply" in evs else "refused-" + (pr["stage"] or "panic"))
        cov[out] += 1
        if o.get("src") == "decoy":
            cov["history-spoiled-copy-offered-first"] += 1
        rel = "longer" if len(o["fork"]) > len(o["own"]) else ("equal" if len(o["fork"]) == len(o["own"]) else "shorter")
        if out == "adopted":
            cov["adopted-" + rel] += 1
            if any(b["idupd"] for b in o["own"]):
                cov["adopted-over-own-identity-update"] += 1
            if any(b["idupd"] for b in o["fork"]):
                cov["adopted-fork-with-identity-update"] += 1
            if evs["Apply"]["reverted"]:
                cov["adopted-with-reverted-txs"] += 1
            if "Extend" in evs:
                cov["extended"] += 1
        for i, b in enumerate(o["fork"]):
            cov["cert-%s-%s" % (b["c"], "tip" if i == len(o["fork"]) - 1 else "mid")] += 1
            if b["v"] != "valid":
                cov["block-" + b["v"]] += 1
        c = by_id.get(o["id"]) if o.get("src") == "tlc" else None
        if c is not None:
            # did the driver realise the shape TLC asked for?
            same = ([b["k"] for b in c["own"]] == [b["k"] for b in o["own"]] and c["seed"] == o["seed"]
                    and [(b["k"], b["v"], b["c"]) for b in c["fork"]] == [(b["k"], b["v"], b["c"]) for b in o["fork"]])
            if not same:
                unrealised += 1
            elif c["expect"] == "adopt" and not pr["loaded"] and not pr["panic"]:
                # an acceptable fork refused by the real node: not a violation of the property (an "only if"), reported
                late_idupd = any(b["idupd"] for b in o["fork"][:-1])
                refused_ok["%s | %s" % ("identity-update block before the tip" if late_idupd else "no identity-update block before the tip",
                                        pr["err"].split("err=")[-1].split(".")[0].split(" 0x")[0][:40])] += 1
    required = ["adopted", "refused-size", "refused-validate", "adopted-longer", "adopted-equal", "adopted-shorter",
                "adopted-over-own-identity-update", "adopted-fork-with-identity-update", "adopted-with-reverted-txs", "extended",
                "block-badroot", "block-badtx", "block-badflags", "history-spoiled-copy-offered-first"] + \
               ["cert-%s-%s" % (c, p) for c in ("nil", "empty", "under", "forged", "valid") for p in ("tip", "mid")]
    missing = [k for k in required if not cov.get(k)]
    if missing:
        raise vlib.CheckError("dead driver: classes never exercised on the real code: %s" % missing)
    if unrealised > max(5, len(cases) // 20):
        raise vlib.CheckError("driver realises the exported shapes badly: %d of %d realised shapes differ from the requested ones" % (unrealised, len(cases)))
    if refused_ok:
        ctx.notes.append("acceptable forks refused by the real node (conformance drift, not a violation): %s" % dict(refused_ok))
        ctx.log("drift: acceptable forks refused: %s" % dict(refused_ok))

    # binding self-test on clean recorded cases
    clean = [sp for sp in spans if sp[0] not in dirty]
    selftest(ctx, rows, clean)

    samples = [{k: c[k] for k in ("own", "fork", "seed", "anc", "expect")} for c in (cases[0], cases[len(cases) // 2], cases[-1])]
    coverage = {
        "states": r.distinct, "transitions": r.generated,
        "traces_validated_against_impl": len(spans),
        "trace_lines_validated": len(rows),
        "samples": samples,
        "shapes_exported": len(r.exports), "shapes_exported_by_verdict": dict(by_expect), "shape_classes": nclasses,
        "shapes_replayed": len(cases), "random_shapes": nrand,
        "real_outcomes": {k: v for k, v in sorted(cov.items())},
        "conformance_drift": drift,
        "broken_clause_signatures": dict(occurrences),
        "acceptable_forks_refused": dict(refused_ok),
        "shapes_not_realised_as_requested": unrealised,
        "design_candidates": candidates,
        "model_cfg": cfg, "exhaustive": False,
        "rule": "ForkStore model explored exhaustively (own branch <= %d, fork <= %d blocks; per fork block 5 kinds x 4 validity classes x 5 "
                "certificate classes, pruned after the first failing block; seed relation; ancestor parity); %d shapes chosen round-robin over "
                "%d classes + %d seeded random shapes (branches up to %d blocks) realised on real nodes and validated by TLC"
                % (((2, 2) if quick else (3, 3)) + (len(cases), nclasses, nrand, maxlen)),
    }
    return vlib.finish(ctx, "model_checking", coverage, assumptions=[
        "validity and certificate classes of a fabricated fork block are what the driver built (root/tx/flag tampering, vote sets); the "
        "specification trusts these labels and judges the node's reaction",
        "the reference replica inserts the fork blocks with AddBlock + WriteCertificate as full sync does; the network layer (peer selection, "
        "timeouts, bans) is outside the model",
        "left-over tx/receipt index entries and certificates of abandoned blocks, and the identity-diff store (C11), are not part of the verdict",
        "an acceptable fork that the node refuses is counted as conformance drift, not as a violation (the property is an 'only if')",
    ])
