"""C19 — with an API key configured, no RPC request without it reaches any method.

1. TLC explores spec/Rpc.tla on the whole bounded case table (MC_Rpc: singles, batches of one, two and
   three request shapes <<key class, kind>>, server with / without key, transport with / without
   pub-sub): the reference server is stepped through Read / Gate / Dispatch / Reply with the C19
   clauses (NoKeyNoRun, WellFormedGetsInvalidKey, RightKeyServed) as invariants, and every case is
   exported with the reference outcome.
2. The Go driver d_rpc sends every exported case to REAL rpc.Server instances over HTTP (the node's
   StartHTTPEndpoint path, key installed by config.SetApiKey), WebSocket and a unix socket, plus
   seeded random larger batches with random concretisations, and records the response class / code
   per element and what the probe service saw (invocations, subscriptions created / cancelled).
3. TLC validates the recorded trace against spec/Trace_Rpc.tla: the verdict function Rpc!Broken is
   evaluated on every observed message; a broken clause is the violation (reported once per
   clause/kind/key-class signature through the postcondition).
"""
import json
import random

import vlib

MAX_REPORTED = 24


def expected_messages(cases):
    n = 0
    for c in cases:
        n += 1 if c["ps"] == 0 else 2     # ps=0 -> http; ps=1 -> ws and ipc
    return n


def vacuity(ctx, rows):
    """The accepted trace must contain what the clauses talk about, on every transport."""
    need = {}
    for tr in ("http", "ws", "ipc"):
        need[(tr, "right-call-ran")] = 0
        need[(tr, "nokey-refused-32800")] = 0
        need[(tr, "mixed-batch-served-and-refused")] = 0
        need[(tr, "whole-refusal")] = 0
        need[(tr, "served-without-configured-key")] = 0
    for tr in ("ws", "ipc"):
        need[(tr, "right-sub-created")] = 0
        need[(tr, "right-unsub-cancelled")] = 0
        need[(tr, "nokey-unsub-of-live-subscription")] = 0
    setup_failed = 0
    for r in rows:
        tr = r["tr"]
        setup_failed += r.get("setupFailed", 0)
        if r["whole"] == 1:
            need[(tr, "whole-refusal")] += 1
            continue
        served = refused = 0
        for e, o in zip(r["el"], r["ob"]):
            if r["ks"] == 0:
                if o[0] == "result":
                    need[(tr, "served-without-configured-key")] += 1
                continue
            if e[0] == "right" and o[0] == "result":
                served += 1
                if e[1] == "call" and o[2] == 1:
                    need[(tr, "right-call-ran")] += 1
                if e[1] == "sub" and o[4] == 1:
                    need[(tr, "right-sub-created")] += 1
                if e[1] == "unsub" and o[5] == 1:
                    need[(tr, "right-unsub-cancelled")] += 1
            if e[0] not in ("right", "dupRL", "dupWL") and o[0] == "error" and o[1] == -32800:
                refused += 1
                need[(tr, "nokey-refused-32800")] += 1
                if e[1] == "unsub" and tr != "http" and not r.get("setupFailed"):
                    need[(tr, "nokey-unsub-of-live-subscription")] += 1
        if served and refused:
            need[(tr, "mixed-batch-served-and-refused")] += 1
    # the server without key is a control only (C19 says nothing about it)
    missing = ["%s/%s" % k for k, v in sorted(need.items()) if v == 0 and k[1] != "served-without-configured-key"]
    if missing:
        raise vlib.CheckError("dead driver: the accepted trace never exercised %s" % ", ".join(missing))
    if setup_failed:
        raise vlib.CheckError("driver could not create %d set-up subscriptions with the right key, yet the trace was accepted" % setup_failed)
    return {"%s/%s" % k: v for k, v in sorted(need.items())}


def selftest(ctx, rows):
    """Binding self-test: corrupted copies of recorded lines must be rejected with the right clauses."""
    def find(pred):
        return next((i for i, r in enumerate(rows) if pred(r)), None)

    def has(r, key, kind, tr_ps):
        return r["ks"] == 1 and r["whole"] == 0 and r["ps"] == tr_ps and r["batch"] == 1 and len(r["el"]) >= 2 and \
            any(e == [key, kind] for e in r["el"]) and any(e[0] == "right" for e in r["el"])

    i1 = find(lambda r: has(r, "wrong", "unsub", 1))
    i2 = find(lambda r: has(r, "prefix", "call", 0))
    i3 = find(lambda r: has(r, "missing", "sub", 1))
    if i1 is None or i2 is None or i3 is None:
        raise vlib.CheckError("self-test: trace has no line to corrupt")
    pick = sorted(set(list(range(min(800, len(rows)))) + [i1, i2, i3]))
    good = [json.loads(json.dumps(rows[i])) for i in pick]
    gp = ctx.path("selftest", "good.ndjson")
    vlib.write_ndjson(gp, good)
    ok, info = vlib.trace_validate(ctx, "Trace_Rpc.tla", "Trace_Rpc.cfg", gp)
    if not ok:
        raise vlib.CheckError("self-test: the uncorrupted excerpt was rejected: %s" % info)
    bad = json.loads(json.dumps(good))
    want = set()

    def corrupt(i, match, ob, sig):
        row = bad[pick.index(i)]
        j = next(j for j, e in enumerate(row["el"]) if match(e))
        row["ob"][j] = ob
        want.add(sig % tuple(row["el"][j][::-1]))

    # a wrong-key unsubscribe that cancelled; a refusal without the invalid-key error; a right key refused
    corrupt(i1, lambda e: e == ["wrong", "unsub"], ["result", 0, 0, 0, 0, 1], "NoKeyNoRun/%s/%s")
    corrupt(i2, lambda e: e == ["prefix", "call"], ["error", -32601, 0, 0, 0, 0], "WellFormedGetsInvalidKey/%s/%s")
    corrupt(i3, lambda e: e[0] == "right", ["error", -32800, 0, 0, 0, 0], "RightKeyServed/%s/%s")
    bp = ctx.path("selftest", "bad.ndjson")
    vlib.write_ndjson(bp, bad)
    ok, info = vlib.trace_validate(ctx, "Trace_Rpc.tla", "Trace_Rpc.cfg", bp)
    got = set("/".join(s.split("/")[:3]) for _, s in info.get("broken", [])) if not ok else set()
    if ok or not want <= got:
        raise vlib.CheckError("binding self-test failed: corrupted trace accepted or clauses missed (want %s, got %s)"
                              % (sorted(want), sorted(got)))
    ctx.log("binding self-test: corrupted trace rejected with %s" % sorted(got))


def replay(ctx, drv):
    """Re-run the case of a replay artefact on the real servers and let TLC judge it again."""
    doc = json.load(open(ctx.replay))
    row = (doc.get("payload") or {}).get("case")
    if not row:
        raise vlib.CheckError("replay file has no case")
    case = {"el": row["el"], "batch": row["batch"], "ks": row["ks"], "ps": row["ps"], "whole": 0}
    if row.get("vseed"):
        case["vseed"] = row["vseed"]
    cpath = ctx.path("replay_case.json")
    with open(cpath, "w") as f:
        f.write(json.dumps(case) + "\n")
    trace = ctx.path("replay_trace.ndjson")
    p = vlib.run_driver(ctx, drv, ["-cases", cpath, "-transports", row["tr"], "-out", trace], timeout=600)
    if p.returncode != 0:
        raise vlib.CheckError("driver failed:\n" + (p.stdout or "")[-3000:])
    rows = vlib.read_ndjson(trace)
    ok, info = vlib.trace_validate(ctx, "Trace_Rpc.tla", "Trace_Rpc.cfg", trace, timeout=600)
    for r_ in rows:
        ctx.log("replayed over %s: %s -> %s" % (r_["tr"], json.dumps(r_["el"]), json.dumps(r_["ob"])))
    if not ok:
        for line, sig in info.get("broken", []):
            clause, kind, keyc, pos = (sig.split("/") + ["-", "-", "-"])[:4]
            vlib.report_violation(ctx, "C19:%s:%s:%s" % (clause, kind, keyc),
                                  "replayed case still breaks %s (element position %s): %s" % (clause, pos, json.dumps(rows[line - 1])[:1200]),
                                  replay_src=trace, payload={"case": rows[line - 1]})
    # a replay does not rewrite the evidence file
    for h in ctx.known_hits:
        print("KNOWN-FINDING: property=%s %s (%s)" % (ctx.prop, h["what"], h["key"]))
    for v in ctx.violations:
        print("VIOLATION property=%s replay=%s" % (ctx.prop, v["replay"]))
        print("  key=%s: %s" % (v["key"], v["what"]))
    return 1 if ctx.violations else 0


def main(ctx):
    quick = ctx.tier == "quick"
    drv = vlib.build_driver(ctx, "d_rpc")
    if getattr(ctx, "replay", None):
        return replay(ctx, drv)

    # 1. bounded model: the reference server on the whole case table, clauses as invariants, export
    cfg = "MC_Rpc_quick.cfg" if quick else "MC_Rpc_thorough.cfg"
    r = vlib.tlc(ctx, "MC_Rpc.tla", cfg, workers=8 if quick else 12, timeout=3000)
    if not r.ok:
        raise vlib.CheckError("design-level Rpc model violates %s (model-only counterexample, not a verdict):\n%s"
                              % (r.invariant, (r.error or "")[:2000]))
    cases = r.exports
    if not cases:
        raise vlib.CheckError("no cases exported (dead generator)")
    n_expected = expected_messages(cases)
    ctx.log("model: %d generated / %d distinct states, %d cases exported (%d messages to send)"
            % (r.generated, r.distinct, len(cases), n_expected))
    cpath = ctx.path("cases.json")
    with open(cpath, "w") as f:
        for c in cases:
            f.write(json.dumps(c, separators=(",", ":")) + "\n")

    # 2. the real servers
    nrand = 2500 if quick else 40000
    trace = ctx.path("trace.ndjson")
    p = vlib.run_driver(ctx, drv, ["-cases", cpath, "-random", str(nrand), "-maxn", "8", "-out", trace], timeout=3000)
    out = (p.stdout or "")
    if p.returncode != 0:
        if "panic:" in out and "idena-go/rpc" in out and "d_rpc/main.go" not in out.split("panic:")[1][:1500]:
            vlib.report_violation(ctx, "C19:panic", "rpc package panicked while serving a case: " + out[-800:])
            return vlib.finish(ctx, "model_checking", {"states": r.distinct, "transitions": r.generated,
                                                       "traces_validated_against_impl": 0, "samples": [out[-400:]]})
        raise vlib.CheckError("driver failed:\n" + out[-3000:])
    ctx.log(out.strip().splitlines()[-1] if out.strip() else "")
    rows = vlib.read_ndjson(trace)
    n_rand_msgs = 3 * nrand
    if len(rows) != n_expected + n_rand_msgs:
        raise vlib.CheckError("dead driver: %d trace lines for %d expected messages" % (len(rows), n_expected + n_rand_msgs))

    # 3. the verdict: TLC evaluates Rpc!Broken on every observed message
    ok, info = vlib.trace_validate(ctx, "Trace_Rpc.tla", "Trace_Rpc.cfg", trace, timeout=3000)
    if not ok:
        broken = info.get("broken")
        if not broken:
            raise vlib.CheckError("trace rejected without a broken clause: %s" % info)
        seen = {}
        for line, sig in broken:
            clause, kind, keyc, pos = (sig.split("/") + ["-", "-", "-"])[:4]
            if clause == "MalformedObservation":
                raise vlib.CheckError("driver wrote a malformed observation at trace line %d: %s" % (line, rows[line - 1]))
            key = "C19:%s:%s:%s" % (clause, kind, keyc)
            seen.setdefault(key, []).append((line, pos))
        ctx.notes.append("%d distinct broken signatures (clause:kind:key class)" % len(seen))
        for key in sorted(seen)[:MAX_REPORTED]:
            line, pos = seen[key][0]
            row = rows[line - 1]
            ex = ctx.path("replay_%s.ndjson" % key.replace(":", "_"))
            vlib.write_ndjson(ex, [row])
            clause = key.split(":")[1]
            what = ("clause %s broken by the real rpc.Server over %s (key %s): message %s, element position(s) %s; "
                    "observed per element [class, code, ran, sub-attempted, sub-created, cancelled] = %s; request %s; response %s"
                    % (clause, row["tr"], "configured" if row["ks"] else "not configured", json.dumps(row["el"]),
                       ",".join(sorted(set(p_ for _, p_ in seen[key]))), json.dumps(row["ob"]),
                       (row.get("req") or "")[:600], (row.get("resp") or "")[:600]))
            vlib.report_violation(ctx, key, what, replay_src=ex, payload={"case": row})
        if len(seen) > MAX_REPORTED:
            ctx.notes.append("only the first %d signatures are listed as violations" % MAX_REPORTED)
        vac = None
    else:
        vac = vacuity(ctx, rows)
        selftest(ctx, rows)

    by_tr = {}
    for row in rows:
        by_tr[row["tr"]] = by_tr.get(row["tr"], 0) + 1
    rnd = random.Random(ctx.seed)
    cov = {
        "states": r.distinct, "transitions": r.generated,
        "cases_exported": len(cases),
        "traces_validated_against_impl": len(rows),
        "messages_by_transport": by_tr,
        "random_cases": nrand,
        "elements_validated": sum(len(row["el"]) for row in rows),
        "drift_messages": info.get("drift"),
        "exercised": vac,
        "samples": [cases[0], cases[len(cases) // 2], rnd.choice(cases), rows[-1]["el"]],
        "exhaustive": True,
        "model_cfg": cfg,
        "rule": "every case of the bounded table (singles, batches of 1-3 request shapes; every permutation of the 15 key classes "
                "over the positions of batches of 2 and 3, every permutation of the kinds over the positions; key configured / not) "
                "sent to real rpc.Server instances over HTTP (StartHTTPEndpoint, key via config.SetApiKey), WebSocket and a unix "
                "socket, plus %d seeded random batches of up to 8 elements with random concretisations on each transport; "
                "TLC evaluates the verdict function on every observed message" % nrand,
    }
    return vlib.finish(ctx, "model_checking", cov, assumptions=[
        "the invalid-key error is identified by its code -32800 (rpc/errors.go)",
        "a message whose envelope cannot be decoded (non-string key member, missing id, subscribe without params) may be refused "
        "as a whole; then only 'nothing runs' and 'answered with an error' are required of its elements",
        "of two duplicated key members either may count (the element must then be consistently served or consistently refused)",
        "effects are attributed to elements through tags carried in the params; the probe is the only registered service besides the built-in rpc_modules",
        "WebSocket and IPC servers are built with rpc.NewServer(key) directly: the node itself only starts the HTTP endpoint "
        "(rpc.StartWSEndpoint / StartIPCEndpoint hard-code an empty key and are not called by node/node.go)",
    ])
