"""Stand-alone entry for the growth module "REW" of C04 (epoch reward distribution: blockchain/rewards.go):
   tools/check C04REW --tier quick|thorough
runs props.extra_rewards.run exactly as the C04 check does when it includes the module, and writes evidence/C04REW.json.
Findings are matched against the known findings of C04."""
import vlib
from props import extra_rewards


def main(ctx):
    ctx.prop = "C04"          # violations of this module are C04 findings (keys C04:REW:...)
    try:
        cov = extra_rewards.run(ctx, ctx.tier == "quick")
    finally:
        ctx.prop = "C04REW"
    cov2 = {"states": cov["rew_states"], "transitions": cov["rew_transitions"],
            "traces_validated_against_impl": cov["rew_traces_validated_against_impl"],
            "samples": cov["rew_samples"], "rule": cov["rew_rule"]}
    cov2.update(cov)
    return vlib.finish(ctx, "model_checking", cov2, assumptions=[
        "validation outcomes, flip qualifications and reports are chosen by the scenario and handed to the ceremony's own result assembly "
        "(analyzeAuthors, incSuccessfulInvites, setValidationResultTo*, reporters) through the per-height result cache; how a ceremony "
        "arrives at them from answers is the subject of C17",
        "one shard; nobody is online (the god address mines every block); no offline penalties; no transactions in the epoch block",
        "chain parameters (not rules) are shortened: DelegationSwitchRange 3, InvitesPercent 2.0 (one invitation per validated inviter "
        "and epoch), UnlockStakeAge 2 in half of the worlds, validation sessions of minutes",
        "amounts are judged against the configured shares with exact arithmetic; how a share is split among its recipients "
        "(stake weights, grade coefficients, age coefficients) is logged and bound, not recomputed",
    ])
