"""Stand-alone entry for the growth module "QUAL" of C17 (qualification of flips and of candidates):
   tools/check C17Q --tier quick|thorough
runs props.extra_qual.run exactly as the C17 check does when it includes the module, and writes evidence/C17Q.json.
Findings are matched against the known findings of C17."""
import vlib
from props import extra_qual


def main(ctx):
    ctx.prop = "C17"          # violations of this module are C17 findings (keys C17:QUAL:...)
    try:
        cov = extra_qual.run(ctx, ctx.tier == "quick")
    finally:
        ctx.prop = "C17Q"
    cov2 = {"states": cov["qual_states"], "transitions": cov["qual_transitions"],
            "traces_validated_against_impl": cov["qual_traces_validated_against_impl"],
            "samples": cov["qual_samples"], "rule": cov["qual_rule"]}
    cov2.update(cov)
    return vlib.finish(ctx, "model_checking", cov2, assumptions=extra_qual.ASSUMPTIONS)
