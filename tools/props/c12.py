"""C12 - no message from the network can crash the node.

1. TLC explores spec/Wire.tla: a property-shaped table model of the peer read path.  The state is one
   received object described by its SHAPE (frame: length prefix x compression tag x declared length x
   envelope; raw: code x payload class; msg: per message code the presence lattice of its optional parts;
   tx: 23 types x recipient x payload x amount x sender x entry/mode; block: header kind x body x hostile
   deviations x entry) against the state classes of the receiving node.  Invariants Total (a verdict for
   every shape) and Proportionate (allocation <= Cmul*|frame| + Cadd) are checked on the model; the
   transcription of the current decompressor (BoundedDecode = FALSE) is run too and its counterexample is
   recorded as a CANDIDATE (decided on the real code only).  TLC exports every shape.
2. The Go driver d_wire instantiates every exported shape (seeded filler bytes; + a seeded sample of the
   next larger table; raw/frame shapes several times with fresh bytes) and pushes it through the REAL
   entry points: msgio framing + protocol.Decode + Msg.FromBytes + the handle() switch of the real gossip
   handler with the real pools behind it, readStatus, and what the node does next with an accepted object
   (GetProposedBlock -> ValidateBlock, the full-sync applier, ValidateSubChain, the flipper's write loop
   body), ValidateTx in three modes, ValidateBlock / AddBlock / ValidateSubChain on blocks assembled from
   individually decodable parts - each under recover, a watchdog and an allocation meter.  A driver
   process killed by the node's code (panic on another goroutine, fatal error) is a CRASH of the case in
   flight; the driver is restarted behind it.  A case without a verdict in time is run again alone with
   long limits before it counts as a TIMEOUT (wall-clock watchdogs say little on a loaded machine).
3. TLC validates the recorded trace against spec/Trace_Wire.tla: every line must be a shape of the table;
   Total and Proportionate are evaluated on the OBSERVED outcome; each broken clause is the verdict
   (CLAUSE_BROKEN lines of the postcondition).  The verdict class is compared with the design-level
   expectation too (drift, reported only).

The universal quantifier over ALL byte strings is not reachable: the shape lattice is exhaustive, bytes
inside a shape are seeded samples.
"""
import collections
import concurrent.futures
import json
import os
import random
import re
import time

import vlib

CLOCKS = ["blockchain/blockchain.go", "protocol/full.go"]
REQUIRED_ACCEPT = [("msg", c) for c in (1, 2, 3, 4, 6, 7, 8, 9, 10, 11, 12, 13, 14, 15, 16, 17, 18, 20)] + \
                  [("block", e) for e in ("validate", "add", "subchain", "fullsync")] + [("tx", "validate"), ("tx", "wire")]
VERDICTS = ("accept", "rejectDecode", "rejectValidation", "ignore")


def canon(c):
    return json.dumps(c, sort_keys=True, separators=(",", ":"))


def model(ctx, cfg, want_exports=True, workers=6):
    return vlib.tlc(ctx, "MC_Wire.tla", cfg, workers=workers, timeout=1700, want_exports=want_exports,
                    sub="tlc_" + cfg.replace(".cfg", ""))


# ------------------------------------------------------------------------------------------------
# running the driver: shards in parallel, a dead driver process is a CRASH of the case in flight

_re_main_first = re.compile(r"^(main\.|verifh/)", re.M)


def crash_is_harness(log):
    """True when the process died in harness code (says nothing about the node)."""
    if "HARNESS-ERROR" in log:
        return True
    i = max(log.rfind("\npanic: "), log.rfind("\nfatal error: "), log.rfind("unexpected signal"))
    if i < 0:
        return True  # no Go crash report at all (killed, OOM, ...): not a verdict
    tail = log[i:]
    g = tail.find("\ngoroutine ")
    frames = [l for l in tail[g:].splitlines() if l and not l.startswith(("\t", "goroutine ", "panic(", "runtime.", "created by"))]
    for f in frames:
        if f.startswith(("main.", "verifh/")):
            return True
        if f.startswith("github.com/idena-network/idena-go/"):
            return False
    return True


def run_shard(ctx, drv, cases_path, shard, nshards, by_id, tag="", extra=()):
    rows, details = [], []
    after = -1
    for attempt in range(40):
        base = ctx.path("drv" + tag, "s%d_a%d" % (shard, attempt))
        out, det, inf, wd = base + ".trace", base + ".det", base + ".inflight", base + ".wd"
        os.makedirs(wd, exist_ok=True)
        p = vlib.run([drv, "-cases", cases_path, "-out", out, "-details", det, "-inflight", inf, "-shard", str(shard),
                      "-of", str(nshards), "-after", str(after)] + list(extra), cwd=wd,
                     env={"VERIF_SEED": str(ctx.seed), "VERIF_TIER": ctx.tier}, timeout=3000, check=False)
        if os.path.exists(out):
            rows += vlib.read_ndjson(out)
            details += vlib.read_ndjson(det)
        if p.returncode == 0:
            return rows, details
        log = "\n" + (p.stdout or "")
        if p.returncode == 4 and "RESTART-AFTER-TIMEOUT" in log:
            # the case in flight got its TIMEOUT line; the process was abandoned together with the goroutine that hung
            after = int(open(inf).read().strip())
            continue
        if crash_is_harness(log):
            raise vlib.CheckError("driver shard %d failed (rc=%d), not a verdict:\n%s" % (shard, p.returncode, log[-3000:]))
        try:
            cur = int(open(inf).read().strip())
        except Exception:
            raise vlib.CheckError("driver shard %d died without an in-flight case:\n%s" % (shard, log[-3000:]))
        i = max(log.rfind("\npanic: "), log.rfind("\nfatal error: "), log.rfind("unexpected signal"))
        site = ""
        for l in log[i:].splitlines():
            if l.startswith("github.com/idena-network/idena-go/"):
                site = l.rsplit("(", 1)[0].replace("github.com/idena-network/idena-go/", "")
                break
        if any(r_["id"] == cur for r_ in rows):
            raise vlib.CheckError("driver shard %d died after completing case %d:\n%s" % (shard, cur, log[-3000:]))
        rows.append({"ev": "Case", "id": cur, "c": by_id[cur], "verdict": "CRASH", "alloc": 0, "frame": 0})
        details.append({"id": cur, "verdict": "CRASH", "why": log[i:i + 400].strip(), "site": site, "ms": 0, "alloc": 0, "frame": 0})
        ctx.log("driver shard %d died while executing case %d (%s); restarting behind it" % (shard, cur, site))
        after = cur
    raise vlib.CheckError("driver shard %d crashed more than 40 times" % shard)


def run_cases(ctx, drv, cases, ids=None, tag="", extra=(), nshards=None):
    """cases: list of shapes; ids: their case ids (the id seeds the filler bytes), default 0..n-1."""
    ids = list(range(len(cases))) if ids is None else ids
    by_id = dict(zip(ids, cases))
    cases_path = ctx.path("cases%s.ndjson" % tag)
    with open(cases_path, "w") as f:
        for i in sorted(by_id):
            f.write(json.dumps({"id": i, "c": by_id[i]}, separators=(",", ":")) + "\n")
    n = nshards or max(2, min(16, ctx.cores))
    rows, details = [], []
    with concurrent.futures.ThreadPoolExecutor(max_workers=n) as ex:
        futs = [ex.submit(run_shard, ctx, drv, cases_path, s, n, by_id, tag, extra) for s in range(n)]
        for fu in futs:
            r, d = fu.result()
            rows += r
            details += d
    rows.sort(key=lambda r: r["id"])
    det = {d["id"]: d for d in details}
    seen = collections.Counter(r["id"] for r in rows)
    missing = [i for i in by_id if seen[i] != 1]
    if missing:
        raise vlib.CheckError("dead driver: %d exported cases have no (or several) trace lines, e.g. %s" % (len(missing), missing[:5]))
    return rows, det


def confirm_timeouts(ctx, drv, rows, det):
    """A watchdog measures wall time, which says little on a loaded machine.  Every case that got no verdict in
    time is run again, alone in its own process and with generous limits; only what still does not come back is
    a TIMEOUT of the real code."""
    tmo = [r for r in rows if r["verdict"] == "TIMEOUT"]
    if not tmo:
        return rows, det, 0, 0
    ids = [r["id"] for r in tmo]
    rows2, det2 = run_cases(ctx, drv, [r["c"] for r in tmo], ids, tag="_confirm", extra=["-watchdog", "120", "-hang", "15"],
                            nshards=max(1, min(len(tmo), 2 * ctx.cores)))
    again = {r["id"]: r for r in rows2}
    rows = [again.get(r["id"], r) for r in rows]
    det.update(det2)
    still = sum(1 for r in rows2 if r["verdict"] == "TIMEOUT")
    ctx.log("watchdog: %d cases without a verdict in the first pass, %d confirmed alone with long limits" % (len(tmo), still))
    return rows, det, len(tmo), still


# ------------------------------------------------------------------------------------------------
# keys of findings: the specific input signature

def has_dev(c, dim, val=None):
    return any(d[0] == dim and (val is None or d[1] == val) for d in c.get("devs", []) or [])


def signature(clause, row, det):
    c = row["c"]
    layer = c.get("layer")
    site = (det.get("site") or "").split(" ")[0]
    if clause == "Proportionate" and layer == "frame" and c.get("comp") == "s2" and c.get("dlen") in ("huge", "larger"):
        return "C12:s2-declared-length"
    bad = clause.startswith("Total:")
    if bad and ((layer == "tx" and c.get("type") == 1 and c.get("to") == "absent")
                or (layer == "msg" and c.get("code") == 9 and c.get("ftype") == "activation" and c.get("to") == "absent")):
        return "C12:activation-nil-recipient"
    if bad and (layer == "block" or (layer == "msg" and c.get("code") == 2)) and \
            (has_dev(c, "flags", "offcommit") or has_dev(c, "flags", "allbits")) and not has_dev(c, "offaddr"):
        return "C12:offline-flag-nil-addr"
    if clause == "Total:TIMEOUT" and layer == "msg" and c.get("code") == 8 and c.get("n") == "over":
        return "C12:blocksrange-overlong-answer-blocks-read-loop"
    # unstructured (raw / mutated) input that runs into the same dereference as a keyed finding is the same finding
    if bad and "validation.validateActivationTx" in site:
        return "C12:activation-nil-recipient"
    if bad and site.endswith("(*Blockchain).applyGlobalParams"):
        return "C12:offline-flag-nil-addr"
    what = clause.replace("Total:", "")
    where = "%s:%s" % (layer, c.get("code", c.get("entry", c.get("comp", ""))))
    if what in ("PANIC", "CRASH") and site:
        where = site     # the failing call site is stable for a panic; a hang or an allocation is keyed by its input class
    return "C12:%s:%s" % (what, where)


def describe(key, clause, items):
    row, det = items[0]
    shapes = [canon(r["c"]) for r, _ in items[:4]]
    s = "%s broken by the real code on %d shape(s); first: %s -> %s" % (clause, len(items), shapes[0], row["verdict"])
    if det.get("site"):
        s += " at " + det["site"]
    if det.get("why"):
        s += " (%s)" % det["why"][:160]
    if clause == "Proportionate":
        s += "; allocated %d bytes for a %d-byte frame" % (row["alloc"], row["frame"])
    if len(shapes) > 1:
        s += "; also " + " | ".join(shapes[1:])
    return s


# ------------------------------------------------------------------------------------------------

def pick_cases(ctx, quick, rnd):
    """Exhaustive table of the tier + a seeded sample of the next larger table + repeated byte samples."""
    cfg = "MC_Wire_quick.cfg" if quick else "MC_Wire_thorough.cfg"
    big_cfg = "MC_Wire_mid.cfg" if quick else "MC_Wire_xl.cfg"
    with concurrent.futures.ThreadPoolExecutor(max_workers=3) as ex:
        f1 = ex.submit(model, ctx, cfg)
        f2 = ex.submit(model, ctx, big_cfg)
        f3 = ex.submit(model, ctx, "MC_Wire_asis.cfg", False, 1)
        r, rb, ra = f1.result(), f2.result(), f3.result()
    if not r.ok:
        raise vlib.CheckError("design-level Wire model violates %s (model-only, not a verdict):\n%s" % (r.invariant, (r.error or "")[:1500]))
    table = sorted({canon(c) for c in r.exports})
    if len(table) * 2 != r.distinct:
        raise vlib.CheckError("export incomplete: %d shapes exported, %d states" % (len(table), r.distinct))
    if not rb.ok:
        raise vlib.CheckError("design-level Wire model (%s) violates %s" % (big_cfg, rb.invariant))
    have = set(table)
    extra = sorted({canon(c) for c in rb.exports} - have)
    rnd.shuffle(extra)
    nsample = 4000 if quick else 50000
    sample = extra[:nsample]
    cases = [json.loads(s) for s in table]
    # byte-level sampling inside a shape: raw and frame shapes are instantiated several times
    reps, mreps = (3, 12) if quick else (24, 200)
    rep = [c for c in cases if c["layer"] in ("raw", "frame") and c.get("dlen") != "huge" and c.get("raw") != "mutated"]
    mut = [c for c in cases if c.get("raw") == "mutated"]
    more = [json.loads(s) for s in sample]
    cases = cases + more + rep * (reps - 1) + mut * (mreps - 1)
    return cases, r, rb, ra, len(table), len(more), cfg, big_cfg


def selftest(ctx, rows):
    """Binding self-test: a recorded clean trace must be accepted, the same trace with one outcome replaced by
    PANIC, with one allocation blown up, and with one shape mangled must each be rejected."""
    clean = [r for r in rows if r["verdict"] in VERDICTS and r["alloc"] <= 64 * r["frame"] + 16777216][:400]
    if len(clean) < 50:
        raise vlib.CheckError("self-test: fewer than 50 clean trace lines")
    good = ctx.path("selftest", "good.ndjson")
    vlib.write_ndjson(good, clean)
    ok, info = vlib.trace_validate(ctx, "Trace_Wire.tla", "Trace_Wire.cfg", good)
    if not ok:
        raise vlib.CheckError("self-test: clean trace prefix rejected: %s" % info)

    def variant(name, fn, expect, delay):
        bad_rows = json.loads(json.dumps(clean))
        fn(bad_rows[37])
        bad = ctx.path("selftest", name + ".ndjson")
        vlib.write_ndjson(bad, bad_rows)
        time.sleep(delay)   # vlib.tlc names its scratch directory by the millisecond
        ok2, info2 = vlib.trace_validate(ctx, "Trace_Wire.tla", "Trace_Wire.cfg", bad)
        if ok2:
            raise vlib.CheckError("binding self-test failed: trace with %s was accepted" % name)
        got = info2.get("clause") or ("rejected-at-%s" % info2.get("line"))
        if expect not in got or info2.get("line") != 38:
            raise vlib.CheckError("binding self-test: %s gave %s at line %s, expected %s at 38" % (name, got, info2.get("line"), expect))
    with concurrent.futures.ThreadPoolExecutor(max_workers=3) as ex:
        futs = [ex.submit(variant, "panic", lambda r: r.update(verdict="PANIC"), "Total:PANIC", 0.0),
                ex.submit(variant, "alloc", lambda r: r.update(alloc=2147483647), "Proportionate", 0.05),
                ex.submit(variant, "shape", lambda r: r["c"].update(state="elsewhere"), "rejected-at", 0.1)]
        for fu in futs:
            fu.result()
    ctx.log("binding self-test: PANIC outcome, blown-up allocation and mangled shape each rejected at the corrupted line")


def judge(ctx, rows, det):
    """TLC validates the trace; every broken clause instance is mapped to the signature of its input and reported."""
    trace = ctx.path("trace.ndjson")
    vlib.write_ndjson(trace, rows)
    ok, info = vlib.trace_validate(ctx, "Trace_Wire.tla", "Trace_Wire.cfg", trace, timeout=3000)
    broken = info.get("broken") or []
    if not ok and not broken:
        line = info.get("line")
        bad = rows[line - 1] if line and line <= len(rows) else None
        raise vlib.CheckError("trace rejected without a broken clause at line %s (a line that is not a shape of the table): %s"
                              % (line, json.dumps(bad)[:600]))
    groups = collections.OrderedDict()
    for line, clause in broken:
        row = rows[line - 1]
        d = det.get(row["id"], {})
        key = signature(clause, row, d)
        groups.setdefault((key, clause), []).append((row, d))
    for (key, clause), items in groups.items():
        ex = ctx.path("replay_%s.ndjson" % re.sub(r"[^A-Za-z0-9_.-]", "_", key)[:60])
        vlib.write_ndjson(ex, [dict(row, detail=d) for row, d in items[:200]])
        vlib.report_violation(ctx, key, describe(key, clause, items), replay_src=ex,
                              payload={"seed": ctx.seed, "ids": [row["id"] for row, _ in items[:50]],
                                       "shapes": [row["c"] for row, _ in items[:50]], "count": len(items)})
    return info, broken, groups


def replay(ctx, drv):
    """tools/check C12 --replay <file>: rerun the recorded shapes with the recorded seed and case ids."""
    doc = json.load(open(ctx.replay))
    pl = doc.get("payload") or {}
    shapes, ids = pl.get("shapes") or [], pl.get("ids")
    if not shapes:
        raise vlib.CheckError("replay file carries no shapes")
    ctx.seed = int(pl.get("seed", doc.get("seed", ctx.seed)))
    if not ids or len(ids) != len(shapes):
        ids = None
    rows, det = run_cases(ctx, drv, shapes, ids)
    rows, det, _, _ = confirm_timeouts(ctx, drv, rows, det)
    info, broken, groups = judge(ctx, rows, det)
    ctx.log("replay: %d shapes, outcomes %s, %d broken clause instances" % (len(rows), dict(collections.Counter(r_["verdict"] for r_ in rows)), len(broken)))
    return vlib.finish(ctx, "model_checking", {"states": len(rows), "transitions": len(rows), "traces_validated_against_impl": len(rows),
                                               "samples": shapes[:3], "rule": "replay of recorded shapes"})


def main(ctx):
    quick = ctx.tier == "quick"
    rnd = random.Random(ctx.seed)
    drv = vlib.build_driver(ctx, "d_wire", clocks=CLOCKS)
    if getattr(ctx, "replay", None):
        return replay(ctx, drv)

    # 1. model runs: the table (exhaustive) + the next larger table (sampled) + the transcription of the current decoder
    cases, r, rb, ra, ntable, nsample, cfg, big_cfg = pick_cases(ctx, quick, rnd)
    candidates = []
    if not ra.ok:
        if ra.invariant != "Proportionate":
            raise vlib.CheckError("as-is Wire model fails on %s (expected at most Proportionate)" % ra.invariant)
        candidates.append("Proportionate fails in the model with BoundedDecode = FALSE (s2 frame declaring a huge length): candidate, decided on the real code below")
    ctx.log("model %s: %d generated / %d distinct, %d shapes; %s: %d shapes, %d sampled; %d cases to run; as-is model: %s"
            % (cfg, r.generated, r.distinct, ntable, big_cfg, len(rb.exports), nsample, len(cases), "candidate " + str(ra.invariant) if not ra.ok else "ok"))

    # 2. the real code
    t = time.time()
    first = os.environ.get("VERIF_C12_WATCHDOG")     # testing aid: a tiny first-pass watchdog exercises the confirmation pass
    rows, det = run_cases(ctx, drv, cases, extra=["-watchdog", first] if first else ())
    rows, det, tmo1, tmo2 = confirm_timeouts(ctx, drv, rows, det)
    outcome = collections.Counter(r_["verdict"] for r_ in rows)
    ctx.log("driver: %d cases in %.1fs: %s" % (len(rows), time.time() - t, dict(outcome)))
    by_layer = collections.Counter(r_["c"]["layer"] for r_ in rows)
    for layer in ("frame", "raw", "msg", "tx", "block"):
        if not by_layer.get(layer):
            raise vlib.CheckError("dead driver: no case of layer %s was run" % layer)
    if outcome.get("accept", 0) < 50 or outcome.get("rejectDecode", 0) < 50 or outcome.get("rejectValidation", 0) < 50:
        raise vlib.CheckError("dead driver: verdict classes hardly exercised: %s" % dict(outcome))
    # vacuity: the well-formed point of every lattice must get through to the code behind the gates
    accepted = collections.Counter((r_["c"]["layer"], r_["c"].get("code", r_["c"].get("entry"))) for r_ in rows if r_["verdict"] == "accept")
    dead = [k for k in REQUIRED_ACCEPT if not accepted.get(k)]

    # 3. TLC judges the trace
    info, broken, groups = judge(ctx, rows, det)
    if dead and not ctx.violations:
        # (with violations reported the missing acceptances are their consequence, not a dead driver)
        raise vlib.CheckError("dead driver: no accepted case for %s (the well-formed objects do not reach the code behind the gates)" % dead)

    # 4. binding self-test
    selftest(ctx, rows)

    drift = info.get("drift") or 0
    ctx.log("trace: %d lines validated by TLC in %.1fs, %d broken clause instances in %d groups, drift %d"
            % (len(rows), info.get("wall", 0), len(broken), len(groups), drift))
    samples = [rows[0]["c"], rows[len(rows) // 3]["c"], rows[2 * len(rows) // 3]["c"]]
    cov = {
        "states": r.distinct, "transitions": r.generated,
        "traces_validated_against_impl": len(rows),
        "trace_lines_validated": len(rows),
        "samples": samples,
        "exhaustive": True,
        "model_cfg": cfg,
        "shapes_exhaustive": ntable,
        "shapes_sampled_from_larger_table": nsample,
        "larger_table": {"cfg": big_cfg, "shapes": len(rb.exports), "states": rb.distinct},
        "cases_by_layer": dict(by_layer),
        "outcomes": dict(outcome),
        "drift_lines": drift,
        "timeouts_first_pass": tmo1, "timeouts_confirmed": tmo2,
        "design_candidates": candidates,
        "max_alloc_bytes": max(r_["alloc"] for r_ in rows),
        "rule": "every shape of the bounded Wire table (%s) instantiated with seeded filler bytes and run on the real entry points "
                "(handle() of the real gossip handler incl. msgio + Decode, readStatus, Proposals/Votes/TxPool/KeysPool/Flipper, full-sync "
                "applier, ValidateTx x3 modes, ValidateBlock/AddBlock/ValidateSubChain) under recover + watchdog + allocation meter; "
                "+ %d shapes sampled (seed) from the larger table %s; raw/frame shapes repeated with fresh bytes; exhaustive over "
                "shapes, sampled inside a shape" % (cfg, nsample, big_cfg),
    }
    return vlib.finish(ctx, "model_checking", cov, assumptions=[
        "the queue hop of AsyncTxPool / AsyncKeysPool / the flipper write loop is folded into the call (their loop bodies run on the case goroutine)",
        "the libp2p host is absent: the handler is built by its real constructor with a nil host, the peer by the real newPeer over an in-memory stream",
        "Proportionate bound: alloc <= 64 * |frame| + 16 MiB (process-wide TotalAlloc delta, so background allocation counts against the case)",
        "state classes: quick = empty / populated (no ceremony running; the sampled larger table adds the short session); "
        "thorough = also the four validation periods; fast sync, snapshot download and the consensus engine's own loops are not driven",
    ])
