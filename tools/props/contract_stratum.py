"""The contract stratum of C04 and C05.

The chain histories that decide C04 / C05 (harness/cmd/d_chain) carry no contract transactions: contracts are driven by
harness/cmd/d_contract from the lifecycle model spec/ContractOps.tla and judged for C15.  A change that mints coins or
takes a stranger's coins THROUGH a contract breaks C04 / C05 all the same, so both checks also run this stratum:

1. TLC explores ContractOps.tla with at most ONE deviation from the well-formed default per operation
   (MC_ContractOps_stratum.cfg) and exports an edge cover of the lifecycle graph of the 5 embedded, 5 bundled wasm and the
   hand-assembled payer contract;
2. every well-formed operation, every operation whose recipient is the contract itself / the sender, every block with two
   contract transactions of one sender (a failed attempt first), and seeded samples of the sandwich blocks, pre-funded
   creations and other single deviations are executed by the REAL node (d_contract), the whole committed ledger is read
   back after every block;
3. TLC validates the trace against spec/Trace_ContractLedger.tla: clauses C04:NonNeg, C04:NoMint, C05:OnlySigner in the
   properties' own words, evaluated on every block with a contract transaction.

run(ctx, pid, quick) reports the clauses of `pid` as violations (keys <pid>:contract:<clause>:<operation signature>) and
returns a coverage dict."""
import collections
import concurrent.futures
import json
import os
import random
import re

import vlib
from props import c15


def run(ctx, pid, quick):
    rnd = random.Random(ctx.seed * 7 + 3)
    drv = vlib.build_driver(ctx, "d_contract", clocks=c15.CLOCKS)
    ro = vlib.tlc(ctx, "ContractOps.tla", "MC_ContractOps_stratum.cfg", workers=1, timeout=1800)
    if not ro.ok:
        raise vlib.CheckError("contract stratum: scenario generator failed: %s" % (ro.error or "")[:1500])
    ro.exports.sort(key=lambda e: json.dumps(e, sort_keys=True))
    plain = [e for e in ro.exports if not c15.is_sandwich(e) and not c15.is_prefund(e)]
    pairs = [e for e in plain if e["path"][-1]["pair"] in ("same", "term", "samerin")]
    cases = c15.sample_cases([e for e in plain if e["path"][-1]["pair"] == "no"], rnd, 420 if quick else 3000)
    cases += pairs if not quick else rnd.sample(pairs, min(len(pairs), 160))
    cases += c15.sample_sandwiches([e for e in ro.exports if c15.is_sandwich(e)], rnd, 160 if quick else 1500)
    cases += c15.sample_prefunds([e for e in ro.exports if c15.is_prefund(e)], rnd, 40 if quick else 400)
    seen, uniq = set(), []
    for e in cases:
        s = json.dumps(e, sort_keys=True)
        if s not in seen:
            seen.add(s)
            uniq.append(e)
    cases = uniq
    if not cases:
        raise vlib.CheckError("contract stratum: no scenarios exported (dead generator)")
    allc = sorted(cases, key=lambda c: (c["c"], c["w"], json.dumps(c["path"])))
    nb = 3 if quick else 8
    per = (len(allc) + nb - 1) // nb
    batches = [allc[i:i + per] for i in range(0, len(allc), per)]

    def run_batch(bi):
        wd = os.path.dirname(ctx.path("cs_wd_%d" % bi, "x"))
        cp = ctx.path("cs_cases_%d.ndjson" % bi)
        with open(cp, "w") as f:
            for c in batches[bi]:
                f.write(json.dumps(c) + "\n")
        tp, sp = ctx.path("cs_trace_%d.ndjson" % bi), ctx.path("cs_summary_%d.json" % bi)
        pr = vlib.run([drv, "-cases", cp, "-out", tp, "-summary", sp], cwd=wd,
                      env={"VERIF_SEED": str(ctx.seed * 1000 + 500 + bi), "VERIF_TIER": ctx.tier}, timeout=3400, check=False)
        return bi, pr, tp, sp
    with concurrent.futures.ThreadPoolExecutor(max_workers=max(1, min(len(batches), ctx.cores // 2))) as ex:
        results = list(ex.map(run_batch, range(len(batches))))
    stats = collections.Counter()
    rows = []
    for bi, pr, tp, sp in results:
        if pr.returncode != 0:
            vlib.driver_failure(ctx, pr.stdout or "")
            raise vlib.CheckError("contract stratum: driver failed on batch %d (rc=%d):\n%s" % (bi, pr.returncode, (pr.stdout or "")[-3000:]))
        for k, v in json.load(open(sp)).items():
            stats[k] += v
        rows += vlib.read_ndjson(tp)
    txs = [x for x in rows if x["ev"] == "Tx"]
    cnt = collections.Counter()
    for x in txs:
        ok = x["rc"]["success"]
        cnt["ok"] += ok
        cnt["failed"] += not ok
        cnt["moves_coins_ok"] += ok and len(x["eff"]["req"]) >= 1
        cnt["recipient_is_contract_or_sender_ok"] += ok and x["op"]["arg"] in ("toself", "tosender")
        cnt["second_of_pair"] += x.get("role") == "tail" and x["op"]["pair"] in ("same", "term", "samerin")
        cnt["in_sandwich"] += x["op"]["pair"].startswith("sw-")
        cnt["after_failed_attempt_and_credit_ok"] += ok and x.get("role") == "tail" and x["op"]["pair"] == "samerin"
        cnt["wasm_ok"] += ok and x["tx"]["wasm"]
        cnt["embedded_ok"] += ok and not x["tx"]["wasm"]
    dead = [k for k in ("moves_coins_ok", "recipient_is_contract_or_sender_ok", "second_of_pair", "in_sandwich", "after_failed_attempt_and_credit_ok", "wasm_ok", "embedded_ok", "failed") if not cnt[k]]
    if dead:
        raise vlib.CheckError("contract stratum: dead driver, never observed %s" % ", ".join(dead))

    chs = c15.chunks_of(rows, 1500)
    paths = []
    for i, ch in enumerate(chs):
        pth = ctx.path("cs_chunks", "chunk_%d.ndjson" % i)
        vlib.write_ndjson(pth, ch)
        paths.append(pth)

    # binding self-test: a bystander loses coins / coins appear from nowhere in a copy of the first chunk
    def mutate(rs, what):
        for row in rs:
            if row.get("ev") == "Tx" and not row["mid"]:
                for a in row["st"]:
                    if a["a"] not in (row["tx"]["from"], "k0") and not a["code"] and len(a["bal"]) >= 6:
                        if what == "mint":
                            a["bal"][5] += 1          # + 10^20 base units (more than any fee of the block) out of nowhere
                        elif a["bal"][-1] > 1:
                            a["bal"][-1] -= 1         # a bystander loses coins
                        else:
                            continue
                        return rs
        return None
    selfp = []
    for what in ("mint", "theft"):
        bad = mutate(json.loads(json.dumps(chs[0][:300])), what)
        if bad is None:
            raise vlib.CheckError("contract stratum: self-test could not build a corrupted trace")
        bp = ctx.path("cs_selftest", "%s.ndjson" % what)
        vlib.write_ndjson(bp, bad)
        selfp.append(bp)

    def validate(a):
        idx, path = a
        r = vlib.tlc(ctx, "Trace_ContractLedger.tla", "Trace_ContractLedger.cfg", workers=1, env={"TRACE_FILE": path}, timeout=1800,
                     want_exports=False, sub="csval_%d" % idx)
        info = {"broken": [], "states": r.distinct}
        for line in r.out.splitlines():
            m = re.match(r'<<"CLAUSE_BROKEN", (\d+), "([^"]*)">>', line)
            if m:
                info["broken"].append((int(m.group(1)), m.group(2)))
            m = re.match(r'<<"TRACE_REJECTED_AT", (\d+), (\d+)>>', line)
            if m:
                info["rejected_at"] = int(m.group(1))
        if not r.ok and not info["broken"]:
            raise vlib.CheckError("contract stratum: TLC error while validating a trace chunk (not a verdict):\n" + r.out[-3000:])
        return info
    jobs = list(enumerate(paths + selfp))
    with concurrent.futures.ThreadPoolExecutor(max_workers=max(1, min(6, ctx.cores // 2))) as ex:
        infos = list(ex.map(validate, jobs))
    theft, mint = infos.pop(), infos.pop()
    if not any(c == "C04:NoMint" for _, c in mint["broken"]) or not any(c == "C05:OnlySigner" for _, c in theft["broken"]):
        raise vlib.CheckError("contract stratum: binding self-test failed (corrupted traces accepted: %s / %s)" % (mint["broken"][:2], theft["broken"][:2]))
    nbroken = 0
    others = collections.Counter()
    for ci, info in enumerate(infos):
        ch = chs[ci]
        for line, clause in info["broken"]:
            if not clause.startswith(pid + ":"):
                others[clause] += 1
                continue
            nbroken += 1
            bad = ch[line - 1]
            start = max(i for i in range(line) if ch[i].get("ev") == "Reset")
            exf = ctx.path("cs_replay_%s_%d.ndjson" % (clause.replace(":", "_"), ci))
            vlib.write_ndjson(exf, ch[start:line])
            slim = {k: bad.get(k) for k in ("c", "mainc", "role", "op", "tx", "rc", "err", "mid")}
            vlib.report_violation(ctx, "%s:contract:%s:%s" % (pid, clause.split(":", 1)[1], c15.signature(bad)),
                                  "clause %s broken by a block with contract transactions executed by the real node (%s, %s, success=%s, error=%r): %s"
                                  % (clause, c15.signature(bad), json.dumps(bad.get("op")), bad["rc"]["success"], bad.get("err"), json.dumps(slim)[:900]),
                                  replay_src=exf, payload={"clause": clause, "line": slim})
    for c, n in others.items():
        ctx.notes.append("contract stratum: clause %s of another property broken %d times in this run" % (c, n))
    ctx.log("contract stratum: %d lifecycle transitions exported (%d states), %d scenarios, %d contract transactions (%d ok / %d failed) in %d blocks, %d lines validated, %d broken clause instances; self-test: mint and theft rejected"
            % (len(ro.exports), ro.distinct, len(cases), len(txs), cnt["ok"], cnt["failed"], sum(1 for x in txs if not x["mid"]), len(rows), nbroken))
    return {"model_states": ro.distinct, "transitions_exported": len(ro.exports), "scenarios": len(cases), "contract_txs": len(txs),
            "blocks_judged": sum(1 for x in txs if not x["mid"]), "trace_lines_validated": len(rows), "observed": dict(cnt),
            "cfg": "MC_ContractOps_stratum.cfg"}
