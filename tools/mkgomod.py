#!/usr/bin/env python3
"""harness/go.mod = /repo/go.mod with the module line replaced and idena-go itself required through a
replace directive, so that every dependency resolves to exactly the version /repo pins (offline)."""
import os, re, sys
repo = sys.argv[1] if len(sys.argv) > 1 else "/repo"
here = os.path.dirname(os.path.dirname(os.path.abspath(__file__)))
src = open(os.path.join(repo, "go.mod")).read()
src = re.sub(r"^module .*$", "module verifh", src, count=1, flags=re.M)
src += "\nrequire github.com/idena-network/idena-go v0.0.0\n\nreplace github.com/idena-network/idena-go => %s\n" % repo
dst = sys.argv[2] if len(sys.argv) > 2 else os.path.join(here, "harness", "go.mod")
if not os.path.exists(dst) or open(dst).read() != src:
    open(dst, "w").write(src)
gs = dst[:-len(".mod")] + ".sum"
s = open(os.path.join(repo, "go.sum")).read()
if not os.path.exists(gs) or open(gs).read() != s:
    open(gs, "w").write(s)
