#!/bin/sh
# Runs the repository's pinned baseline suite with the verification guard OFF (no -tags verif, no
# overlay) from a scratch copy of /repo's working tree, so that nothing is littered into /repo.
set -e
export GOFLAGS=-mod=mod GOPROXY=off GOSUMDB=off GOTOOLCHAIN=local
T=$(mktemp -d)
trap 'rm -rf "$T"' EXIT
rsync -a --exclude .git /repo/ "$T/repo/"
cd "$T/repo"
go test -json -vet=off -count=1 -timeout 25m ./... 
