#!/bin/sh
# Offline setup after a fresh restore: warm the Go build cache for the harness (overlay build of /repo)
# and check that the TLA+ tools answer.  Everything is rebuilt by the checks themselves; this only
# saves time on the first check.
set -e
cd "$(dirname "$0")/.."
export GOFLAGS=-mod=mod GOPROXY=off GOSUMDB=off GOTOOLCHAIN=local
python3 tools/mkgomod.py /repo
T=$(mktemp -d)
trap 'rm -rf "$T"' EXIT
(cd harness && go build -o "$T/mkoverlay" ./cmd/mkoverlay)
"$T/mkoverlay" -repo /repo -out "$T/ov" >/dev/null
(cd harness && go build -tags verif -overlay "$T/ov/overlay.json" -o "$T/" ./cmd/... ) || echo "setup: warm build failed (checks will report)"
for f in spec/*.tla; do :; done
echo "setup done"
