#!/usr/bin/env python3
"""Hand mutants of core/ceremony/qualification.go / reporters.go for the growth module QUAL (C17Q): apply each to a PRIVATE
worktree of the repository (VERIF_REPO), run ./tools/check C17Q, revert.  usage: tools/mut_qual.py [quick|thorough] [M01 M07 ...]
Results: one json line per mutant on stdout and in $MUT_OUT/mut_qual_<tier>.jsonl (rc 1 = reported as VIOLATION, rc 0 = drift only)."""
import json, os, subprocess, sys, time
REPO = os.environ.get("VERIF_REPO", "/tmp/bw/qual/repo")      # a PRIVATE worktree of the repository, never /repo itself
VERIF = os.path.dirname(os.path.dirname(os.path.abspath(__file__)))
OUT = os.environ.get("MUT_OUT", "/tmp")
Q = "core/ceremony/qualification.go"
R = "core/ceremony/reporters.go"
M = [
 ("M01 report rule, committee of 4: >= 3 -> >= 2", Q, "\t\treported = reportsCount >= 3\n", "\t\treported = reportsCount >= 2\n"),
 ("M02 report rule, committee of 2-3: all -> >= 2", Q, "\t\treported = reportsCount >= reportCommitteeSize\n", "\t\treported = reportsCount >= 2\n"),
 ("M03 report rule, big committee: > 0.5 -> >= 0.5", Q, "float32(reportsCount)/float32(reportCommitteeSize) > 0.5", "float32(reportsCount)/float32(reportCommitteeSize) >= 0.5"),
 ("M04 Qualified(left): >= 0.75 -> > 0.75", Q, "\tif float32(left)/totalAnswersCount >= 0.75 {", "\tif float32(left)/totalAnswersCount > 0.75 {"),
 ("M05 WeaklyQualified(right): 0.66 -> 0.6", Q, "\tif float32(right)/totalAnswersCount >= 0.66 {", "\tif float32(right)/totalAnswersCount >= 0.6 {"),
 ("M06 QualifiedByNone: 0.66 -> 0.5", Q, "\tif float32(none)/totalAnswersCount >= 0.66 {", "\tif float32(none)/totalAnswersCount >= 0.5 {"),
 ("M07 report allowance: >= 0.34 -> >= 0.5", Q, "float32(flipsCount) >= 0.34", "float32(flipsCount) >= 0.5"),
 ("M08 ignoreGrades without the no-approve rule", Q, "ignoreGrades := ignoreReports || !hasApprove || increasedGradeCnt > 1", "ignoreGrades := ignoreReports || increasedGradeCnt > 1"),
 ("M09 increased grades: > 1 -> > 2", Q, "ignoreGrades := ignoreReports || !hasApprove || increasedGradeCnt > 1", "ignoreGrades := ignoreReports || !hasApprove || increasedGradeCnt > 2"),
 ("M10 increased grade counted from D", Q, "\t\t\t\tif grade > types.GradeD {", "\t\t\t\tif grade >= types.GradeD {"),
 ("M11 upgrade 11: reporter with ignored grades stays in the book", Q, "\t\t\t\t\treportersToReward.deleteReporter(candidate.Address)\n\t\t\t\t\tgrades.deleteGrades(candidateIdx)\n", "\t\t\t\t\tgrades.deleteGrades(candidateIdx)\n"),
 ("M12 before upgrade 11: ignored reports stay in the committee size", Q, "\t\t\t\t\tdata[flipIdx].reportCommitteeSize--\n", "\t\t\t\t\t_ = flipIdx\n"),
 ("M13 reporters of flips that were not Reported stay in the book", Q, "\t\tif result[flipIdx].grade != types.GradeReported {\n\t\t\treportersToReward.deleteFlip(flipIdx)\n\t\t}\n", ""),
 ("M14 all-zero long answers are counted (quirk SilentWhenAllZero removed)", Q, "if attachment == nil || len(attachment.Answers) == 0 {", "if attachment == nil {"),
 ("M15 wrong answer on a weakly qualified flip: 0.5 -> 1 point", Q, "\t\t\t\t\tanswerPoint = 0.5\n", "\t\t\t\t\tanswerPoint = 1\n"),
 ("M16 extra flips: compensation never consumed", Q, "\t\t\t\tavailableExtraFlips -= 1\n", "\t\t\t\t_ = availableExtraFlips\n"),
 ("M17 short session scores reported flips", Q, "\t\tif !shortSession || qual.grade != types.GradeReported {", "\t\tif true {"),
 ("M18 not-approved test inverted in getFlipStatusForCandidate", Q, "|| !notApprovedFlips.Contains(flipIdx) ||", "|| notApprovedFlips.Contains(flipIdx) ||"),
 ("M19 long answers not checked against the committed answer hash", Q, "shortAttachment == nil || hash != crypto.Hash(append(shortAttachment.Answers, attachment.Salt...)) ||", "shortAttachment == nil || (hash != crypto.Hash(append(shortAttachment.Answers, attachment.Salt...)) && hash == common.Hash{}) ||"),
 ("M34 long answers: words rnd of the proof not compared", Q, "|| getWordsRnd(h) != shortAttachment.Rnd {", "|| getWordsRnd(h) != getWordsRnd(h) {"),
 ("M20 missing answers not flagged", Q, "\t\treturn 0, 0, nil, false, true\n", "\t\treturn 0, 0, nil, false, false\n"),
 ("M21 deleteFlip leaves the per-address index", R, "\t\t\tdelete(r.reportedFlipsByReporter, reporter)\n\t\t\tdelete(r.reportersByAddr, reporter)\n\t\t}\n\t}\n}\n\nfunc (r *reportersToReward) deleteReporter", "\t\t\tdelete(r.reportedFlipsByReporter, reporter)\n\t\t}\n\t}\n}\n\nfunc (r *reportersToReward) deleteReporter"),
 ("M22 deleteReporter leaves the published map", R, "\t\tdelete(r.reportersByFlip[flip], reporter)\n", "\t\t_ = flip\n"),
 ("M23 setValidationResult: NewbieOrBetter test inverted", R, "\tif !newState.NewbieOrBetter() {", "\tif newState.NewbieOrBetter() {"),
 ("M24 deleteGrades forgets the report counter", R, "\t\tif grade == types.GradeReported {\n\t\t\tflip.reportCnt--\n\t\t}\n", ""),
 ("M25 addGrade: approve counted above D only", R, "\tif grade >= types.GradeD {\n\t\tflip.approveCnt++", "\tif grade > types.GradeD {\n\t\tflip.approveCnt++"),
 ("M26 addAnswers: a later submission overwrites the first", Q, "\tif _, ok := m[sender]; ok {\n\t\treturn\n\t}\n\tm[sender] = txPayload", "\tm[sender] = txPayload"),
 ("M27 restore puts the long answers into the short map", Q, "\t\tq.longAnswers[item.Addr] = item.Ans\n", "\t\tq.shortAnswers[item.Addr] = item.Ans\n"),
 ("M28 Qualified flip counts only when answered right", Q, "\t\t\t\tif qual.answer == answer {\n\t\t\t\t\tanswerPoint = 1\n\t\t\t\t}\n\t\t\t\tqualifiedFlipsCount += 1\n\t\t\t\tflipAnswerStats.Considered = true\n", "\t\t\t\tif qual.answer == answer {\n\t\t\t\t\tanswerPoint = 1\n\t\t\t\t\tqualifiedFlipsCount += 1\n\t\t\t\t}\n\t\t\t\tflipAnswerStats.Considered = true\n"),
 ("M29 graded rule, committee of 5: >= 3 -> >= 2 (grade score only)", Q, "\t\t\tgraded = approveCnt >= 3\n", "\t\t\tgraded = approveCnt >= 2\n"),
 ("M30 compensation counted over seven regular flips", Q, "for i := 0; i < int(common.ShortSessionFlipsCount()) && i < len(flipsToSolve) && availableExtraFlips", "for i := 0; i <= int(common.ShortSessionFlipsCount()) && i < len(flipsToSolve) && availableExtraFlips"),
 ("M31 persist drops a sender (first of the map iteration)", Q, "\tfor k, v := range q.longAnswers {\n\t\tlong = append(long, database.DbAnswer{", "\tfor k, v := range q.longAnswers {\n\t\tif len(long) == 0 && len(q.longAnswers) > 2 {\n\t\t\tlong = append(long, database.DbAnswer{})\n\t\t\tcontinue\n\t\t}\n\t\tlong = append(long, database.DbAnswer{"),
 ("M32 Qualified(right) tested before left is irrelevant; right threshold 0.75 -> 0.8", Q, "\tif float32(right)/totalAnswersCount >= 0.75 {", "\tif float32(right)/totalAnswersCount >= 0.8 {"),
 ("M33 report allowance: >= 0.34 -> > 0.34 (exactly 17 of 50)", Q, "float32(flipsCount) >= 0.34", "float32(flipsCount) > 0.34"),
 ("M35 setValidationResult: flips of a missed author deleted although any report is rewarded", R, "\tif missed && !rewardAnyReport {", "\tif missed && (!rewardAnyReport || true) {"),
 ("M36 unanswered short flip never counts (not-approved test dropped)", Q, "|| !notApprovedFlips.Contains(flipIdx) ||", "|| false ||"),
 ("M37 the first candidate's reports are not booked", Q, "\t\t\t\treportersToReward.addReport(flipIdx, candidate.Address)\n", "\t\t\t\tif candidateIdx > 0 {\n\t\t\t\t\treportersToReward.addReport(flipIdx, candidate.Address)\n\t\t\t\t}\n"),
 ("M38 unanswered weakly qualified flip gives half a point", Q, "\t\t\t\tcase answer == types.None:\n", "\t\t\t\tcase false:\n"),
 ("M39 old grade: Round -> Floor (grade value only)", Q, "types.Grade(math2.Round(float64(totalGradeScore) / float64(approveCnt)))", "types.Grade(math2.Floor(float64(totalGradeScore) / float64(approveCnt)))"),
 ("M40 deleteFlip leaves the published map", R, "\treporters := r.reportersByFlip[flip]\n\tdelete(r.reportersByFlip, flip)\n", "\treporters := r.reportersByFlip[flip]\n"),
 ("M41 left and right counts swapped", Q, "\tleft, right, none := getAnswersCount(answers)\n", "\tright, left, none := getAnswersCount(answers)\n"),
 ("M42 None answers not counted", Q, "\t\tif a[k] == types.None {\n\t\t\tnone++\n\t\t}\n", ""),
 ("M43 grades of an ignored grader stay (deleteGrades skipped)", Q, "\t\t\t\t\tgrades.deleteGrades(candidateIdx)\n", ""),
 ("M44 answers of a candidate without grades are dropped", Q, "\t\t\tdata[flipIdx].answers = append(data[flipIdx].answers, answer)\n", "\t\t\tif grade != types.GradeNone {\n\t\t\t\tdata[flipIdx].answers = append(data[flipIdx].answers, answer)\n\t\t\t}\n"),
 ("M45 extra flip counts although unanswered", Q, "if availableExtraFlips > 0 && answer != types.None {", "if availableExtraFlips > 0 {"),
 ("M46 short session: can't-parse branch reports up to eight flips (count only)", Q, "flipsCount := uint32(math.MinInt(int(common.ShortSessionFlipsCount()), len(flipsToSolve)))", "flipsCount := uint32(math.MinInt(int(common.ShortSessionFlipsCount())+2, len(flipsToSolve)))"),
]
def sh(cmd, **kw):
    return subprocess.run(cmd, shell=True, stdout=subprocess.PIPE, stderr=subprocess.STDOUT, text=True, **kw)
def main():
    tier = sys.argv[1] if len(sys.argv) > 1 else "quick"
    only = sys.argv[2:] 
    if os.path.realpath(REPO) == "/repo":
        sys.exit("refusing to mutate /repo itself")
    env = dict(os.environ, GOFLAGS="-mod=mod", GOPROXY="off", GOSUMDB="off", GOTOOLCHAIN="local", VERIF_REPO=REPO)
    out = open(os.path.join(OUT, "mut_qual_%s.jsonl" % tier), "a")
    for name, fn, old, new in M:
        if only and name.split()[0] not in only:
            continue
        path = os.path.join(REPO, fn)
        src = open(path).read()
        if src.count(old) != 1:
            print("SKIP (pattern occurs %d times): %s" % (src.count(old), name)); continue
        line = src[:src.index(old)].count("\n") + 1
        open(path, "w").write(src.replace(old, new))
        t = time.time()
        try:
            p = subprocess.run(["./tools/check", "C17Q", "--tier", tier], cwd=VERIF, env=env, stdout=subprocess.PIPE, stderr=subprocess.STDOUT, text=True, timeout=3000)
            rc, txt = p.returncode, p.stdout
        except subprocess.TimeoutExpired:
            rc, txt = 99, "timeout"
        finally:
            open(path, "w").write(src)
        keys = [l.strip()[4:].split(": ")[0] for l in txt.splitlines() if l.strip().startswith("key=")]
        drift = {}
        try:
            import tempfile
            ev = json.load(open(os.path.join(tempfile.gettempdir(), "verif-alt-" + os.path.basename(os.path.realpath(REPO)), "evidence", "C17Q.json")))
            if abs(ev.get("wall_s", 0) - (time.time() - t)) < 20:
                drift = {k: v["lines"] for k, v in ev["coverage"].get("qual_drift", {}).items()}
        except Exception:
            pass
        err = [l for l in txt.splitlines() if l.startswith("CHECK-ERROR")]
        rec = {"mutant": name, "at": "%s:%d" % (fn, line), "rc": rc, "keys": keys, "drift": drift, "err": err[:1], "wall": round(time.time() - t)}
        print(json.dumps(rec)); sys.stdout.flush()
        out.write(json.dumps(rec) + "\n"); out.flush()
    sh("git -C %s status --short" % REPO)
main()
