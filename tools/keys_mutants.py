#!/usr/bin/env python3
"""Hand mutants of the repository code the KEYS module covers: apply to the private worktree, run the module, revert."""
import json
import os
import re
import subprocess
import sys
import time

REPO = "/tmp/bw/keys/repo"
VERIF = "/tmp/bw/keys/verif"
KP = "core/mempool/keyspool.go"
AK = "core/mempool/async_keyspool.go"
CE = "core/ceremony/ceremony.go"
FL = "core/flip/flipper.go"

MUTANTS = [
    ("M01 second public key of a sender replaces the first (>= -> >)", KP,
     "if old, ok := p.flipKeys[sender]; ok && old.Epoch >= key.Epoch {", "if old, ok := p.flipKeys[sender]; ok && old.Epoch > key.Epoch {"),
    ("M02 second package of a sender replaces the first (>= -> >)", KP,
     "if old, ok := p.flipKeyPackages[sender]; ok && old.Epoch >= keysPackage.Epoch {", "if old, ok := p.flipKeyPackages[sender]; ok && old.Epoch > keysPackage.Epoch {"),
    ("M03 validateKey: epoch check dropped", KP,
     "\tif appState.State.Epoch() != epoch {\n\t\treturn errors.New(\"invalid epoch\")\n\t}\n", ""),
    ("M04 validateKey: author-has-flips check dropped", KP,
     "\tif len(identity.Flips) == 0 {\n\t\treturn errors.New(\"flips is missing\")\n\t}\n", "\t_ = identity\n"),
    ("M05 validateFlipKey: length check accepts shorter keys (!= -> >)", KP,
     "if len(key.Key) != publicFlipKeySize {", "if len(key.Key) > publicFlipKeySize {"),
    ("M06 validateFlipKeysPackage: size limit dropped", KP,
     "if len(keysPackage.Data) > maxPrivateKeysPackageDataSize {", "if false && len(keysPackage.Data) > maxPrivateKeysPackageDataSize {"),
    ("M07 Clear: public keys not reset", KP,
     "\tp.cancelLoadingCtx()\n\tp.flipKeys = make(map[common.Address]*types.PublicFlipKey)\n", "\tp.cancelLoadingCtx()\n"),
    ("M08 Clear: decrypted-array cache not reset", KP,
     "\tp.privateKeysArrayCache = make(map[common.Address]*keysArray)\n\tp.packagesLoadingCtx", "\tp.packagesLoadingCtx"),
    ("M09 GetEncryptedPrivateFlipKey: cached path off by one", KP,
     "\t\treturn data.Pairs[indexInPackage]\n", "\t\treturn data.Pairs[(indexInPackage+1)%len(data.Pairs)]\n"),
    ("M10 Initialize: persisted packages not read back on restart", KP,
     "\tfor _, k := range p.epochDb.ReadPrivateFlipKeys() {\n\t\t_ = p.putPrivateFlipKeysPackage(k, appState, false)\n\t}\n", ""),
    ("M11 putPublicFlipKey: every key flagged high priority", KP,
     "key.SetHighPriority(own)", "key.SetHighPriority(true)"),
    ("M12 GetFlipKeysForSync: own keys not kept out of the normal list", KP,
     "if key.LoadShardId() != shardId && shardId != common.MultiShard || key.LoadHighPriority() {", "if key.LoadShardId() != shardId && shardId != common.MultiShard {"),
    ("M13 GetFlipPackagesHashesForSync: stopSync ignored", KP,
     "\tif !p.stopSync {\n\t\tfor k, pkg := range p.flipKeyPackagesByHash {\n\t\t\tif pkg.shardId != shardId", "\tif true {\n\t\tfor k, pkg := range p.flipKeyPackagesByHash {\n\t\t\tif pkg.shardId != shardId"),
    ("M14 putPrivateFlipKeysPackage: package not persisted", KP,
     "\tp.epochDb.WritePrivateFlipKey(keysPackage)\n", ""),
    ("M15 Has: answers for every hash the pool ever saw by sender only (hash index not filled)", KP,
     "\tp.flipKeyPackagesByHash[shortHash] = &flipKeyPackageWrapper{keysPackage, appState.State.ShardId(sender), own}\n", "\tif own {\n\t\tp.flipKeyPackagesByHash[shortHash] = &flipKeyPackageWrapper{keysPackage, appState.State.ShardId(sender), own}\n\t}\n"),
    ("M16 ceremony: public key published together with the package (during the lottery)", CE,
     "\t\tvc.broadcastPrivateFlipKeysPackage(vc.appState)\n\t}\n}\n\nfunc (vc *ValidationCeremony) asyncFlipLotteryCalculations() {",
     "\t\tvc.broadcastPrivateFlipKeysPackage(vc.appState)\n\t\tvc.broadcastPublicFipKey(vc.appState)\n\t}\n}\n\nfunc (vc *ValidationCeremony) asyncFlipLotteryCalculations() {"),
    ("M17 ceremony: getPrivateKeyPackageIndex off by one", CE,
     "\t\tif item == addrIndex {\n\t\t\treturn idx\n", "\t\tif item == addrIndex {\n\t\t\treturn idx + 1\n"),
    ("M18 ceremony: PrivateEncryptionKeyCandidates skips the first recipient", CE,
     "\tfor _, item := range candidateIndexes {\n\t\tcandidate := vc.shardCandidates[shardId].candidates[item]", "\tfor _, item := range candidateIndexes[1:] {\n\t\tcandidate := vc.shardCandidates[shardId].candidates[item]"),
    ("M19 ceremony: package signed for the next epoch", CE,
     "\t\tData:  mempool.EncryptPrivateKeysPackage(publicFlipKey, privateFlipKey, pubKeys),\n\t\tEpoch: epoch,", "\t\tData:  mempool.EncryptPrivateKeysPackage(publicFlipKey, privateFlipKey, pubKeys),\n\t\tEpoch: epoch + 1,"),
    ("M20 ceremony: package encrypted with the public flip key pair twice (private key never sent)", CE,
     "publicFlipKey, privateFlipKey := vc.flipper.GetFlipPublicEncryptionKey(), vc.flipper.GetFlipPrivateEncryptionKey()\n\n\tmsg := types.PrivateFlipKeysPackage{",
     "publicFlipKey, privateFlipKey := vc.flipper.GetFlipPublicEncryptionKey(), vc.flipper.GetFlipPublicEncryptionKey()\n\n\tmsg := types.PrivateFlipKeysPackage{"),
    ("M21 ceremony: completeEpoch does not clear the key pool", CE,
     "\tvc.flipper.Clear()\n\tvc.keysPool.Clear()\n", "\tvc.flipper.Clear()\n"),
    ("M22 flipper: Clear keeps the cached public flip key (stale key cache across epochs)", FL,
     "\tfp.flipPrivateKey = nil\n\tfp.flipPublicKey = nil\n", "\tfp.flipPrivateKey = nil\n"),
    ("M23 async pool: the reader drops the first key of every batch", AK,
     "\t\tpool.inner.AddPublicFlipKeys(batch)\n", "\t\tpool.inner.AddPublicFlipKeys(batch[1:])\n"),
    ("M24 AddPublicFlipKeys: network batch admitted as own", KP,
     "\tfor _, k := range batch {\n\t\tp.putPublicFlipKey(k, appState, false)\n", "\tfor _, k := range batch {\n\t\tp.putPublicFlipKey(k, appState, true)\n"),
    ("M25 ceremony: short session no longer publishes the public key (only the long session does)", CE,
     "\tvc.broadcastPrivateFlipKeysPackage(vc.appState)\n\tvc.broadcastPublicFipKey(vc.appState)\n\tvc.processCeremonyTxs(block)\n}", "\tvc.broadcastPrivateFlipKeysPackage(vc.appState)\n\tvc.processCeremonyTxs(block)\n}"),
]


def main():
    sel = sys.argv[1:]
    env = dict(os.environ, GOFLAGS="-mod=mod", GOPROXY="off", GOSUMDB="off", GOTOOLCHAIN="local", VERIF_REPO=REPO, VERIF_SEED="1")
    res = []
    for name, rel, old, new in MUTANTS:
        tag = name.split()[0]
        if sel and tag not in sel:
            continue
        path = os.path.join(REPO, rel)
        src = open(path).read()
        if src.count(old) != 1:
            print("%s: pattern occurs %d times - skipped" % (tag, src.count(old)))
            continue
        line = src[:src.index(old)].count("\n") + 1
        open(path, "w").write(src.replace(old, new))
        t = time.time()
        try:
            p = subprocess.run(["timeout", "1500", "./tools/check", "C16K", "--tier", "quick"], cwd=VERIF, env=env, stdout=subprocess.PIPE, stderr=subprocess.STDOUT, text=True)
            out = p.stdout
            rc = p.returncode
        finally:
            open(path, "w").write(src)
        keys = sorted(set(re.findall(r"key=(C16:KEYS:[^:]+):", out)))
        panic = re.findall(r"key=(C16K?:panic:\S+)", out)
        err = re.findall(r"CHECK-ERROR[^\n]*", out)
        r = {"mutant": name, "file": "%s:%d" % (rel, line), "rc": rc, "clauses": [k.split(":")[2] for k in keys], "panic": panic, "error": [e[:300] for e in err], "wall": round(time.time() - t)}
        print(json.dumps(r), flush=True)
        res.append(r)
    st = subprocess.run(["git", "status", "--short"], cwd=REPO, stdout=subprocess.PIPE, text=True).stdout
    print("repo status after mutants:", repr(st))
    with open("/tmp/keys_mutants_result.json", "a") as f:
        for r in res:
            f.write(json.dumps(r) + "\n")


if __name__ == "__main__":
    main()
