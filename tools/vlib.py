"""Shared machinery of the /verif checks: scratch dirs, overlay + harness builds, TLC runs (model,
export, trace validation), evidence, known findings, verdict lines.

Exit codes: 0 = property held on everything explored, 1 = VIOLATION (only ever from behaviour of the
real code), 2 = the check itself could not run (build failure, TLC error, dead driver, time-out).
"""
import atexit
import json
import os
import re
import shutil
import subprocess
import sys
import tempfile
import time

VERIF = os.path.dirname(os.path.dirname(os.path.abspath(__file__)))
REPO = os.environ.get("VERIF_REPO", "/repo")
SPEC = os.path.join(VERIF, "spec")
HARNESS = os.path.join(VERIF, "harness")
EVIDENCE = os.path.join(VERIF, "evidence")
REPLAYS = os.path.join(VERIF, "replays")
if os.path.realpath(REPO) != "/repo":
    # a run against another copy of the repository (seed tests, builder worktrees) is not evidence about /repo
    _ALT = os.path.join(tempfile.gettempdir(), "verif-alt-" + os.path.basename(os.path.realpath(REPO)))
    EVIDENCE = os.path.join(_ALT, "evidence")
    REPLAYS = os.path.join(_ALT, "replays")
    os.makedirs(EVIDENCE, exist_ok=True)
    os.makedirs(REPLAYS, exist_ok=True)
KNOWN = os.path.join(VERIF, "known_findings.jsonl")

GOENV = dict(GOFLAGS="-mod=mod", GOPROXY="off", GOSUMDB="off", GOTOOLCHAIN="local")
MODFILE = None
if os.path.realpath(REPO) != "/repo":
    # private go.mod / go.sum for runs against another copy, so that such runs can go on side by side with runs on /repo
    MODFILE = os.path.join(_ALT, "go.mod")
    GOENV["GOFLAGS"] = "-mod=mod -modfile=" + MODFILE


class CheckError(Exception):
    """The check could not be carried out (exit 2)."""


class Ctx:
    def __init__(self, prop, tier, seed):
        self.prop = prop
        self.tier = tier
        self.seed = seed
        self.t0 = time.time()
        base = os.environ.get("VERIF_SCRATCH") or tempfile.gettempdir()
        self.dir = tempfile.mkdtemp(prefix="verif-%s-" % prop, dir=base)
        self.keep = bool(os.environ.get("VERIF_KEEP"))
        atexit.register(self.cleanup)
        self.violations = []   # list of dict(key, what, replay)
        self.known_hits = []
        self.notes = []
        self.cores = os.cpu_count() or 4

    def cleanup(self):
        if not self.keep:
            shutil.rmtree(self.dir, ignore_errors=True)

    def path(self, *a):
        p = os.path.join(self.dir, *a)
        os.makedirs(os.path.dirname(p), exist_ok=True)
        return p

    def log(self, *a):
        print("[%s %6.1fs]" % (self.prop, time.time() - self.t0), *a, flush=True)


def run(cmd, cwd=None, env=None, timeout=None, check=True, capture=True):
    e = dict(os.environ)
    e.update(GOENV)
    if env:
        e.update(env)
    try:
        p = subprocess.run(cmd, cwd=cwd, env=e, timeout=timeout, stdout=subprocess.PIPE if capture else None,
                           stderr=subprocess.STDOUT if capture else None, text=True, errors="replace")
    except subprocess.TimeoutExpired as ex:
        raise CheckError("timeout after %ss: %s" % (timeout, " ".join(cmd[:6])))
    if check and p.returncode != 0:
        raise CheckError("command failed (%d): %s\n%s" % (p.returncode, " ".join(cmd[:8]), (p.stdout or "")[-4000:]))
    return p


# ------------------------------------------------------------------------------------------------
# builds

def build_overlay(ctx, clocks=()):
    """Generate the build overlay from /repo's current working tree."""
    mk = ctx.path("bin", "mkoverlay")
    if MODFILE and not os.path.exists(MODFILE):
        ensure_gosum()
    if not os.path.exists(mk):
        run(["go", "build", "-o", mk, "./cmd/mkoverlay"], cwd=HARNESS, timeout=600)
    tag = "ov_" + "_".join(sorted(c.replace("/", "-") for c in clocks))[:80] if clocks else "ov"
    out = ctx.path(tag, "x")
    out = os.path.dirname(out)
    cmd = [mk, "-repo", REPO, "-out", out]
    for c in clocks:
        cmd += ["-clock", c]
    run(cmd, timeout=120)
    return os.path.join(out, "overlay.json")


def ensure_gosum():
    """harness/go.mod and go.sum are generated from /repo's (same pinned versions, offline)."""
    run([sys.executable, os.path.join(VERIF, "tools", "mkgomod.py"), REPO] + ([MODFILE] if MODFILE else []), timeout=60)


def build_driver(ctx, cmd_name, clocks=(), race=False, tags="verif"):
    """Build harness/cmd/<cmd_name> against /repo's working tree with hooks on."""
    ensure_gosum()
    ov = build_overlay(ctx, clocks)
    out = ctx.path("bin", cmd_name + ("_race" if race else ""))
    cmd = ["go", "build", "-tags", tags, "-overlay", ov, "-o", out]
    if race:
        cmd.append("-race")
    cmd.append("./cmd/" + cmd_name)
    t = time.time()
    p = run(cmd, cwd=HARNESS, timeout=1800, check=False)
    if p.returncode != 0:
        raise CheckError("harness build failed:\n" + (p.stdout or "")[-6000:])
    ctx.log("built %s in %.1fs" % (cmd_name, time.time() - t))
    return out


def run_driver(ctx, binary, args, timeout=3600, env=None):
    """Run a driver in a scratch working directory (the repo's helpers litter their cwd)."""
    wd = ctx.path("wd", "x")
    wd = os.path.dirname(wd)
    e = {"VERIF_SEED": str(ctx.seed), "VERIF_TIER": ctx.tier}
    if env:
        e.update(env)
    p = run([binary] + list(args), cwd=wd, env=e, timeout=timeout, check=False)
    return p


# ------------------------------------------------------------------------------------------------
# TLC

TLC_JAR = "/opt/veriftools/tla/tla2tools.jar"
COMMUNITY = None


def _tlc_cmd():
    return ["tlc"]


_TLC_SEQ = 0


class TlcResult:
    def __init__(self):
        self.ok = False
        self.generated = 0
        self.distinct = 0
        self.depth = 0
        self.out = ""
        self.error = None          # text of the first "Error:" block
        self.invariant = None      # violated invariant / property name
        self.exports = []          # parsed JSON lines printed by the spec
        self.prints = []           # other PrintT tuples (raw text lines starting with <<)
        self.last_l = None         # value of trace position in the last state of an error trace
        self.wall = 0.0


def _copy_specs(ctx, sub):
    d = ctx.path(sub, "x")
    d = os.path.dirname(d)
    for f in os.listdir(SPEC):
        if f.endswith((".tla", ".cfg")):
            shutil.copyfile(os.path.join(SPEC, f), os.path.join(d, f))
    return d


def tlc(ctx, spec, cfg, workers=None, env=None, timeout=1800, extra=(), sub=None, deque=False, xss=True,
        want_exports=True, simulate=False):
    """Run TLC on spec/<spec>.tla with spec/<cfg>; returns TlcResult. Never raises on a property
    violation (that is data); raises CheckError on tool failure."""
    global _TLC_SEQ
    _TLC_SEQ += 1
    sub = sub or ("tlc_%s_%d_%d_%d" % (cfg.replace(".cfg", ""), os.getpid(), _TLC_SEQ, int(time.time() * 1000) % 100000))
    d = _copy_specs(ctx, sub)
    md = os.path.join(d, "md")
    cmd = ["timeout", str(timeout), "tlc", "-noGenerateSpecTE", "-metadir", md, "-workers", str(workers or "auto"), "-config", cfg] + list(extra) + [spec]
    e = dict(env or {})
    jto = []
    if xss:
        jto.append("-Xss512m")
    if deque:
        jto.append("-Dtlc2.tool.queue.IStateQueue=StateDeque")
    if jto:
        e["JAVA_TOOL_OPTIONS"] = " ".join(jto)
    t = time.time()
    outp = os.path.join(d, "tlc.out")
    ee = dict(os.environ)
    ee.update(GOENV)
    ee.update(e)
    with open(outp, "w") as fo:
        try:
            p = subprocess.run(cmd, cwd=d, env=ee, timeout=timeout + 60, stdout=fo, stderr=subprocess.STDOUT)
        except subprocess.TimeoutExpired:
            raise CheckError("TLC timed out after %ss on %s/%s" % (timeout, spec, cfg))
    r = TlcResult()
    r.wall = time.time() - t
    keep = []
    with open(outp, errors="replace") as fi:
        for line in fi:
            if line.startswith('"{') or line.startswith('"['):
                if want_exports:
                    try:
                        r.exports.append(json.loads(json.loads(line)))
                    except Exception:
                        pass
            else:
                keep.append(line)
                if len(keep) > 20000:
                    del keep[2000:12000]
    r.out = "".join(keep)
    parse_tlc(r, False)
    if simulate and "Finished in" in r.out and "Error:" not in r.out:
        r.ok = True
    os.remove(outp)
    shutil.rmtree(md, ignore_errors=True)
    if p.returncode == 124:
        raise CheckError("TLC timed out after %ss on %s/%s" % (timeout, spec, cfg))
    if "java.lang.StackOverflowError" in r.out or "OutOfMemoryError" in r.out:
        raise CheckError("TLC resource failure on %s/%s:\n%s" % (spec, cfg, r.out[-2000:]))
    if not r.ok and r.error is None:
        raise CheckError("TLC failed on %s/%s (rc=%d):\n%s" % (spec, cfg, p.returncode, r.out[-3000:]))
    return r


_re_states = re.compile(r"(\d+) states generated, (\d+) distinct states found")
_re_depth = re.compile(r"The depth of the complete state graph search is (\d+)")


def parse_tlc(r, want_exports=True):
    out = r.out
    m = None
    for m in _re_states.finditer(out):
        pass
    if m:
        r.generated, r.distinct = int(m.group(1)), int(m.group(2))
    m = _re_depth.search(out)
    if m:
        r.depth = int(m.group(1))
    r.ok = "Model checking completed. No error has been found." in out
    i = out.find("Error:")
    if i >= 0:
        r.ok = False
        r.error = out[i:i + 3000]
        m = re.search(r"Invariant (\S+) is violated", out) or re.search(r"Action property (\S+) is violated", out) \
            or re.search(r"[Pp]ostcondition (\S+) .*violated", out) or re.search(r"Temporal properties were violated", out)
        if m:
            r.invariant = m.group(1) if m.groups() else "temporal"
        ls = re.findall(r"^/\\ l = (\d+)", out, re.M) or re.findall(r"\bl = (\d+)", out)
        if ls:
            r.last_l = int(ls[-1])
    if want_exports:
        for line in out.splitlines():
            if line.startswith('"{') or line.startswith('"['):
                try:
                    r.exports.append(json.loads(json.loads(line)))
                except Exception:
                    pass
            elif line.startswith("<<"):
                r.prints.append(line)


def trace_validate(ctx, spec, cfg, trace_path, timeout=1800, env=None, deque=False, workers=1):
    """Validate an ndjson trace of the real code against a trace specification.

    Returns (accepted: bool, info: dict). info has 'line' (1-based index of the first trace line that
    could not be explained, or on which an invariant failed), 'invariant', 'error'."""
    e = {"TRACE_FILE": trace_path}
    if env:
        e.update(env)
    r = tlc(ctx, spec, cfg, workers=workers, env=e, timeout=timeout, deque=deque, want_exports=False)
    info = {"states": r.distinct, "generated": r.generated, "wall": r.wall}
    for line in r.out.splitlines():
        m = re.match(r'<<"DRIFT", (\d+)>>', line)
        if m:
            info["drift"] = int(m.group(1))
    if r.ok:
        return True, info
    info["error"] = (r.error or "")[:1500]
    info["invariant"] = r.invariant
    hw = None
    for line in r.out.splitlines():
        m = re.match(r'<<"TRACE_REJECTED_AT", (\d+), (\d+)>>', line)
        if m:
            hw = int(m.group(1))
        m = re.match(r'<<"CLAUSE_BROKEN", (\d+), "([^"]*)">>', line)
        if m:
            info.setdefault("broken", []).append((int(m.group(1)), m.group(2)))
            if "clause" not in info:
                info["line"] = int(m.group(1))
                info["clause"] = m.group(2)
    if "clause" in info:
        return False, info
    if r.invariant and r.invariant != "TraceAccepted" and r.last_l is not None:
        # invariant failed in the state reached after consuming line l-1
        info["line"] = r.last_l - 1
    elif hw is not None:
        info["line"] = hw
    elif r.last_l is not None:
        info["line"] = r.last_l
    if r.invariant is None and hw is None:
        raise CheckError("TLC error while validating trace (not a verdict):\n" + r.out[-3000:])
    return False, info


# ------------------------------------------------------------------------------------------------
# known findings / verdicts / evidence

def load_known(prop):
    res = []
    if os.path.exists(KNOWN):
        for line in open(KNOWN):
            line = line.strip()
            if not line:
                continue
            k = json.loads(line)
            if k.get("property") == prop:
                res.append(k)
    return res


class RepoPanic(Exception):
    """The driver died of a panic raised inside the repository's own code: real-code behaviour, a verdict."""

    def __init__(self, fn, excerpt):
        Exception.__init__(self, fn)
        self.fn = fn
        self.excerpt = excerpt


def repo_panic(out):
    """If `out` holds a Go panic whose RAISING frame (the first frame below the runtime's) belongs to the repository
    (github.com/idena-network/idena-go/...), return that function's name; a panic raised by harness code returns None."""
    i = out.find("panic: ")
    if i < 0:
        i = out.find("fatal error: ")
    if i < 0:
        return None
    j = out.find("[running]:", i)
    if j < 0:
        return None
    for line in out[j:].splitlines()[1:80]:
        line = line.strip()
        if not line or line.startswith(("/", "goroutine ", "created by ")):
            continue
        m = re.match(r"^(\S+)\(", line)
        fn = m.group(1) if m and not line.startswith("panic(") else "panic"
        if fn.startswith(("runtime.", "panic", "runtime/", "sync.", "reflect.", "testing.")):
            continue
        if fn.startswith("github.com/idena-network/idena-go/"):
            return fn[len("github.com/idena-network/idena-go/"):]
        return None
    return None


def driver_failure(ctx, out, what="driver failed"):
    """Called when a driver process died: a panic inside the repository's code is a verdict (RepoPanic, turned into a
    VIOLATION by tools/check), everything else means the check could not be carried out."""
    fn = repo_panic(out or "")
    if fn:
        i = max((out or "").find("panic: "), 0)
        raise RepoPanic(fn, (out or "")[i:i + 2500])
    raise CheckError("%s:\n%s" % (what, (out or "")[-3000:]))


def run_extra(ctx, modname, quick):
    """Run a GROWTH module (a part of the specification beyond the listed properties, attached to the closest property).
    What it observes on the real code counts (violations are reported through report_violation as usual); a failure to RUN
    it (build, TLC, dead driver) is recorded as a note and does not take the property's own check down with it."""
    import importlib
    t = time.time()
    try:
        mod = importlib.import_module("props." + modname)
        cov = mod.run(ctx, quick)
        ctx.log("growth module %s: done in %.0fs" % (modname, time.time() - t))
        return cov
    except RepoPanic:
        raise
    except CheckError as ex:
        ctx.notes.append("growth module %s could not be carried out in this run (not a verdict): %s" % (modname, str(ex)[:600]))
        ctx.log("growth module %s could not run: %s" % (modname, str(ex)[:300]))
        return {"not_run": str(ex)[:300]}


def report_violation(ctx, key, what, replay_src=None, payload=None):
    """Record a violation observed on the real code. `key` identifies the specific input / call site /
    history signature; it is matched against known_findings.jsonl (status known)."""
    for k in load_known(ctx.prop):
        if k.get("status") == "known" and k.get("key") == key:
            if key not in [h["key"] for h in ctx.known_hits]:
                ctx.known_hits.append({"key": key, "what": k.get("what", what)})
            return False
    os.makedirs(REPLAYS, exist_ok=True)
    safe = re.sub(r"[^A-Za-z0-9_.-]", "_", key)[:80]
    rp = os.path.join(REPLAYS, "%s_%s_seed%d.json" % (ctx.prop, safe, ctx.seed))
    doc = {"property": ctx.prop, "key": key, "what": what, "seed": ctx.seed, "tier": ctx.tier, "payload": payload}
    if replay_src and os.path.exists(replay_src):
        try:
            with open(replay_src) as f:
                lines = f.readlines()
            doc["trace_excerpt"] = [l.rstrip("\n")[:4000] for l in lines[:400]]
        except OSError:
            pass
    with open(rp, "w") as f:
        json.dump(doc, f, indent=1)
    if key not in [v["key"] for v in ctx.violations]:
        ctx.violations.append({"key": key, "what": what, "replay": rp})
    return True


def tlaps(ctx, module, timeout=900):
    """Run the TLA+ proof system on spec/<module>.tla (an unbounded proof next to TLC's bounded runs).  Returns a dict for the
    coverage; a proof that does not go through (or a tool failure) is a NOTE in the evidence, never a verdict: verdicts only
    come from the real code."""
    d = _copy_specs(ctx, "tlaps_" + module)
    t = time.time()
    cmd = ["timeout", str(timeout), "tlapm", "--threads", str(max(2, min(6, ctx.cores // 2))), "--cleanfp", module + ".tla"]
    try:
        p = subprocess.run(cmd, cwd=d, stdout=subprocess.PIPE, stderr=subprocess.STDOUT, text=True, errors="replace", timeout=timeout + 60)
        out = p.stdout or ""
    except (subprocess.TimeoutExpired, OSError) as ex:
        out = "tlapm could not be run: %s" % ex
    res = {"module": module, "checker_cmd": "tlapm --cleanfp %s.tla" % module, "wall_s": round(time.time() - t, 1)}
    m = re.search(r"All (\d+) obligations? proved", out)
    if m:
        res["obligations"] = res["discharged"] = int(m.group(1))
    else:
        m = re.search(r"(\d+)/(\d+) obligations? failed", out)
        if m:
            res["obligations"], res["discharged"] = int(m.group(2)), int(m.group(2)) - int(m.group(1))
        res["problem"] = out[-600:]
        ctx.notes.append("TLAPS proof %s did not go through in this run (not a verdict): %s" % (module, out[-300:]))
    res["trusted_base"] = ["tlapm 1.6.0-pre", "Zenon", "Isabelle/TLA+", "SMT back ends"]
    return res


def finish(ctx, level, coverage, assumptions=(), extra=None):
    os.makedirs(EVIDENCE, exist_ok=True)
    ev = {
        "property_id": ctx.prop,
        "tier": ctx.tier,
        "seed": ctx.seed,
        "level": level,
        "coverage": coverage,
        "assumptions": list(assumptions),
        "wall_s": round(time.time() - ctx.t0, 2),
        "violations": len(ctx.violations),
    }
    if ctx.known_hits:
        ev["known_findings_hit"] = ctx.known_hits
    if ctx.notes:
        ev["notes"] = ctx.notes
    if extra:
        ev.update(extra)
    with open(os.path.join(EVIDENCE, ctx.prop + ".json"), "w") as f:
        json.dump(ev, f, indent=1, sort_keys=True)
    for h in ctx.known_hits:
        print("KNOWN-FINDING: property=%s %s (%s)" % (ctx.prop, h["what"], h["key"]))
    for v in ctx.violations:
        print("VIOLATION property=%s replay=%s" % (ctx.prop, v["replay"]))
        print("  key=%s: %s" % (v["key"], v["what"]))
    sys.stdout.flush()
    return 1 if ctx.violations else 0


def read_ndjson(path):
    res = []
    with open(path) as f:
        for line in f:
            line = line.strip()
            if line:
                res.append(json.loads(line))
    return res


def write_ndjson(path, rows):
    with open(path, "w") as f:
        for r in rows:
            f.write(json.dumps(r, separators=(",", ":")) + "\n")
