#!/bin/bash
# runs the quick tier of the given checks for several seeds (soundness on the unchanged tree); prints one line per run
cd "$(dirname "$0")/../.."
CHECKS=${CHECKS:-"C01 C02 C03 C04 C05 C06 C07 C08 C09 C10 C11 C12 C13 C14 C15 C16 C17 C19 C20"}
SEEDS=${SEEDS:-"2 3 4 5"}
TIER=${TIER:-quick}
for s in $SEEDS; do for c in $CHECKS; do
  out=$(VERIF_SEED=$s ./tools/check $c --tier $TIER 2>&1); rc=$?
  echo "seed=$s check=$c tier=$TIER rc=$rc $(date +%H:%M) $(echo "$out" | grep -c VIOLATION) violations; $(echo "$out" | grep 'VIOLATION\|CHECK-ERROR\|KNOWN' | head -2 | cut -c1-300)"
done; done
echo SWEEPDONE
