#!/bin/bash
cd "$(dirname "$0")/../.."
TIER=thorough SEEDS="1" CHECKS="${CHECKS:-C01 C02 C03 C04 C05 C06 C07 C08 C09 C10 C11 C12 C13 C14 C15 C16 C17 C19 C20}" exec ./tools/bg/seeds_sweep.sh
