#!/bin/bash
# background hunt for the rare "honest proposal refused by everybody" event (C02/C01): repeats the quick-tier
# configuration of history 0 and keeps the traces that contain a roots mismatch, with the driver's diagnosis line.
set -u
cd "$(dirname "$0")/../.."
export GOFLAGS=-mod=mod GOPROXY=off GOSUMDB=off GOTOOLCHAIN=local
T=$(mktemp -d)
python3 tools/mkgomod.py /repo
(cd harness && go build -o $T/mkoverlay ./cmd/mkoverlay) && $T/mkoverlay -repo /repo -out $T/ov -clock blockchain/blockchain.go >/dev/null
(cd harness && go build -tags verif -overlay $T/ov/overlay.json -o $T/d_chain ./cmd/d_chain) || exit 2
cat > $T/sched.json <<'E2'
{"sched": [[["r1", "line"], ["r2", "line"], ["r3", "restart"]], [["r1", "line"], ["r2", "line"], ["r3", "line"]], [["r1", "line"], ["r2", "line"], ["r3", "spec"]], [["r1", "line"], ["r2", "line"], ["r3", "line"]]]}
E2
mkdir -p $T/wd; cd $T/wd
N=${1:-400}
for i in $(seq 1 $N); do
  for seed in 1 2 3; do
    VERIF_SEED=$seed $T/d_chain -out $T/t.ndjson -histories 1 -blocks 60 -big -sched $T/sched.json 2>/dev/null
    if grep -q '"ev":"Diag"' $T/t.ndjson; then echo "HIT iter=$i seed=$seed"; grep '"ev":"Diag"' $T/t.ndjson | cut -c1-3000; fi
  done
done
echo HUNTDONE
rm -rf $T
