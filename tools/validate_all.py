#!/usr/bin/env python3
"""Validates MANIFEST.json and every evidence file against the schemas under /root/.vp and checks that each evidence file's level is
the level its check claims.  Run with the tooling interpreter:  python3-vt tools/validate_all.py"""
import json
import os
import sys

import jsonschema

V = os.path.dirname(os.path.dirname(os.path.abspath(__file__)))
man = json.load(open(os.path.join(V, "MANIFEST.json")))
jsonschema.validate(man, json.load(open("/root/.vp/MANIFEST.schema.json")))
es = json.load(open("/root/.vp/EVIDENCE.schema.json"))
bad = 0
for c in man["checks"]:
    p = os.path.join(V, c["evidence_file"])
    try:
        ev = json.load(open(p))
        jsonschema.validate(ev, es)
        lvl = c["level_claimed"]["category"] if isinstance(c["level_claimed"], dict) else c["level_claimed"]
        if ev["level"] != lvl:
            raise ValueError("level %s, claimed %s" % (ev["level"], lvl))
        if ev["property_id"] != c["property_id"]:
            raise ValueError("property id %s" % ev["property_id"])
        print("ok   %s  tier=%s seed=%s wall=%ss violations=%s" % (c["property_id"], ev["tier"], ev["seed"], ev["wall_s"], ev.get("violations")))
    except Exception as ex:  # noqa
        bad += 1
        print("BAD  %s: %s" % (c["property_id"], str(ex)[:300]))
props = [json.loads(l)["id"] for l in open(os.path.join(V, "properties.jsonl"))]
claimed = {c["property_id"] for c in man["checks"]}
na = {x["property_id"] if isinstance(x, dict) else x for x in man.get("not_applicable", [])}
for p in props:
    if p not in claimed and p not in na:
        bad += 1
        print("BAD  %s neither claimed nor not_applicable" % p)
sys.exit(1 if bad else 0)
