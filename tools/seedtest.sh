#!/bin/bash
# usage: tools/seedtest.sh <patch.diff> <tier> <Cxx>...   — runs checks against a private worktree (/tmp/mrepo) of /repo HEAD + patch
set -u
export GOFLAGS=-mod=mod GOPROXY=off GOSUMDB=off GOTOOLCHAIN=local
PATCH=$(readlink -f $1); TIER=$2; shift 2
M=${MREPO:-/tmp/mrepo}
if [ ! -d $M ]; then git -C /repo worktree add --detach $M HEAD >/dev/null 2>&1; fi
git -C $M checkout -q -- . ; git -C $M clean -fdq; git -C $M checkout -q --detach $(git -C /repo rev-parse HEAD)
git -C $M apply --exclude='*zz_demo*' --exclude='*_test.go' $PATCH || { echo "PATCH DOES NOT APPLY"; exit 3; }
for c in "$@"; do
  VERIF_REPO=$M ./tools/check $c --tier $TIER > /tmp/seedtest_$(basename $M)_$c.log 2>&1; rc=$?
  echo "== $c rc=$rc"; grep -E "VIOLATION|KNOWN-FINDING" /tmp/seedtest_$(basename $M)_$c.log | cut -c1-300 | head -8
done
git -C $M checkout -q -- . ; git -C $M clean -fdq
