# Table read by mkmanifest.py.  check(id, category, text, note, technique, design_ref)

NB = "check not built yet in this revision (planned, see DESIGN.md section 5); not claimed until its machinery exists"
for _p in ["C%02d" % i for i in range(1, 21)]:
    NOT_APPLICABLE[_p] = NB
NOT_APPLICABLE["C18"] = ("byte-level encode/decode fidelity and signature coverage are not behaviours of a state machine; "
                         "an explicit TLA+ model has Dec(Enc(x))=x by construction (DESIGN.md section 6)")

check("C13", "model_checking",
      "TLC explores the implementation-shaped overlay-store model exhaustively against a reference ordinary store "
      "(Refines, BaseUnchanged); every transition of the bounded model is replayed on the real BackedMemDb and the "
      "recorded observations are validated by TLC against the reference store; random long sequences likewise. The batch object of the overlay store is modelled step by step (open, queued set / delete, write, discard, observations in between).",
      "bounds: 2 keys (quick) / 3 keys (thorough) x 2 values x batches <= 2, all base contents, all border pairs; random "
      "sequences over 12 keys sampled; iteration is atomic; MemDB is the reference semantics; chain level: canonical database "
      "digest and live root around every speculative validation / proposal / read-only query, read-only view of the head and of "
      "random retained heights vs what was committed, on seeded histories with fork switches (clauses CanonUntouched, "
      "HistoricalExact, ReadonlyHeadExact of Trace_Replicas); state-object level (StateViews.tla): one abstract cell per KIND of "
      "in-memory buffer a view constructor must not share (11 kinds, 106 mutating methods of StateDB / IdentityStateDB in an explicit "
      "table), canonical object + views (ForCheck / ForCheckWithOverwrite / Readonly) + a control object that performs the canonical "
      "calls only; TLC exports one shortest path per stratum (quick: 5400 strata -> 29 000 cases, 139 000 real calls) and validates "
      "CanonUntouched, ViewIsolated, CanonMatchesControl, HistoricalExact, ResetRestores, CommitExact, SameContentSameRoot on the trace",
      "TLA+ refinement model + TLC-exported edge cover replayed on real code + TLC trace validation",
      "DESIGN.md#c13")

HOOK_COMMITS += ["8c6f3d7e", "dd9c6b9e"]

check("C20", "model_checking",
      "TLC explores the implementation-shaped Tracker model (tracker loop split at its unlocked peek / sleep / remove "
      "steps, announcers pre-empted before RegisterPull) exhaustively within small bounds and checks every property clause "
      "on every transition; TLC-exported schedules are replayed exactly on the real PushPullManager + DefaultPushTracker + "
      "DefaultHolder under a virtual clock with hook gates, and the recorded traces are validated by TLC: property clauses "
      "on the observed pre/post state of every step (verdict) and equality with the model's prediction (drift). A second push type whose items share the hash VALUES of the first type's items (one registry keyed by type + hash) is part of the model and of the rig.",
      "bounds: 2-3 peers x 2 hashes, delay 2 ticks, horizon 4-5, <= 6 announcements, one pre-empted announcer at a time; "
      "larger instances by random walks; manager-loop forwarding folded into the emitting step; go-cache expiry and the gc "
      "goroutine are outside the schedules; data races are the race detector's verdict, not TLC's",
      "TLA+ interleaving model + exact schedule replay via virtual clock and hook gates + TLC trace validation",
      "DESIGN.md#c20")

HOOK_COMMITS += ["1e5f6016"]

_CHAIN_NOTE = ("bounds: quick 4 histories x 90 blocks, thorough 24 x 220, 6 real replicas (24-344 keys), V12 consensus configuration with "
               "short switch ranges; epoch results injected per identity into the real ceremony.ApplyNewEpoch (cached-evaluation branch); "
               "contract transactions belong to C15; the seeded generator samples the history space")

check("C01", "model_checking",
      "Replicas.tla states Agreement / ProposedAccepted over replicas with node-local histories; TLC enumerates the history shapes "
      "(restart, rollback k + re-apply, speculation on another block, validate-then-insert) and exports them as schedules; every block "
      "of seeded random histories is applied by the REAL code on 6 replicas following those schedules (2 in other host time zones, one "
      "genesis with 344 identities); TLC validates the recorded observations against Trace_Replicas (Agreement, SameTransition, "
      "LiveMatchesHead on head hash, roots, flags, epoch, period, next validation time, fee rate, VRF threshold, shards, discrimination "
      "threshold, validator-view sizes). Histories also deploy embedded contracts and include a network before its first validation (nobody validated); growth module Upgrade.tla (upgrade voting, activation, intermediate genesis, restarts / rollbacks / crashes around them on real multi-node worlds) runs as part of the check.",
      _CHAIN_NOTE + "; map-iteration-order coverage is by repetition across the 6 replicas of every block, not exhaustive",
      "TLA+ replicated-state-machine spec + TLC-exported history schedules replayed on real replicas + TLC trace validation", "DESIGN.md#c01")
check("C02", "model_checking",
      "every block built by the real ProposeBlock / GenerateEmptyBlock from a seeded hostile mempool mix (valid, stale, gapped, "
      "under-funded, wrong-period, wrong-epoch, replayed, malformed transactions of every plain type) travels as bytes to 5 other real "
      "replicas reaching the same head through TLC-exported node-local history shapes and must pass ValidateBlock and AddBlock there; "
      "clause ProposedAccepted of Trace_Replicas evaluated by TLC on the recorded verdicts. Growth modules: Gas.tla (every relation pattern of a list to the block gas cap) and Filter.tla (the proposer's filter attempts and skips transactions on one check state: FilterLeavesNoTrace, 72 offer patterns realised through real pools and ProposeBlock).",
      _CHAIN_NOTE, "TLA+ spec (Replicas) + TLC-exported schedules + real propose/validate on replicas + TLC trace validation", "DESIGN.md#c02")
check("C04", "model_checking",
      "Ledger.tla states NonNeg and BlockIssuance over the whole ledger; MC_Ledger checks the issuance bound and the nonce discipline on "
      "an abstract ledger exhaustively; after every block of seeded histories on real chains the complete committed ledger (every "
      "account and identity) is logged and TLC evaluates the clauses with exact BigNat limb arithmetic (Trace_Ledger). Contract stratum: "
      "an edge cover of the contract lifecycle model (ContractOps.tla, <= 1 deviation per operation, incl. recipient = the contract itself / "
      "the sender, failed attempt + credit + operation in one block, sandwich blocks, pre-funded creations) is run on the real node and TLC "
      "evaluates NonNeg and NoMint on every block with contract transactions (Trace_ContractLedger). Growth module Rewards.tla: entitlement, "
      "conservation and category shares of the epoch reward distribution with exact arithmetic, population shapes enumerated by TLC and run through "
      "the real rewardValidIdentities (known finding: float32 weight sums let categories exceed their share by ~1e-7 relative).",
      _CHAIN_NOTE + "; issuance bound per block = BlockReward + FinalCommitteeReward (+ that sum x epoch length on the validation-finished block)",
      "TLA+ ledger spec with exact arithmetic + TLC model of the abstract ledger + TLC trace validation of real histories", "DESIGN.md#c04")
check("C05", "model_checking",
      "clause OnlySigner of Ledger.tla (no address other than the signer loses balance or stake, except the invitee of a KillInvitee by "
      "its inviter and the delegator of a KillDelegator by its pool, evaluated on PRE-state relationships) checked by TLC on every "
      "observed block that carries exactly one transaction and does not finish a validation; the generator aims every tx type at "
      "targets in every relationship to the signer (self, god, pool, own / foreign invitee, own / foreign delegator, stranger, killed, "
      "undefined). Contract stratum: the same lifecycle edge cover as C04's, judged by OnlySigner over blocks with contract transactions "
      "(no address that signed nothing in the block, is not the proposer and is not a contract ends with less than it started with plus "
      "what plain transfers of the block credited to it; Trace_ContractLedger). Growth module Lifecycle.tla: the identity lifecycle (status x "
      "period x transaction type x delegation / stake / penalty situation) as an edge cover realised on real chains, 14 clauses.",
      _CHAIN_NOTE, "TLA+ ledger spec + TLC trace validation of real single-transaction blocks", "DESIGN.md#c05")
check("C06", "model_checking",
      "MC_Ledger explores include / epoch-change / reorg behaviours of an abstract ledger exhaustively (NoDoubleOnChain, "
      "ConsecutiveOnChain); on real histories TLC evaluates NoDouble, Consecutive, EpochMatch on the transaction lists of every inserted "
      "block (applied set carried by the spec, fork switches remove reverted ids) and requires every crafted block that re-includes an "
      "applied transaction, carries a foreign-epoch transaction, a nonce gap or a nonce BELOW the next one (the number used last, zero; stale-account senders) to be refused by "
      "every replica.",
      _CHAIN_NOTE, "TLA+ replay/nonce model checked by TLC + TLC trace validation of real histories and crafted replays", "DESIGN.md#c06")
check("C10", "model_checking",
      "ValidatorsIncr.tla transcribes UpdateFromIdentityStateDiff and loadValidNodes and TLC checks Update(Load(R),D) = Load(R+D) for all "
      "3-address registries satisfying the coupling assumptions and all diffs of <= 2 entries; on real identity-heavy histories TLC "
      "evaluates, after every block, equality of the incrementally maintained view and a freshly loaded one through every public getter "
      "and committee samples, the coupling assumptions themselves, and the registry/ledger clauses (validated iff Newbie/Verified/Human, "
      "delegations match, only validated identities or pools online).",
      _CHAIN_NOTE + "; the order of a pool's delegator list is observed through FindSubIdentity samples only",
      "TLA+ transcription of incremental vs rebuilt view checked by TLC + TLC trace validation of real histories", "DESIGN.md#c10")
check("C11", "model_checking",
      "SyncStore.tla models the per-height identity-diff store under block insertion and fork switches (FollowerRoot checked by TLC); on "
      "real histories with fork switches followers replay, from the genesis identity state, every identity diff the node serves "
      "(transported as bytes) through the real AddDiff and compare each root with the canonical header (clause FollowerRoot). Snapshots: Snapshot.tla models the archive, one fault per "
      "behaviour (flip in a node record / tar header / padding, drop / duplicate / swap blocks, truncate, append garbage) and the "
      "importer with its root check (ImportAllOrNothing, CleanRoundTrip checked by TLC); every exported fault case is applied at "
      "seeded byte positions to REAL archives (chain state, 12 000-account state = 3 archive blocks with contract values incl. empty "
      "ones, small state) and imported into a fresh real StateDB; TLC validates accepted => same root and contents, refused => "
      "empty target, never a panic. The histories include failed insertions (content-store fault in a replica's AddBlock, round lost to the empty block) and followers on every replica; SyncStore.tla has the FailedInsert action.",
      _CHAIN_NOTE + "; snapshot byte positions are seeded samples inside each fault region (4 per case quick, 60 thorough), StateDB "
      "archives only (the identity-state archive uses the same ReadTreeFrom2)",
      "TLA+ diff-store model + follower replay on real chains + TLC trace validation", "DESIGN.md#c11")

HOOK_COMMITS += ["075278ac"]

HOOK_COMMITS += ["0c8499a8"]

check("C17", "model_checking",
      "(a) Ceremony.tla transcribes the status decision function over the complete abstract input space (186 624 inputs: previous status, "
      "required flips, missed, qualification flags, score classes as float32 bit patterns, flip classes, upgrade flags); TLC checks the "
      "property's rules on the model and exports the table; the REAL determineNewIdentityState is called at boundary representatives of "
      "every class plus seeded random calls; TLC validates the recorded verdicts (property clauses on the OBSERVED status, equality with "
      "the table). (b) CeremonyRun.tla models one node going through a ceremony (Add per block slot incl. persist / lottery / "
      "ApplyNewEpoch + completeEpoch, Restart = restoreState, Eval = validate / propose without insertion into the per-height cache, "
      "Switch = ResetTo + fork b, Rollback of the epoch block) with SameResult / PersistComplete / StoreMatchesChain; TLC exports every "
      "complete behaviour; a stratified sample is replayed literally on REAL nodes with a real ValidationCeremony over seeded populations "
      "(good, absent, short-only, no-hash, bad-salt, wrong, reporter, latecomer ... participants; 6 block layouts of the same tx set; "
      "live vs late nodes) and TLC validates the recorded epoch results (SameResult, AbsentNotValidated, InviteKilled, DeadStaysDead). Growth module Qualification.tla: qualifyOneFlip / qualifyFlips / qualifyCandidate / the reporters book transcribed, case tables and populations run on the real functions (19 clauses).",
      "(a) exhaustive over the abstract table; (b) quick: 27k states, ~11k behaviours exported, ~230 node behaviours on real code in 4 "
      "populations; thorough: 168k states, ~5800 node behaviours, 16 populations; one shard, <= 12 identities; restarts / forks at block "
      "boundaries only; RPC entry points and flip/key gossip not driven (transactions signed with the repository's encoders); blocks "
      "assembled through VerifCraftBlock; one finding fixed (stale epoch cache after a fork switch), one known (epoch block rolled back)",
      "TLA+ decision table (complete input space) + TLA+ ceremony-run model with TLC-exported behaviours replayed on the real "
      "ValidationCeremony + TLC trace validation",
      "DESIGN.md#c17")

check("C19", "model_checking",
      "Rpc.tla is the reference gate (Read / Gate / Dispatch / Reply): a message is a single request or a batch of 1-3 request shapes "
      "<<key class (15), kind (12)>>, server with / without a key, transport with / without pub-sub; TLC enumerates the whole case table "
      "(every permutation of key classes and kinds over batch positions) with the invariants NoKeyNoRun, WellFormedGetsInvalidKey, "
      "RightKeyServed and exports it; every message is sent to REAL rpc.Server instances over HTTP, WebSocket and IPC with a probe "
      "service (tagged invocations, subscription creations / cancellations); TLC validates the recorded responses and counters "
      "against the reference (Trace_Rpc), plus seeded random batches of up to 8 elements with varied concretisations.",
      "bounds: batches <= 3 in the table (<= 8 random); HTTP layer limits, server shutdown, concurrent connections, timing of the "
      "key comparison and case-insensitive envelope field names are outside; needs loopback TCP and a unix socket",
      "TLA+ reference model of the gate (full case table) + real servers over three transports + TLC trace validation", "DESIGN.md#c19")

HOOK_COMMITS += ["afa1646b", "bb1ce97c"]

import importlib.util as _ilu, sys as _sys
_sys.path.insert(0, os.path.join(VERIF, "tools"))


def _from_module(pid):
    """Checks built with a proposed MANIFEST constant in their props module."""
    spec = _ilu.spec_from_file_location("props_" + pid.lower(), os.path.join(VERIF, "tools", "props", pid.lower() + ".py"))
    src = open(spec.origin).read()
    i = src.find("MANIFEST = dict(")
    if i < 0:
        return None
    depth, j = 0, i + len("MANIFEST = dict")
    while True:
        if src[j] == "(":
            depth += 1
        elif src[j] == ")":
            depth -= 1
            if depth == 0:
                break
        j += 1
    ns = {}
    exec(src[i:j + 1], ns)
    return ns["MANIFEST"]


_m = _from_module("C03")
check(_m["id"], _m["category"], _m["text"], _m["note"], _m["technique"], _m["design_ref"])

HOOK_COMMITS += ["952255ae"]

check("C16", "model_checking",
      "Lottery.tla states the lottery as a RELATION (admissible outcomes: indices in range or none when the shard has no flips, no "
      "flip twice in a list, short quota, long list non-empty with the single-placeholder rule, symmetric author / candidate maps, "
      "every non-placeholder flip authored by one of the candidate's authors, package index defined iff recipient, determinism); TLC "
      "checks satisfiability and end-to-end key reach on every layout of 0..5 (quick) / 0..6 (thorough) candidates, any author subset, "
      "1..3 flips per author, and exports the layouts; the REAL GetAuthorsDistribution / GetFlipsDistribution / "
      "calculateCeremonyCandidates run on each layout x seeds x quotas (alone and inside a two-shard call) and on seeded larger layouts "
      "(7..600 candidates hitting the fallback paths), real key packages go through the real KeysPool and every candidate tries every "
      "flip; TLC validates the recorded outputs against the relation. Growth module KeysPool.tla: publication and delivery of flip keys through the key pools of 2-4 real nodes (timing, admission, delivery orders, sync caps, epoch change, restarts; 20 clauses).",
      "the Go PRNG and queue rotation are not modelled (any admissible outcome is accepted); fairness of the distribution and "
      "qualifyFlips are outside; one recorded known finding (package over the size limit for few authors / many candidates)",
      "TLA+ relation over all small layouts + real lottery and key packages on each + TLC trace validation", "DESIGN.md#c16")

HOOK_COMMITS += ["cc583289", "48ded5ba"]

check("C08", "model_checking",
      "ForkStore.tla models fork handling step by step (OfferFork, CheckForkSize with the code's weight rule, per-block ValidateBlock "
      "with the certificate rules, ValidateTip, ResetTo, AddBlock, WriteCert, RefSync) with the invariants AdoptOnlyCertified, "
      "AdoptionCompletes, AdoptionEqualsSync, RevertedReturned, RefusedUnchanged, RefuseIffUnacceptable; TLC enumerates fork shapes "
      "(ancestor depth, fork length, per-block certificate in {nil, empty, under-quorum, forged, valid}, per-block validity, weight "
      "relation, content incl. identity-update blocks) and exports them; each shape is realised on REAL nodes (both branches proposed "
      "by real nodes, real vote sets, bundles as the bytes of a real BlocksRange message into the real ForkResolver), a reference replica "
      "syncs the fork from the ancestor, and TLC validates verdict and post-adoption summaries (head, roots, validator view, canonical "
      "index, certificates, read-only view, next block, reverted transactions).",
      "quick replays 1000 of ~17 000 exported shapes (949 classes) + 120 random; chained reorgs, ancestors outside the retained window, "
      "left-over indexes of abandoned blocks and identity diffs (C11) are outside; an acceptable fork that the node refuses is drift "
      "only (the property is an 'only if'): ValidateSubChain's stale validator view after an identity-update block before the tip is "
      "reported that way",
      "TLA+ fork model + TLC-exported shapes on real ForkResolver + TLC trace validation", "DESIGN.md#c08")

HOOK_COMMITS += ["e4d32c2e", "ba3f45bc", "8467f134"]

check("C12", "model_checking",
      "Wire.tla is a shape-table model of the peer read path in five layers (msgio frame x compression tag x declared length x "
      "envelope; every message code x payload class; a presence lattice per message type; 23 tx types x recipients x payloads x "
      "amounts x sender roles x signatures x entry point; block header/body/certificate x sets of deviations x entry point), crossed "
      "with state classes, with the invariants Total (every shape ends in a verdict) and Proportionate (allocation <= 64*|frame| + "
      "16 MiB); TLC enumerates the table and exports every shape; each shape is instantiated as real bytes/objects and pushed through "
      "the REAL handle()/readStatus/processBatch/ValidateTx/ValidateBlock/AddBlock/ValidateSubChain under recover + watchdog + "
      "allocation meter; TLC validates every recorded outcome against Trace_Wire (membership in the table, Total, Proportionate).",
      "exhaustive over the shape lattice (quick: 36k shapes, MaxDev 1, states empty/populated + 4k sampled from the 114k mid table; "
      "thorough: 342k shapes, MaxDev 2, 6 state classes, + 50k sampled from MaxDev 3); bytes inside a shape are seeded samples; async "
      "pool hops folded into the call; nil libp2p host; fast sync / snapshot download / engine loops not driven; four findings fixed",
      "TLA+ shape-table model + TLC-exported shapes instantiated on the real read path + TLC trace validation", "DESIGN.md#c12")

HOOK_COMMITS += ["5db70277"]

check("C14", "model_checking",
      "MempoolAbs.tla states the property as clauses over explicit pre/post/event records (Candidate: per-sender consecutive nonces "
      "from the committed state, gas cap, no duplicates; Accepted/Retained; BlockCleared; NoStale; WellFormed); Mempool.tla is the "
      "implementation-shaped pool (DoAdd with sync deferral, limits and executable/pending placement; DoReset with removal, promotion "
      "and the lowest-invalid-nonce cascade; DoStopSync; DoBuild with priority chains, fee filter and gas cap) and TLC checks that it "
      "refines the abstract spec on bounded ledgers; every TLC-exported scenario and seeded random scenarios are executed on the REAL "
      "TxPool over a real AppState, and TLC validates the recorded pool snapshots against Trace_MempoolAbs (clauses = verdict, "
      "prediction = drift). The 'never deadlock, race or panic' clause is decided on real goroutines (race detector, panic, watchdog), "
      "with quiescent states fed through the same trace spec.",
      "quick: 303k transitions / 55k states depth 5, 690 exported + 48 random scenarios; thorough: 2.8M transitions depth 6 + unlimited "
      "and ceremony side models, ~4900 + 1200 scenarios, 12 concurrent runs; ledger state, ValidateTx verdicts and block contents are "
      "bound from observation; deferred channel capacity, tx keeper persistence and nonce-cache values are outside; the concurrent "
      "part samples schedules (race detector), it is not exhaustive; two race findings fixed, one known (shared StateDB object caches)",
      "TLA+ refinement model + TLC-exported scenarios on the real TxPool + TLC trace validation; race detector for the concurrency clause",
      "DESIGN.md#c14")

HOOK_COMMITS += ["5c4dfac8", "9ce16e66", "4a56e3dc", "58d66a91", "071a9dbf", "a5813e9b", "f4b39fcd"]

check("C07", "model_checking",
      "Cert.tla transcribes the registry (loadValidNodes / determineValidators), the committee size and threshold rules (<= 8 table, "
      "percent rule, VotesCountSubtrahend), Compress, the signer recovery of ValidateBlockCert (nil and shared signer cache), AddVote "
      "and countVotes, with the invariants Sound (Accept => Quorum), Complete (Quorum and no foreign vote => Accept) and Counter (every "
      "certificate the counter emits is accepted and is a quorum; it emits exactly when one exists); MC_CertCount covers registry sizes "
      "0..150 by counting. TLC exports validator-set shapes x vote lists; each is realised with real keys in a real IdentityStateDB / "
      "ValidatorsCache, real signed votes (stale round/step/hash/parent, flag variants, duplicates, malleated and unrecoverable "
      "signatures), the real Compress + wire codec, ValidateBlockCert three ways, pengings.Votes + the real countVotes; TLC validates "
      "every recorded outcome against Trace_Cert (Params, Committee, Eligibility, Required, Sound, Complete, CounterSound, Deterministic). "
      "Next to TLC's bounded runs, CertProof.tla carries TLAPS proofs (92 obligations) of the specification-level halves for ANY number of "
      "votes, approved set and required count: AcceptA => QuorumA, QuorumA /\\ NoForeignA => AcceptA, and the counter's quorum.",
      "quick: 48k + 16k states, ~18k trace lines; thorough: 433k + 34k states, ~153k lines; the seeded committee permutation is an "
      "input (constrained, not modelled); float rounding ties admit both roundings; at most one deviating vote per exported case; "
      "engine call sites computing the necessary vote count are replicated in the driver; MaxKnownVotes eviction and gossip are outside",
      "TLA+ transcription of the certificate rules + TLC-exported cases on real validators cache / votes / certificates + TLC trace validation",
      "DESIGN.md#c07")

check("C09", "model_checking",
      "ChainStore.tla describes one node as a durable store plus volatile process state and every operation as the SEQUENCE OF DURABLE "
      "STEPS the code issues (AddBlock with validation, tree commits, prunes, header / canonical hash / head / diff / index writes; "
      "ResetTo; start-up = InitChain, InitState with the drop of orphan versions, the EnsureIntegrity loop; fast sync with the "
      "preliminary copy, per-header steps, snapshot import, the atomic switch and the resume logic); a crash is possible in front of "
      "every durable step of the operation, of recovery and of the continuation (<= 2 crashes per behaviour + the clean stop). TLC "
      "checks BootOk, HeadMatchesState, HeadInWindow, HeadIndexed, CleanRestartStutter, ContinuationAccepted, ReachesReference, "
      "IndexMatchesReference on the bounded model and exports every finished behaviour as a crash schedule; each schedule is executed "
      "on a REAL node over a crash-injecting database (the process is killed inside the scheduled write; a batch is applied entirely or "
      "not at all), restarted through the real start-up sequence, continued and probed with a rollback; TLC validates the recorded "
      "writes and observations (clauses on observed state = verdict; write-kind sequences, tracked store and predicted outcomes = drift).",
      "quick: 513k + 473k states, ~1700 schedules + enumeration of every write index of 10 larger seeded scenarios, ~120k trace lines; "
      "thorough: 1.8M states, every single-crash schedule, 8000 double-crash schedules, 40 enumerated scenarios; MemDB semantics (no torn "
      "single writes, no fsync reordering); genesis generation, proposer-side apply-tx-log writes and background writers are outside; "
      "the fast-sync call sequence is transcribed onto the real exported methods (the fastSync type is bound to the gossip handler); the "
      "start-up order is the harness's copy of node.go; three findings fixed",
      "TLA+ durable-step model + TLC-exported crash schedules on a real node over a crash-injecting database + TLC trace validation",
      "DESIGN.md#c09")

check("C15", "model_checking",
      "ContractTx.tla specifies the transaction envelope around an OPAQUE contract run (Escrow, Run with buffered sends / burns / store "
      "writes / stake moves / sub-calls / sub-deployments, Commit or Rollback + refund, Charge) with the clauses NoOverspend, "
      "ReceiptTruthful, OutcomeAgrees, FailLeavesNoTrace, SuccessAppliesAll (+ ReqAgree), GasWithinBought, FeeWithinMax, PaysForItself, "
      "Conserved over exact amounts (BigNatC); TLC checks the bounded envelope model (and that four deliberately broken envelopes violate "
      "it); ContractOps.tla is the operation alphabet over a lifecycle abstraction (every method of the five embedded contracts, the five "
      "bundled wasm contracts and a hand-assembled 'payer' wasm contract x argument classes (incl. recipient = the contract itself / the sender) x "
      "amount classes x gas classes (incl. maximum fees that are not a whole number of gas units) x caller role x pair kind) "
      "whose transitions TLC exports; each scenario runs on a REAL chain, what the contract code asked for is recorded by shadow "
      "environments (embedded env.Env probe, wasm HostEnv wrapper), and TLC validates every recorded transaction against "
      "Trace_ContractTx on observed pre/post ledgers.",
      "quick: 80k envelope states, 1100 sampled scenarios + 30 walks (~1560 contract transactions); thorough: 1.46M states, 14 000 "
      "scenarios + 400 walks (~22 600 transactions) incl. the 30 400-block wait before an oracle voting can be terminated; contract "
      "business rules are opaque (only 'termination wipes the store except keysToSave' is specified); a successful wasm sub-deployment is "
      "unreachable with the bundled contracts; one finding fixed (oracle-voting termination aliasing the live balance)",
      "TLA+ envelope model + TLC-exported operation scenarios on a real chain with recording contract environments + TLC trace validation",
      "DESIGN.md#c15")
