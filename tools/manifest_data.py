# Table read by mkmanifest.py.  check(id, category, text, note, technique, design_ref)

NB = "check not built yet in this revision (planned, see DESIGN.md section 5); not claimed until its machinery exists"
for _p in ["C%02d" % i for i in range(1, 21)]:
    NOT_APPLICABLE[_p] = NB
NOT_APPLICABLE["C18"] = ("byte-level encode/decode fidelity and signature coverage are not behaviours of a state machine; "
                         "an explicit TLA+ model has Dec(Enc(x))=x by construction (DESIGN.md section 6)")

check("C13", "model_checking",
      "TLC explores the implementation-shaped overlay-store model exhaustively against a reference ordinary store "
      "(Refines, BaseUnchanged); every transition of the bounded model is replayed on the real BackedMemDb and the "
      "recorded observations are validated by TLC against the reference store; random long sequences likewise.",
      "bounds: 2 keys (quick) / 3 keys (thorough) x 2 values x batches <= 2, all base contents, all border pairs; random "
      "sequences over 12 keys sampled; iteration is atomic; MemDB is the reference semantics",
      "TLA+ refinement model + TLC-exported edge cover replayed on real code + TLC trace validation",
      "DESIGN.md#c13")
