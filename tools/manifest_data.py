# Table read by mkmanifest.py.  check(id, category, text, note, technique, design_ref)

NB = "check not built yet in this revision (planned, see DESIGN.md section 5); not claimed until its machinery exists"
for _p in ["C%02d" % i for i in range(1, 21)]:
    NOT_APPLICABLE[_p] = NB
NOT_APPLICABLE["C18"] = ("byte-level encode/decode fidelity and signature coverage are not behaviours of a state machine; "
                         "an explicit TLA+ model has Dec(Enc(x))=x by construction (DESIGN.md section 6)")

check("C13", "model_checking",
      "TLC explores the implementation-shaped overlay-store model exhaustively against a reference ordinary store "
      "(Refines, BaseUnchanged); every transition of the bounded model is replayed on the real BackedMemDb and the "
      "recorded observations are validated by TLC against the reference store; random long sequences likewise.",
      "bounds: 2 keys (quick) / 3 keys (thorough) x 2 values x batches <= 2, all base contents, all border pairs; random "
      "sequences over 12 keys sampled; iteration is atomic; MemDB is the reference semantics",
      "TLA+ refinement model + TLC-exported edge cover replayed on real code + TLC trace validation",
      "DESIGN.md#c13")

HOOK_COMMITS += ["8c6f3d7e", "dd9c6b9e"]

check("C20", "model_checking",
      "TLC explores the implementation-shaped Tracker model (tracker loop split at its unlocked peek / sleep / remove "
      "steps, announcers pre-empted before RegisterPull) exhaustively within small bounds and checks every property clause "
      "on every transition; TLC-exported schedules are replayed exactly on the real PushPullManager + DefaultPushTracker + "
      "DefaultHolder under a virtual clock with hook gates, and the recorded traces are validated by TLC: property clauses "
      "on the observed pre/post state of every step (verdict) and equality with the model's prediction (drift).",
      "bounds: 2-3 peers x 2 hashes, delay 2 ticks, horizon 4-5, <= 6 announcements, one pre-empted announcer at a time; "
      "larger instances by random walks; manager-loop forwarding folded into the emitting step; go-cache expiry and the gc "
      "goroutine are outside the schedules; data races are the race detector's verdict, not TLC's",
      "TLA+ interleaving model + exact schedule replay via virtual clock and hook gates + TLC trace validation",
      "DESIGN.md#c20")
