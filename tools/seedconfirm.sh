#!/bin/bash
# seedconfirm.sh <id> <run-regex> <pkg> [<pkg>...]
# Confirms a seeded breaking change in a scratch worktree of /repo at the commit the seed was written against:
#   builds with the change, runs the pinned baseline packages, runs the demonstration WITH the change (must fail)
#   and WITHOUT it (must pass).  Prints a JSON summary.  The worktree is removed afterwards.
set -u
ID=$1; RX=$2; shift 2; PKGS="$@"
SRC=/verif/seeded/_incoming/$ID
[ -d "$SRC" ] || SRC=/verif/seeded/$ID
BASE=${SEED_BASE:-a0490097}
export GOFLAGS=-mod=mod GOPROXY=off GOSUMDB=off GOTOOLCHAIN=local
WT=/tmp/sc_$ID
git -C /repo worktree remove --force $WT >/dev/null 2>&1
git -C /repo worktree add -q --detach $WT $BASE || exit 2
cd $WT
P=$SRC/patch.diff; [ -f $SRC/patch.orig.diff ] && P=$SRC/patch.orig.diff
git apply $P || { echo "{\"id\":\"$ID\",\"error\":\"patch does not apply\"}"; exit 2; }
/opt/seedkit/mkoverlay -repo $WT -out $WT.ov >/dev/null
build=ok; go build -overlay $WT.ov/overlay.json ./... >/tmp/sc_$ID.build 2>&1 || build=FAIL
BL="./common/... ./crypto/... ./rlp/... ./rpc/... ./keystore/... ./config/... ./secstore/... ./blockchain/types/... ./blockchain/fee/..."
base=ok; go test -vet=off -count=1 $BL >/tmp/sc_$ID.base 2>&1 || { go test -vet=off -count=1 $BL >/tmp/sc_$ID.base 2>&1 || base=FAIL; }
# demo files
( cd $SRC && find . -name '*_test.go' ) | while read f; do
  d=$(dirname $f)
  if [ "$d" = "." ]; then d=$(echo $PKGS | cut -d' ' -f1 | sed 's#^\./##; s#/$##'); fi
  mkdir -p $WT/$d && cp $SRC/$f $WT/$d/
done
with=pass; go test -overlay $WT.ov/overlay.json -vet=off -count=1 -run "$RX" $PKGS >/tmp/sc_$ID.with 2>&1 || with=fail
git apply -R $P
without=pass; go test -overlay $WT.ov/overlay.json -vet=off -count=1 -run "$RX" $PKGS >/tmp/sc_$ID.without 2>&1 || without=fail
echo "{\"id\":\"$ID\",\"build_with_change\":\"$build\",\"baseline_with_change\":\"$base\",\"demo_with_change\":\"$with\",\"demo_without_change\":\"$without\"}"
cd /; git -C /repo worktree remove --force $WT; rm -rf $WT.ov
