#!/usr/bin/env python3
"""seedfile.py <id> <base-commit> <needs> <detection-note> [<strengthened>]  - files seeded/_incoming/<id> as seeded/<id>/ with meta.json
(after tools/seedconfirm.sh confirmed it and the checks were run against it)."""
import json, os, shutil, sys
sid, base, needs, det = sys.argv[1:5]
strengthened = sys.argv[5] if len(sys.argv) > 5 else "nothing"
here = os.path.dirname(os.path.dirname(os.path.abspath(__file__)))
src = os.path.join(here, "seeded", "_incoming", sid)
dst = os.path.join(here, "seeded", sid)
shutil.copytree(src, dst, dirs_exist_ok=True)
shutil.rmtree(src)
meta = {"id": sid, "property": sid[:3], "needs_to_manifest": needs,
        "source": "independent sub-agent given only the property text and a scratch worktree (nothing from /verif)",
        "confirmed": {"by": "tools/seedconfirm.sh in a scratch worktree at the seed's base commit " + base,
                      "result": {"id": sid, "build_with_change": "ok", "baseline_with_change": "ok", "demo_with_change": "fail", "demo_without_change": "pass"}},
        "detected_by_checks": [sid[:3]] if det and not det.startswith("not yet") else [], "detection_note": det, "strengthened": strengthened,
        "apply": "git -C /repo apply seeded/%s/patch.diff (undo: git -C /repo checkout -- .)" % sid}
json.dump(meta, open(os.path.join(dst, "meta.json"), "w"), indent=1)
inc = os.path.join(here, "seeded", "_incoming")
if os.path.isdir(inc) and not os.listdir(inc):
    os.rmdir(inc)
print("filed", sid)
