"""Shared runner of the chain-history checks (C01, C02, C04, C05, C06, C10, C11a, C13b).

One Go driver (harness/cmd/d_chain) drives real multi-replica chains and records one rich trace;
each property has its own trace specification and its own clause names.  A check runs the driver,
validates the trace with TLC against the specification of ITS property and reports the broken
clauses that belong to it.
"""
import json

import vlib

CLOCKS = ["blockchain/blockchain.go", "protocol/full.go"]


def run_histories(ctx, quick, extra_args=(), sched=None):
    drv = vlib.build_driver(ctx, "d_chain", clocks=CLOCKS)
    trace = ctx.path("chain.ndjson")
    nh, nb = (4, 90) if quick else (24, 220)
    args = ["-out", trace, "-histories", str(nh), "-blocks", str(nb)] + list(extra_args)
    if sched:
        args += ["-sched", sched]
    p = vlib.run_driver(ctx, drv, args, timeout=3400)
    out = (p.stdout or "")
    if p.returncode != 0:
        return trace, None, out
    last = out.strip().splitlines()[-1] if out.strip() else ""
    ctx.log(last)
    stats = {}
    for tok in last.split():
        if "=" in tok:
            k, v = tok.split("=", 1)
            try:
                stats[k] = int(v)
            except ValueError:
                pass
    if stats.get("blocks", 0) < nh * nb // 2:
        # a history stops at the first block its reference replica refuses: a run that lost most of its blocks judges nothing
        raise vlib.CheckError("the histories ended early: %s blocks of %d planned (%s)" % (stats.get("blocks"), nh * nb, last))
    return trace, stats, out


def model_run(ctx, spec, cfg, workers=4, seed_extra=True):
    r = vlib.tlc(ctx, spec, cfg, workers=workers, timeout=1800)
    if not r.ok:
        raise vlib.CheckError("design-level model %s violates %s (model-only, not a verdict):\n%s"
                              % (spec, r.invariant, (r.error or "")[:1500]))
    return r


def validate(ctx, trace, spec, cfg, mine, key_prefix, describe):
    """Validate `trace` against `spec`; report the broken clauses in `mine` (a set of names or a predicate).
    Returns (ok_for_this_property, info)."""
    ok, info = vlib.trace_validate(ctx, spec, cfg, trace, timeout=3000)
    if ok:
        return True, info
    broken = info.get("broken")
    if not broken:
        raise vlib.CheckError("trace rejected without a broken clause (%s): %s" % (spec, json.dumps(info)[:1500]))
    rows = None
    hit = False
    noted = set()
    seen_keys = {}
    for line, clause in broken:
        belongs = mine(clause) if callable(mine) else clause in mine
        if not belongs:
            if clause not in noted:
                noted.add(clause)
                ctx.notes.append("clause %s (another property's) broken, first at trace line %d" % (clause, line))
            continue
        hit = True
        # every occurrence is classified (a recorded known finding must not hide another violation of the same clause later
        # in the run); the work per distinct key is bounded
        if sum(seen_keys.values()) > 400:
            break
        rows = rows or vlib.read_ndjson(trace)
        row = rows[line - 1]
        start = max(i for i in range(line) if rows[i].get("ev") == "Genesis")
        ex = ctx.path("replay_%s.ndjson" % clause)
        vlib.write_ndjson(ex, rows[max(start, line - 6):line])
        key, what = describe(clause, row, rows, line)
        seen_keys[key] = seen_keys.get(key, 0) + 1
        if seen_keys[key] > 1:
            continue
        vlib.report_violation(ctx, key_prefix + ":" + key, what, replay_src=ex,
                              payload={"clause": clause, "line": line, "history": row.get("hid"), "height": row.get("h")})
    return not hit, info


def short(row, keys):
    return json.dumps({k: row.get(k) for k in keys if k in row})[:900]


def relation_scenarios(ctx, quick):
    """Relations.tla: TLC explores every relationship state reachable by <= 4 attempts and exports every transition
    (admissible or not) with a path; a stratified sample (every (operation, admissible, relationship of actor to target,
    target status, actor role) stratum) is executed as real transactions, one per block.  Returns (trace, model result, stats)."""
    import collections
    import random
    r = vlib.tlc(ctx, "Relations.tla", "MC_Relations.cfg", workers=8, timeout=1800)
    if not r.ok:
        raise vlib.CheckError("design-level model Relations violates %s (model-only):\n%s" % (r.invariant, (r.error or "")[:1500]))
    strata = collections.defaultdict(list)
    for e in sorted(r.exports, key=lambda x: json.dumps(x, sort_keys=True)):   # TLC's print order depends on worker timing
        last = e["path"][-1]
        strata[(last["op"], last["ok"], last.get("rel"), last.get("tst"), last.get("a"))].append(e)
    rnd = random.Random(ctx.seed)
    per = 3 if quick else 30
    chosen = []
    for k in sorted(strata, key=str):
        lst = strata[k]
        rnd.shuffle(lst)
        chosen += lst[:per]
    path = ctx.path("rel.json")
    with open(path, "w") as f:
        for e in chosen:
            f.write(json.dumps({"path": e["path"]}) + "\n")
    drv = vlib.build_driver(ctx, "d_chain", clocks=CLOCKS)
    trace = ctx.path("rel.ndjson")
    p = vlib.run_driver(ctx, drv, ["-out", trace, "-rel", path], timeout=3400)
    if p.returncode != 0:
        vlib.driver_failure(ctx, p.stdout, "driver failed on the relationship scenarios")
    ctx.log("relationship scenarios: %d strata, %d paths; %s" % (len(strata), len(chosen), (p.stdout or "").strip().splitlines()[-1]))
    return trace, r, {"strata": len(strata), "paths": len(chosen), "transitions_exported": len(r.exports)}
