// Package tr writes ndjson traces and reads case files.
package tr

import (
	"bufio"
	"bytes"
	"encoding/json"
	"os"
	"strconv"
)

type W struct {
	f *os.File
	w *bufio.Writer
	N int
}

func Create(path string) *W {
	f, err := os.Create(path)
	if err != nil {
		panic(err)
	}
	return &W{f: f, w: bufio.NewWriterSize(f, 1<<20)}
}

// M is one trace line.
type M map[string]interface{}

// Discard returns a writer that drops everything.
func Discard() *W {
	f, err := os.OpenFile(os.DevNull, os.O_WRONLY, 0)
	if err != nil {
		panic(err)
	}
	return &W{f: f, w: bufio.NewWriter(f)}
}

func (w *W) Emit(m interface{}) {
	w.EmitRaw(Marshal(m))
}

// Marshal renders one trace line (without the newline); drivers that produce lines in parallel marshal
// in their workers and hand the bytes to EmitRaw in order.
func Marshal(m interface{}) []byte {
	b, err := json.Marshal(m)
	if err != nil {
		panic(err)
	}
	// TLC's JSON reader has no null: nil slices / maps are written as empty arrays
	return bytes.ReplaceAll(b, []byte(":null"), []byte(":[]"))
}

func (w *W) EmitRaw(b []byte) {
	w.w.Write(b)
	w.w.WriteByte('\n')
	w.N++
}

// Flush makes the lines written so far durable.
func (w *W) Flush() { w.w.Flush() }

func (w *W) Close() {
	w.w.Flush()
	w.f.Close()
}

// ReadLines calls fn for each JSON line of a file.
func ReadLines(path string, fn func(raw []byte)) {
	f, err := os.Open(path)
	if err != nil {
		panic(err)
	}
	defer f.Close()
	sc := bufio.NewScanner(f)
	sc.Buffer(make([]byte, 1<<20), 1<<28)
	for sc.Scan() {
		b := sc.Bytes()
		if len(b) == 0 {
			continue
		}
		c := make([]byte, len(b))
		copy(c, b)
		fn(c)
	}
}

func Seed() int64 {
	s, err := strconv.ParseInt(os.Getenv("VERIF_SEED"), 10, 64)
	if err != nil {
		return 1
	}
	return s
}
