// Package vclock is the virtual clock the harness installs into the overlay-only package
// common/verifclock.  Time only moves when the harness says so, and a goroutine that sleeps for at
// least half a tick is parked until the harness releases it: the blocking clock is the scheduler
// gate that makes TLC's interleavings replayable on real goroutines.
package vclock

import (
	"runtime"
	"sync"
	"time"
)

type Sleeper struct {
	Wake time.Time
	D    time.Duration
	ch   chan time.Time
}

type Clock struct {
	mu       sync.Mutex
	T0       time.Time
	TickDur  time.Duration
	ticks    int64
	sleepers []*Sleeper
	// Parked receives a value whenever a goroutine parks in Sleep/After
	Parked chan *Sleeper
}

func New(t0 time.Time, tick time.Duration) *Clock {
	return &Clock{T0: t0, TickDur: tick, Parked: make(chan *Sleeper, 1024)}
}

func (c *Clock) Now() time.Time {
	c.mu.Lock()
	defer c.mu.Unlock()
	return c.T0.Add(time.Duration(c.ticks) * c.TickDur)
}

func (c *Clock) Ticks() int64 {
	c.mu.Lock()
	defer c.mu.Unlock()
	return c.ticks
}

// ToTicks converts an instant to ticks since T0 (exact for instants produced by this clock).
func (c *Clock) ToTicks(t time.Time) int64 {
	return int64(t.Sub(c.T0) / c.TickDur)
}

func (c *Clock) Advance(n int64) {
	c.mu.Lock()
	c.ticks += n
	c.mu.Unlock()
}

func (c *Clock) park(d time.Duration) *Sleeper {
	c.mu.Lock()
	s := &Sleeper{Wake: c.T0.Add(time.Duration(c.ticks)*c.TickDur + d), D: d, ch: make(chan time.Time, 1)}
	c.sleepers = append(c.sleepers, s)
	c.mu.Unlock()
	select {
	case c.Parked <- s:
	default:
	}
	return s
}

func (c *Clock) Sleep(d time.Duration) {
	if d < c.TickDur/2 {
		runtime.Gosched()
		return
	}
	s := c.park(d)
	<-s.ch
}

func (c *Clock) After(d time.Duration) <-chan time.Time {
	if d < c.TickDur/2 {
		ch := make(chan time.Time, 1)
		ch <- c.Now()
		return ch
	}
	return c.park(d).ch
}

// Sleepers returns the parked sleepers.
func (c *Clock) Sleepers() []*Sleeper {
	c.mu.Lock()
	defer c.mu.Unlock()
	return append([]*Sleeper(nil), c.sleepers...)
}

// Release wakes the given sleeper.
func (c *Clock) Release(s *Sleeper) {
	c.mu.Lock()
	for i, x := range c.sleepers {
		if x == s {
			c.sleepers = append(c.sleepers[:i], c.sleepers[i+1:]...)
			break
		}
	}
	now := c.T0.Add(time.Duration(c.ticks) * c.TickDur)
	c.mu.Unlock()
	s.ch <- now
}
