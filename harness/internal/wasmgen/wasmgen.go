// Package wasmgen assembles tiny WebAssembly modules by hand (no toolchain in the sandbox).
package wasmgen

// value types
const (
	I32 = 0x7f
	I64 = 0x7e
)

type FuncType struct {
	Params  []byte
	Results []byte
}

type Import struct {
	Module, Name string
	Type         int
}

type Func struct {
	Type   int
	Locals int // number of extra i32 locals
	Body   []byte
	Export string
}

type Module struct {
	Types   []FuncType
	Imports []Import
	Funcs   []Func
	Data    []byte // placed at DataAt
	DataAt  int
	Bump    int // initial value of global 0 (bump pointer)
}

func leb(v uint32) []byte {
	var out []byte
	for {
		b := byte(v & 0x7f)
		v >>= 7
		if v != 0 {
			out = append(out, b|0x80)
		} else {
			return append(out, b)
		}
	}
}

func sleb(v int32) []byte {
	var out []byte
	for {
		b := byte(v & 0x7f)
		v >>= 7
		if (v == 0 && b&0x40 == 0) || (v == -1 && b&0x40 != 0) {
			return append(out, b)
		}
		out = append(out, b|0x80)
	}
}

func vec(items [][]byte) []byte {
	out := leb(uint32(len(items)))
	for _, it := range items {
		out = append(out, it...)
	}
	return out
}

func name(s string) []byte { return append(leb(uint32(len(s))), []byte(s)...) }

func section(id byte, body []byte) []byte {
	return append(append([]byte{id}, leb(uint32(len(body)))...), body...)
}

// instruction helpers
func LocalGet(i int) []byte  { return append([]byte{0x20}, leb(uint32(i))...) }
func LocalSet(i int) []byte  { return append([]byte{0x21}, leb(uint32(i))...) }
func GlobalGet(i int) []byte { return append([]byte{0x23}, leb(uint32(i))...) }
func GlobalSet(i int) []byte { return append([]byte{0x24}, leb(uint32(i))...) }
func I32Const(v int32) []byte {
	return append([]byte{0x41}, sleb(v)...)
}
func I32Store(off int) []byte { return append([]byte{0x36, 0x02}, leb(uint32(off))...) }
func Call(i int) []byte       { return append([]byte{0x10}, leb(uint32(i))...) }

var (
	I32Add = []byte{0x6a}
	I32And = []byte{0x71}
	Drop   = []byte{0x1a}
)

func Cat(parts ...[]byte) []byte {
	var out []byte
	for _, p := range parts {
		out = append(out, p...)
	}
	return out
}

// Allocate is the body of `allocate(size) -> region*` (cosmwasm style Region{offset, capacity, length}),
// bump allocated; needs 1 extra local.
func Allocate() []byte {
	return Cat(
		GlobalGet(0), LocalSet(1),
		LocalGet(1), LocalGet(1), I32Const(12), I32Add, I32Store(0),
		LocalGet(1), LocalGet(0), I32Store(4),
		LocalGet(1), I32Const(0), I32Store(8),
		LocalGet(1), I32Const(12), I32Add, LocalGet(0), I32Add, I32Const(7), I32Add, I32Const(-8), I32And, GlobalSet(0),
		LocalGet(1),
	)
}

func (m *Module) Bytes() []byte {
	out := []byte{0x00, 0x61, 0x73, 0x6d, 0x01, 0x00, 0x00, 0x00}
	var types [][]byte
	for _, t := range m.Types {
		b := []byte{0x60}
		b = append(b, leb(uint32(len(t.Params)))...)
		b = append(b, t.Params...)
		b = append(b, leb(uint32(len(t.Results)))...)
		b = append(b, t.Results...)
		types = append(types, b)
	}
	out = append(out, section(1, vec(types))...)
	var imps [][]byte
	for _, i := range m.Imports {
		imps = append(imps, Cat(name(i.Module), name(i.Name), []byte{0x00}, leb(uint32(i.Type))))
	}
	if len(imps) > 0 {
		out = append(out, section(2, vec(imps))...)
	}
	var fns [][]byte
	for _, f := range m.Funcs {
		fns = append(fns, leb(uint32(f.Type)))
	}
	out = append(out, section(3, vec(fns))...)
	out = append(out, section(5, vec([][]byte{{0x00, 0x01}}))...)
	bump := m.Bump
	if bump == 0 {
		bump = 4096
	}
	out = append(out, section(6, vec([][]byte{Cat([]byte{I32, 0x01}, I32Const(int32(bump)), []byte{0x0b})}))...)
	var exps [][]byte
	for i, f := range m.Funcs {
		if f.Export != "" {
			exps = append(exps, Cat(name(f.Export), []byte{0x00}, leb(uint32(len(m.Imports)+i))))
		}
	}
	exps = append(exps, Cat(name("memory"), []byte{0x02, 0x00}))
	out = append(out, section(7, vec(exps))...)
	var codes [][]byte
	for _, f := range m.Funcs {
		var locals []byte
		if f.Locals > 0 {
			locals = Cat(leb(1), leb(uint32(f.Locals)), []byte{I32})
		} else {
			locals = leb(0)
		}
		body := Cat(locals, f.Body, []byte{0x0b})
		codes = append(codes, Cat(leb(uint32(len(body))), body))
	}
	out = append(out, section(10, vec(codes))...)
	if len(m.Data) > 0 {
		seg := Cat([]byte{0x00}, I32Const(int32(m.DataAt)), []byte{0x0b}, leb(uint32(len(m.Data))), m.Data)
		out = append(out, section(11, vec([][]byte{seg}))...)
	}
	return out
}
