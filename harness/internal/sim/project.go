package sim

import (
	"crypto/sha256"
	"encoding/hex"
	"fmt"
	"math/big"
	"sort"

	"github.com/idena-network/idena-go/common"
	"github.com/idena-network/idena-go/core/appstate"
	"github.com/idena-network/idena-go/core/state"
	dbm "github.com/tendermint/tm-db"
)

// Limbs encodes a non-negative amount as little-endian base-10^4 limbs (exact arithmetic in TLC,
// whose integers are 32 bit). A negative amount (never legal) is encoded as [-1].
func Limbs(x *big.Int) []int {
	if x == nil {
		return []int{}
	}
	if x.Sign() < 0 {
		return []int{-1}
	}
	res := []int{}
	base := big.NewInt(10000)
	v := new(big.Int).Set(x)
	m := new(big.Int)
	for v.Sign() > 0 {
		v.DivMod(v, base, m)
		res = append(res, int(m.Int64()))
	}
	return res
}

// Acct is the projection of one address of the ledger.
type Acct struct {
	A            string `json:"a"`
	Bal          []int  `json:"bal"`
	Stake        []int  `json:"stake"`
	Locked       []int  `json:"locked"`
	Replenished  []int  `json:"repl"`
	CStake       []int  `json:"cstake"`
	Nonce        uint32 `json:"nonce"`
	Epoch        uint16 `json:"epoch"`
	Status       int    `json:"status"`
	Inviter      string `json:"inviter"`
	Delegatee    string `json:"delegatee"`
	PendingUndel bool   `json:"pundel"`
	Invites      int    `json:"invites"`
	Contract     bool   `json:"contract"`
	// big values for harness-side use (not serialised)
	BalB, StakeB, CStakeB *big.Int `json:"-"`
}

// Ledger is the projection of a committed state: every account and identity (full iteration).
type Ledger struct {
	Accts  []*Acct  `json:"accts"`
	Epoch  uint16   `json:"epoch"`
	Period int      `json:"period"`
	Total  []int    `json:"total"`
	TotalB *big.Int `json:"-"`
}

// Project reads a FRESH read-only view of the committed version `height` and iterates all accounts
// and identities.  Observations are taken from what was committed, not from live objects.
func (n *Node) Project(height uint64) (*Ledger, error) {
	ro, err := n.App.Readonly(height)
	if err != nil {
		return nil, err
	}
	return ProjectState(n.W, ro), nil
}

func ProjectState(w *World, ro *appstate.AppState) *Ledger {
	m := map[common.Address]*Acct{}
	get := func(a common.Address) *Acct {
		x := m[a]
		if x == nil {
			x = &Acct{A: w.Name(a), BalB: new(big.Int), StakeB: new(big.Int), CStakeB: new(big.Int)}
			m[a] = x
		}
		return x
	}
	ro.State.IterateOverAccounts(func(addr common.Address, account state.Account) {
		x := get(addr)
		if account.Balance != nil {
			x.BalB = new(big.Int).Set(account.Balance)
		}
		x.Nonce, x.Epoch = account.Nonce, account.Epoch
		if account.Contract != nil {
			x.Contract = true
			if account.Contract.Stake != nil {
				x.CStakeB = new(big.Int).Set(account.Contract.Stake)
			}
		}
	})
	ro.State.IterateOverIdentities(func(addr common.Address, id state.Identity) {
		x := get(addr)
		if id.Stake != nil {
			x.StakeB = new(big.Int).Set(id.Stake)
		}
		x.Locked = Limbs(id.LockedStake())
		x.Replenished = Limbs(id.ReplenishedStake())
		x.Status = int(id.State)
		if id.Inviter != nil {
			x.Inviter = w.Name(id.Inviter.Address)
		}
		if d := id.Delegatee(); d != nil {
			x.Delegatee = w.Name(*d)
		}
		x.PendingUndel = id.PendingUndelegation() != nil
		x.Invites = int(id.Invites)
	})
	l := &Ledger{Epoch: ro.State.Epoch(), Period: int(ro.State.ValidationPeriod()), TotalB: new(big.Int)}
	var addrs []common.Address
	for a := range m {
		addrs = append(addrs, a)
	}
	SortedAddrs(addrs)
	for _, a := range addrs {
		x := m[a]
		x.Bal, x.Stake, x.CStake = Limbs(x.BalB), Limbs(x.StakeB), Limbs(x.CStakeB)
		if x.Locked == nil {
			x.Locked = []int{}
		}
		if x.Replenished == nil {
			x.Replenished = []int{}
		}
		l.TotalB.Add(l.TotalB, x.BalB).Add(l.TotalB, x.StakeB).Add(l.TotalB, x.CStakeB)
		l.Accts = append(l.Accts, x)
	}
	l.Total = Limbs(l.TotalB)
	return l
}

// DBDigest hashes the complete content of a database (keys and values, in order).
func DBDigest(db dbm.DB) string {
	h := sha256.New()
	it, err := db.Iterator(nil, nil)
	if err != nil {
		panic(err)
	}
	defer it.Close()
	for ; it.Valid(); it.Next() {
		fmt.Fprintf(h, "%d:", len(it.Key()))
		h.Write(it.Key())
		fmt.Fprintf(h, "%d:", len(it.Value()))
		h.Write(it.Value())
	}
	return hex.EncodeToString(h.Sum(nil))[:24]
}

// HeadObs is what every replica must agree on after applying the same block on the same chain.
type HeadObs struct {
	Height        uint64 `json:"height"`
	Hash          string `json:"hash"`
	Root          string `json:"root"`
	IdRoot        string `json:"idroot"`
	Flags         uint32 `json:"flags"`
	Epoch         uint16 `json:"epoch"`
	Period        int    `json:"period"`
	NextVal       int64  `json:"nextval"`
	FeePerGas     string `json:"fpg"`
	Vrf           string `json:"vrf"`
	Shards        uint32 `json:"shards"`
	DiscrThr      string `json:"discr"`
	NetSize       int    `json:"netsize"`
	Online        int    `json:"online"`
	StateRootLive string `json:"liveroot"`
}

func hx(b []byte) string {
	if len(b) > 8 {
		b = b[:8]
	}
	return hex.EncodeToString(b)
}

func (n *Node) Obs() HeadObs {
	h := n.Chain.Head
	s := n.App.State
	o := HeadObs{Height: h.Height(), Hash: hx(h.Hash().Bytes()), Root: hx(h.Root().Bytes()), IdRoot: hx(h.IdentityRoot().Bytes()),
		Flags: uint32(h.Flags()), Epoch: s.Epoch(), Period: int(s.ValidationPeriod()), NextVal: s.NextValidationTime().Unix(),
		Vrf: fmt.Sprintf("%v", s.VrfProposerThreshold()), Shards: s.ShardsNum(),
		NetSize: n.App.ValidatorsCache.NetworkSize(), Online: n.App.ValidatorsCache.OnlineSize()}
	if f := s.FeePerGas(); f != nil {
		o.FeePerGas = f.String()
	}
	if d := s.DiscriminationStakeThreshold(); d != nil {
		o.DiscrThr = d.String()
	}
	r := s.Root()
	o.StateRootLive = hx(r[:])
	return o
}

func sortStrings(s []string) []string { sort.Strings(s); return s }
