package sim

// A recording host environment for the WASM runtime (lib.HostEnv).
//
// The runtime talks to the node through the HostEnv interface.  The probe embeds the node's REAL
// environment object (reads, gas accounting, balances and the nesting of sub-environments are the
// node's) and records what the contract code asks to be stored: SetStorage / RemoveStorage per
// environment, merged into the caller's record exactly when the runtime commits a sub-environment
// (successful sub-call) and dropped otherwise.  Run on a throw-away copy of the committed pre-state
// with the same gas limit, this yields the store writes a successful transaction must leave behind,
// without using the code that decides about committing (vm/wasm/vm.go Run, WasmEnv.Commit to state).

import (
	"fmt"
	"math/big"
	"sort"

	"github.com/idena-network/idena-go/blockchain/attachments"
	"github.com/idena-network/idena-go/blockchain/types"
	"github.com/idena-network/idena-go/common"
	"github.com/idena-network/idena-go/core/appstate"
	"github.com/idena-network/idena-go/vm/wasm"
	"github.com/idena-network/idena-wasm-binding/lib"
)

type recHost struct {
	*wasm.WasmEnv
	parent *recHost
	addr   common.Address
	writes map[common.Address]map[string]*shVal
	deploy map[common.Address]bool // contracts whose deployment this environment (or a committed sub-environment) asked for
}

func newRecHost(env *wasm.WasmEnv, parent *recHost, addr common.Address) *recHost {
	return &recHost{WasmEnv: env, parent: parent, addr: addr, writes: map[common.Address]map[string]*shVal{}, deploy: map[common.Address]bool{}}
}

func (r *recHost) put(k []byte, v *shVal) {
	m := r.writes[r.addr]
	if m == nil {
		m = map[string]*shVal{}
		r.writes[r.addr] = m
	}
	m[string(k)] = v
}

func (r *recHost) SetStorage(meter *lib.GasMeter, key []byte, value []byte) {
	r.WasmEnv.SetStorage(meter, key, value) // may panic (key too big, out of gas): then nothing is recorded
	r.put(key, &shVal{v: append([]byte(nil), value...)})
}

func (r *recHost) RemoveStorage(meter *lib.GasMeter, key []byte) {
	r.WasmEnv.RemoveStorage(meter, key)
	r.put(key, &shVal{del: true})
}

func (r *recHost) CreateSubEnv(contract lib.Address, method string, payAmount *big.Int, isDeploy bool) (lib.HostEnv, error) {
	sub, err := r.WasmEnv.CreateSubEnv(contract, method, payAmount, isDeploy)
	if err != nil {
		return nil, err
	}
	inner, ok := sub.(*wasm.WasmEnv)
	if !ok {
		return nil, fmt.Errorf("unexpected sub environment type %T", sub)
	}
	return newRecHost(inner, r, contract), nil
}

// Deploy is called by the runtime on the sub-environment of a sub-deployment.
func (r *recHost) Deploy(code []byte) {
	r.WasmEnv.Deploy(code)
	r.deploy[r.addr] = true
}

func (r *recHost) Commit() {
	if r.parent != nil {
		for a := range r.deploy {
			r.parent.deploy[a] = true
		}
		for a, m := range r.writes {
			pm := r.parent.writes[a]
			if pm == nil {
				pm = map[string]*shVal{}
				r.parent.writes[a] = pm
			}
			for k, v := range m {
				pm[k] = v
			}
		}
		r.writes = map[common.Address]map[string]*shVal{}
	}
	r.WasmEnv.Commit()
}

// AKV is a requested store write of a contract (V = "" means removal).
type AKV struct {
	A common.Address
	K string
	V string
}

// WasmShadowResult is what the wasm contract code asked for.
type WasmShadowResult struct {
	Ran      bool
	Ok       bool
	Err      string
	GasUsed  uint64
	Writes   []AKV
	Deployed []common.Address // sub-deployments the code asked for and the runtime committed
}

// RunWasmShadow executes the wasm contract code of tx through the recording host environment on a
// throw-away copy of the state of `height` (escrow applied the way the transaction envelope does),
// with the gas limit the transaction buys.
func (n *Node) RunWasmShadow(height uint64, hdr *types.Header, tx *types.Transaction, gasLimit uint64) (res WasmShadowResult) {
	st, err := n.App.ForCheck(height)
	if err != nil {
		return
	}
	return n.RunWasmShadowOn(st, hdr, tx, gasLimit)
}

// RunWasmShadowOn is RunWasmShadow on a given throw-away state (left as it was found: the run does
// not commit, the escrow is undone).
func (n *Node) RunWasmShadowOn(st *appstate.AppState, hdr *types.Header, tx *types.Transaction, gasLimit uint64) (res WasmShadowResult) {
	sender, _ := types.Sender(tx)
	ctx := wasm.NewContractContext(tx)
	amount := tx.AmountOrZero()
	if amount.Sign() > 0 {
		st.State.SubBalance(sender, amount)
		st.State.AddBalance(ctx.ContractAddr(), amount)
		defer func() {
			st.State.AddBalance(sender, amount)
			st.State.SubBalance(ctx.ContractAddr(), amount)
		}()
	}
	limit := gasLimit * 100 // costs.GasToWasmGas
	var rec *recHost
	var runErr error
	var used uint64
	func() {
		defer func() {
			if r := recover(); r != nil {
				runErr = fmt.Errorf("%v", r)
			}
		}()
		switch tx.Type {
		case types.DeployContractTx:
			att := attachments.ParseDeployContractAttachment(tx)
			if att == nil || len(att.Code) == 0 {
				return
			}
			env := wasm.NewWasmEnv(st, n.Chain, ctx, hdr, "deploy", true, false, n.Cfg.Consensus.EnableUpgrade12, nil)
			rec = newRecHost(env, nil, ctx.ContractAddr())
			env.Deploy(att.Code)
			used, _, runErr = lib.Deploy(lib.NewGoAPI(rec, &lib.GasMeter{}), att.Code, att.Args, ctx.ContractAddr(), limit, true)
		case types.CallContractTx:
			att := attachments.ParseCallContractAttachment(tx)
			code := st.State.GetContractCode(*tx.To)
			if att == nil || len(code) == 0 {
				return
			}
			env := wasm.NewWasmEnv(st, n.Chain, ctx, hdr, att.Method, true, false, n.Cfg.Consensus.EnableUpgrade12, nil)
			rec = newRecHost(env, nil, ctx.ContractAddr())
			used, _, runErr = lib.Execute(lib.NewGoAPI(rec, &lib.GasMeter{}), code, att.Method, att.Args, *tx.To, limit, true)
		}
	}()
	if rec == nil {
		return
	}
	res.Ran = true
	res.GasUsed = used / 100
	if runErr != nil {
		res.Err = runErr.Error()
		return
	}
	res.Ok = true
	for a := range rec.deploy {
		res.Deployed = append(res.Deployed, a)
	}
	sort.Slice(res.Deployed, func(i, j int) bool { return string(res.Deployed[i][:]) < string(res.Deployed[j][:]) })
	for a, m := range rec.writes {
		for k, v := range m {
			e := AKV{A: a, K: dg([]byte(k))}
			if !v.del {
				e.V = dg(v.v)
			}
			res.Writes = append(res.Writes, e)
		}
	}
	sort.Slice(res.Writes, func(i, j int) bool {
		if res.Writes[i].A != res.Writes[j].A {
			return string(res.Writes[i].A[:]) < string(res.Writes[j].A[:])
		}
		return res.Writes[i].K < res.Writes[j].K
	})
	return
}
