package sim

// Helpers of the fork-adoption check (C08): branch builders over real nodes, fabricated (malicious)
// fork blocks, real certificates of every shape, the byte-level transport of fork bundles through
// the real BlocksRange codec, and the store summary that is compared between an adopter and a
// reference replica.  Nothing of the node's fork logic is re-implemented here.

import (
	"bytes"
	"crypto/sha256"
	"encoding/hex"
	"encoding/json"
	"fmt"
	"sort"

	"github.com/idena-network/idena-go/blockchain/types"
	"github.com/idena-network/idena-go/blockchain/validation"
	"github.com/idena-network/idena-go/common"
	"github.com/idena-network/idena-go/core/validators"
	"github.com/idena-network/idena-go/crypto"
	"github.com/idena-network/idena-go/database"
	"github.com/idena-network/idena-go/protocol"
	dbm "github.com/tendermint/tm-db"
)

// ---------------------------------------------------------------------------------------------
// store summary

// ValView is the externally observable content of a validators cache.
type ValView struct {
	Height    uint64   `json:"height"`
	Net       int      `json:"net"`
	Online    int      `json:"online"`
	Size      int      `json:"size"`
	Validated []string `json:"validated"`
	OnlineSet []string `json:"onlineset"`
	Committee []string `json:"committee"`
	Approved  []string `json:"approved"`
	Threshold int      `json:"thr"`
	ForkSize  int      `json:"forksize"`
}

func (n *Node) viewOf(vc *validators.ValidatorsCache, head *types.Header) ValView {
	v := ValView{Height: vc.Height(), Net: vc.NetworkSize(), Online: vc.OnlineSize(), Size: vc.ValidatorsSize(),
		Validated: []string{}, OnlineSet: []string{}, Committee: []string{}, Approved: []string{}}
	for i, a := range n.W.Addrs {
		if vc.IsValidated(a) {
			v.Validated = append(v.Validated, fmt.Sprintf("k%d", i))
		}
		if vc.IsOnlineIdentity(a) {
			v.OnlineSet = append(v.OnlineSet, fmt.Sprintf("k%d", i))
		}
	}
	v.Threshold = n.Chain.GetCommitteeVotesThreshold(vc, true)
	v.ForkSize = vc.ForkCommitteeSize()
	if sv := vc.GetOnlineValidators(head.Seed(), head.Height()+1, types.Final, n.Chain.GetCommitteeSize(vc, true)); sv != nil {
		for i, a := range n.W.Addrs {
			if sv.Original.Contains(a) {
				v.Committee = append(v.Committee, fmt.Sprintf("k%d", i))
			}
			if sv.ApprovedValidators.Contains(a) {
				v.Approved = append(v.Approved, fmt.Sprintf("k%d", i))
			}
		}
	}
	return v
}

// Vals is the node's LIVE validator view (the cache consensus uses).
func (n *Node) Vals() ValView { return n.viewOf(n.App.ValidatorsCache, n.Chain.Head) }

// CanonEntry is one entry of the canonical height -> hash index with what it resolves to.
type CanonEntry struct {
	H      uint64 `json:"h"`
	Hash   string `json:"hash"`   // canonical hash ("" = no entry)
	Header string `json:"header"` // hash of the header the entry resolves to ("" = header missing)
	Body   int    `json:"body"`   // number of body transactions of the resolved block (-1 = block missing)
	Cert   int    `json:"cert"`   // signatures of the certificate stored for the resolved block (0 = none or empty)
}

// SumHead is the head part of a summary (values beyond 32 bits travel as strings: TLC integers).
type SumHead struct {
	Height    uint64 `json:"height"`
	Hash      string `json:"hash"`
	Root      string `json:"root"`
	IdRoot    string `json:"idroot"`
	Flags     uint32 `json:"flags"`
	Epoch     uint16 `json:"epoch"`
	Period    int    `json:"period"`
	NextVal   string `json:"nextval"`
	FeePerGas string `json:"fpg"`
	Vrf       string `json:"vrf"`
	Shards    uint32 `json:"shards"`
	DiscrThr  string `json:"discr"`
}

// SumState is the state part: roots of the live trees and of a fresh read-only view at the head
// height, and the ledger content (digest + every account / identity).
type SumState struct {
	LiveRoot string  `json:"liveroot"`
	IdLive   string  `json:"idlive"`
	RoRoot   string  `json:"roroot"`
	RoIdRoot string  `json:"roidroot"`
	Ledger   string  `json:"ledger"`
	Accts    []*Acct `json:"accts"`
	Err      string  `json:"err"`
}

// SumVals is the validator view: the LIVE cache consensus uses, and a cache freshly loaded from the
// committed identity state (what a restarted node would have).
type SumVals struct {
	Live ValView `json:"live"`
	Load ValView `json:"load"`
}

// Summary is what C08 compares between the adopter and a replica that followed the fork from the
// ancestor: head, state and identity roots and contents, validator view, and the canonical index
// with the headers it resolves to.
type Summary struct {
	Head  SumHead      `json:"head"`
	State SumState     `json:"state"`
	Vals  SumVals      `json:"vals"`
	Canon []CanonEntry `json:"canon"`
}

// Summarise observes the node; the canonical index is probed for heights from..top.  withAccts
// includes the full ledger projection (otherwise only its digest).
func (n *Node) Summarise(from, top uint64, withAccts bool) Summary {
	o := n.Obs()
	s := Summary{Canon: []CanonEntry{}}
	s.Head = SumHead{Height: o.Height, Hash: o.Hash, Root: o.Root, IdRoot: o.IdRoot, Flags: o.Flags, Epoch: o.Epoch, Period: o.Period,
		NextVal: fmt.Sprint(o.NextVal), FeePerGas: o.FeePerGas, Vrf: o.Vrf, Shards: o.Shards, DiscrThr: o.DiscrThr}
	s.State.Accts = []*Acct{}
	s.Vals.Load = ValView{Validated: []string{}, OnlineSet: []string{}, Committee: []string{}, Approved: []string{}}
	s.State.LiveRoot = o.StateRootLive
	r := n.App.IdentityState.Root()
	s.State.IdLive = hx(r[:])
	head := n.Chain.Head
	// the node's own read-only view of the head state (what the mempool and the RPC layer read); a view
	// whose tree nodes are gone panics inside the tree library: recorded, not fatal
	func() {
		defer func() {
			if r := recover(); r != nil {
				msg := fmt.Sprint(r)
				if len(msg) > 60 {
					msg = msg[:60]
				}
				s.State.Err = "readonly view panics: " + msg
				s.State.Accts = []*Acct{}
			}
		}()
		ro, err := n.App.Readonly(head.Height())
		if err != nil {
			s.State.Err = "readonly: " + err.Error()
			return
		}
		a, b := ro.State.Root(), ro.IdentityState.Root()
		s.State.RoRoot, s.State.RoIdRoot = hx(a[:]), hx(b[:])
		l := ProjectState(n.W, ro)
		if withAccts {
			s.State.Accts = l.Accts
		}
		js, _ := json.Marshal(l)
		d := sha256.Sum256(js)
		s.State.Ledger = hex.EncodeToString(d[:8])
		fresh := validators.NewValidatorsCache(ro.IdentityState, ro.State.GodAddress())
		fresh.Load()
		s.Vals.Load = n.viewOf(fresh, head)
	}()
	s.Vals.Live = n.Vals()
	for h := from; h <= top; h++ {
		e := CanonEntry{H: h, Body: -1}
		hdr := n.Chain.GetBlockHeaderByHeight(h)
		if hash := canonicalHash(n, h); hash != (common.Hash{}) {
			e.Hash = hx(hash.Bytes())
		}
		if hdr != nil {
			e.Header = hx(hdr.Hash().Bytes())
			if b := n.Chain.GetBlock(hdr.Hash()); b != nil && b.Body != nil {
				e.Body = len(b.Body.Transactions)
			}
			if c := n.Chain.GetCertificate(hdr.Hash()); c != nil {
				e.Cert = len(c.Signatures)
			}
		}
		s.Canon = append(s.Canon, e)
	}
	return s
}

// canonicalHash reads the canonical index entry of a height through the repository's own reader, so
// that a dangling entry (hash without header) is visible too.
func canonicalHash(n *Node, h uint64) common.Hash {
	return database.NewRepo(n.DB).ReadCanonicalHash(h)
}

// ---------------------------------------------------------------------------------------------
// branch building

// Built is one block of a branch as built by honest nodes plus what the scenario made of it.
type Built struct {
	Block    *types.Block
	Data     []byte   // encoded block as it travels (after fabrication)
	TxIds    []string // body transactions, in order
	Proposer int      // key index, -1 for empty blocks
	Signers  []int    // keys approved to vote for this block (final committee on the honest branch)
	Need     int      // distinct approved votes a certificate needs
	IdUpd    bool
	Empty    bool
}

// Branch builds a chain segment on top of a database snapshot with real nodes.
type Branch struct {
	W      *World
	State  *Node // holds the honest chain of this branch
	Blocks []*Built
}

// NewBranch starts a branch at the head of the chain stored in base (the database is copied).
func (w *World) NewBranch(base dbm.DB) *Branch {
	n := w.Boot(0, CopyDB(base), nil)
	if n.BootErr != nil {
		panic(n.BootErr)
	}
	return &Branch{W: w, State: n}
}

func (b *Branch) Close() {
	b.State.Close()
}

// Close releases the locked key buffer of a node (thousands of nodes are created per run).
func (n *Node) Close() {
	if n.Sec != nil {
		n.Sec.Destroy()
	}
}

// committee records who may certify the NEXT block of the branch and how many votes it needs.
func (b *Branch) committee() ([]int, int) {
	n := b.State
	vc := n.App.ValidatorsCache
	head := n.Chain.Head
	sv := vc.GetOnlineValidators(head.Seed(), head.Height()+1, types.Final, n.Chain.GetCommitteeSize(vc, true))
	var signers []int
	if sv == nil {
		return nil, 1 << 20
	}
	for i, a := range b.W.Addrs {
		if sv.Approved(a) {
			signers = append(signers, i)
		}
	}
	need := n.Chain.GetCommitteeVotesThreshold(vc, true) - sv.VotesCountSubtrahend(n.Cfg.Consensus.AgreementThreshold)
	return signers, need
}

func txIds(b *types.Block) []string {
	ids := []string{}
	if b.Body != nil {
		for _, tx := range b.Body.Transactions {
			ids = append(ids, hx(tx.Hash().Bytes()))
		}
	}
	return ids
}

func (b *Branch) push(blk *types.Block, proposer int, signers []int, need int) (*Built, error) {
	data := Encode(blk)
	if err := b.State.Add(data); err != nil {
		return nil, err
	}
	bb := &Built{Block: Decode(data), Data: data, TxIds: txIds(blk), Proposer: proposer, Signers: signers, Need: need,
		IdUpd: blk.Header.Flags().HasFlag(types.IdentityUpdate), Empty: blk.IsEmpty()}
	b.Blocks = append(b.Blocks, bb)
	return bb, nil
}

// Propose lets identity `key` propose the next block of the branch with the given transactions in
// its mempool (a fresh node with that key is booted over a copy of the branch state).
func (b *Branch) Propose(key int, txs []*types.Transaction, delay int64) (*Built, error) {
	signers, need := b.committee()
	p := b.W.Boot(key, CopyDB(b.State.DB), nil)
	if p.BootErr != nil {
		return nil, p.BootErr
	}
	defer p.Close()
	for _, tx := range txs {
		if err := p.Pool.AddExternalTxs(validation.InboundTx, tx); err != nil {
			return nil, fmt.Errorf("mempool refused scenario tx: %v", err)
		}
	}
	blk := p.Propose(delay)
	if blk == nil {
		return nil, fmt.Errorf("no proposal")
	}
	return b.push(blk, key, signers, need)
}

// EmptyBlock appends the deterministic empty block.
func (b *Branch) EmptyBlock() (*Built, error) {
	signers, need := b.committee()
	blk := b.State.Chain.GenerateEmptyBlock()
	return b.push(blk, -1, signers, need)
}

// ---------------------------------------------------------------------------------------------
// fabrication of invalid fork blocks (what a malicious peer can send)

// Reparent rewrites the parent hash of a block (used to chain honest successors behind a fabricated
// block: seeds depend on the previous seed and the height only, so they stay correct).
func Reparent(blk *types.Block, parent common.Hash) {
	if blk.Header.EmptyBlockHeader != nil {
		blk.Header.EmptyBlockHeader.ParentHash = parent
	} else {
		blk.Header.ProposedHeader.ParentHash = parent
	}
}

// TamperRoot flips one bit of the state root (which = 0) or of the identity root (which = 1).
func TamperRoot(blk *types.Block, which int) {
	var r *common.Hash
	switch {
	case blk.Header.EmptyBlockHeader != nil && which == 0:
		r = &blk.Header.EmptyBlockHeader.Root
	case blk.Header.EmptyBlockHeader != nil:
		r = &blk.Header.EmptyBlockHeader.IdentityRoot
	case which == 0:
		r = &blk.Header.ProposedHeader.Root
	default:
		r = &blk.Header.ProposedHeader.IdentityRoot
	}
	r[5] ^= 0x10
}

// AppendTx appends a transaction to the body of a proposed block and recomputes the header fields
// derived from the body (tx hash, body cid), as a malicious proposer would.
func (n *Node) AppendTx(blk *types.Block, tx *types.Transaction) {
	blk.Body.Transactions = append(blk.Body.Transactions, tx)
	blk.Header.ProposedHeader.TxHash = types.DeriveSha(types.Transactions(blk.Body.Transactions))
	c, _ := n.Ipfs.Cid(blk.Body.ToBytes())
	blk.Header.ProposedHeader.IpfsHash = c.Bytes()
}

// FlipFlag toggles a flag of a proposed or empty block.
func FlipFlag(blk *types.Block, f types.BlockFlag) {
	if blk.Header.EmptyBlockHeader != nil {
		blk.Header.EmptyBlockHeader.Flags ^= f
	} else {
		blk.Header.ProposedHeader.Flags ^= f
	}
}

// ---------------------------------------------------------------------------------------------
// certificates

// CertFor builds a certificate for `blk` from votes of the given keys; votedHash/parent/round can be
// overridden to forge it.
func (w *World) CertFor(signers []int, round uint64, parent, voted common.Hash) *types.BlockCert {
	var votes []*types.Vote
	for _, k := range signers {
		vote := &types.Vote{Header: &types.VoteHeader{Round: round, Step: types.Final, ParentHash: parent, VotedHash: voted}}
		h := crypto.SignatureHash(vote)
		sig, err := crypto.Sign(h[:], w.Keys[k])
		if err != nil {
			panic(err)
		}
		vote.Signature = sig
		votes = append(votes, vote)
	}
	full := types.FullBlockCert{Votes: votes}
	return full.Compress()
}

// ---------------------------------------------------------------------------------------------
// transport: BlocksRange bytes (real codec) + bodies by cid, as fullSync.SeekForkedBlocks assembles

// Wire is what a peer's answer to GetForkBlockRange consists of.
type Wire struct {
	Range  []byte            // encoded BlocksRange message
	Bodies map[string][]byte // "ipfs": body bytes by cid
}

// PackFork encodes headers + certificates with the real wire codec and publishes the bodies.
func PackFork(blocks []*types.Block, certs []*types.BlockCert) Wire {
	w := Wire{Bodies: map[string][]byte{}}
	var rb []protocol.VerifRangeBlock
	for i, b := range blocks {
		rb = append(rb, protocol.VerifRangeBlock{Header: b.Header, Cert: certs[i]})
		if b.Header.ProposedHeader != nil {
			w.Bodies[string(b.Header.ProposedHeader.IpfsHash)] = b.Body.ToBytes()
		}
	}
	data, err := protocol.VerifEncodeBlockRange(1, rb)
	if err != nil {
		panic(err)
	}
	w.Range = data
	return w
}

// Unpack decodes the message and assembles the bundles exactly like fullSync.SeekForkedBlocks /
// fullSync.GetBlock do (empty header -> empty body, otherwise body fetched by cid).
func (w Wire) Unpack() ([]types.BlockBundle, error) {
	_, rb, err := protocol.VerifDecodeBlockRange(w.Range)
	if err != nil {
		return nil, err
	}
	var res []types.BlockBundle
	for _, b := range rb {
		if b.Header == nil {
			return nil, fmt.Errorf("nil header")
		}
		var blk *types.Block
		if b.Header.EmptyBlockHeader != nil {
			blk = &types.Block{Header: b.Header, Body: &types.Body{}}
		} else {
			data, ok := w.Bodies[string(b.Header.ProposedHeader.IpfsHash)]
			if !ok {
				return res, nil // body not retrievable: the seeker stops here
			}
			body := &types.Body{}
			body.FromBytes(data)
			blk = &types.Block{Header: b.Header, Body: body}
		}
		res = append(res, types.BlockBundle{Block: blk, Cert: b.Cert})
	}
	return res, nil
}

// SeedCmp compares two block seeds the way checkForkSize does.
func SeedCmp(a, b types.Seed) int { return bytes.Compare(a.Bytes(), b.Bytes()) }

func SortInts(a []int) []int { sort.Ints(a); return a }
