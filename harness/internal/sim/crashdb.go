package sim

// Crash-injecting database for C09 (fault enumeration on the real code).
//
// CrashDB wraps a tm-db database; every incarnation of the node gets its own Handle (a dbm.DB).
// While armed it numbers every DURABLE WRITE the node issues
// (Set / SetSync / Delete / DeleteSync, and every non-empty batch Write / WriteSync as ONE write),
// classifies it by key prefix, and lets the writes with index < CrashAt through.  The write with
// index CrashAt is not applied: the wrapper panics with ErrCrash (the process "dies" inside the
// write call); every later write of the doomed process is discarded as well.  A batch is applied
// entirely or not at all.  Reads are always served from the surviving content.
//
// Nothing of the node is re-implemented here; the wrapper is handed to the real constructors
// (the database is constructor-injected everywhere).

import (
	"bytes"
	"encoding/binary"
	"encoding/hex"
	"fmt"
	"runtime"
	"sort"
	"sync"

	dbm "github.com/tendermint/tm-db"
)

// ErrCrash is the panic value raised at the crash point.
type ErrCrash struct{ Index int }

func (e ErrCrash) Error() string { return fmt.Sprintf("verif: simulated crash at write %d", e.Index) }

// ErrRunaway is the panic value raised when an armed window exceeds its budget of write calls
// (a start-up sequence that loops forever keeps issuing - possibly empty - batches).
type ErrRunaway struct{ Calls int }

func (e ErrRunaway) Error() string {
	return fmt.Sprintf("verif: %d write calls without terminating", e.Calls)
}

// KeyOp is one key-level operation of a write.
type KeyOp struct {
	Del bool
	Key []byte
	Val []byte
}

// WriteRec describes one durable write (classified).
type WriteRec struct {
	I     int      `json:"i"`               // index within the armed window
	K     string   `json:"k"`               // kind (see classify)
	Sub   string   `json:"sub"`             // key class of the first key (TxIdx / OwnTx / ... for K == "Index")
	Batch bool     `json:"batch"`           // issued as an atomic batch
	NOps  int      `json:"nops"`            // number of key operations
	Tree  string   `json:"tree"`            // "S" / "I" for tree batches, "" otherwise
	Pfx   int64    `json:"pfx"`             // height encoded in the tree's db prefix
	Set   []int64  `json:"set"`             // tree versions whose root entry is written
	Del   []int64  `json:"del"`             // tree versions whose root entry is deleted
	Root  string   `json:"root"`            // root node hash written for Set[0] (short hex)
	H     int64    `json:"h"`               // height for canonical / diff keys, -1 otherwise
	Id    string   `json:"id"`              // short hex of the hash in the key (header, cert, tx index) or of the head value
	Extra []string `json:"extra,omitempty"` // kinds of additional keys inside a mixed batch
	ops   []KeyOp
}

type CrashDB struct {
	DB      dbm.DB // the surviving content
	mu      sync.Mutex
	armed   bool
	n       int
	CrashAt int // -1: never
	// alternative crash point: the Occ-th (1-based) write of the armed window whose kind is Kind
	Kind   string
	Occ    int
	byKind map[string]int
	dead   bool
	gen    int             // current incarnation (see Handle)
	pfx    map[byte][]byte // cache of the current tree-database prefixes (keys {1} and {2})
	owner  uint64          // goroutine that armed the window: only it "is" the process that dies
	calls  int             // write calls of the armed window, discarded ones included
	Log    []WriteRec
	Lost   *WriteRec // the write the process died in (set at the crash point)
	Empty  int       // empty batches seen while armed (not numbered)
	Budget int       // > 0: maximum number of write calls (numbered writes + empty batches) of an armed window
	// HeadId maps the value written under the head key to a short id (hash of the header); set by
	// the driver because the wrapper does not decode headers.
	HeadId func(val []byte) (string, int64)
}

func NewCrashDB(inner dbm.DB) *CrashDB {
	return &CrashDB{DB: inner, CrashAt: -1}
}

// Arm starts a numbered window: writes 0..crashAt-1 are applied, write crashAt kills the process.
func (c *CrashDB) Arm(crashAt int) {
	c.mu.Lock()
	defer c.mu.Unlock()
	c.armed, c.n, c.CrashAt, c.dead, c.Log, c.Empty, c.Lost = true, 0, crashAt, false, nil, 0, nil
	c.Kind, c.Occ, c.byKind = "", 0, map[string]int{}
	c.owner, c.calls = goid(), 0
}

// goid returns the id of the calling goroutine.
func goid() uint64 {
	var buf [64]byte
	n := runtime.Stack(buf[:], false)
	var id uint64
	for _, ch := range buf[len("goroutine "):n] {
		if ch < '0' || ch > '9' {
			break
		}
		id = id*10 + uint64(ch-'0')
	}
	return id
}

// Calls returns the number of write calls seen in the armed window (for waiting until background
// writers of the node have gone quiet).
func (c *CrashDB) Calls() int {
	c.mu.Lock()
	defer c.mu.Unlock()
	return c.calls
}

// ArmKind starts a numbered window in which the process dies inside the occ-th write of the given kind.
func (c *CrashDB) ArmKind(kind string, occ int) {
	c.Arm(-1)
	c.mu.Lock()
	c.Kind, c.Occ = kind, occ
	c.mu.Unlock()
}

// Disarm ends the window; the database behaves like the inner one again (also after a crash).
func (c *CrashDB) Disarm() []WriteRec {
	c.mu.Lock()
	defer c.mu.Unlock()
	c.armed, c.dead = false, false
	c.CrashAt, c.Kind = -1, ""
	return c.Log
}

func (c *CrashDB) Count() int {
	c.mu.Lock()
	defer c.mu.Unlock()
	return c.n
}

func (c *CrashDB) Dead() bool {
	c.mu.Lock()
	defer c.mu.Unlock()
	return c.dead
}

// Inner returns the wrapped database (the survivor).
func (c *CrashDB) Inner() dbm.DB { return c.DB }

// gate decides the fate of one write; returns true when it must be applied.  The goroutine that
// armed the window dies (panics) inside the crash write and inside every later write; writes of
// other goroutines of the doomed process (background cleaners) are silently discarded from the
// crash point on - a foreign goroutine reaching the crash point marks the process dead.
func (c *CrashDB) gate(gen int, rec WriteRec) bool {
	c.mu.Lock()
	if gen != c.gen {
		// a goroutine of an earlier incarnation of the node (the process it belonged to is gone)
		c.mu.Unlock()
		return false
	}
	if !c.armed {
		c.mu.Unlock()
		return true
	}
	c.calls++
	if c.dead {
		at := c.CrashAt
		c.mu.Unlock()
		if goid() != c.owner {
			return false
		}
		panic(ErrCrash{Index: at})
	}
	rec.I = c.n
	if c.Budget > 0 && c.n+c.Empty > c.Budget {
		calls := c.n + c.Empty
		c.mu.Unlock()
		panic(ErrRunaway{Calls: calls})
	}
	c.byKind[rec.K]++
	if (c.CrashAt >= 0 && c.n >= c.CrashAt) || (c.Kind != "" && rec.K == c.Kind && c.byKind[rec.K] == c.Occ) {
		c.dead = true
		c.CrashAt = c.n
		lost := rec
		c.Lost = &lost
		c.mu.Unlock()
		if goid() != c.owner {
			return false
		}
		panic(ErrCrash{Index: rec.I})
	}
	c.n++
	c.Log = append(c.Log, rec)
	c.mu.Unlock()
	return true
}

func cp(b []byte) []byte { return append([]byte(nil), b...) }

// Handle is the database as ONE incarnation of the node sees it.  NewHandle starts a new
// incarnation: every write still issued through an older handle (background goroutines of a
// process that has been killed or abandoned) is discarded from then on.
type Handle struct {
	dbm.DB // reads go to the surviving content
	C      *CrashDB
	gen    int
}

func (c *CrashDB) NewHandle() *Handle {
	c.mu.Lock()
	defer c.mu.Unlock()
	c.gen++
	return &Handle{DB: c.DB, C: c, gen: c.gen}
}

// fast decides without classifying: writes of an earlier incarnation are discarded, writes outside
// an armed window are applied.
func (c *CrashDB) fast(gen int, keys ...[]byte) (handled, apply bool) {
	c.mu.Lock()
	defer c.mu.Unlock()
	for _, k := range keys {
		if len(k) == 1 {
			c.pfx = nil // a tree-database prefix is (possibly) being changed
		}
	}
	if gen != c.gen {
		return true, false
	}
	if !c.armed {
		return true, true
	}
	return false, false
}

func (h *Handle) Set(k, v []byte) error {
	if handled, apply := h.C.fast(h.gen, k); handled {
		if apply {
			return h.C.DB.Set(k, v)
		}
		return nil
	}
	if h.C.gate(h.gen, h.C.classify([]KeyOp{{Key: cp(k), Val: cp(v)}}, false)) {
		return h.C.DB.Set(k, v)
	}
	return nil
}
func (h *Handle) SetSync(k, v []byte) error {
	if handled, apply := h.C.fast(h.gen, k); handled {
		if apply {
			return h.C.DB.SetSync(k, v)
		}
		return nil
	}
	if h.C.gate(h.gen, h.C.classify([]KeyOp{{Key: cp(k), Val: cp(v)}}, false)) {
		return h.C.DB.SetSync(k, v)
	}
	return nil
}
func (h *Handle) Delete(k []byte) error {
	if handled, apply := h.C.fast(h.gen, k); handled {
		if apply {
			return h.C.DB.Delete(k)
		}
		return nil
	}
	if h.C.gate(h.gen, h.C.classify([]KeyOp{{Del: true, Key: cp(k)}}, false)) {
		return h.C.DB.Delete(k)
	}
	return nil
}
func (h *Handle) DeleteSync(k []byte) error {
	if handled, apply := h.C.fast(h.gen, k); handled {
		if apply {
			return h.C.DB.DeleteSync(k)
		}
		return nil
	}
	if h.C.gate(h.gen, h.C.classify([]KeyOp{{Del: true, Key: cp(k)}}, false)) {
		return h.C.DB.DeleteSync(k)
	}
	return nil
}

func (h *Handle) NewBatch() dbm.Batch { return &crashBatch{c: h.C, gen: h.gen} }

type crashBatch struct {
	c    *CrashDB
	gen  int
	ops  []KeyOp
	done bool
}

func (b *crashBatch) Set(k, v []byte) error {
	if b.done {
		return fmt.Errorf("batch has been written or closed")
	}
	b.ops = append(b.ops, KeyOp{Key: cp(k), Val: cp(v)})
	return nil
}
func (b *crashBatch) Delete(k []byte) error {
	if b.done {
		return fmt.Errorf("batch has been written or closed")
	}
	b.ops = append(b.ops, KeyOp{Del: true, Key: cp(k)})
	return nil
}
func (b *crashBatch) write(sync bool) error {
	if b.done {
		return fmt.Errorf("batch has been written or closed")
	}
	b.done = true
	if len(b.ops) == 0 {
		b.c.mu.Lock()
		if b.c.armed && b.gen == b.c.gen {
			b.c.Empty++
			if b.c.Budget > 0 && b.c.n+b.c.Empty > b.c.Budget {
				calls := b.c.n + b.c.Empty
				b.c.mu.Unlock()
				panic(ErrRunaway{Calls: calls})
			}
		}
		b.c.mu.Unlock()
		return nil
	}
	var keys [][]byte
	for _, o := range b.ops {
		if len(o.Key) == 1 {
			keys = append(keys, o.Key)
		}
	}
	if handled, apply := b.c.fast(b.gen, keys...); handled {
		if !apply {
			return nil
		}
	} else if !b.c.gate(b.gen, b.c.classify(b.ops, true)) {
		return nil
	}
	ib := b.c.DB.NewBatch()
	defer ib.Close()
	for _, o := range b.ops {
		if o.Del {
			ib.Delete(o.Key)
		} else {
			ib.Set(o.Key, o.Val)
		}
	}
	if sync {
		return ib.WriteSync()
	}
	return ib.Write()
}
func (b *crashBatch) Write() error     { return b.write(false) }
func (b *crashBatch) WriteSync() error { return b.write(true) }
func (b *crashBatch) Close() error     { b.done = true; return nil }

// ------------------------------------------------------------------------------------------------
// classification by key

func shortHex(b []byte) string {
	if len(b) > 8 {
		b = b[:8]
	}
	return hex.EncodeToString(b)
}

func hasPrefix(k []byte, p string) bool { return len(k) >= len(p) && string(k[:len(p)]) == p }

// KeyKind names the class of a single key of the node's database schema
// (database/schema.go, core/state/keys.go, iavl nodedb key formats).
func KeyKind(k []byte) string {
	switch {
	case len(k) == 1 && k[0] == 1:
		return "PfxS"
	case len(k) == 1 && k[0] == 2:
		return "PfxI"
	case len(k) == 1 && k[0] == 3:
		return "PfxP"
	case len(k) >= 10 && (k[0] == 1 || k[0] == 2):
		t := "S"
		if k[0] == 2 {
			t = "I"
		}
		switch k[9] {
		case 'r':
			return t + "r"
		case 'n':
			return t + "n"
		case 'o':
			return t + "o"
		}
		return t + "?"
	case string(k) == "LastBlock":
		return "Head"
	case string(k) == "preliminary-head":
		return "PHead"
	case string(k) == "weak-cert":
		return "WeakCert"
	case string(k) == "last-snapshot":
		return "LastSnapshot"
	case string(k) == "activity":
		return "Activity"
	case hasPrefix(k, "id-diff"):
		return "Diff"
	case hasPrefix(k, "applytxlog"):
		return "ApplyTxLog"
	case hasPrefix(k, "blacktx"):
		return "BlackTx"
	case hasPrefix(k, "oti"):
		return "OwnTx"
	case hasPrefix(k, "ti") && len(k) == 34:
		return "TxIdx"
	case hasPrefix(k, "ri") && len(k) == 34:
		return "RcIdx"
	case hasPrefix(k, "bc"):
		return "Burnt"
	case string(k) == "g":
		return "IGenesis"
	case string(k) == "pg":
		return "PIGenesis"
	case string(k) == "uv":
		return "UpgVotes"
	case string(k) == "v":
		return "ConsVer"
	case string(k) == "pv":
		return "PConsVer"
	case len(k) == 10 && k[0] == 'h' && k[9] == 'n':
		return "Canon"
	case len(k) == 33 && k[0] == 'h':
		return "Header"
	case len(k) == 33 && k[0] == 'c':
		return "Cert"
	case len(k) == 33 && k[0] == 'f':
		return "FinalCons"
	case len(k) > 0 && k[0] == 'e':
		return "Event"
	}
	return "Other"
}

// rootAbove reports whether the tree the batch belongs to has a saved version above v.
func (c *CrashDB) rootAbove(ops []KeyOp, v int64) bool {
	var pfx []byte
	for _, o := range ops {
		if kk := KeyKind(o.Key); len(kk) == 2 && kk[1] == 'r' {
			pfx = o.Key[:10]
			break
		}
	}
	if pfx == nil {
		return false
	}
	start := append(append([]byte{}, pfx...), make([]byte, 8)...)
	binary.BigEndian.PutUint64(start[10:], uint64(v+1))
	end := append(append([]byte{}, pfx[:9]...), 's')
	it, err := c.DB.Iterator(start, end)
	if err != nil {
		return false
	}
	defer it.Close()
	return it.Valid()
}

// indexKinds are the per-transaction index entries block insertion writes
var indexKinds = map[string]bool{"TxIdx": true, "RcIdx": true, "OwnTx": true, "Burnt": true, "Event": true}

// current reports whether a tree key belongs to the tree database the node currently uses (the
// prefix stored under the key {1} for the state tree, {2} for the identity tree).
func (c *CrashDB) current(key []byte) bool {
	if len(key) < 10 {
		return true
	}
	c.mu.Lock()
	cur, ok := c.pfx[key[0]]
	c.mu.Unlock()
	if !ok {
		var err error
		cur, err = c.DB.Get([]byte{key[0]})
		if err != nil {
			return true
		}
		c.mu.Lock()
		if c.pfx == nil {
			c.pfx = map[byte][]byte{}
		}
		c.pfx[key[0]] = cur
		c.mu.Unlock()
	}
	if cur == nil {
		return true
	}
	return bytes.Equal(cur, key[:9])
}

func (c *CrashDB) classify(ops []KeyOp, batch bool) WriteRec {
	r := WriteRec{Batch: batch, NOps: len(ops), H: -1, Pfx: -1, Set: []int64{}, Del: []int64{}, ops: ops}
	kinds := map[string]int{}
	tree := ""
	cur := true
	for _, o := range ops {
		kk := KeyKind(o.Key)
		kinds[kk]++
		if len(kk) == 2 && (kk[0] == 'S' || kk[0] == 'I') && len(o.Key) >= 10 {
			if tree == "" {
				tree = kk[:1]
				r.Pfx = int64(binary.LittleEndian.Uint64(o.Key[1:9]))
				cur = c.current(o.Key)
			}
			if kk[1] == 'r' && len(o.Key) >= 18 {
				v := int64(binary.BigEndian.Uint64(o.Key[10:18]))
				if o.Del {
					r.Del = append(r.Del, v)
				} else {
					r.Set = append(r.Set, v)
					r.Root = shortHex(o.Val)
				}
			}
		}
	}
	sort.Slice(r.Del, func(i, j int) bool { return r.Del[i] < r.Del[j] })
	if tree != "" {
		r.Tree = tree
		r.Sub = tree
		// trees of a database the node does not use yet / any more: snapshot being imported (state),
		// preliminary identity tree (fast sync), replaced databases being deleted
		name := tree
		if !cur {
			name = map[string]string{"S": "Snap", "I": "P"}[tree]
		}
		switch {
		case !batch && !cur && ops[0].Del:
			r.K = "DropOld"
		case !batch && !cur && tree == "I":
			r.K = "PCopy"
		case !batch:
			r.K = name + "Put"
			if ops[0].Del {
				r.K = name + "Del"
			}
		case !cur && tree == "S":
			r.K = "SnapImport"
		case len(r.Set) > 0:
			r.K = name + "Commit"
		case len(r.Del) > 0:
			// deleting the highest saved versions is a rollback (LoadVersionForOverwriting),
			// deleting lower ones is pruning (DeleteVersion of the versions beyond the retained ones)
			if c.rootAbove(ops, r.Del[len(r.Del)-1]) {
				r.K = name + "Prune"
			} else {
				r.K = name + "Rollback"
			}
		default:
			r.K = name + "Nodes"
		}
		for kk := range kinds {
			if !(len(kk) == 2 && kk[:1] == tree) {
				r.Extra = append(r.Extra, kk)
			}
		}
		sort.Strings(r.Extra)
		return r
	}
	// non-tree write: kind of the first key; other kinds of a mixed batch are listed in Extra
	first := ops[0]
	r.K = KeyKind(first.Key)
	r.Sub = r.K
	if indexKinds[r.K] {
		r.K = "Index"
	}
	if first.Del {
		r.K = "Del" + r.K
	}
	switch KeyKind(first.Key) {
	case "Canon":
		r.H = int64(binary.BigEndian.Uint64(first.Key[1:9]))
		r.Id = shortHex(first.Val)
	case "Diff":
		r.H = int64(binary.BigEndian.Uint64(first.Key[7:15]))
	case "Header", "Cert", "FinalCons":
		r.Id = shortHex(first.Key[1:])
	case "TxIdx", "RcIdx":
		r.Id = shortHex(first.Key[2:])
	case "Head", "PHead":
		if c.HeadId != nil && !first.Del {
			r.Id, r.H = c.HeadId(first.Val)
		}
	}
	if batch {
		seen := map[string]bool{}
		for _, o := range ops[1:] {
			kk := KeyKind(o.Key)
			if o.Del {
				kk = "Del" + kk
			}
			if !seen[kk] {
				seen[kk] = true
				r.Extra = append(r.Extra, kk)
			}
		}
		sort.Strings(r.Extra)
		for _, o := range ops {
			// a head written inside a batch (fast-sync switch): expose it
			if KeyKind(o.Key) == "Head" && !o.Del && c.HeadId != nil {
				r.Id, r.H = c.HeadId(o.Val)
			}
			// the batch that moves the state-tree prefix is the fast-sync switch
			if KeyKind(o.Key) == "PfxS" {
				r.K = "Switch"
			}
		}
	}
	return r
}
