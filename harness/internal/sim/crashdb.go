package sim

// Crash-injecting database for C09 (fault enumeration on the real code).
//
// CrashDB wraps a tm-db database.  While armed it numbers every DURABLE WRITE the node issues
// (Set / SetSync / Delete / DeleteSync, and every non-empty batch Write / WriteSync as ONE write),
// classifies it by key prefix, and lets the writes with index < CrashAt through.  The write with
// index CrashAt is not applied: the wrapper panics with ErrCrash (the process "dies" inside the
// write call); every later write of the doomed process is discarded as well.  A batch is applied
// entirely or not at all.  Reads are always served from the surviving content.
//
// Nothing of the node is re-implemented here; the wrapper is handed to the real constructors
// (the database is constructor-injected everywhere).

import (
	"encoding/binary"
	"encoding/hex"
	"fmt"
	"sort"
	"sync"

	dbm "github.com/tendermint/tm-db"
)

// ErrCrash is the panic value raised at the crash point.
type ErrCrash struct{ Index int }

func (e ErrCrash) Error() string { return fmt.Sprintf("verif: simulated crash at write %d", e.Index) }

// ErrRunaway is the panic value raised when an armed window exceeds its budget of write calls
// (a start-up sequence that loops forever keeps issuing - possibly empty - batches).
type ErrRunaway struct{ Calls int }

func (e ErrRunaway) Error() string {
	return fmt.Sprintf("verif: %d write calls without terminating", e.Calls)
}

// KeyOp is one key-level operation of a write.
type KeyOp struct {
	Del bool
	Key []byte
	Val []byte
}

// WriteRec describes one durable write (classified).
type WriteRec struct {
	I     int      `json:"i"`               // index within the armed window
	K     string   `json:"k"`               // kind (see classify)
	Sub   string   `json:"sub"`             // key class of the first key (TxIdx / OwnTx / ... for K == "Index")
	Batch bool     `json:"batch"`           // issued as an atomic batch
	NOps  int      `json:"nops"`            // number of key operations
	Tree  string   `json:"tree"`            // "S" / "I" for tree batches, "" otherwise
	Pfx   int64    `json:"pfx"`             // height encoded in the tree's db prefix
	Set   []int64  `json:"set"`             // tree versions whose root entry is written
	Del   []int64  `json:"del"`             // tree versions whose root entry is deleted
	Root  string   `json:"root"`            // root node hash written for Set[0] (short hex)
	H     int64    `json:"h"`               // height for canonical / diff keys, -1 otherwise
	Id    string   `json:"id"`              // short hex of the hash in the key (header, cert, tx index) or of the head value
	Extra []string `json:"extra,omitempty"` // kinds of additional keys inside a mixed batch
	ops   []KeyOp
}

type CrashDB struct {
	dbm.DB
	mu      sync.Mutex
	armed   bool
	n       int
	CrashAt int // -1: never
	// alternative crash point: the Occ-th (1-based) write of the armed window whose kind is Kind
	Kind   string
	Occ    int
	byKind map[string]int
	dead   bool
	Log    []WriteRec
	Lost   *WriteRec // the write the process died in (set at the crash point)
	Empty  int       // empty batches seen while armed (not numbered)
	Budget int       // > 0: maximum number of write calls (numbered writes + empty batches) of an armed window
	// HeadId maps the value written under the head key to a short id (hash of the header); set by
	// the driver because the wrapper does not decode headers.
	HeadId func(val []byte) (string, int64)
}

func NewCrashDB(inner dbm.DB) *CrashDB {
	return &CrashDB{DB: inner, CrashAt: -1}
}

// Arm starts a numbered window: writes 0..crashAt-1 are applied, write crashAt kills the process.
func (c *CrashDB) Arm(crashAt int) {
	c.mu.Lock()
	defer c.mu.Unlock()
	c.armed, c.n, c.CrashAt, c.dead, c.Log, c.Empty, c.Lost = true, 0, crashAt, false, nil, 0, nil
	c.Kind, c.Occ, c.byKind = "", 0, map[string]int{}
}

// ArmKind starts a numbered window in which the process dies inside the occ-th write of the given kind.
func (c *CrashDB) ArmKind(kind string, occ int) {
	c.Arm(-1)
	c.mu.Lock()
	c.Kind, c.Occ = kind, occ
	c.mu.Unlock()
}

// Disarm ends the window; the database behaves like the inner one again (also after a crash).
func (c *CrashDB) Disarm() []WriteRec {
	c.mu.Lock()
	defer c.mu.Unlock()
	c.armed, c.dead = false, false
	c.CrashAt, c.Kind = -1, ""
	return c.Log
}

func (c *CrashDB) Count() int {
	c.mu.Lock()
	defer c.mu.Unlock()
	return c.n
}

func (c *CrashDB) Dead() bool {
	c.mu.Lock()
	defer c.mu.Unlock()
	return c.dead
}

// Inner returns the wrapped database (the survivor).
func (c *CrashDB) Inner() dbm.DB { return c.DB }

// gate decides the fate of one write; returns true when it must be applied.
func (c *CrashDB) gate(rec WriteRec) bool {
	c.mu.Lock()
	if !c.armed {
		c.mu.Unlock()
		return true
	}
	if c.dead {
		c.mu.Unlock()
		panic(ErrCrash{Index: c.CrashAt})
	}
	rec.I = c.n
	if c.Budget > 0 && c.n+c.Empty > c.Budget {
		calls := c.n + c.Empty
		c.mu.Unlock()
		panic(ErrRunaway{Calls: calls})
	}
	c.byKind[rec.K]++
	if (c.CrashAt >= 0 && c.n >= c.CrashAt) || (c.Kind != "" && rec.K == c.Kind && c.byKind[rec.K] == c.Occ) {
		c.dead = true
		c.CrashAt = c.n
		lost := rec
		c.Lost = &lost
		c.mu.Unlock()
		panic(ErrCrash{Index: rec.I})
	}
	c.n++
	c.Log = append(c.Log, rec)
	c.mu.Unlock()
	return true
}

func cp(b []byte) []byte { return append([]byte(nil), b...) }

func (c *CrashDB) Set(k, v []byte) error {
	if c.gate(c.classify([]KeyOp{{Key: cp(k), Val: cp(v)}}, false)) {
		return c.DB.Set(k, v)
	}
	return nil
}
func (c *CrashDB) SetSync(k, v []byte) error {
	if c.gate(c.classify([]KeyOp{{Key: cp(k), Val: cp(v)}}, false)) {
		return c.DB.SetSync(k, v)
	}
	return nil
}
func (c *CrashDB) Delete(k []byte) error {
	if c.gate(c.classify([]KeyOp{{Del: true, Key: cp(k)}}, false)) {
		return c.DB.Delete(k)
	}
	return nil
}
func (c *CrashDB) DeleteSync(k []byte) error {
	if c.gate(c.classify([]KeyOp{{Del: true, Key: cp(k)}}, false)) {
		return c.DB.DeleteSync(k)
	}
	return nil
}

func (c *CrashDB) NewBatch() dbm.Batch { return &crashBatch{c: c} }

type crashBatch struct {
	c    *CrashDB
	ops  []KeyOp
	done bool
}

func (b *crashBatch) Set(k, v []byte) error {
	if b.done {
		return fmt.Errorf("batch has been written or closed")
	}
	b.ops = append(b.ops, KeyOp{Key: cp(k), Val: cp(v)})
	return nil
}
func (b *crashBatch) Delete(k []byte) error {
	if b.done {
		return fmt.Errorf("batch has been written or closed")
	}
	b.ops = append(b.ops, KeyOp{Del: true, Key: cp(k)})
	return nil
}
func (b *crashBatch) write(sync bool) error {
	if b.done {
		return fmt.Errorf("batch has been written or closed")
	}
	b.done = true
	if len(b.ops) == 0 {
		b.c.mu.Lock()
		if b.c.armed {
			b.c.Empty++
			if b.c.Budget > 0 && b.c.n+b.c.Empty > b.c.Budget {
				calls := b.c.n + b.c.Empty
				b.c.mu.Unlock()
				panic(ErrRunaway{Calls: calls})
			}
		}
		b.c.mu.Unlock()
		return nil
	}
	if !b.c.gate(b.c.classify(b.ops, true)) {
		return nil
	}
	ib := b.c.DB.NewBatch()
	defer ib.Close()
	for _, o := range b.ops {
		if o.Del {
			ib.Delete(o.Key)
		} else {
			ib.Set(o.Key, o.Val)
		}
	}
	if sync {
		return ib.WriteSync()
	}
	return ib.Write()
}
func (b *crashBatch) Write() error     { return b.write(false) }
func (b *crashBatch) WriteSync() error { return b.write(true) }
func (b *crashBatch) Close() error     { b.done = true; return nil }

// ------------------------------------------------------------------------------------------------
// classification by key

func shortHex(b []byte) string {
	if len(b) > 8 {
		b = b[:8]
	}
	return hex.EncodeToString(b)
}

func hasPrefix(k []byte, p string) bool { return len(k) >= len(p) && string(k[:len(p)]) == p }

// KeyKind names the class of a single key of the node's database schema
// (database/schema.go, core/state/keys.go, iavl nodedb key formats).
func KeyKind(k []byte) string {
	switch {
	case len(k) == 1 && k[0] == 1:
		return "PfxS"
	case len(k) == 1 && k[0] == 2:
		return "PfxI"
	case len(k) == 1 && k[0] == 3:
		return "PfxP"
	case len(k) >= 10 && (k[0] == 1 || k[0] == 2):
		t := "S"
		if k[0] == 2 {
			t = "I"
		}
		switch k[9] {
		case 'r':
			return t + "r"
		case 'n':
			return t + "n"
		case 'o':
			return t + "o"
		}
		return t + "?"
	case string(k) == "LastBlock":
		return "Head"
	case string(k) == "preliminary-head":
		return "PHead"
	case string(k) == "weak-cert":
		return "WeakCert"
	case string(k) == "last-snapshot":
		return "LastSnapshot"
	case string(k) == "activity":
		return "Activity"
	case hasPrefix(k, "id-diff"):
		return "Diff"
	case hasPrefix(k, "applytxlog"):
		return "ApplyTxLog"
	case hasPrefix(k, "blacktx"):
		return "BlackTx"
	case hasPrefix(k, "oti"):
		return "OwnTx"
	case hasPrefix(k, "ti") && len(k) == 34:
		return "TxIdx"
	case hasPrefix(k, "ri") && len(k) == 34:
		return "RcIdx"
	case hasPrefix(k, "bc"):
		return "Burnt"
	case string(k) == "g":
		return "IGenesis"
	case string(k) == "pg":
		return "PIGenesis"
	case string(k) == "uv":
		return "UpgVotes"
	case string(k) == "v":
		return "ConsVer"
	case string(k) == "pv":
		return "PConsVer"
	case len(k) == 10 && k[0] == 'h' && k[9] == 'n':
		return "Canon"
	case len(k) == 33 && k[0] == 'h':
		return "Header"
	case len(k) == 33 && k[0] == 'c':
		return "Cert"
	case len(k) == 33 && k[0] == 'f':
		return "FinalCons"
	case len(k) > 0 && k[0] == 'e':
		return "Event"
	}
	return "Other"
}

// rootAbove reports whether the tree the batch belongs to has a saved version above v.
func (c *CrashDB) rootAbove(ops []KeyOp, v int64) bool {
	var pfx []byte
	for _, o := range ops {
		if kk := KeyKind(o.Key); len(kk) == 2 && kk[1] == 'r' {
			pfx = o.Key[:10]
			break
		}
	}
	if pfx == nil {
		return false
	}
	start := append(append([]byte{}, pfx...), make([]byte, 8)...)
	binary.BigEndian.PutUint64(start[10:], uint64(v+1))
	end := append(append([]byte{}, pfx[:9]...), 's')
	it, err := c.DB.Iterator(start, end)
	if err != nil {
		return false
	}
	defer it.Close()
	return it.Valid()
}

// indexKinds are the per-transaction index entries block insertion writes
var indexKinds = map[string]bool{"TxIdx": true, "RcIdx": true, "OwnTx": true, "Burnt": true, "Event": true}

func (c *CrashDB) classify(ops []KeyOp, batch bool) WriteRec {
	r := WriteRec{Batch: batch, NOps: len(ops), H: -1, Pfx: -1, Set: []int64{}, Del: []int64{}, ops: ops}
	kinds := map[string]int{}
	tree := ""
	for _, o := range ops {
		kk := KeyKind(o.Key)
		kinds[kk]++
		if len(kk) == 2 && (kk[0] == 'S' || kk[0] == 'I') && len(o.Key) >= 10 {
			if tree == "" {
				tree = kk[:1]
				r.Pfx = int64(binary.LittleEndian.Uint64(o.Key[1:9]))
			}
			if kk[1] == 'r' && len(o.Key) >= 18 {
				v := int64(binary.BigEndian.Uint64(o.Key[10:18]))
				if o.Del {
					r.Del = append(r.Del, v)
				} else {
					r.Set = append(r.Set, v)
					r.Root = shortHex(o.Val)
				}
			}
		}
	}
	sort.Slice(r.Del, func(i, j int) bool { return r.Del[i] < r.Del[j] })
	if tree != "" {
		// a tree batch: commit of a version, deletion of versions, or node-only flush
		r.Tree = tree
		switch {
		case len(r.Set) > 0:
			r.K = tree + "Commit"
		case len(r.Del) > 0:
			// deleting the highest saved versions is a rollback (LoadVersionForOverwriting),
			// deleting lower ones is pruning (DeleteVersion of the versions beyond the retained ones)
			if c.rootAbove(ops, r.Del[len(r.Del)-1]) {
				r.K = tree + "Prune"
			} else {
				r.K = tree + "Rollback"
			}
		default:
			r.K = tree + "Nodes"
		}
		for kk := range kinds {
			if !(len(kk) == 2 && kk[:1] == tree) {
				r.Extra = append(r.Extra, kk)
			}
		}
		sort.Strings(r.Extra)
		return r
	}
	// non-tree write: kind of the first key; other kinds of a mixed batch are listed in Extra
	first := ops[0]
	r.K = KeyKind(first.Key)
	r.Sub = r.K
	if indexKinds[r.K] {
		r.K = "Index"
	}
	if first.Del {
		r.K = "Del" + r.K
	}
	switch KeyKind(first.Key) {
	case "Canon":
		r.H = int64(binary.BigEndian.Uint64(first.Key[1:9]))
		r.Id = shortHex(first.Val)
	case "Diff":
		r.H = int64(binary.BigEndian.Uint64(first.Key[7:15]))
	case "Header", "Cert", "FinalCons":
		r.Id = shortHex(first.Key[1:])
	case "TxIdx", "RcIdx":
		r.Id = shortHex(first.Key[2:])
	case "Head", "PHead":
		if c.HeadId != nil && !first.Del {
			r.Id, r.H = c.HeadId(first.Val)
		}
	}
	if batch {
		seen := map[string]bool{}
		for _, o := range ops[1:] {
			kk := KeyKind(o.Key)
			if o.Del {
				kk = "Del" + kk
			}
			if !seen[kk] {
				seen[kk] = true
				r.Extra = append(r.Extra, kk)
			}
		}
		sort.Strings(r.Extra)
		// a head written inside a batch (fast-sync switch): expose it
		for _, o := range ops {
			if KeyKind(o.Key) == "Head" && !o.Del && c.HeadId != nil {
				r.Id, r.H = c.HeadId(o.Val)
			}
		}
	}
	return r
}
