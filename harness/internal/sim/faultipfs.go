package sim

import (
	"errors"
	"sync/atomic"

	"github.com/idena-network/idena-go/ipfs"
	"github.com/ipfs/go-cid"
)

// FaultIpfs wraps a node's content store: while armed, Add fails (the store is a separate process in production: it can be
// down, out of space, slow).  Everything else goes through.
type FaultIpfs struct {
	ipfs.Proxy
	fail int32
}

func (f *FaultIpfs) Add(data []byte, pin bool) (cid.Cid, error) {
	if atomic.LoadInt32(&f.fail) > 0 {
		return cid.Cid{}, errors.New("injected content-store fault")
	}
	return f.Proxy.Add(data, pin)
}

// Arm makes every Add fail until Disarm.
func (f *FaultIpfs) Arm()    { atomic.StoreInt32(&f.fail, 1) }
func (f *FaultIpfs) Disarm() { atomic.StoreInt32(&f.fail, 0) }
