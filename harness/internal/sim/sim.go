// Package sim builds real idena-go nodes (Blockchain + AppState + TxPool + OfflineDetector +
// Upgrader over a tm-db database) for the conformance drivers.  Nothing of the node is
// re-implemented here: the package only constructs the real objects the way node.go and the
// repository's own test helpers do, moves blocks between nodes as encoded bytes, controls the
// virtual clock that the build overlay wires into blockchain.go, and projects the committed state
// into small JSON-able records for the traces.
package sim

import (
	"crypto/ecdsa"
	"encoding/binary"
	"fmt"
	"math/big"
	"os"
	"sort"
	"time"

	"github.com/idena-network/idena-go/blockchain"
	"github.com/idena-network/idena-go/blockchain/types"
	"github.com/idena-network/idena-go/blockchain/validation"
	"github.com/idena-network/idena-go/common"
	"github.com/idena-network/idena-go/common/eventbus"
	"github.com/idena-network/idena-go/common/verifclock"
	"github.com/idena-network/idena-go/config"
	"github.com/idena-network/idena-go/core/appstate"
	"github.com/idena-network/idena-go/core/mempool"
	"github.com/idena-network/idena-go/core/state"
	"github.com/idena-network/idena-go/core/upgrade"
	"github.com/idena-network/idena-go/crypto"
	"github.com/idena-network/idena-go/ipfs"
	"github.com/idena-network/idena-go/keystore"
	"github.com/idena-network/idena-go/log"
	"github.com/idena-network/idena-go/secstore"
	"github.com/idena-network/idena-go/stats/collector"
	"github.com/idena-network/idena-go/subscriptions"
	dbm "github.com/tendermint/tm-db"

	"verifh/internal/vclock"
)

// Alloc is one genesis allocation of a scenario.
type Alloc struct {
	Key     int // index into World.Keys
	State   state.IdentityState
	Balance *big.Int
	Stake   *big.Int
}

// World is what all nodes of a scenario share: keys, configuration, the virtual clock.
type World struct {
	Seed          int64
	Keys          []*ecdsa.PrivateKey
	Addrs         []common.Address
	God           int
	Allocs        []Alloc
	Clock         *vclock.Clock
	IpfsFaults    bool // nodes get a content store whose Add can be made to fail (FaultIpfs)
	Cons          *config.ConsensusConf
	ValCfg        *config.ValidationConfig
	FirstCeremony int64
	Mempool       *config.Mempool
	index         map[common.Address]int
}

func init() {
	if os.Getenv("VERIF_NODE_LOG") != "" {
		// diagnosis: the node's own log (warnings and errors) on stderr
		log.Root().SetHandler(log.LvlFilterHandler(log.LvlWarn, log.StreamHandler(os.Stderr, log.TerminalFormat(false))))
	} else {
		log.Root().SetHandler(log.DiscardHandler())
	}
}

// DetKey derives a deterministic secp256k1 key from (seed, i).
func DetKey(seed int64, i int) *ecdsa.PrivateKey {
	var b [16]byte
	binary.BigEndian.PutUint64(b[:8], uint64(seed))
	binary.BigEndian.PutUint64(b[8:], uint64(i))
	for ctr := 0; ; ctr++ {
		h := crypto.Keccak256(append(b[:], byte(ctr)))
		k, err := crypto.ToECDSA(h)
		if err == nil {
			return k
		}
	}
}

// NewWorld creates a world with n keys; key 0 is the god address.
func NewWorld(seed int64, n int) *World {
	w := &World{Seed: seed, God: 0}
	for i := 0; i < n; i++ {
		k := DetKey(seed, i)
		w.Keys = append(w.Keys, k)
		w.Addrs = append(w.Addrs, crypto.PubkeyToAddress(k.PublicKey))
	}
	w.Cons = blockchain.GetDefaultConsensusConfig()
	w.Cons.Automine = true
	w.ValCfg = &config.ValidationConfig{}
	w.FirstCeremony = 4070908800 // 2099, as upstream's test chains
	w.Mempool = config.GetDefaultMempoolConfig()
	w.Clock = vclock.New(time.Unix(0, 0), time.Second)
	verifclock.Set(w.Clock)
	return w
}

// Use makes this world's virtual clock the process-wide one again (a driver that alternates between several
// worlds calls it before touching a world's nodes).
func (w *World) Use() { verifclock.Set(w.Clock) }

// Name returns the short role name of an address ("k0".."kN") or its hex when unknown.
func (w *World) Name(a common.Address) string {
	if i := w.Index(a); i >= 0 {
		return fmt.Sprintf("k%d", i)
	}
	return a.Hex()
}

// Index returns the key index of an address, -1 when it is not one of the world's keys.
func (w *World) Index(a common.Address) int {
	if w.index == nil {
		w.index = map[common.Address]int{}
		for i, x := range w.Addrs {
			w.index[x] = i
		}
	}
	if i, ok := w.index[a]; ok {
		return i
	}
	return -1
}

func (w *World) config() *config.Config {
	alloc := map[common.Address]config.GenesisAllocation{}
	for _, a := range w.Allocs {
		alloc[w.Addrs[a.Key]] = config.GenesisAllocation{Balance: a.Balance, Stake: a.Stake, State: uint8(a.State)}
	}
	cons := *w.Cons
	return &config.Config{
		Network:   0x99,
		Consensus: &cons,
		GenesisConf: &config.GenesisConf{
			Alloc:             alloc,
			GodAddress:        w.Addrs[w.God],
			FirstCeremonyTime: w.FirstCeremony,
		},
		Validation:       w.ValCfg,
		Blockchain:       &config.BlockchainConfig{},
		OfflineDetection: config.GetDefaultOfflineDetectionConfig(),
		Mempool:          w.Mempool,
	}
}

// Node is one real node.
type Node struct {
	W        *World
	Key      int
	DB       dbm.DB
	Ipfs     ipfs.Proxy
	Bus      eventbus.Bus
	App      *appstate.AppState
	Pool     *mempool.TxPool
	Chain    *blockchain.Blockchain
	Sec      *secstore.SecStore
	Offline  *blockchain.OfflineDetector
	Upgrader *upgrade.Upgrader
	Cfg      *config.Config
	BootErr  error
}

// Boot constructs the node objects over db and runs the normal start-up sequence of node.go:
// InitializeChain, appState.Initialize(head) with the Initialize(0) fallback, EnsureIntegrity,
// txpool.Initialize.  ipfsStore may be shared with a previous incarnation (it is a durable store).
func (w *World) Boot(key int, db dbm.DB, ipfsStore ipfs.Proxy) *Node {
	cfg := w.config()
	validation.SetAppConfig(cfg)
	n := &Node{W: w, Key: key, DB: db, Cfg: cfg}
	n.Bus = eventbus.New()
	app, err := appstate.NewAppState(db, n.Bus)
	if err != nil {
		n.BootErr = err
		return n
	}
	n.App = app
	n.Sec = secstore.NewSecStore()
	n.Sec.AddKey(crypto.FromECDSA(w.Keys[key]))
	n.Pool = mempool.NewTxPool(app, n.Bus, cfg, collector.NewStatsCollector())
	n.Offline = blockchain.NewOfflineDetector(cfg, db, app, n.Sec, n.Bus)
	ks := keystore.NewKeyStore("./testdata", keystore.StandardScryptN, keystore.StandardScryptP)
	sub, _ := subscriptions.NewManager("./testdata2")
	n.Upgrader = upgrade.NewUpgrader(cfg, app, db)
	if ipfsStore == nil {
		ipfsStore = ipfs.NewMemoryIpfsProxy()
		if w.IpfsFaults {
			ipfsStore = &FaultIpfs{Proxy: ipfsStore}
		}
	}
	n.Ipfs = ipfsStore
	n.Chain = blockchain.NewBlockchain(cfg, db, n.Pool, app, ipfsStore, n.Sec, n.Bus, n.Offline, ks, sub, n.Upgrader)
	if err := n.Chain.InitializeChain(); err != nil {
		n.BootErr = err
		return n
	}
	if err := app.Initialize(n.Chain.Head.Height()); err != nil {
		if err := app.Initialize(0); err != nil {
			n.BootErr = err
			return n
		}
	}
	if err := n.Chain.EnsureIntegrity(); err != nil {
		n.BootErr = err
		return n
	}
	n.Pool.Initialize(n.Chain.Head, n.Sec.GetAddress(), false)
	return n
}

// NewNode boots a node over a fresh MemDB (genesis is generated from the world's allocation).
func (w *World) NewNode(key int) *Node {
	return w.Boot(key, dbm.NewMemDB(), nil)
}

// Restart throws the process state away and boots again over the same database and ipfs store.
func (n *Node) Restart() *Node {
	return n.W.Boot(n.Key, n.DB, n.Ipfs)
}

// CopyDB returns a deep copy of a MemDB-like database.
func CopyDB(src dbm.DB) dbm.DB {
	dst := dbm.NewMemDB()
	it, err := src.Iterator(nil, nil)
	if err != nil {
		panic(err)
	}
	defer it.Close()
	for ; it.Valid(); it.Next() {
		dst.Set(append([]byte(nil), it.Key()...), append([]byte(nil), it.Value()...))
	}
	return dst
}

// Clone boots a new node (possibly with another key) over a copy of this node's database.
func (n *Node) Clone(key int) *Node {
	return n.W.Boot(key, CopyDB(n.DB), nil)
}

// SetNow sets the virtual wall clock (unix seconds).
func (w *World) SetNow(unix int64) {
	cur := w.Clock.Ticks()
	w.Clock.Advance(unix - cur)
}

// Propose makes the node propose a block on its head with the wall clock at head.Time+delay.
func (n *Node) Propose(delay int64) *types.Block {
	n.W.SetNow(n.Chain.Head.Time() + delay)
	p := n.Chain.ProposeBlock([]byte{})
	return p.Block
}

// Encode/Decode move a block between nodes as bytes (defeats per-object hash caches).
func Encode(b *types.Block) []byte {
	data, err := b.ToBytes()
	if err != nil {
		panic(err)
	}
	return data
}

func Decode(data []byte) *types.Block {
	b := new(types.Block)
	if err := b.FromBytes(data); err != nil {
		panic(err)
	}
	return b
}

// Add validates and inserts a block (given as bytes) with the wall clock just after the block time.
func (n *Node) Add(data []byte) error {
	b := Decode(data)
	if now := b.Header.Time() + 1; n.W.Clock.Ticks() < now {
		n.W.SetNow(now)
	}
	return n.Chain.AddBlock(b, nil, collector.NewStatsCollector())
}

// Validate runs full validation without inserting.
func (n *Node) Validate(data []byte) error {
	b := Decode(data)
	if now := b.Header.Time() + 1; n.W.Clock.Ticks() < now {
		n.W.SetNow(now)
	}
	_, err := n.Chain.ValidateBlock(b, nil, collector.NewStatsCollector())
	return err
}

// Cert builds a real certificate for a block signed by the given keys (final step).
func (w *World) Cert(b *types.Block, signers []int) *types.BlockCert {
	var votes []*types.Vote
	for _, k := range signers {
		vote := &types.Vote{Header: &types.VoteHeader{
			Round:      b.Height(),
			Step:       types.Final,
			ParentHash: b.Header.ParentHash(),
			VotedHash:  b.Header.Hash(),
		}}
		h := crypto.SignatureHash(vote)
		sig, err := crypto.Sign(h[:], w.Keys[k])
		if err != nil {
			panic(err)
		}
		vote.Signature = sig
		votes = append(votes, vote)
	}
	full := types.FullBlockCert{Votes: votes}
	return full.Compress()
}

// Tx builds and signs a real transaction.
type TxSpec struct {
	From    int
	To      *common.Address
	Type    types.TxType
	Amount  *big.Int
	MaxFee  *big.Int
	Tips    *big.Int
	Nonce   uint32
	Epoch   uint16
	Payload []byte
}

func (w *World) Tx(s TxSpec) *types.Transaction {
	tx := &types.Transaction{AccountNonce: s.Nonce, Epoch: s.Epoch, Type: s.Type, To: s.To, Amount: s.Amount,
		MaxFee: s.MaxFee, Tips: s.Tips, Payload: s.Payload}
	signed, err := types.SignTx(tx, w.Keys[s.From])
	if err != nil {
		panic(err)
	}
	return signed
}

// Dna returns n * 10^18 / den.
func Dna(n, den int64) *big.Int {
	x := new(big.Int).Mul(big.NewInt(n), common.DnaBase)
	return x.Div(x, big.NewInt(den))
}

// Cleanup removes the litter the repository's constructors leave in the working directory.
func Cleanup() {
	for _, d := range []string{"testdata", "testdata2", "datadir", "mempool-txs"} {
		os.RemoveAll(d)
	}
}

// SortedAddrs sorts addresses bytewise.
func SortedAddrs(a []common.Address) []common.Address {
	sort.Slice(a, func(i, j int) bool { return string(a[i][:]) < string(a[j][:]) })
	return a
}
