package sim

// A recording implementation of the embedded contracts' environment interface (vm/env.Env).
//
// The five embedded contracts are written against the Env interface and have exported constructors.
// Running the REAL contract code of a transaction against this probe (reads answered from the
// committed pre-state plus the escrowed pay amount, writes only recorded) yields the list of
// effects the contract asks for - store writes, removals, transfers, burns, stake moves - without
// involving the node's own buffering / commit / rollback machinery (vm/vm.go, vm/env/env.go,
// blockchain.go), which is what the property is about.  The specification then decides whether the
// observed post-state is "pre-state + all requested effects" (success) or "pre-state" (failure).
// The probe has no gas limit: it answers "what would the contract do if it ran to completion".

import (
	"bytes"
	"fmt"
	"math/big"
	"sort"

	"github.com/idena-network/idena-go/blockchain/attachments"
	"github.com/idena-network/idena-go/blockchain/types"
	"github.com/idena-network/idena-go/common"
	"github.com/idena-network/idena-go/core/appstate"
	"github.com/idena-network/idena-go/core/state"
	"github.com/idena-network/idena-go/vm/embedded"
	"github.com/idena-network/idena-go/vm/env"
)

type shVal struct {
	v   []byte
	del bool
}

// Shadow is the probe environment for ONE transaction.
type Shadow struct {
	ro     *appstate.AppState
	hdr    *types.Header
	store  map[common.Address]map[string]*shVal
	adj    map[common.Address]*big.Int // escrow: what the envelope moved before the run (not a request)
	bal    map[common.Address]*big.Int // requested balances
	stake  map[common.Address]*big.Int
	Events int
	Burnt  *big.Int
	Moved  *big.Int // moved from balance to contract stake
	Sends  int
}

func NewShadow(ro *appstate.AppState, hdr *types.Header) *Shadow {
	return &Shadow{ro: ro, hdr: hdr, store: map[common.Address]map[string]*shVal{}, bal: map[common.Address]*big.Int{}, adj: map[common.Address]*big.Int{},
		stake: map[common.Address]*big.Int{}, Burnt: new(big.Int), Moved: new(big.Int)}
}

func (s *Shadow) getBalance(a common.Address) *big.Int {
	if b, ok := s.bal[a]; ok {
		return b
	}
	b := new(big.Int).Set(s.ro.State.GetBalance(a))
	if d, ok := s.adj[a]; ok {
		b.Add(b, d)
	}
	return b
}

// Escrow moves the pay amount the way the transaction envelope does before the run.
func (s *Shadow) Escrow(from, to common.Address, amount *big.Int) {
	s.adj[from] = new(big.Int).Neg(amount)
	s.adj[to] = new(big.Int).Set(amount)
}

func (s *Shadow) BlockNumber() uint64   { return s.hdr.Height() }
func (s *Shadow) BlockTimeStamp() int64 { return s.hdr.Time() }
func (s *Shadow) BlockSeed() []byte     { return s.hdr.Seed().Bytes() }
func (s *Shadow) MinFeePerGas() *big.Int {
	return s.ro.State.FeePerGas()
}
func (s *Shadow) Epoch() uint16    { return s.ro.State.Epoch() }
func (s *Shadow) NetworkSize() int { return s.ro.ValidatorsCache.NetworkSize() }
func (s *Shadow) State(a common.Address) state.IdentityState {
	return s.ro.State.GetIdentityState(a)
}
func (s *Shadow) PubKey(a common.Address) []byte { return s.ro.State.GetIdentity(a).PubKey }
func (s *Shadow) Delegatee(a common.Address) *common.Address {
	return s.ro.State.Delegatee(a)
}
func (s *Shadow) DiscriminationFlags(a common.Address) state.DiscriminationFlag {
	id := s.ro.State.GetIdentity(a)
	return id.DiscriminationFlags(s.ro.State.DiscriminationStakeThreshold(), s.ro.State.Epoch())
}
func (s *Shadow) Balance(a common.Address) *big.Int { return s.getBalance(a) }

func (s *Shadow) SetValue(ctx env.CallContext, key []byte, value []byte) {
	if len(key) > common.MaxContractStoreKeyLength {
		panic("key is too big")
	}
	m := s.store[ctx.ContractAddr()]
	if m == nil {
		m = map[string]*shVal{}
		s.store[ctx.ContractAddr()] = m
	}
	m[string(key)] = &shVal{v: append([]byte(nil), value...)}
}

func (s *Shadow) RemoveValue(ctx env.CallContext, key []byte) {
	m := s.store[ctx.ContractAddr()]
	if m == nil {
		m = map[string]*shVal{}
		s.store[ctx.ContractAddr()] = m
	}
	m[string(key)] = &shVal{del: true}
}

func (s *Shadow) GetValue(ctx env.CallContext, key []byte) []byte {
	return s.ReadContractData(ctx.ContractAddr(), key)
}

func (s *Shadow) ReadContractData(a common.Address, key []byte) []byte {
	if m := s.store[a]; m != nil {
		if v, ok := m[string(key)]; ok {
			if v.del {
				return nil
			}
			return v.v
		}
	}
	return s.ro.State.GetContractValue(a, key)
}

func (s *Shadow) Iterate(ctx env.CallContext, minKey []byte, maxKey []byte, f func(key []byte, value []byte) bool) {
	a := ctx.ContractAddr()
	type kv struct{ k, v []byte }
	var all []kv
	seen := map[string]bool{}
	for k, v := range s.store[a] {
		kb := []byte(k)
		if (minKey == nil || bytes.Compare(kb, minKey) >= 0) && (maxKey == nil || bytes.Compare(kb, maxKey) <= 0) {
			seen[k] = true
			if !v.del {
				all = append(all, kv{kb, v.v})
			}
		}
	}
	s.ro.State.IterateContractStore(a, minKey, maxKey, func(key []byte, value []byte) bool {
		if !seen[string(key)] {
			all = append(all, kv{append([]byte(nil), key...), append([]byte(nil), value...)})
		}
		return false
	})
	sort.Slice(all, func(i, j int) bool { return bytes.Compare(all[i].k, all[j].k) < 0 })
	for _, e := range all {
		if f(e.k, e.v) {
			return
		}
	}
}

func (s *Shadow) Send(ctx env.CallContext, dest common.Address, amount *big.Int) error {
	b := s.getBalance(ctx.ContractAddr())
	if b.Cmp(amount) < 0 {
		return fmt.Errorf("insufficient funds")
	}
	if amount.Sign() < 0 {
		return fmt.Errorf("value must be non-negative")
	}
	s.bal[ctx.ContractAddr()] = new(big.Int).Sub(b, amount)
	s.bal[dest] = new(big.Int).Add(s.getBalance(dest), amount)
	s.Sends++
	return nil
}

func (s *Shadow) BurnAll(ctx env.CallContext) {
	a := ctx.ContractAddr()
	s.Burnt.Add(s.Burnt, s.getBalance(a))
	s.bal[a] = new(big.Int)
}

func (s *Shadow) contractStake(a common.Address) *big.Int {
	if v, ok := s.stake[a]; ok {
		return v
	}
	return s.ro.State.GetContractStake(a)
}

func (s *Shadow) ContractStake(a common.Address) *big.Int { return s.contractStake(a) }

func (s *Shadow) MoveToStake(ctx env.CallContext, amount *big.Int) error {
	a := ctx.ContractAddr()
	b := s.getBalance(a)
	if b.Cmp(amount) < 0 {
		return fmt.Errorf("insufficient funds")
	}
	if amount.Sign() < 0 {
		return fmt.Errorf("value must be non-negative")
	}
	s.bal[a] = new(big.Int).Sub(b, amount)
	st := s.contractStake(a)
	if st == nil {
		st = new(big.Int)
	}
	s.stake[a] = new(big.Int).Add(st, amount)
	s.Moved.Add(s.Moved, amount)
	return nil
}

func (s *Shadow) Event(name string, args ...[]byte) { s.Events++ }

// ShadowResult is what the contract code asked for.
type ShadowResult struct {
	Ran    bool   // the probe could run the contract code (embedded contract, parsable attachment)
	Ok     bool   // the contract code returned without error
	Err    string // its error otherwise
	Writes []KV   // requested store writes of the called contract: V = "" means removal
	Keep   []string
	Moved  *big.Int
	Burnt  *big.Int
	Dest   *common.Address             // stake destination of a termination
	Req    map[common.Address]*big.Int // requested balances
	Base   map[common.Address]*big.Int // what the probe took as the balance before the run (pre-state + escrow)
}

// RunShadow executes the embedded contract code of tx against the probe.  ro must be the committed
// state the block was built on, hdr the header of the block that carries the transaction.
func RunShadow(ro *appstate.AppState, hdr *types.Header, tx *types.Transaction, upgrade10 bool) (res ShadowResult) {
	sender, _ := types.Sender(tx)
	sh := NewShadow(ro, hdr)
	var ctx env.CallContext
	var hash common.Hash
	var target common.Address
	switch tx.Type {
	case types.DeployContractTx:
		att := attachments.ParseDeployContractAttachment(tx)
		if att == nil || len(att.Code) > 0 {
			return
		}
		hash = att.CodeHash
		c := env.NewDeployContextImpl(tx, nil, hash)
		ctx = c
		target = c.ContractAddr()
	case types.CallContractTx, types.TerminateContractTx:
		if tx.To == nil {
			return
		}
		h := ro.State.GetCodeHash(*tx.To)
		if h == nil {
			return
		}
		hash = *h
		ctx = env.NewCallContextImpl(tx, nil, hash)
		target = *tx.To
		if tx.Type == types.CallContractTx && tx.AmountOrZero().Sign() > 0 {
			sh.Escrow(sender, target, tx.AmountOrZero())
		}
	default:
		return
	}
	var contract embedded.Contract
	switch hash {
	case embedded.TimeLockContract:
		contract = embedded.NewTimeLock(ctx, sh, nil)
	case embedded.OracleVotingContract:
		if upgrade10 {
			contract = embedded.NewOracleVotingContract2(ctx, sh, nil)
		} else {
			contract = embedded.NewOracleVotingContract(ctx, sh, nil)
		}
	case embedded.OracleLockContract:
		contract = embedded.NewOracleLock2(ctx, sh, nil)
	case embedded.RefundableOracleLockContract:
		if upgrade10 {
			contract = embedded.NewRefundableOracleLock2(ctx, sh, nil)
		} else {
			contract = embedded.NewRefundableOracleLock(ctx, sh, nil)
		}
	case embedded.MultisigContract:
		contract = embedded.NewMultisig(ctx, sh, nil)
	default:
		return
	}
	res.Ran = true
	var err error
	func() {
		defer func() {
			if r := recover(); r != nil {
				err = fmt.Errorf("%v", r)
			}
		}()
		switch tx.Type {
		case types.DeployContractTx:
			att := attachments.ParseDeployContractAttachment(tx)
			err = contract.Deploy(att.Args...)
		case types.CallContractTx:
			att := attachments.ParseCallContractAttachment(tx)
			if att == nil {
				err = fmt.Errorf("can't parse attachment")
				return
			}
			err = contract.Call(att.Method, att.Args...)
		case types.TerminateContractTx:
			att := attachments.ParseTerminateContractAttachment(tx)
			if att == nil {
				err = fmt.Errorf("can't parse attachment")
				return
			}
			var dest common.Address
			var keep [][]byte
			dest, keep, err = contract.Terminate(att.Args...)
			if err == nil {
				res.Dest = &dest
				for _, k := range keep {
					res.Keep = append(res.Keep, dg(k))
				}
			}
		}
	}()
	if err != nil {
		res.Err = err.Error()
		return
	}
	res.Ok = true
	for k, v := range sh.store[target] {
		e := KV{K: dg([]byte(k))}
		if !v.del {
			e.V = dg(v.v)
		}
		res.Writes = append(res.Writes, e)
	}
	sort.Slice(res.Writes, func(i, j int) bool { return res.Writes[i].K < res.Writes[j].K })
	res.Moved, res.Burnt = sh.Moved, sh.Burnt
	res.Req = sh.bal
	res.Base = map[common.Address]*big.Int{}
	for a := range sh.bal {
		b := new(big.Int).Set(ro.State.GetBalance(a))
		if d, ok := sh.adj[a]; ok {
			b.Add(b, d)
		}
		res.Base[a] = b
	}
	return
}
