package sim

// Helpers for the contract-execution check (C15): a recording stats collector (the node's own
// accounting callbacks are the probe for what a contract run buffered, burnt and deployed), dry
// runs of a contract transaction on a throw-away state (to learn how much gas an operation needs in
// the current state), contract-store projection.

import (
	"crypto/sha256"
	"encoding/hex"
	"math/big"
	"sort"

	"github.com/idena-network/idena-go/blockchain/fee"
	"github.com/idena-network/idena-go/blockchain/types"
	"github.com/idena-network/idena-go/common"
	"github.com/idena-network/idena-go/core/appstate"
	"github.com/idena-network/idena-go/stats/collector"
	"github.com/idena-network/idena-go/vm"
)

// TxCapture is what the node's accounting callbacks reported while one transaction was applied.
type TxCapture struct {
	Hash common.Hash
	// balance writes buffered by the environments, per buffer (identified by the address of the
	// environment's cache), merged into the parent / finalised exactly when the node says so
	bufs   map[interface{}]map[common.Address]*big.Int
	burns  map[interface{}]*big.Int
	Final  map[common.Address]*big.Int // balances the node said it applied to the state (root commits)
	Burnt  *big.Int                    // burns inside buffers that reached the state
	Term   *big.Int                    // stake burnt by a termination (stake - refund)
	Stake  *big.Int                    // stake announced by an embedded deployment
	Wasm   []common.Address            // wasm contracts the node said it stored
	Commit int                         // number of root commits
	Fee    *big.Int
	Rc     *types.TxReceipt
}

// Rec embeds the no-op collector and records the contract related callbacks.
type Rec struct {
	collector.StatsCollector
	Txs []*TxCapture
	cur *TxCapture
}

func NewRec() *Rec { return &Rec{StatsCollector: collector.NewStatsCollector()} }

func (r *Rec) BeginApplyingTx(tx *types.Transaction, appState *appstate.AppState) {
	r.cur = &TxCapture{Hash: tx.Hash(), bufs: map[interface{}]map[common.Address]*big.Int{}, burns: map[interface{}]*big.Int{},
		Final: map[common.Address]*big.Int{}, Burnt: new(big.Int), Term: new(big.Int), Stake: new(big.Int)}
	r.Txs = append(r.Txs, r.cur)
}

func (r *Rec) CompleteApplyingTx(appState *appstate.AppState) { r.cur = nil }

func (r *Rec) AddContractBalanceUpdate(contractAddress *common.Address, address common.Address, getCurrentBalance collector.GetBalanceFunc,
	newBalance *big.Int, appState *appstate.AppState, balancesCache *map[common.Address]*big.Int) {
	if r.cur == nil {
		return
	}
	b := r.cur.bufs[balancesCache]
	if b == nil {
		b = map[common.Address]*big.Int{}
		r.cur.bufs[balancesCache] = b
	}
	b[address] = new(big.Int).Set(newBalance)
}

func (r *Rec) ApplyContractBalanceUpdates(balancesCache, parentBalancesCache *map[common.Address]*big.Int) {
	if r.cur == nil {
		return
	}
	b := r.cur.bufs[balancesCache]
	burn := r.cur.burns[balancesCache]
	if parentBalancesCache != nil {
		p := r.cur.bufs[parentBalancesCache]
		if p == nil {
			p = map[common.Address]*big.Int{}
			r.cur.bufs[parentBalancesCache] = p
		}
		for a, v := range b {
			p[a] = v
		}
		if burn != nil {
			if r.cur.burns[parentBalancesCache] == nil {
				r.cur.burns[parentBalancesCache] = new(big.Int)
			}
			r.cur.burns[parentBalancesCache].Add(r.cur.burns[parentBalancesCache], burn)
		}
		delete(r.cur.bufs, balancesCache)
		delete(r.cur.burns, balancesCache)
		return
	}
	r.cur.Commit++
	for a, v := range b {
		r.cur.Final[a] = v
	}
	if burn != nil {
		r.cur.Burnt.Add(r.cur.Burnt, burn)
		delete(r.cur.burns, balancesCache)
	}
}

func (r *Rec) AddContractBurntCoins(address common.Address, getAmount collector.GetBalanceFunc, balancesCache *map[common.Address]*big.Int) {
	if r.cur == nil {
		return
	}
	amt := getAmount(address)
	if amt == nil {
		return
	}
	if r.cur.burns[balancesCache] == nil {
		r.cur.burns[balancesCache] = new(big.Int)
	}
	r.cur.burns[balancesCache].Add(r.cur.burns[balancesCache], amt)
}

func (r *Rec) AddContractTerminationBurntCoins(address common.Address, stake, refund *big.Int) {
	if r.cur == nil {
		return
	}
	r.cur.Term.Add(r.cur.Term, new(big.Int).Sub(stake, refund))
}

func (r *Rec) AddContractStake(amount *big.Int) {
	if r.cur == nil || amount == nil {
		return
	}
	r.cur.Stake.Add(r.cur.Stake, amount)
}

func (r *Rec) AddWasmContract(address common.Address, code []byte) {
	if r.cur == nil {
		return
	}
	r.cur.Wasm = append(r.cur.Wasm, address)
}

func (r *Rec) AddTxFee(feeAmount *big.Int) {
	if r.cur == nil {
		return
	}
	r.cur.Fee = new(big.Int).Set(feeAmount)
}

func (r *Rec) AddTxReceipt(txReceipt *types.TxReceipt, appState *appstate.AppState) {
	if r.cur == nil {
		return
	}
	r.cur.Rc = txReceipt
}

// AddWith validates and inserts a block (given as bytes) with the given stats collector.
func (n *Node) AddWith(data []byte, c collector.StatsCollector) error {
	b := Decode(data)
	if now := b.Header.Time() + 1; n.W.Clock.Ticks() < now {
		n.W.SetNow(now)
	}
	return n.Chain.AddBlock(b, nil, c)
}

// DryRun executes a contract transaction the way the proposer's pre-check does (escrow, run without
// commit) on a throw-away copy of the head state and returns the receipt; gasLimit < 0 = unlimited
// for embedded contracts.  Used only to learn the gas an operation needs; never a verdict.
func (n *Node) DryRun(tx *types.Transaction, gasLimit int64) (rc *types.TxReceipt) {
	st, err := n.App.ForCheck(n.Chain.Head.Height())
	if err != nil {
		return nil
	}
	defer func() {
		if r := recover(); r != nil {
			rc = nil
		}
	}()
	hdr := &types.Header{ProposedHeader: &types.ProposedHeader{Height: n.Chain.Head.Height() + 1, Time: n.Chain.Head.Time() + 20,
		ParentHash: n.Chain.Head.Hash()}}
	v := vm.NewVmImpl(st, n.Chain, hdr, nil, n.Cfg)
	sender, _ := types.Sender(tx)
	amount := tx.AmountOrZero()
	if amount.Sign() > 0 && (tx.Type == types.CallContractTx || v.IsWasm(tx)) {
		st.State.SubBalance(sender, amount)
		st.State.AddBalance(v.ContractAddr(tx, &sender), amount)
	}
	return v.Run(tx, nil, gasLimit, false)
}

// SizeFee is the repository's own size fee of a transaction in the node's current head state.
func (n *Node) SizeFee(tx *types.Transaction) *big.Int {
	return fee.CalculateFee(n.App.ValidatorsCache.NetworkSize(), n.App.State.FeePerGas(), tx)
}

// KV is one entry of a contract store, as short digests (keys and values can be long).
type KV struct {
	K string `json:"k"`
	V string `json:"v"`
}

func dg(b []byte) string {
	if len(b) <= 6 {
		return "x" + hex.EncodeToString(b)
	}
	h := sha256.Sum256(b)
	return "h" + hex.EncodeToString(h[:5])
}

// StoreOf lists the committed store of a contract address (sorted by key digest).
func StoreOf(ro *appstate.AppState, addr common.Address) []KV {
	res := []KV{}
	ro.State.IterateContractStore(addr, nil, nil, func(key []byte, value []byte) bool {
		res = append(res, KV{K: dg(key), V: dg(value)})
		return false
	})
	sort.Slice(res, func(i, j int) bool { return res[i].K < res[j].K })
	return res
}

// Digest of a store listing.
func StoreDigest(kv []KV) string {
	h := sha256.New()
	for _, e := range kv {
		h.Write([]byte(e.K))
		h.Write([]byte{0})
		h.Write([]byte(e.V))
		h.Write([]byte{1})
	}
	return hex.EncodeToString(h.Sum(nil))[:12]
}

// Requested returns the balance writes of the root buffer: what the node said it applied to the
// state (root commits), or - when it never said so - the content of the only buffer that is left.
func (c *TxCapture) Requested() map[common.Address]*big.Int {
	if c.Commit > 0 {
		return c.Final
	}
	if len(c.bufs) == 1 {
		for _, b := range c.bufs {
			return b
		}
	}
	return map[common.Address]*big.Int{}
}
