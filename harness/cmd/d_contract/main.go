// d_contract: conformance driver for C15 (contract execution is atomic, pays for itself and cannot
// overspend).
//
// Input: scenarios exported by TLC from spec/ContractOps.tla (a contract kind, a world preset and a
// path of abstract operations).  The driver concretises every abstract operation into real signed
// transactions (deploy / call / terminate with real attachments, pay amounts and max fees), has the
// real node propose and insert a block that carries exactly that contract transaction (or two, for
// "pair" operations), and records what really happened: the ledger projection read back from the
// committed state before and after the block, the receipt the node stored, the effects the node's own
// accounting callbacks reported during the real run, and - for embedded contracts - the effects the
// contract code asks for when run against a recording environment.  Nothing is judged here: the
// ndjson trace is validated by TLC against spec/Trace_ContractTx.tla.
//
// Scenarios sharing a prefix share its execution (the node is cloned at branching points).
package main

import (
	"encoding/json"
	"flag"
	"fmt"
	"math/big"
	"math/rand"
	"os"
	"sort"
	"strings"
	"syscall"

	"github.com/idena-network/idena-go/blockchain/attachments"
	"github.com/idena-network/idena-go/blockchain/types"
	"github.com/idena-network/idena-go/blockchain/validation"
	"github.com/idena-network/idena-go/common"
	"github.com/idena-network/idena-go/core/state"
	"github.com/idena-network/idena-go/crypto"
	"github.com/idena-network/idena-go/vm"
	"github.com/idena-network/idena-go/vm/embedded"
	"github.com/idena-network/idena-go/vm/wasm"
	"github.com/idena-network/idena-go/vm/wasm/testdata"

	dbm "github.com/tendermint/tm-db"

	"verifh/internal/sim"
	"verifh/internal/tr"
	"verifh/internal/wasmgen"
)

// ---------------------------------------------------------------------------------------------
// scenario input

type Op struct {
	M    string `json:"m"`
	Arg  string `json:"arg"`
	Amt  string `json:"amt"`
	Gas  string `json:"gas"`
	Who  string `json:"who"`
	Pair string `json:"pair"` // "no" | "same" | "term"
	Good bool   `json:"good"`
}

type Case struct {
	C    string `json:"c"`
	W    string `json:"w"`
	Path []Op   `json:"path"`
}

// ---------------------------------------------------------------------------------------------
// world

const (
	kProposer = 0
	kVoter    = 1
	kVoter2   = 2
	kOwner    = 5
	kOther    = 6
	kR1       = 7 // recipient without funds
	kR2       = 8
	kFunder   = 9
	kSetup    = 10 // deploys preset contracts
	kNobody   = 11 // an address without key use (stands for "not a contract")
	kRx       = 12 // a funded recipient that sends transactions of its own (sandwich blocks)
	nKeys     = 13
)

var codes = map[string][]byte{}

func loadCodes() {
	get := func(name string, f func() ([]byte, error)) {
		b, err := f()
		if err != nil {
			panic(err)
		}
		codes[name] = b
	}
	get("inc", testdata.IncFunc)
	get("sum", testdata.SumFunc)
	get("erc20", testdata.Erc20)
	get("testcases", testdata.TestCases)
	get("sft", testdata.SharedFungibleToken)
	codes["payer"] = payerCode()
}

var embeddedHash = map[string]common.Hash{
	"timelock": embedded.TimeLockContract, "voting": embedded.OracleVotingContract, "oraclelock": embedded.OracleLockContract,
	"refundlock": embedded.RefundableOracleLockContract, "multisig": embedded.MultisigContract,
}

// payerCode assembles a minimal wasm contract that moves DNA (none of the bundled contracts does):
//
//	deploy()                      no-op
//	pay(addr, amount)             create_transfer_promise(addr, amount)
//	burn(amount)                  burn(amount)
//	payfail(addr, amount)         create_transfer_promise(addr, amount); trap
//	paytwice(addr, amount)        two transfer promises of the same amount
//	store(key, value)             set_storage(key, value)
//	storefail(key, value)         set_storage(key, value); trap
//	ping()                        no-op            } targets of cross-contract calls
//	boom()                        trap             }
//	relay(addr, amount)           create_call_function_promise(addr, "ping", <no args>, amount, gas)
//	relayboom(addr, amount)       create_call_function_promise(addr, "boom", <no args>, amount, gas)
//	hop_()                        create_call_function_promise(caller(), "ping", <no args>, 0, gas)
//	spawn(nonce, amount)          create_deploy_contract_promise(own_code(), <no args>, nonce, amount, gas)   (sub-deployment)
//	spawnlow(nonce, amount)       the same with less gas than a deployment costs (the sub-deployment fails)
//	payspawn(nonce, amount)       create_transfer_promise(contract_addr(own_code(), <no args>, nonce), amount); then spawn
//	relayhop(addr, amount)        create_call_function_promise(addr, "hop_", <no args>, amount, gas)   (nesting depth 2)
func payerCode() []byte {
	const (
		tAlloc = 0 // (i32) -> i32
		tVoid  = 1 // () -> ()
		t2     = 2 // (i32, i32) -> ()
		t1     = 3 // (i32) -> ()
		t5     = 4 // (i32 x 5) -> i32
	)
	const (
		fTransfer = 0 // imports
		fBurn     = 1
		fSet      = 2
		fCall     = 3
		fCaller   = 4
		fOwnCode  = 5
		fDeploy   = 6
		fAddr     = 7
	)
	// constant regions {offset, capacity, length} (little endian) and their bytes
	le := func(v uint32) []byte { return []byte{byte(v), byte(v >> 8), byte(v >> 16), byte(v >> 24)} }
	const base = 1024
	const (
		rPing   = base      // "ping"
		rBoom   = base + 12 // "boom"
		rNoArgs = base + 24 // argument vector without arguments (protobuf format marker only)
		rHop    = base + 36 // "hop_"
		rZero   = base + 48 // empty amount
	)
	data := wasmgen.Cat(
		le(base+60), le(4), le(4),
		le(base+64), le(4), le(4),
		le(base+68), le(1), le(1),
		le(base+69), le(4), le(4),
		le(base+73), le(0), le(0),
		[]byte("ping"), []byte("boom"), []byte{0x01}, []byte("hop_"),
	)
	trap := []byte{0x00}
	call := func(method int32, gas int32) []byte {
		return wasmgen.Cat(wasmgen.LocalGet(0), wasmgen.I32Const(method), wasmgen.I32Const(rNoArgs), wasmgen.LocalGet(1),
			wasmgen.I32Const(gas), wasmgen.Call(fCall), wasmgen.Drop)
	}
	// spawn(nonce, amount): create_deploy_contract_promise(own_code(), <no args>, nonce, amount, gas)
	spawn := func(gas int32) []byte {
		return wasmgen.Cat(wasmgen.Call(fOwnCode), wasmgen.I32Const(rNoArgs), wasmgen.LocalGet(0), wasmgen.LocalGet(1),
			wasmgen.I32Const(gas), wasmgen.Call(fDeploy), wasmgen.Drop)
	}
	i32 := byte(wasmgen.I32)
	m := &wasmgen.Module{
		Types: []wasmgen.FuncType{{Params: []byte{i32}, Results: []byte{i32}}, {},
			{Params: []byte{i32, i32}}, {Params: []byte{i32}}, {Params: []byte{i32, i32, i32, i32, i32}, Results: []byte{i32}},
			{Results: []byte{i32}}, {Params: []byte{i32, i32, i32}, Results: []byte{i32}}},
		Imports: []wasmgen.Import{{Module: "env", Name: "create_transfer_promise", Type: t2}, {Module: "env", Name: "burn", Type: t1},
			{Module: "env", Name: "set_storage", Type: t2}, {Module: "env", Name: "create_call_function_promise", Type: t5},
			{Module: "env", Name: "caller", Type: 5}, {Module: "env", Name: "own_code", Type: 5},
			{Module: "env", Name: "create_deploy_contract_promise", Type: t5}, {Module: "env", Name: "contract_addr", Type: 6}},
		Funcs: []wasmgen.Func{
			{Type: tAlloc, Locals: 1, Body: wasmgen.Allocate(), Export: "allocate"},
			{Type: tVoid, Export: "deploy"},
			{Type: t2, Export: "pay", Body: wasmgen.Cat(wasmgen.LocalGet(0), wasmgen.LocalGet(1), wasmgen.Call(fTransfer))},
			{Type: t1, Export: "burn", Body: wasmgen.Cat(wasmgen.LocalGet(0), wasmgen.Call(fBurn))},
			{Type: t2, Export: "payfail", Body: wasmgen.Cat(wasmgen.LocalGet(0), wasmgen.LocalGet(1), wasmgen.Call(fTransfer), trap)},
			{Type: t2, Export: "paytwice", Body: wasmgen.Cat(wasmgen.LocalGet(0), wasmgen.LocalGet(1), wasmgen.Call(fTransfer),
				wasmgen.LocalGet(0), wasmgen.LocalGet(1), wasmgen.Call(fTransfer))},
			{Type: t2, Export: "storefail", Body: wasmgen.Cat(wasmgen.LocalGet(0), wasmgen.LocalGet(1), wasmgen.Call(fSet), trap)},
			{Type: t2, Export: "store", Body: wasmgen.Cat(wasmgen.LocalGet(0), wasmgen.LocalGet(1), wasmgen.Call(fSet))},
			{Type: tVoid, Export: "ping"},
			{Type: tVoid, Export: "boom", Body: trap},
			{Type: t2, Export: "relay", Body: call(rPing, 300000)},
			{Type: t2, Export: "relayboom", Body: call(rBoom, 300000)},
			// hop_(): calls ping() of its caller (depth 2, back into the first contract)
			{Type: tVoid, Export: "hop_", Body: wasmgen.Cat(wasmgen.Call(fCaller), wasmgen.I32Const(rPing), wasmgen.I32Const(rNoArgs),
				wasmgen.I32Const(rZero), wasmgen.I32Const(300000), wasmgen.Call(fCall), wasmgen.Drop)},
			{Type: t2, Export: "relayhop", Body: call(rHop, 1200000)},
			// sub-deployments: the contract deploys its own code (a further instance) through a deploy promise
			{Type: t2, Export: "spawn", Body: spawn(4500000)},
			{Type: t2, Export: "spawnlow", Body: spawn(1000000)}, // less gas than a deployment costs: the sub-deployment fails
			// pays the address it is about to create, then creates it - within ONE transaction
			{Type: t2, Export: "payspawn", Locals: 1, Body: wasmgen.Cat(
				wasmgen.Call(fOwnCode), wasmgen.LocalSet(2),
				wasmgen.LocalGet(2), wasmgen.I32Const(rNoArgs), wasmgen.LocalGet(0), wasmgen.Call(fAddr), wasmgen.LocalGet(1), wasmgen.Call(fTransfer),
				wasmgen.LocalGet(2), wasmgen.I32Const(rNoArgs), wasmgen.LocalGet(0), wasmgen.LocalGet(1), wasmgen.I32Const(4500000),
				wasmgen.Call(fDeploy), wasmgen.Drop)},
		},
		Data: data, DataAt: base, Bump: 8192,
	}
	return m.Bytes()
}

func newWorld(seed int64) *sim.World {
	w := sim.NewWorld(seed, nKeys)
	big1 := sim.Dna(10000000, 1)
	w.Allocs = []sim.Alloc{
		{Key: kProposer, State: state.Verified, Balance: sim.Dna(1000, 1), Stake: sim.Dna(5000, 1)},
		{Key: kVoter, State: state.Verified, Balance: big1, Stake: sim.Dna(3000, 1)},
		{Key: kVoter2, State: state.Human, Balance: big1, Stake: sim.Dna(3000, 1)},
		{Key: 3, State: state.Verified, Balance: sim.Dna(10, 1), Stake: sim.Dna(100, 1)},
		{Key: 4, State: state.Newbie, Balance: sim.Dna(10, 1), Stake: sim.Dna(100, 1)},
		{Key: kOwner, Balance: big1},
		{Key: kOther, Balance: big1},
		{Key: kR2, Balance: sim.Dna(3, 1)},
		{Key: kFunder, Balance: big1},
		{Key: kSetup, Balance: big1},
		{Key: kRx, Balance: sim.Dna(500, 1)},
	}
	return w
}

// Inst is the driver's knowledge about the contract instance of a scenario (cloned with the node).
type Inst struct {
	Kind     string
	Addr     *common.Address // address of the instance once a deployment succeeded
	Deployer int
	OV       common.Address // oracle voting address used in lock deployments
	Inc      common.Address // inc_func address (preset "incd") / peer payer instance (preset "payerd")
	AuxEmb   common.Address // an embedded contract every world has (refundable lock: anybody may deposit)
	AuxWasm  common.Address // a wasm contract every world has (payer)
	Salt     []byte
	Seq      uint32           // number of the current operation (nonce of sub-deployments)
	Known    []common.Address // every contract address this scenario touched (for store projection)
}

func (i Inst) clone() Inst {
	c := i
	if i.Addr != nil {
		a := *i.Addr
		c.Addr = &a
	}
	c.Known = append([]common.Address(nil), i.Known...)
	return c
}

func (i *Inst) know(a common.Address) {
	for _, x := range i.Known {
		if x == a {
			return
		}
	}
	i.Known = append(i.Known, a)
}

// State = one node + instance knowledge; Exec = the shared machinery.
type State struct {
	N    *sim.Node
	Dest *int // overrides the recipient of the next operation's arguments (sandwich blocks)
	Rcpt []byte // argument classes "toself" / "tosender": the recipient is the contract itself / the transaction's sender
	I    Inst
	Last []acctJ // projection after the last emitted line (nil: a Reset is needed)
}

type Exec struct {
	W     *sim.World
	Out   *tr.W
	Rnd   *rand.Rand
	Stats map[string]int
	Cur   *State // the state whose ledger the trace currently carries (last emitted line)
}

func boot(w *sim.World) *sim.Node {
	n := w.NewNode(kProposer)
	if n.BootErr != nil {
		panic(n.BootErr)
	}
	n.Cfg.IsDebug = true // the bundled wasm contracts import env.debug
	return n
}

// relDB lets the driver drop the content of a node's database when the node is no longer needed:
// the node objects themselves stay reachable from goroutines the node starts and never stops.
type relDB struct{ dbm.DB }

func cloneNode(n *sim.Node) *sim.Node {
	c := n.W.Boot(kProposer, &relDB{sim.CopyDB(n.DB)}, nil)
	if c.BootErr != nil {
		panic(c.BootErr)
	}
	c.Cfg.IsDebug = true
	return c
}

func release(s *State) {
	if s == nil || s.N == nil {
		return
	}
	if r, ok := s.N.DB.(*relDB); ok {
		r.DB = nil
	}
	s.N = nil
}

func (x *Exec) emptyBlocks(n *sim.Node, k int) {
	for i := 0; i < k; i++ {
		blk := n.Propose(20)
		if err := n.Add(sim.Encode(blk)); err != nil {
			panic(fmt.Sprintf("empty block rejected: %v", err))
		}
	}
}

// ---------------------------------------------------------------------------------------------
// projection

type acctJ struct {
	A      string      `json:"a"`
	Bal    []int       `json:"bal"`
	Stake  []int       `json:"stake"`
	CStake []int       `json:"cstake"`
	Nonce  uint32      `json:"nonce"`
	Code   bool        `json:"code"`
	Store  [][2]string `json:"store"`
}

func (x *Exec) snapshot(s *State) []acctJ {
	h := s.N.Chain.Head.Height()
	l, err := s.N.Project(h)
	if err != nil {
		panic(err)
	}
	ro, err := s.N.App.Readonly(h)
	if err != nil {
		panic(err)
	}
	res := []acctJ{}
	seen := map[string]bool{}
	addrOf := map[string]common.Address{}
	for i, a := range x.W.Addrs {
		addrOf[fmt.Sprintf("k%d", i)] = a
	}
	for _, a := range s.I.Known {
		addrOf[x.W.Name(a)] = a
	}
	for _, a := range l.Accts {
		j := acctJ{A: a.A, Bal: a.Bal, Stake: a.Stake, CStake: a.CStake, Nonce: a.Nonce, Code: a.Contract, Store: [][2]string{}}
		if addr, ok := addrOf[a.A]; ok {
			for _, kv := range sim.StoreOf(ro, addr) {
				j.Store = append(j.Store, [2]string{kv.K, kv.V})
			}
		} else if a.Contract {
			var addr common.Address
			addr.SetBytes(common.FromHex(a.A))
			for _, kv := range sim.StoreOf(ro, addr) {
				j.Store = append(j.Store, [2]string{kv.K, kv.V})
			}
		}
		seen[a.A] = true
		res = append(res, j)
	}
	// addresses without an account may still own store entries (kept keys of a terminated contract)
	for _, a := range s.I.Known {
		name := x.W.Name(a)
		if seen[name] {
			continue
		}
		kv := sim.StoreOf(ro, a)
		if len(kv) == 0 {
			continue
		}
		j := acctJ{A: name, Bal: []int{}, Stake: []int{}, CStake: []int{}, Store: [][2]string{}}
		for _, e := range kv {
			j.Store = append(j.Store, [2]string{e.K, e.V})
		}
		res = append(res, j)
	}
	sort.Slice(res, func(i, j int) bool { return res[i].A < res[j].A })
	return res
}

// ---------------------------------------------------------------------------------------------
// concretisation

func u64(v uint64) []byte { return common.ToBytes(v) }
func u32(v uint32) []byte { return common.ToBytes(v) }

var overAmount = new(big.Int).Mul(big.NewInt(1000000000), common.DnaBase) // more than anybody holds

func (x *Exec) garbage() [][]byte {
	a := make([]byte, 3)
	b := make([]byte, 41)
	x.Rnd.Read(a)
	x.Rnd.Read(b)
	return [][]byte{a, b}
}

func voteHash(vote byte, salt []byte) []byte {
	h := crypto.Hash(append(common.ToBytes(vote), salt...))
	return h[:]
}

// validArgs returns the well-formed argument vector of (kind, method) for variant v (1 = "valid",
// 2 = "valid2", 3 = "over").
func (x *Exec) validArgs(s *State, kind, m string, v int) [][]byte {
	w := x.W
	bal := new(big.Int)
	if s.I.Addr != nil {
		bal = s.N.App.State.GetBalance(*s.I.Addr)
	}
	part := new(big.Int).Div(bal, big.NewInt(3))
	pick := func(a, b, c []byte) []byte {
		switch v {
		case 2:
			return b
		case 3:
			return c
		}
		return a
	}
	five := sim.Dna(5, 1).Bytes()
	// the recipient of DNA moved by the operation (sandwich blocks choose it)
	rcpt := func(def int) []byte {
		if s.Rcpt != nil {
			return s.Rcpt
		}
		if s.Dest != nil {
			return w.Addrs[*s.Dest].Bytes()
		}
		return w.Addrs[def].Bytes()
	}
	switch kind + "." + m {
	case "timelock.deploy":
		return [][]byte{pick(u64(0), u64(4000000000), u64(0))}
	case "timelock.transfer":
		return [][]byte{rcpt(kR1), pick(part.Bytes(), bal.Bytes(), new(big.Int).Add(bal, common.DnaBase).Bytes())}
	case "timelock.terminate", "multisig.terminate", "refundlock.terminate":
		return [][]byte{pick(rcpt(kR2), w.Addrs[s.I.Deployer].Bytes(), w.Addrs[kR1].Bytes())}
	case "multisig.deploy":
		return [][]byte{pick([]byte{2}, []byte{2}, []byte{33}), pick([]byte{1}, []byte{2}, []byte{1})}
	case "multisig.add":
		return [][]byte{pick(w.Addrs[kVoter].Bytes(), w.Addrs[kVoter2].Bytes(), w.Addrs[kVoter].Bytes())}
	case "multisig.send", "multisig.push":
		return [][]byte{pick(rcpt(kR1), w.Addrs[kR2].Bytes(), w.Addrs[kR1].Bytes()), pick(five, five, overAmount.Bytes())}
	case "oraclelock.deploy":
		return [][]byte{s.I.OV.Bytes(), pick([]byte{1}, []byte{2}, []byte{1}), w.Addrs[kR1].Bytes(), w.Addrs[kR2].Bytes()}
	case "refundlock.deploy":
		if v == 2 {
			return [][]byte{s.I.OV.Bytes(), {1}, nil, nil, u64(2), u64(4000000000), u64(1000)}
		}
		return [][]byte{s.I.OV.Bytes(), {1}, w.Addrs[kR1].Bytes(), w.Addrs[kR2].Bytes(), u64(2), pick(u64(4000000000), nil, u64(0)), pick(u64(1000), nil, u64(100000))}
	case "voting.deploy":
		if v == 2 {
			return [][]byte{[]byte("fact2"), u64(0)}
		}
		return [][]byte{[]byte("fact"), pick(u64(0), nil, u64(4000000000)), u64(3), u64(100), {51}, {20}, u64(5), sim.Dna(10, 1).Bytes(), {10}}
	case "voting.sendVoteProof":
		return [][]byte{pick(voteHash(1, s.I.Salt), voteHash(2, s.I.Salt), voteHash(1, s.I.Salt))}
	case "voting.sendVote":
		return [][]byte{pick([]byte{1}, []byte{2}, []byte{1}), s.I.Salt}
	case "inc.inc":
		return [][]byte{u64(3)}
	case "sum.deploy":
		return [][]byte{pick(s.I.Inc.Bytes(), w.Addrs[kNobody].Bytes(), s.I.Inc.Bytes())}
	case "sum.invoke":
		return [][]byte{u64(1), u64(5)}
	case "sum._sum":
		return [][]byte{u64(5)}
	case "erc20.transfer":
		return [][]byte{rcpt(kR1), pick(big.NewInt(777).Bytes(), big.NewInt(1).Bytes(), overAmount.Bytes())}
	case "erc20.approve":
		return [][]byte{w.Addrs[kOther].Bytes(), pick(big.NewInt(500).Bytes(), big.NewInt(1).Bytes(), overAmount.Bytes())}
	case "erc20.transferFrom":
		return [][]byte{w.Addrs[s.I.Deployer].Bytes(), w.Addrs[kR1].Bytes(), pick(big.NewInt(100).Bytes(), big.NewInt(1).Bytes(), overAmount.Bytes())}
	case "sft.deploy":
		// (owner, root): a wallet owned by its deployer; variant 2: root = the deployer as well
		return [][]byte{w.Addrs[x.sender(s, Op{Who: "owner"})].Bytes(), pick(w.Addrs[kSetup].Bytes(), w.Addrs[x.sender(s, Op{Who: "owner"})].Bytes(), w.Addrs[kSetup].Bytes())}
	case "sft.transferTo":
		return [][]byte{rcpt(kR1), pick(big.NewInt(100).Bytes(), big.NewInt(1).Bytes(), overAmount.Bytes())}
	case "payer.relay", "payer.relayboom", "payer.relayhop":
		return [][]byte{pick(s.I.Inc.Bytes(), s.I.Inc.Bytes(), s.I.Inc.Bytes()), pick(part.Bytes(), []byte{}, new(big.Int).Add(bal, common.DnaBase).Bytes())}
	case "payer.spawn", "payer.spawnlow", "payer.payspawn":
		// (nonce of the sub-deployment, pay amount); variant 2 re-uses one nonce: the second time the address exists
		return [][]byte{pick(append(u32(s.I.Seq), 0x5e), []byte("same nonce"), append(u32(s.I.Seq), 0x5e)),
			pick(part.Bytes(), []byte{}, new(big.Int).Add(bal, common.DnaBase).Bytes())}
	case "payer.pay", "payer.payfail", "payer.paytwice":
		two := new(big.Int).Div(new(big.Int).Mul(bal, big.NewInt(2)), big.NewInt(3))
		return [][]byte{rcpt(kR1), pick(part.Bytes(), two.Bytes(), new(big.Int).Add(bal, common.DnaBase).Bytes())}
	case "payer.burn":
		return [][]byte{pick(part.Bytes(), bal.Bytes(), new(big.Int).Add(bal, common.DnaBase).Bytes())}
	case "payer.store", "payer.storefail":
		return [][]byte{[]byte("key"), pick([]byte("v1"), []byte("v2"), make([]byte, 3000))}
	case "testcases.test":
		return [][]byte{pick(u32(1), u32(1), u32(7)), pick(codes["sum"], codes["inc"], codes["inc"])}
	}
	return nil
}

func (x *Exec) args(s *State, kind string, op Op) [][]byte {
	switch op.Arg {
	case "valid":
		return x.validArgs(s, kind, op.M, 1)
	case "valid2":
		return x.validArgs(s, kind, op.M, 2)
	case "over":
		return x.validArgs(s, kind, op.M, 3)
	case "toself", "tosender":
		// well-formed, but the coins go to the contract's own address / back to the sender of the transaction
		if op.Arg == "toself" && s.I.Addr != nil {
			s.Rcpt = s.I.Addr.Bytes()
		} else {
			s.Rcpt = x.W.Addrs[x.sender(s, op)].Bytes()
		}
		defer func() { s.Rcpt = nil }()
		return x.validArgs(s, kind, op.M, 1)
	case "missing":
		return nil
	case "garbage":
		return x.garbage()
	case "short":
		a := x.validArgs(s, kind, op.M, 1)
		if len(a) == 0 {
			return [][]byte{{}}
		}
		res := append([][]byte(nil), a...)
		if len(res) > 1 && x.Rnd.Intn(2) == 0 {
			return res[:len(res)-1] // one argument less
		}
		i := x.Rnd.Intn(len(res))
		if len(res[i]) > 1 {
			res[i] = res[i][:len(res[i])-1-x.Rnd.Intn(len(res[i])-1)]
		} else {
			res[i] = []byte{}
		}
		return res
	}
	return nil
}

func (x *Exec) minStake(n *sim.Node) *big.Int {
	return new(big.Int).Mul(n.App.State.FeePerGas(), big.NewInt(3000000))
}

func (x *Exec) amount(s *State, kind string, op Op) *big.Int {
	switch op.Amt {
	case "zero":
		return nil
	case "low":
		if op.M == "deploy" && embeddedHash[kind] != (common.Hash{}) {
			return new(big.Int).Sub(x.minStake(s.N), big.NewInt(1)) // one wei below the minimal stake
		}
		return big.NewInt(1000)
	case "some":
		switch {
		case op.M == "deploy" && embeddedHash[kind] != (common.Hash{}):
			return x.minStake(s.N)
		case op.M == "deposit":
			return sim.Dna(30, 1)
		case op.M == "sendVoteProof":
			return sim.Dna(12, 1)
		}
		return sim.Dna(7, 1)
	case "big":
		if op.M == "deploy" && embeddedHash[kind] != (common.Hash{}) {
			return new(big.Int).Mul(x.minStake(s.N), big.NewInt(2))
		}
		return sim.Dna(1500, 1)
	}
	return nil
}

func (x *Exec) sender(s *State, op Op) int {
	switch op.Who {
	case "owner":
		if s.I.Addr != nil {
			return s.I.Deployer
		}
		return kOwner
	case "other":
		if s.I.Addr != nil && s.I.Deployer == kOther {
			return kOwner
		}
		return kOther
	case "voter":
		return kVoter
	}
	return kOwner
}

// buildTx creates the (unsigned-fee) transaction of an operation; maxFee is set by priceTx.
func (x *Exec) buildTx(s *State, kind string, op Op, from int, nonce uint32) *sim.TxSpec {
	spec := &sim.TxSpec{From: from, Nonce: nonce, Amount: x.amount(s, kind, op)}
	args := x.args(s, kind, op)
	switch op.M {
	case "deploy":
		spec.Type = types.DeployContractTx
		var att *attachments.DeployContractAttachment
		if h, ok := embeddedHash[kind]; ok {
			att = attachments.CreateDeployContractAttachment(h, nil, nil, args...)
		} else {
			// (the address of a wasm contract depends on code, arguments and this nonce only - not on the sender)
			att = attachments.CreateDeployContractAttachment(common.Hash{}, codes[kind], append(u32(nonce), byte(from)), args...)
		}
		spec.Payload, _ = att.ToBytes()
	case "terminate":
		spec.Type = types.TerminateContractTx
		spec.To = x.target(s)
		spec.Payload, _ = attachments.CreateTerminateContractAttachment(args...).ToBytes()
	default:
		spec.Type = types.CallContractTx
		spec.To = x.target(s)
		m := op.M
		if m == "unknown" {
			m = "noSuchMethod"
		}
		spec.Payload, _ = attachments.CreateCallContractAttachment(m, args...).ToBytes()
	}
	return spec
}

// target: the instance address, or - before any successful deployment - an address without code
// (the node's validation refuses such a call: nothing reaches a block).
func (x *Exec) target(s *State) *common.Address {
	if s.I.Addr != nil {
		a := *s.I.Addr
		return &a
	}
	a := x.W.Addrs[kNobody]
	return &a
}

// priceTx signs the transaction with maxFee = size fee + g * feePerGas (fixpoint on the size).
func (x *Exec) priceTx(n *sim.Node, spec *sim.TxSpec, g uint64) *types.Transaction {
	return x.priceTxRem(n, spec, g, "")
}

// priceTxRem: the maximum fee is NOT a whole number of gas units - on top of g units it carries a remainder of exactly
// half a unit ("smallhalf": the tie of any rounding) or of one unit less one base unit ("smallrem"): what a maximum fee
// buys is the truncated quotient.
func (x *Exec) priceTxRem(n *sim.Node, spec *sim.TxSpec, g uint64, class string) *types.Transaction {
	fpg := n.App.State.FeePerGas()
	rem := new(big.Int)
	switch class {
	case "smallhalf":
		rem.Rsh(fpg, 1)
		if new(big.Int).Lsh(rem, 1).Cmp(fpg) < 0 {
			rem.Add(rem, big.NewInt(1)) // odd rate: the smallest remainder of at least half a unit
		}
	case "smallrem":
		rem.Sub(fpg, big.NewInt(1))
	}
	if rem.Sign() > 0 {
		x.Stats["maxfee_with_gas_remainder"]++
	}
	spec.MaxFee = sim.Dna(1, 1)
	var tx *types.Transaction
	for i := 0; i < 6; i++ {
		tx = x.W.Tx(*spec)
		want := new(big.Int).Add(n.SizeFee(tx), new(big.Int).Mul(fpg, new(big.Int).SetUint64(g)))
		want.Add(want, rem)
		if want.Cmp(spec.MaxFee) == 0 {
			return tx
		}
		spec.MaxFee = want
	}
	return x.W.Tx(*spec)
}

// wasmHeadroom: a wasm run reserves the gas limits of the promises it creates on top of what it uses
// itself (the dry run only reports the latter).
const wasmHeadroom = 70000

func (x *Exec) gasFor(class string, need uint64) uint64 {
	switch class {
	case "zero":
		return 0
	case "small", "smallhalf", "smallrem":
		if need <= 1 {
			return 0
		}
		// cut points close to the ends are the interesting ones
		switch x.Rnd.Intn(4) {
		case 0:
			return need - 1
		case 1:
			return 1 + uint64(x.Rnd.Int63n(int64(need-1)))/8
		}
		return 1 + uint64(x.Rnd.Int63n(int64(need-1)))
	case "exact":
		return need
	}
	return need + need/2 + 700
}

// ---------------------------------------------------------------------------------------------
// execution of one operation

type txJ struct {
	Kind    string `json:"kind"`
	Wasm    bool   `json:"wasm"`
	From    string `json:"from"`
	To      string `json:"to"`
	Amount  []int  `json:"amount"`
	MaxFee  []int  `json:"maxFee"`
	Tips    []int  `json:"tips"`
	SizeFee []int  `json:"sizeFee"`
	Fpg     []int  `json:"fpg"`
}

type rcJ struct {
	Success bool   `json:"success"`
	GasUsed uint64 `json:"gasUsed"`
	GasCost []int  `json:"gasCost"`
	Oog     bool   `json:"oog"` // failed for lack of gas
}

type reqJ struct {
	A string `json:"a"`
	V []int  `json:"v"`
	B []int  `json:"b"` // shadow only: the balance the probe started from
}

type shJ struct {
	Ran      bool        `json:"ran"`
	Ok       bool        `json:"ok"`
	Writes   [][3]string `json:"writes"` // contract, key digest, value digest ("" = removal)
	Keep     []string    `json:"keep"`
	Moved    []int       `json:"moved"`
	Req      []reqJ      `json:"req"`
	Deployed []string    `json:"deployed"` // wasm: sub-deployments the contract code asked for (committed by the runtime)
	Dest     string      `json:"dest"`
	Err      string      `json:"err"`
}

type effJ struct {
	Req      []reqJ   `json:"req"`
	Burnt    []int    `json:"burnt"`
	Term     []int    `json:"term"`
	Deployed []string `json:"deployed"`
	Commits  int      `json:"commits"`
	Sh       shJ      `json:"sh"`
}

// isOutOfGas recognises the error texts of the two VMs for "the bought gas is used up".
func isOutOfGas(e string) bool {
	return e == "not enough gas" || strings.Contains(e, "Out of gas") || strings.Contains(e, "out of gas")
}

func kindOf(t types.TxType) string {
	switch t {
	case types.DeployContractTx:
		return "deploy"
	case types.TerminateContractTx:
		return "terminate"
	}
	return "call"
}

func nz(x []int) []int {
	if x == nil {
		return []int{}
	}
	return x
}

func (x *Exec) effOf(c *sim.TxCapture, sh sim.ShadowResult, wsh sim.WasmShadowResult, target common.Address) effJ {
	e := effJ{Req: []reqJ{}, Burnt: nz(sim.Limbs(c.Burnt)), Term: nz(sim.Limbs(c.Term)), Deployed: []string{}, Commits: c.Commit,
		Sh: shJ{Writes: [][3]string{}, Keep: []string{}, Moved: []int{}, Req: []reqJ{}, Deployed: []string{}}}
	for a, v := range c.Requested() {
		e.Req = append(e.Req, reqJ{A: x.W.Name(a), V: nz(sim.Limbs(v)), B: []int{}})
	}
	sort.Slice(e.Req, func(i, j int) bool { return e.Req[i].A < e.Req[j].A })
	for _, a := range c.Wasm {
		e.Deployed = append(e.Deployed, x.W.Name(a))
	}
	if sh.Ran {
		e.Sh.Ran, e.Sh.Ok, e.Sh.Err = true, sh.Ok, sh.Err
		for _, kv := range sh.Writes {
			e.Sh.Writes = append(e.Sh.Writes, [3]string{x.W.Name(target), kv.K, kv.V})
		}
		if sh.Keep != nil {
			e.Sh.Keep = sh.Keep
		}
		e.Sh.Moved = nz(sim.Limbs(sh.Moved))
		for a, v := range sh.Req {
			e.Sh.Req = append(e.Sh.Req, reqJ{A: x.W.Name(a), V: nz(sim.Limbs(v)), B: nz(sim.Limbs(sh.Base[a]))})
		}
		sort.Slice(e.Sh.Req, func(i, j int) bool { return e.Sh.Req[i].A < e.Sh.Req[j].A })
		if sh.Dest != nil {
			e.Sh.Dest = x.W.Name(*sh.Dest)
		}
	}
	if wsh.Ran {
		e.Sh.Ran, e.Sh.Ok, e.Sh.Err = true, wsh.Ok, wsh.Err
		if len(e.Sh.Err) > 100 {
			e.Sh.Err = e.Sh.Err[:100]
		}
		for _, w := range wsh.Writes {
			e.Sh.Writes = append(e.Sh.Writes, [3]string{x.W.Name(w.A), w.K, w.V})
		}
		for _, a := range wsh.Deployed {
			e.Sh.Deployed = append(e.Sh.Deployed, x.W.Name(a))
		}
	}
	return e
}

// run executes one abstract operation on s (in place) and emits what happened.
// It reports whether the committed contract-relevant state may have changed (false: the operation
// was refused, or every contract transaction of the block failed).
func (x *Exec) run(s *State, kind string, op Op, caseID int, step int) bool {
	n := s.N
	x.Stats["ops"]++
	switch op.M {
	case "wait":
		x.emptyBlocks(n, 4)
		s.Last = nil
		return true
	case "longwait":
		// an oracle voting can be terminated votingDuration + publicVotingDuration + 7 days of blocks after its start
		x.emptyBlocks(n, 30400)
		s.Last = nil
		return true
	case "fund":
		if s.I.Addr == nil {
			return false
		}
		amt := sim.Dna(300, 1)
		if kind == "voting" {
			amt = sim.Dna(6000, 1)
		}
		nonce := n.App.State.GetNonce(x.W.Addrs[kFunder]) + 1
		tx := x.W.Tx(sim.TxSpec{From: kFunder, To: s.I.Addr, Type: types.SendTx, Amount: amt, MaxFee: sim.Dna(50, 1), Nonce: nonce})
		if err := n.Pool.AddExternalTxs(validation.InboundTx, tx); err != nil {
			panic("funding refused: " + err.Error())
		}
		blk := n.Propose(20)
		if err := n.Add(sim.Encode(blk)); err != nil {
			panic(err)
		}
		s.Last = nil
		return true
	}
	from := x.sender(s, op)
	nonce := n.App.State.GetNonce(x.W.Addrs[from]) + 1
	s.I.Seq++

	// "pf-block" | "pf-mid" | "pf-mid-emb": the address the operation is about to create already holds coins
	pf := ""
	if strings.HasPrefix(op.Pair, "pf-") {
		pf = strings.TrimPrefix(op.Pair, "pf-")
	}
	// sandwich blocks: "sw-<mid>-<tail>"
	mid, tail := "", ""
	if strings.HasPrefix(op.Pair, "sw-") {
		p := strings.Split(op.Pair, "-")
		mid, tail = p[1], p[2]
		switch mid {
		case "self":
			d := from
			s.Dest = &d
		case "xout":
			d := kRx
			s.Dest = &d
		}
		defer func() { s.Dest = nil }()
	}

	// how much gas does the operation need in this state? (dry run on a throw-away state)
	probe := x.buildTx(s, kind, op, from, nonce)
	probe.MaxFee = sim.Dna(2000, 1)
	var need uint64
	if rc := n.DryRun(x.W.Tx(*probe), 3000000); rc != nil {
		need = rc.GasUsed
	}
	_, mainEmb := embeddedHash[kind]
	var prefund *types.Transaction
	if pf != "" {
		future := x.futureAddr(s, kind, op, x.W.Tx(*probe))
		if future == nil {
			pf = ""
		} else {
			s.I.know(*future)
			prefund = x.W.Tx(sim.TxSpec{From: kFunder, To: future, Type: types.SendTx, Amount: sim.Dna(5, 1), MaxFee: sim.Dna(10, 1),
				Nonce: n.App.State.GetNonce(x.W.Addrs[kFunder]) + 1})
		}
	}
	switch pf {
	case "block": // funded by a plain transfer in an earlier block
		if err := n.Pool.AddExternalTxs(validation.InboundTx, prefund); err != nil {
			panic("pre-funding refused: " + err.Error())
		}
		if err := n.Add(sim.Encode(n.Propose(20))); err != nil {
			panic(err)
		}
		s.Last = nil
		x.Stats["prefunded_earlier_block"]++
	case "mid": // funded in the same block, just before the transaction
		tail = "pfonly"
	case "mid-emb":
		mid, tail = "none", "emb"
	}

	// the transactions of the block, in block order
	var plan []planned
	switch op.Pair {
	case "same":
		first := op
		first.Gas = "small"
		spec := x.buildTx(s, kind, first, from, nonce)
		plan = append(plan, planned{tx: x.priceTx(n, spec, x.gasFor("small", need)), kind: kind, role: "first"})
		nonce++
	case "samerin":
		// the attempt runs out of gas at its very end (the coins have been moved inside the execution context by then), a
		// plain transfer then credits the operation's recipient, then the operation itself follows
		first := op
		first.Gas = "small"
		spec := x.buildTx(s, kind, first, from, nonce)
		g := uint64(0)
		if need > 1 {
			g = need - 1
		}
		plan = append(plan, planned{tx: x.priceTx(n, spec, g), kind: kind, role: "first"})
		nonce++
		to := x.W.Addrs[kR1]
		credit := x.W.Tx(sim.TxSpec{From: kFunder, To: &to, Type: types.SendTx, Amount: sim.Dna(2000, 1), MaxFee: sim.Dna(10, 1),
			Nonce: n.App.State.GetNonce(x.W.Addrs[kFunder]) + 1})
		plan = append(plan, planned{tx: credit, plain: true, role: "mid"})
		x.Stats["recipient_credited_between"]++
	case "term":
		first := Op{M: "terminate", Arg: "valid", Amt: "zero", Gas: "small", Who: op.Who}
		pt := x.buildTx(s, kind, first, from, nonce)
		pt.MaxFee = sim.Dna(2000, 1)
		var needT uint64
		if rc := n.DryRun(x.W.Tx(*pt), 3000000); rc != nil {
			needT = rc.GasUsed
		}
		spec := x.buildTx(s, kind, first, from, nonce)
		plan = append(plan, planned{tx: x.priceTx(n, spec, x.gasFor("small", needT)), kind: kind, role: "first"})
		nonce++
	}
	// "poor sender": an operation that is going to run out of gas, sent by an account that holds EXACTLY what the transaction
	// may cost at most (amount + tips + maximum fee) - a plain transfer in front of it, in the same block, takes the rest away.
	// Whatever is charged beyond the maximum fee would drive the balance below zero.
	poor := false
	if op.Pair == "no" && pf == "" && (op.Gas == "small" || op.Gas == "smallhalf" || op.Gas == "smallrem") && from != kFunder && need > 1 && x.Rnd.Intn(2) == 0 {
		poor = true
		nonce++ // the transfer takes the sender's next nonce, the operation the one after
	}
	spec := x.buildTx(s, kind, op, from, nonce)
	if x.Rnd.Intn(5) == 0 {
		spec.Tips = sim.Dna(3, 10)
	}
	g := x.gasFor(op.Gas, need)
	if !mainEmb && op.Gas == "enough" {
		g += wasmHeadroom
	}
	role := "only"
	if tail != "" {
		role = "first"
	} else if len(plan) > 0 {
		role = "tail"
	}
	if pf == "mid" || pf == "mid-emb" {
		plan = append(plan, planned{tx: prefund, plain: true, role: "mid"})
		x.Stats["prefunded_same_block"]++
	}
	mainTx := x.priceTxRem(n, spec, g, op.Gas)
	if poor {
		bal := n.App.State.GetBalance(x.W.Addrs[from])
		keep := new(big.Int).Add(mainTx.AmountOrZero(), mainTx.TipsOrZero())
		keep.Add(keep, mainTx.MaxFeeOrZero())
		to := x.W.Addrs[kFunder]
		amount := new(big.Int).Sub(bal, keep)
		maxFee := sim.Dna(1, 1)
		var drain *types.Transaction
		ok := false
		for i := 0; i < 8 && amount.Sign() > 0; i++ {
			drain = x.W.Tx(sim.TxSpec{From: from, To: &to, Type: types.SendTx, Amount: amount, MaxFee: maxFee, Nonce: nonce - 1})
			f := n.SizeFee(drain)
			want := new(big.Int).Sub(new(big.Int).Sub(bal, keep), f)
			if want.Sign() > 0 && want.Cmp(amount) == 0 && f.Cmp(maxFee) == 0 {
				ok = true
				break
			}
			amount, maxFee = want, f
		}
		if ok {
			plan = append(plan, planned{tx: drain, plain: true, role: "mid"})
			role = "tail"
			x.Stats["poor_sender"]++
		} else {
			// (not realisable in this state: the operation goes alone, with the nonce it would have had)
			poor = false
			nonce--
			spec = x.buildTx(s, kind, op, from, nonce)
			mainTx = x.priceTxRem(n, spec, g, op.Gas)
		}
	}
	plan = append(plan, planned{tx: mainTx, kind: kind, role: role})
	nonce++
	if tail != "" {
		// something changes a balance OUTSIDE the contract environment ...
		switch mid {
		case "cin":
			if s.I.Addr != nil {
				tx := x.W.Tx(sim.TxSpec{From: from, To: s.I.Addr, Type: types.SendTx, Amount: sim.Dna(5, 1), MaxFee: sim.Dna(10, 1), Nonce: nonce})
				plan = append(plan, planned{tx: tx, plain: true, role: "mid"})
				nonce++
			}
		case "xout":
			to := x.W.Addrs[kFunder]
			tx := x.W.Tx(sim.TxSpec{From: kRx, To: &to, Type: types.SendTx, Amount: sim.Dna(2, 1), MaxFee: sim.Dna(10, 1),
				Nonce: n.App.State.GetNonce(x.W.Addrs[kRx]) + 1})
			plan = append(plan, planned{tx: tx, plain: true, role: "mid"})
		}
		// ... and further contract transactions follow in the same block
		auxOp := func(akind string, addr common.Address, o Op, gas uint64) {
			a := addr
			aux := &State{N: n, I: Inst{Kind: akind, Addr: &a, Deployer: kOwner, OV: x.W.Addrs[kNobody]}}
			sp := x.buildTx(aux, akind, o, from, nonce)
			plan = append(plan, planned{tx: x.priceTx(n, sp, gas), kind: akind, role: "tail"})
			nonce++
		}
		again := func() {
			o := op
			o.Pair = "no"
			sp := x.buildTx(s, kind, o, from, nonce)
			ga := need*2 + 3000
			if !mainEmb {
				ga += wasmHeadroom
			}
			plan = append(plan, planned{tx: x.priceTx(n, sp, ga), kind: kind, role: "tail"})
			nonce++
		}
		deposit := Op{M: "deposit", Arg: "valid", Amt: "some", Gas: "enough", Who: op.Who, Pair: "no"}
		switch tail {
		case "again":
			again()
		case "emb":
			auxOp("refundlock", s.I.AuxEmb, deposit, 8000)
		case "wasm":
			auxOp("payer", s.I.AuxWasm, Op{M: "store", Arg: "valid", Amt: "zero", Gas: "enough", Who: op.Who, Pair: "no"}, 4000+wasmHeadroom)
		case "fail":
			auxOp("refundlock", s.I.AuxEmb, Op{M: "unknown", Arg: "valid", Amt: "zero", Gas: "enough", Who: op.Who, Pair: "no"}, 3000)
		case "two":
			auxOp("refundlock", s.I.AuxEmb, deposit, 8000)
			again()
		case "termemb":
			if s.I.Addr != nil {
				sp := x.buildTx(s, kind, Op{M: "terminate", Arg: "valid", Amt: "zero", Gas: "enough", Who: op.Who, Pair: "no"}, from, nonce)
				plan = append(plan, planned{tx: x.priceTx(n, sp, 25000), kind: kind, role: "tail"})
				nonce++
			}
			auxOp("refundlock", s.I.AuxEmb, deposit, 8000)
		}
	}

	pre := s.Last
	preHeight := n.Chain.Head.Height()
	fpg := new(big.Int).Set(n.App.State.FeePerGas())
	var blk *types.Block
	if tail != "" || op.Pair == "samerin" || poor {
		// the proposer chooses the order of the body: the repository's own block assembly for a given body
		if pre == nil {
			pre = x.snapshot(s)
		}
		var txs []*types.Transaction
		for _, p := range plan {
			txs = append(txs, p.tx)
		}
		n.W.SetNow(n.Chain.Head.Time() + 20)
		b, err := n.Chain.VerifCraftBlock(txs, n.Chain.Head.Time()+20)
		if err != nil {
			x.Stats["craft_refused"]++
			x.Stats["craft_refused:"+err.Error()]++
			return false
		}
		blk = b
	} else {
		accepted := 0
		for _, p := range plan {
			if err := n.Pool.AddExternalTxs(validation.InboundTx, p.tx); err != nil {
				x.Stats["rejected"]++
				x.Stats["rejected:"+err.Error()]++
				break // a later nonce cannot be mined without the earlier one
			}
			accepted++
		}
		if accepted == 0 {
			return false
		}
		plan = plan[:accepted]
		if len(plan) == 1 {
			plan[0].role = "only"
		}
		if pre == nil {
			pre = x.snapshot(s)
		}
		blk = n.Propose(20)
		if len(blk.Body.Transactions) != len(plan) {
			// the proposer filtered something out: nothing to judge; forget this node's pool by re-cloning
			x.Stats["filtered"]++
			s.N = cloneNode(n)
			if r, ok := n.DB.(*relDB); ok {
				r.DB = nil
			}
			s.Last = nil
			return true
		}
	}
	mined := blk.Body.Transactions
	for i, tx := range mined {
		if tx.Hash() != plan[i].tx.Hash() {
			panic("block body differs from the planned order")
		}
	}
	sizeFees := make([]*big.Int, len(mined))
	for i, tx := range mined {
		sizeFees[i] = n.SizeFee(tx)
	}
	rec := sim.NewRec()
	if err := n.AddWith(sim.Encode(blk), rec); err != nil {
		panic(fmt.Sprintf("own block rejected: %v", err))
	}
	if len(rec.Txs) != len(mined) {
		panic("collector saw a different number of transactions")
	}
	// The reference state a transaction of the block must have seen: the committed pre-state with the
	// earlier transactions of the block applied ONE BY ONE, each in an execution context of its own
	// (fresh VM and environment).  The recording environments answer the reads of the contract code from it.
	ref, err := n.App.ForCheck(preHeight)
	if err != nil {
		panic(err)
	}
	var lines []tr.M
	changed := false
	okContract := 0
	for i, tx := range mined {
		c := rec.Txs[i]
		sender, _ := types.Sender(tx)
		last := i == len(mined)-1
		if plan[i].plain {
			lines = append(lines, tr.M{"ev": "Plain", "id": caseID, "from": x.W.Name(sender), "to": x.W.Name(*tx.To),
				"amount": nz(sim.Limbs(tx.AmountOrZero())), "fee": nz(sim.Limbs(c.Fee)), "tips": nz(sim.Limbs(tx.TipsOrZero()))})
			if _, _, err := n.Chain.VerifApplyTxFresh(ref, blk.Header, tx); err != nil {
				panic("reference application failed: " + err.Error())
			}
			changed = true
			continue
		}
		rc := n.Chain.GetReceipt(tx.Hash())
		if rc == nil {
			panic("no receipt for a mined contract transaction")
		}
		sh := sim.RunShadow(ref, blk.Header, tx, n.Cfg.Consensus.EnableUpgrade10)
		isWasm := false
		if tx.Type == types.DeployContractTx {
			if att := attachments.ParseDeployContractAttachment(tx); att != nil && len(att.Code) > 0 {
				isWasm = true
			}
		} else if tx.Type == types.CallContractTx {
			if h := ref.State.GetCodeHash(*tx.To); h != nil {
				if _, ok := embedded.AvailableContracts[*h]; !ok {
					isWasm = true
				}
			}
		}
		s.I.know(rc.ContractAddress)
		for _, a := range c.Wasm {
			s.I.know(a)
		}
		var wsh sim.WasmShadowResult
		if isWasm {
			bought := new(big.Int).Sub(tx.MaxFeeOrZero(), sizeFees[i])
			bought.Div(bought, fpg)
			wsh = n.RunWasmShadowOn(ref, blk.Header, tx, bought.Uint64())
			for _, w := range wsh.Writes {
				s.I.know(w.A)
			}
			for _, a := range wsh.Deployed {
				s.I.know(a)
			}
			if wsh.Ran && wsh.GasUsed != rc.GasUsed {
				x.Stats["wasm_shadow_gas_differs"]++
			}
		}
		t := txJ{Kind: kindOf(tx.Type), Wasm: isWasm, From: x.W.Name(sender), To: x.W.Name(rc.ContractAddress),
			Amount: nz(sim.Limbs(tx.AmountOrZero())), MaxFee: nz(sim.Limbs(tx.MaxFeeOrZero())), Tips: nz(sim.Limbs(tx.TipsOrZero())),
			SizeFee: nz(sim.Limbs(sizeFees[i])), Fpg: nz(sim.Limbs(fpg))}
		errText := ""
		if rc.Error != nil {
			errText = rc.Error.Error()
			if len(errText) > 120 {
				errText = errText[:120]
			}
		}
		line := tr.M{"ev": "Tx", "id": caseID, "step": step, "c": plan[i].kind, "mainc": kind, "op": op, "role": plan[i].role, "prefunded": pf != "", "tx": t,
			"rc":  rcJ{Success: rc.Success, GasUsed: rc.GasUsed, GasCost: nz(sim.Limbs(rc.GasCost)), Oog: !rc.Success && isOutOfGas(errText)},
			"eff": x.effOf(c, sh, wsh, rc.ContractAddress), "mid": !last, "st": []acctJ{}, "err": errText, "need": need, "method": rc.Method}
		lines = append(lines, line)
		if rc.Success {
			changed = true
			okContract++
			x.Stats["tx_ok"]++
		} else {
			x.Stats["tx_fail"]++
		}
		if !last {
			if _, rrc, err := n.Chain.VerifApplyTxFresh(ref, blk.Header, tx); err != nil {
				panic("reference application failed: " + err.Error())
			} else if rrc != nil && rrc.Success != rc.Success {
				x.Stats["reference_outcome_differs"]++
			}
		}
		// lifecycle knowledge of the driver (addresses only)
		isMain := plan[i].role == "only" || (tail == "" && last) || (tail != "" && plan[i].role == "first")
		if isMain && rc.Success && tx.Type == types.DeployContractTx && s.I.Addr == nil {
			a := rc.ContractAddress
			s.I.Addr = &a
			s.I.Deployer = from
		}
		if isMain {
			if op.Good && !rc.Success {
				x.Stats["good_but_failed"]++
				x.Stats["good_but_failed:"+kind+"."+op.M+":"+errText]++
			}
			if op.Good && rc.Success {
				x.Stats["good_ok"]++
			}
		}
	}
	if tail != "" {
		x.Stats["sandwich_blocks"]++
		if okContract >= 2 {
			x.Stats["sandwich_two_successes"]++
		}
	}
	post := x.snapshot(s)
	lines[len(lines)-1]["st"] = post
	if s.Last == nil || x.Cur != s {
		x.Out.Emit(tr.M{"ev": "Reset", "p": fmt.Sprintf("k%d", kProposer), "st": pre, "id": caseID})
	}
	x.Cur = s
	for _, l := range lines {
		x.Out.Emit(l)
	}
	s.Last = post
	return changed
}

// futureAddr is the address an operation is about to create: the contract address of a top-level
// deployment, or the address a payer instance sub-deploys a further instance at.
func (x *Exec) futureAddr(s *State, kind string, op Op, tx *types.Transaction) (res *common.Address) {
	defer func() {
		if recover() != nil {
			res = nil
		}
	}()
	switch {
	case op.M == "deploy":
		a := vm.NewVmImpl(s.N.App, s.N.Chain, s.N.Chain.Head, nil, s.N.Cfg).ContractAddr(tx, nil)
		return &a
	case kind == "payer" && (op.M == "spawn" || op.M == "spawnlow" || op.M == "payspawn"):
		att := attachments.ParseCallContractAttachment(tx)
		if att == nil || len(att.Args) < 1 {
			return nil
		}
		a := wasm.ComputeContractAddr(codes["payer"], []byte{0x01}, att.Args[0])
		return &a
	}
	return nil
}

// planned is one transaction of the block an operation stands for.
type planned struct {
	tx    *types.Transaction
	plain bool   // not a contract transaction
	kind  string // contract kind it addresses
	role  string // "only" | "first" | "mid" | "tail"
}

// ---------------------------------------------------------------------------------------------
// presets

func (x *Exec) mustRun(s *State, kind string, op Op) {
	before := x.Stats["tx_ok"]
	op.Good = true
	x.run(s, kind, op, -1, 0)
	if op.M != "fund" && op.M != "wait" && x.Stats["tx_ok"] == before {
		panic(fmt.Sprintf("preset step %s.%s did not succeed: %v", kind, op.M, x.Stats))
	}
}

func def(m, amt, who string) Op {
	return Op{M: m, Arg: "valid", Amt: amt, Gas: "enough", Who: who, Pair: "no"}
}

// auxContracts deploys the two contracts every world has (targets of the further contract
// transactions of sandwich blocks): a refundable oracle lock - anybody may deposit - and a payer.
func (x *Exec) auxContracts(base *State) {
	v := &State{N: base.N, I: Inst{Kind: "refundlock", OV: x.W.Addrs[kNobody]}}
	x.mustRun(v, "refundlock", def("deploy", "some", "owner"))
	base.N = v.N
	base.I.AuxEmb = *v.I.Addr
	p := &State{N: base.N, I: Inst{Kind: "payer"}}
	x.mustRun(p, "payer", def("deploy", "zero", "owner"))
	base.N = p.N
	base.I.AuxWasm = *p.I.Addr
	base.I.Known = append(append(base.I.Known, v.I.Known...), p.I.Known...)
	base.Last = nil
}

func (x *Exec) preset(base *State, name string) *State {
	s := &State{N: cloneNode(base.N), I: base.I.clone()}
	s.I.OV = x.W.Addrs[kNobody]
	s.I.Salt = []byte("salt-of-the-voter")
	switch name {
	case "voted":
		// a finished oracle voting (result 1), deployed and driven by the setup key / voter
		v := &State{N: s.N, I: Inst{Kind: "voting", Salt: s.I.Salt, OV: x.W.Addrs[kNobody]}}
		x.mustRun(v, "voting", def("deploy", "some", "owner"))
		x.mustRun(v, "voting", def("fund", "big", "other"))
		x.mustRun(v, "voting", def("startVoting", "zero", "owner"))
		x.mustRun(v, "voting", def("sendVoteProof", "some", "voter"))
		x.mustRun(v, "voting", def("wait", "zero", "other"))
		x.mustRun(v, "voting", def("sendVote", "zero", "voter"))
		x.mustRun(v, "voting", def("finishVoting", "zero", "owner"))
		s.N = v.N
		s.I.OV = *v.I.Addr
		s.I.Known = append(s.I.Known, v.I.Known...)
	case "payerd":
		s.I.Inc = s.I.AuxWasm // the peer instance that cross-contract calls go to
	case "incd":
		v := &State{N: s.N, I: Inst{Kind: "inc"}}
		x.mustRun(v, "inc", def("deploy", "zero", "owner"))
		s.N = v.N
		s.I.Inc = *v.I.Addr
		s.I.Known = append(s.I.Known, v.I.Known...)
	}
	s.Last = nil
	return s
}

// ---------------------------------------------------------------------------------------------

func main() {
	casesPath := flag.String("cases", "", "ndjson file with scenarios exported by TLC")
	out := flag.String("out", "trace.ndjson", "trace output")
	summary := flag.String("summary", "", "summary output (json)")
	flag.Parse()
	// the wasm runtime prints debug output to fd 1 when IsDebug is set: send it to /dev/null
	if devnull, err := os.OpenFile(os.DevNull, os.O_WRONLY, 0); err == nil && os.Getenv("VERIF_WASM_DEBUG") == "" {
		syscall.Dup2(int(devnull.Fd()), 1)
	}
	defer sim.Cleanup()
	loadCodes()
	seed := tr.Seed()
	x := &Exec{W: newWorld(seed), Out: tr.Create(*out), Rnd: rand.New(rand.NewSource(seed)), Stats: map[string]int{}}
	defer x.Out.Close()

	var cases []Case
	tr.ReadLines(*casesPath, func(raw []byte) {
		var c Case
		if err := json.Unmarshal(raw, &c); err != nil {
			panic(err)
		}
		cases = append(cases, c)
	})
	key := func(c Case) string {
		b, _ := json.Marshal(c.Path)
		return c.C + "|" + c.W + "|" + string(b)
	}
	sort.SliceStable(cases, func(i, j int) bool { return key(cases[i]) < key(cases[j]) })

	base := &State{N: boot(x.W)}
	x.emptyBlocks(base.N, 3) // the fee per gas of the genesis state is zero
	x.auxContracts(base)
	presets := map[string]*State{}

	common := func(a, b Case) int {
		if a.C != b.C || a.W != b.W {
			return -1
		}
		k := 0
		for k < len(a.Path) && k < len(b.Path) && a.Path[k] == b.Path[k] {
			k++
		}
		return k
	}
	// stack[j] = state after the first j operations of the current scenario
	var stack []*State
	var cur Case
	// scratch: a clone of a branching state that is reused for consecutive operations that are not
	// expected to progress, as long as they really changed nothing (failed / refused)
	var scrBase, scr *State
	scrUses := 0
	for i, c := range cases {
		shared := -1
		if i > 0 {
			shared = common(cur, c)
		}
		if shared < 0 {
			p := presets[c.W]
			if p == nil {
				p = x.preset(base, c.W)
				presets[c.W] = p
			}
			for _, old := range stack {
				if old != scr {
					release(old)
				}
			}
			root := &State{N: cloneNode(p.N), I: p.I.clone()}
			root.I.Kind = c.C
			stack = []*State{root}
			shared = 0
		}
		if shared > len(stack)-1 {
			shared = len(stack) - 1
		}
		for _, old := range stack[shared+1:] {
			if old != scr {
				release(old)
			}
		}
		stack = stack[:shared+1]
		keep := -1 // states up to this depth are needed by the next scenario
		if i+1 < len(cases) {
			keep = common(c, cases[i+1])
		}
		for j := shared; j < len(c.Path); j++ {
			top := stack[j]
			var s *State
			op := c.Path[j]
			leaf := j == len(c.Path)-1
			maxReuse := 6
			if top.N.Chain.Head.Height() > 20000 {
				maxReuse = 40 // cloning a long chain is expensive
			}
			switch {
			case j > keep:
				s = top
				stack[j] = nil
			case leaf && !op.Good && scr != nil && scrBase == top && scrUses < maxReuse:
				s = scr
				scrUses++
			default:
				s = &State{N: cloneNode(top.N), I: top.I.clone(), Last: nil}
				if leaf && !op.Good {
					release(scr)
					scrBase, scr, scrUses = top, s, 1
				}
			}
			changed := x.run(s, c.C, op, i, j)
			if s == scr && changed {
				scr, scrBase = nil, nil // (released when it is popped from the stack)
			}
			stack = append(stack, s)
		}
		cur = c
		x.Stats["cases"]++
	}
	x.Stats["lines"] = x.Out.N
	if *summary != "" {
		b, _ := json.MarshalIndent(x.Stats, "", " ")
		os.WriteFile(*summary, b, 0644)
	}
	fmt.Fprintf(os.Stderr, "d_contract: %d cases, %d ops, %d ok / %d failed contract txs, %d refused by validation, %d lines\n",
		x.Stats["cases"], x.Stats["ops"], x.Stats["tx_ok"], x.Stats["tx_fail"], x.Stats["rejected"], x.Out.N)
}
