// d_ba runs N REAL consensus engines (consensus.Engine.loop) in one process, one round per case, and
// records what every node did, for validation against spec/Trace_BA.
//
// Every node is a real Blockchain / AppState / TxPool / OfflineDetector / Upgrader over its own MemDB
// (internal/sim), with real pengings.Proposals and pengings.Votes, a real gossip handler built by the
// real constructor (nil host) and a real Engine built by consensus.NewEngine.  The engines' loop()
// runs in one goroutine per node.  Nothing of the protocol is re-implemented here:
//
//   - time: consensus/engine.go, consensus/future_blocks.go, pengings/proposals.go and
//     blockchain/blockchain.go read the clock through the build overlay; this driver installs a clock
//     with one local time per node that only moves when the node sleeps, and every Sleep of an engine
//     goroutine PARKS the goroutine until the schedule releases it.  Exactly one goroutine of the
//     protocol runs at any moment, so a schedule is replayed deterministically and no real-time delay
//     decides anything (the only real-time value is a watchdog that declares the driver dead).
//   - network: what a handler queues for a peer is taken as REAL frames (protocol.VerifPeer.TakeFrames)
//     and handed to the receiving node's handler (HandleFrame) when, and only when, the schedule says
//     so: push announcement -> pull request -> entry, three real frames per delivery.  Undelivered
//     frames are the messages the network delayed beyond the round or dropped.
//   - observation: the engine's own statistics collector interface (SubmitVoteCountingResult,
//     SubmitBlockProposal, ...) is implemented by the driver; votes are observed as the announcements
//     the node's handler queues; commits are read from the node's chain (head, certificate, final
//     marker); every certificate is additionally validated by the real ValidateBlockCertOnHead of a
//     witness node that took no part in the round.
//
// Schedules come from TLC (spec/MC_BA: exhaustive bounded exploration and simulation) or from the
// seeded random generator below (asynchronous deliveries to subsets, early votes, forged votes).
package main

import (
	"bytes"
	"encoding/json"
	"flag"
	"fmt"
	"math/big"
	"math/rand"
	"os"
	"path/filepath"
	"runtime"
	"runtime/debug"
	"sort"
	"strconv"
	"sync"
	"time"

	"github.com/idena-network/idena-go/blockchain"
	"github.com/idena-network/idena-go/blockchain/attachments"
	"github.com/idena-network/idena-go/blockchain/types"
	"github.com/idena-network/idena-go/blockchain/validation"
	"github.com/idena-network/idena-go/common"
	"github.com/idena-network/idena-go/common/pushpull"
	"github.com/idena-network/idena-go/common/verifclock"
	"github.com/idena-network/idena-go/config"
	"github.com/idena-network/idena-go/consensus"
	"github.com/idena-network/idena-go/core/flip"
	"github.com/idena-network/idena-go/core/mempool"
	"github.com/idena-network/idena-go/core/state"
	"github.com/idena-network/idena-go/core/validators"
	"github.com/idena-network/idena-go/crypto"
	"github.com/idena-network/idena-go/database"
	"github.com/idena-network/idena-go/pengings"
	"github.com/idena-network/idena-go/protocol"
	"github.com/idena-network/idena-go/secstore"
	"github.com/idena-network/idena-go/stats/collector"
	"github.com/libp2p/go-libp2p-core/peer"
	dbm "github.com/tendermint/tm-db"

	"verifh/internal/sim"
	"verifh/internal/tr"
)

// ---------------------------------------------------------------------------------------------
// the clock: node-local virtual time, every sleep of an engine goroutine is a scheduling gate

type parkInfo struct {
	d    time.Duration
	exit bool
}

type nodeRt struct {
	elapsed  time.Duration
	parked   chan parkInfo
	wake     chan struct{}
	killed   bool
	panicked string
}

type baClock struct {
	mu       sync.Mutex
	base     time.Time
	byG      map[int64]*nodeRt
	hElapsed time.Duration
}

func goid() int64 {
	var buf [64]byte
	n := runtime.Stack(buf[:], false)
	s := buf[len("goroutine "):n]
	i := bytes.IndexByte(s, ' ')
	id, _ := strconv.ParseInt(string(s[:i]), 10, 64)
	return id
}

func (c *baClock) rt() *nodeRt {
	g := goid()
	c.mu.Lock()
	r := c.byG[g]
	c.mu.Unlock()
	return r
}

func (c *baClock) Now() time.Time {
	r := c.rt()
	c.mu.Lock()
	defer c.mu.Unlock()
	if r != nil {
		return c.base.Add(r.elapsed)
	}
	return c.base.Add(c.hElapsed) // the harness goroutine (frames handled on behalf of the network)
}

func (c *baClock) Sleep(d time.Duration) {
	r := c.rt()
	if r == nil {
		time.Sleep(d)
		return
	}
	r.parked <- parkInfo{d: d}
	<-r.wake
	if r.killed {
		runtime.Goexit()
	}
	c.mu.Lock()
	r.elapsed += d
	if r.elapsed > c.hElapsed {
		c.hElapsed = r.elapsed
	}
	c.mu.Unlock()
}

func (c *baClock) After(d time.Duration) <-chan time.Time {
	ch := make(chan time.Time, 1)
	if r := c.rt(); r != nil {
		c.Sleep(d)
		ch <- c.Now()
		return ch
	}
	return time.After(d)
}

var clk = &baClock{byG: map[int64]*nodeRt{}}

// ---------------------------------------------------------------------------------------------
// world base: a chain on which N identities are online validators, snapshotted at heads that give
// 0..N passing proposer sortitions for the next round

type snap struct {
	db     dbm.DB
	height uint64
	order  []int // model id (1-based, index id-1) -> key index; proposers are the top ids, ranked by VRF value
	k      int   // number of proposers
}

type base struct {
	w        *sim.World
	N        int
	maxSteps int
	snaps    map[int]*snap
}

func dna(n int64) *big.Int { return sim.Dna(n, 1) }

func fatal(format string, a ...interface{}) {
	fmt.Fprintf(os.Stderr, "d_ba: "+format+"\n", a...)
	os.Exit(3)
}

func buildBase(seed int64, N, maxSteps int) *base {
	w := sim.NewWorld(seed, N+1) // key N: a stranger (witness node, forged votes)
	w.Cons.StatusSwitchRange = 5
	w.Cons.MaxSteps = uint8(maxSteps)
	w.Cons.WaitBlockDelay = time.Second
	w.Cons.ReductionOneDelay = 2 * time.Second
	w.Cons.WaitForStepDelay = 2 * time.Second
	for i := 0; i < N; i++ {
		w.Allocs = append(w.Allocs, sim.Alloc{Key: i, State: state.Verified, Balance: dna(10000), Stake: dna(1000)})
	}
	a := w.NewNode(0)
	if a.BootErr != nil {
		fatal("boot: %v", a.BootErr)
	}
	for i := 0; i < N; i++ {
		tx := w.Tx(sim.TxSpec{From: i, Type: types.OnlineStatusTx, MaxFee: dna(100), Nonce: 1, Payload: attachments.CreateOnlineStatusAttachment(true)})
		if err := a.Pool.AddExternalTxs(validation.InboundTx, tx); err != nil {
			fatal("online tx refused: %v", err)
		}
	}
	for h := 2; h <= 5; h++ {
		delay := int64(20)
		if h == 2 {
			delay = 1667260800 // block 2 is stamped 2022-11-01: loop() refuses to mine before 2022-10-19
		}
		blk := a.Propose(delay)
		if err := a.Add(sim.Encode(blk)); err != nil {
			fatal("world block %d refused: %v", h, err)
		}
	}
	if a.App.ValidatorsCache.OnlineSize() != N || a.App.ValidatorsCache.ValidatorsSize() != N {
		fatal("world: %d online, %d validators, want %d", a.App.ValidatorsCache.OnlineSize(), a.App.ValidatorsCache.ValidatorsSize(), N)
	}
	b := &base{w: w, N: N, maxSteps: maxSteps, snaps: map[int]*snap{}}
	secs := make([]*secstore.SecStore, N)
	for i := range secs {
		secs[i] = secstore.NewSecStore()
		secs[i].AddKey(crypto.FromECDSA(w.Keys[i]))
	}
	for it := 0; it < 600 && len(b.snaps) < N+1; it++ {
		head := a.Chain.Head
		data := append(head.Seed().Bytes(), common.ToBytes(blockchain.ProposerRole)...)
		data = append(data, common.ToBytes(head.Height()+1)...)
		thr := new(big.Float).SetFloat64(a.App.State.VrfProposerThreshold())
		type pq struct {
			key int
			q   *big.Float
		}
		var ps []pq
		var non []int
		for i := 0; i < N; i++ {
			hash, _ := secs[i].VrfEvaluate(data)
			q := common.HashToFloat(hash, 1)
			if q.Cmp(thr) >= 0 {
				ps = append(ps, pq{i, q})
			} else {
				non = append(non, i)
			}
		}
		if _, ok := b.snaps[len(ps)]; !ok {
			sort.Slice(ps, func(i, j int) bool { return ps[i].q.Cmp(ps[j].q) < 0 })
			order := append([]int{}, non...)
			for _, p := range ps {
				order = append(order, p.key)
			}
			b.snaps[len(ps)] = &snap{db: sim.CopyDB(a.DB), height: head.Height(), order: order, k: len(ps)}
		}
		blk := a.Chain.GenerateEmptyBlock()
		if err := a.Add(sim.Encode(blk)); err != nil {
			fatal("world empty block refused: %v", err)
		}
	}
	for _, s := range secs {
		s.Destroy()
	}
	a.Close()
	if len(b.snaps) < N+1 {
		fatal("world: no head found for every number of proposers (found %d of %d classes)", len(b.snaps), N+1)
	}
	return b
}

// ---------------------------------------------------------------------------------------------
// one node

type col struct {
	collector.StatsCollector
	b *bnode
}

type bnode struct {
	id            int // model id, 1-based
	r             *rig
	n             *sim.Node
	props         *pengings.Proposals
	votes         *pengings.Votes
	h             *protocol.IdenaGossipHandler
	eng           *consensus.Engine
	peers         map[int]*protocol.VerifPeer   // peers[j]: the peer object that stands for node j at this handler
	outbox        map[int][]protocol.VerifFrame // frames this node queued for node j, not delivered yet
	rt            *nodeRt
	addr          common.Address
	seen          map[common.Hash128]bool // own announcements already reported
	state         string                  // idle | sortwait | blockpoll | countpoll | getblock | done
	curStep       int                     // step of the last vote-count poll
	lastCount     int                     // number of Count events so far
	votedR1       bool
	pastSort      bool
	lastPark      time.Duration
	phaseReleases int // polls released in the wait the node is in (deliveries stop before the wait's last sleep)
}

func (c *col) SubmitVoteCountingStepResult(round uint64, step uint8, votesByBlock map[common.Hash]map[common.Address]*types.Vote, necessaryVotesCount, checkedRoundVotes int) {
	c.b.curStep = int(step)
}

func (c *col) SubmitVoteCountingResult(round uint64, step uint8, vals *validators.StepValidators, hash common.Hash, cert *types.FullBlockCert, err error) {
	b := c.b
	b.observe() // the votes cast before this count returned
	res := -1
	voters := []int{}
	if err == nil {
		res = b.r.code(hash)
		if cert != nil {
			for _, v := range cert.Votes {
				voters = append(voters, b.r.idOf(v.VoterAddr()))
			}
		}
	}
	sort.Ints(voters)
	b.lastCount++
	b.r.emit(tr.M{"ev": "Count", "n": b.id, "s": int(step), "res": res, "cert": voters, "cur": btoi(round == b.r.round)})
}

// AddBlock starts: whatever the node voted before it adds the block is reported first (the vote pool of the
// round is dropped right after the block).
func (c *col) EnableCollecting() {
	c.StatsCollector.EnableCollecting()
	c.b.observe()
}

func (c *col) SubmitProofProposal(round uint64, hash common.Hash, proposerPubKey []byte, modifier int) {
}
func (c *col) SubmitBlockProposal(proposal *types.BlockProposal, receivingTime time.Time) {}

func btoi(b bool) int {
	if b {
		return 1
	}
	return 0
}

// observe drains the node's send queues into the per-link outboxes and reports the node's own new
// votes and proposals (what it announced to its peers).
func (b *bnode) observe() {
	var newVotes []*types.Vote
	for j, vp := range b.peers {
		for _, f := range vp.TakeFrames() {
			b.outbox[j] = append(b.outbox[j], f)
			if f.Code != protocol.BatchPush || b.seen[f.Hash] {
				continue
			}
			switch f.Kind {
			case protocol.VerifPushVote:
				if v := b.h.VerifVoteEntry(f.Hash); v != nil && v.VoterAddr() == b.addr {
					b.seen[f.Hash] = true
					newVotes = append(newVotes, v)
				}
			case protocol.VerifPushBlock:
				if p := b.h.VerifBlockEntry(f.Hash); p != nil && p.Block != nil && p.Block.Header.ProposedHeader != nil &&
					bytes.Equal(p.Block.Header.ProposedHeader.ProposerPubKey, b.n.Sec.GetPubKey()) && p.Block.Height() == b.r.round {
					b.seen[f.Hash] = true
					if _, dup := b.r.blockOf[b.id]; !dup {
						b.r.blockOf[b.id] = p.Block.Hash()
						b.r.codes[p.Block.Hash()] = b.id
						b.r.block128[b.id] = f.Hash
						_, err := b.props.GetBlockByHash(b.r.round, p.Block.Hash())
						b.r.emit(tr.M{"ev": "Proposed", "n": b.id, "stored": btoi(err == nil)})
					}
				}
			case protocol.VerifPushProof:
				if p := b.h.VerifProofEntry(f.Hash); p != nil && p.Round == b.r.round {
					if pk, err := types.ProofProposalPubKey(p); err == nil && bytes.Equal(pk, b.n.Sec.GetPubKey()) {
						b.seen[f.Hash] = true
						if _, dup := b.r.proof128[b.id]; !dup {
							b.r.proof128[b.id] = f.Hash
						}
					}
				}
			}
		}
	}
	sort.Slice(newVotes, func(i, j int) bool { return stepOrd(newVotes[i].Header.Step) < stepOrd(newVotes[j].Header.Step) })
	for _, v := range newVotes {
		if v.Header.Round != b.r.round {
			continue // the node is already in the next round
		}
		pooled := false
		if m := b.votes.GetVotesOfRound(b.r.round); m != nil {
			_, pooled = m.Load(v.Hash())
		}
		if v.Header.Step == types.ReductionOne {
			b.votedR1 = true
		}
		key := voteKey{b.id, int(v.Header.Step), b.r.code(v.Header.VotedHash)}
		b.r.vote128[key] = v.Hash128()
		b.r.emit(tr.M{"ev": "Vote", "n": b.id, "s": int(v.Header.Step), "v": b.r.code(v.Header.VotedHash), "pooled": btoi(pooled),
			"parent": btoi(v.Header.ParentHash == b.r.head.Hash())})
	}
}

// program order of the steps of one round
func stepOrd(s uint8) int {
	switch s {
	case types.ReductionOne:
		return -2
	case types.ReductionTwo:
		return -1
	case types.Final:
		return 1000
	}
	return int(s)
}

// ---------------------------------------------------------------------------------------------
// one case: N nodes + a witness on the same head

type voteKey struct{ w, s, v int }

type rig struct {
	bs        *base
	sn        *snap
	nodes     []*bnode // index id-1
	witness   *sim.Node
	round     uint64
	head      *types.Header
	empty     common.Hash
	codes     map[common.Hash]int // block hash -> value code (0 empty, p = block of proposer p)
	blockOf   map[int]common.Hash
	block128  map[int]common.Hash128
	proof128  map[int]common.Hash128
	vote128   map[voteKey]common.Hash128
	ids       map[common.Address]int
	badProp   map[int]badProposal
	byz       map[int]bool
	out       *tr.W
	caseId    int
	forgedSeq int
	T, TF     int
}

func (r *rig) emit(m tr.M) {
	m["c"] = r.caseId
	r.out.Emit(m)
}

func (r *rig) code(h common.Hash) int {
	if h == (common.Hash{}) {
		return -1
	}
	if c, ok := r.codes[h]; ok {
		return c
	}
	return 99
}

func (r *rig) idOf(a common.Address) int {
	if id, ok := r.ids[a]; ok {
		return id
	}
	return 0 // nobody of the committee
}

var debugParks = os.Getenv("BA_DEBUG") != ""

var epoch int64 // case counter, read by the tracker hook

func (bs *base) newRig(k int, out *tr.W, caseId int) *rig {
	sn := bs.snaps[k]
	w := bs.w
	w.Use()
	r := &rig{bs: bs, sn: sn, out: out, caseId: caseId, codes: map[common.Hash]int{}, blockOf: map[int]common.Hash{}, block128: map[int]common.Hash128{},
		proof128: map[int]common.Hash128{}, vote128: map[voteKey]common.Hash128{}, ids: map[common.Address]int{}, badProp: map[int]badProposal{}, byz: map[int]bool{}}
	boot := func(key int) *sim.Node {
		n := w.Boot(key, sim.CopyDB(sn.db), nil)
		if n.BootErr != nil {
			fatal("case boot: %v", n.BootErr)
		}
		n.Cfg.IpfsConf = &config.IpfsConfig{}
		n.Cfg.Blockchain.StoreCertRange = config.DefaultStoreCertRange
		return n
	}
	r.witness = boot(bs.N)
	r.head = r.witness.Chain.Head
	r.round = r.head.Height() + 1
	r.empty = r.witness.Chain.GenerateEmptyBlock().Hash()
	r.codes[r.empty] = 0
	r.T = r.witness.Chain.GetCommitteeVotesThreshold(r.witness.App.ValidatorsCache, false)
	r.TF = r.witness.Chain.GetCommitteeVotesThreshold(r.witness.App.ValidatorsCache, true)
	// the engines' clock: every node starts MinBlockDistance after the head's timestamp
	clk.mu.Lock()
	clk.base = time.Unix(r.head.Time(), 0).Add(30 * time.Second)
	clk.hElapsed = 0
	clk.mu.Unlock()
	verifclock.Set(clk)
	for id := 1; id <= bs.N; id++ {
		n := boot(sn.order[id-1])
		b := &bnode{id: id, r: r, n: n, peers: map[int]*protocol.VerifPeer{}, outbox: map[int][]protocol.VerifFrame{}, seen: map[common.Hash128]bool{},
			state: "idle", addr: n.Sec.GetAddress()}
		c := &col{StatsCollector: collector.NewStatsCollector(), b: b}
		b.props, _ = pengings.NewProposals(n.Chain, n.App, n.Offline, n.Upgrader, c)
		b.votes = pengings.NewVotes(n.App, n.Bus, n.Offline, n.Upgrader)
		b.votes.Initialize(n.Chain.Head)
		keys := mempool.NewKeysPool(n.DB, n.App, n.Bus, n.Sec)
		keys.Initialize(n.Chain.Head)
		fp := flip.NewFlipper(n.DB, n.Ipfs, keys, n.Pool, n.Sec, n.App, n.Bus)
		fp.Initialize()
		b.h = protocol.VerifNewHandler(config.P2P{MaxInboundPeers: 12, MaxOutboundPeers: 6}, n.Chain, b.props, b.votes, n.Pool, fp, n.Bus, keys, "1.1.0", true)
		dl := protocol.NewDownloader(b.h, n.Cfg, n.Chain, n.Ipfs, n.App, nil, n.Bus, n.Sec, c, nil, nil, n.Upgrader)
		b.eng = consensus.NewEngine(n.Chain, b.h, b.props, n.Cfg, n.App, b.votes, n.Pool, n.Sec, dl, n.Offline, n.Upgrader, n.Ipfs, n.Bus, c)
		r.ids[b.addr] = id
		r.nodes = append(r.nodes, b)
	}
	for _, b := range r.nodes {
		for _, o := range r.nodes {
			if o.id != b.id {
				b.peers[o.id] = b.h.VerifNewPeer(fmt.Sprintf("n%d", o.id))
			}
		}
	}
	// the real sortition has to be the one the snapshot was chosen for
	for _, b := range r.nodes {
		is, _ := b.n.Chain.GetProposerSortition()
		if is != (b.id > bs.N-sn.k) {
			fatal("sortition of node %d differs from the precomputed one", b.id)
		}
	}
	return r
}

func (r *rig) close() {
	for _, b := range r.nodes {
		b.kill()
		b.n.Close()
	}
	r.witness.Close()
}

// ---------------------------------------------------------------------------------------------
// running a node

const watchdog = 180 * time.Second

func (b *bnode) launch() {
	rt := &nodeRt{parked: make(chan parkInfo, 1), wake: make(chan struct{}, 1)}
	b.rt = rt
	go func() {
		g := goid()
		clk.mu.Lock()
		clk.byG[g] = rt
		clk.mu.Unlock()
		defer func() {
			if e := recover(); e != nil {
				rt.panicked = fmt.Sprintf("%v\n%s", e, debug.Stack())
			}
			clk.mu.Lock()
			delete(clk.byG, g)
			clk.mu.Unlock()
			rt.parked <- parkInfo{exit: true}
		}()
		b.eng.VerifRunLoop()
	}()
}

// waitPark blocks until the node's goroutine sleeps again (or ended) and classifies where it is.
func (b *bnode) waitPark() {
	var p parkInfo
	for {
		select {
		case p = <-b.rt.parked:
		case <-time.After(watchdog):
			fatal("node %d did not reach a clock call within %v (process=%q)", b.id, watchdog, b.eng.VerifProcess())
		}
		if !p.exit && p.d == 2*time.Second {
			// nextBlockDetector.nextBlockExist waits for a block that a peer may have (somebody sent a vote of a
			// later round): nobody answers, its timer fires
			b.rt.wake <- struct{}{}
			continue
		}
		break
	}
	b.observe()
	r := b.r
	if p.exit {
		if b.rt.panicked != "" && b.state != "done" {
			r.emit(tr.M{"ev": "End", "n": b.id, "kind": "panic", "what": firstLines(b.rt.panicked, 14)})
			fmt.Fprintf(os.Stderr, "PANIC in engine goroutine of node %d:\n%s\n", b.id, b.rt.panicked)
		}
		b.state = "done"
		b.rt = nil
		return
	}
	b.lastPark = p.d
	if debugParks {
		fmt.Fprintf(os.Stderr, "node %d parked %v process=%q\n", b.id, p.d, b.eng.VerifProcess())
	}
	if b.n.Chain.Head.Height() >= r.round {
		r.commitEvent(b)
		b.state = "done"
		return
	}
	switch {
	case p.d == 500*time.Millisecond:
		b.state = "countpoll"
	case p.d == 100*time.Millisecond:
		if b.votedR1 {
			b.state = "getblock"
		} else {
			b.state = "blockpoll"
		}
	case p.d == 10*time.Second:
		if b.pastSort {
			// back at the top of loop() without a new head: the round ended without a block
			kind := "noconsensus"
			if b.state == "getblock" {
				kind = "notfound"
			}
			r.emit(tr.M{"ev": "End", "n": b.id, "kind": kind})
			b.state = "done"
			return
		}
		b.state = "sortwait"
	default:
		fatal("node %d sleeps %v in %q: a wait the driver does not know", b.id, p.d, b.eng.VerifProcess())
	}
}

func firstLines(s string, n int) string {
	lines := bytes.Split([]byte(s), []byte("\n"))
	if len(lines) > n {
		lines = lines[:n]
	}
	return string(bytes.Join(lines, []byte("\n")))
}

func (b *bnode) release() {
	st, cnt, r1 := b.state, b.lastCount, b.votedR1
	b.rt.wake <- struct{}{}
	b.waitPark()
	if b.state == st && b.lastCount == cnt && b.votedR1 == r1 {
		b.phaseReleases++
	} else {
		b.phaseReleases = 0
	}
}

// late: the node may be in the last sleep of a wait (a poll loop does not look again after its last sleep, so
// what arrives then arrives after the time-out).  The driver does not deliver in that window.
func (b *bnode) late() bool {
	return (b.state == "countpoll" || b.state == "blockpoll") && b.phaseReleases >= 2
}

func (b *bnode) kill() {
	if b.rt == nil {
		return
	}
	b.rt.killed = true
	b.rt.wake <- struct{}{}
	select {
	case <-b.rt.parked:
	case <-time.After(watchdog):
		fatal("node %d did not exit", b.id)
	}
	b.rt = nil
}

func (b *bnode) alive() bool { return b.rt != nil && b.state != "done" && b.state != "idle" }

// commitEvent reads what the node committed from its own chain and has the certificate judged by the witness.
func (r *rig) commitEvent(b *bnode) {
	head := b.n.Chain.Head
	hash := head.Hash()
	m := tr.M{"ev": "Commit", "n": b.id, "v": r.code(hash), "h": btoi(head.Height() == r.round)}
	final := database.NewRepo(b.n.DB).VerifHasFinalConsensus(hash)
	m["final"] = btoi(final)
	prop := 0
	if head.ProposedHeader != nil {
		if a, err := crypto.PubKeyBytesToAddress(head.ProposedHeader.ProposerPubKey); err == nil {
			prop = r.idOf(a)
		}
	}
	m["proposer"] = prop
	cert := b.n.Chain.GetCertificate(hash)
	cm := tr.M{"s": 0, "v": -1, "round": 0, "voters": []int{}, "sigs": 0, "present": 0, "appr": []int{}, "req": 0}
	accO, accS := 0, 0
	if cert != nil {
		cm["present"] = 1
		cm["s"] = int(cert.Step)
		cm["v"] = r.code(cert.VotedHash)
		cm["round"] = btoi(cert.Round == r.round)
		cm["sigs"] = len(cert.Signatures)
		voters := []int{}
		for _, s := range cert.Signatures {
			v := types.Vote{Header: &types.VoteHeader{Round: cert.Round, Step: cert.Step, ParentHash: r.head.Hash(), VotedHash: cert.VotedHash,
				TurnOffline: s.TurnOffline, Upgrade: s.Upgrade}, Signature: s.Signature}
			voters = append(voters, r.idOf(v.VoterAddr()))
		}
		sort.Ints(voters)
		cm["voters"] = voters
		// the validator view the certificate has to satisfy: the committee of its step as a node on the previous head
		// derives it (real GetOnlineValidators / thresholds of the witness)
		wvc := r.witness.App.ValidatorsCache
		if sv := wvc.GetOnlineValidators(r.head.Seed(), r.round, cert.Step, r.witness.Chain.GetCommitteeSize(wvc, cert.Step == types.Final)); sv != nil {
			appr := []int{}
			for a, id := range r.ids {
				if sv.Approved(a) {
					appr = append(appr, id)
				}
			}
			sort.Ints(appr)
			cm["appr"] = appr
			cm["req"] = r.witness.Chain.GetCommitteeVotesThreshold(wvc, cert.Step == types.Final) - sv.VotesCountSubtrahend(r.witness.Cfg.Consensus.AgreementThreshold)
		}
		// through the wire codec, judged by a node that took no part in the round
		wire := new(types.BlockCert)
		if data, err := cert.ToBytes(); err == nil && wire.FromBytes(data) == nil {
			if r.witness.Chain.ValidateBlockCertOnHead(head, wire) == nil && !wire.Empty() {
				accO = 1
			}
		}
		// and by another participant that is still on the previous head
		for _, o := range r.nodes {
			if o.id != b.id && o.n.Chain.Head.Hash() == r.head.Hash() {
				if o.n.Chain.ValidateBlockCertOnHead(head, cert) == nil && !cert.Empty() {
					accS = 1
				} else {
					accS = -1
				}
				break
			}
		}
	}
	m["cert"] = cm
	m["accW"] = accO
	m["accP"] = accS
	r.emit(m)
}

// ---------------------------------------------------------------------------------------------
// network

func takeFrame(box *[]protocol.VerifFrame, code uint64, kind uint8, hash common.Hash128) *protocol.VerifFrame {
	for i, f := range *box {
		if f.Code == code && f.Kind == kind && f.Hash == hash {
			*box = append((*box)[:i:i], (*box)[i+1:]...)
			return &f
		}
	}
	return nil
}

func entryCode(kind uint8) uint64 {
	switch kind {
	case protocol.VerifPushVote:
		return protocol.Vote
	case protocol.VerifPushBlock:
		return protocol.ProposeBlock
	}
	return protocol.ProposeProof
}

// transfer moves one gossip item from node a to node b with the three real frames of the push/pull
// exchange.  It returns "" or the reason why the exchange stopped.
func (r *rig) transfer(a, b *bnode, kind uint8, hash common.Hash128) string {
	abox := a.outbox[b.id]
	push := takeFrame(&abox, protocol.BatchPush, kind, hash)
	a.outbox[b.id] = abox
	if push == nil {
		return "no-announcement"
	}
	if err := b.peers[a.id].HandleFrame(push.Frame); err != nil {
		return "push-refused:" + err.Error()
	}
	b.h.VerifPumpPulls()
	b.observe()
	bbox := b.outbox[a.id]
	pull := takeFrame(&bbox, protocol.Pull, kind, hash)
	b.outbox[a.id] = bbox
	if pull == nil {
		return "not-pulled"
	}
	if err := a.peers[b.id].HandleFrame(pull.Frame); err != nil {
		return "pull-refused:" + err.Error()
	}
	a.observe()
	abox = a.outbox[b.id]
	ent := takeFrame(&abox, entryCode(kind), kind, hash)
	a.outbox[b.id] = abox
	if ent == nil {
		return "no-entry"
	}
	if err := b.peers[a.id].HandleFrame(ent.Frame); err != nil {
		return "entry-refused:" + err.Error()
	}
	b.observe()
	return ""
}

// source picks a node that has announced the item to `to` and not been asked yet: the originator when
// possible, otherwise a relay.
func (r *rig) source(to *bnode, origin int, kind uint8, hash common.Hash128, rng *rand.Rand) *bnode {
	var cands []*bnode
	for _, a := range r.nodes {
		if a.id == to.id {
			continue
		}
		for _, f := range a.outbox[to.id] {
			if f.Code == protocol.BatchPush && f.Kind == kind && f.Hash == hash {
				if a.id == origin && rng == nil {
					return a
				}
				cands = append(cands, a)
				break
			}
		}
	}
	if len(cands) == 0 {
		return nil
	}
	if rng != nil {
		return cands[rng.Intn(len(cands))]
	}
	return cands[0]
}

func (r *rig) hasVote(b *bnode, hash common.Hash) bool {
	if m := b.votes.GetVotesOfRound(r.round); m != nil {
		_, ok := m.Load(hash)
		return ok
	}
	return false
}

func (r *rig) bestOf(b *bnode) int {
	pk := b.props.GetProposerPubKey(r.round)
	if pk == nil {
		return 0
	}
	a, err := crypto.PubKeyBytesToAddress(pk)
	if err != nil {
		return 99
	}
	return r.idOf(a)
}

func (r *rig) deliverProposal(kind string, p int, to *bnode, rng *rand.Rand) {
	k, h, ok := protocol.VerifPushProof, r.proof128[p], false
	if kind == "block" {
		k = protocol.VerifPushBlock
		h, ok = r.block128[p]
	} else {
		_, ok = r.proof128[p]
	}
	m := tr.M{"ev": "Deliver", "t": kind, "n": to.id, "p": p, "w": 0, "s": 0, "v": 0, "forged": ""}
	if to.late() {
		m["ev"], m["why"] = "Skip", "late"
		r.emit(m)
		return
	}
	if !ok {
		m["ev"], m["why"] = "Skip", "not-sent"
		r.emit(m)
		return
	}
	src := r.source(to, p, k, h, rng)
	if src == nil {
		m["ev"], m["why"] = "Skip", "no-announcement"
		r.emit(m)
		return
	}
	why := r.transfer(src, to, k, h)
	m["from"] = src.id
	m["why"] = why
	m["best"] = r.bestOf(to)
	stored := false
	if bh, okb := r.blockOf[p]; okb {
		_, err := to.props.GetBlockByHash(r.round, bh)
		stored = err == nil
	}
	m["stored"] = btoi(stored)
	if why == "not-pulled" {
		return // a second announcement of something the node has (or has asked for) already
	}
	if why != "" {
		m["ev"] = "Skip"
	}
	r.emit(m)
}

func (r *rig) deliverVote(key voteKey, to *bnode, rng *rand.Rand) {
	m := tr.M{"ev": "Deliver", "t": "vote", "n": to.id, "p": 0, "w": key.w, "s": key.s, "v": key.v, "forged": ""}
	if to.late() {
		m["ev"], m["why"] = "Skip", "late"
		r.emit(m)
		return
	}
	if r.byz[key.w] {
		r.byzVote(key, to)
		return
	}
	h, ok := r.vote128[key]
	if !ok {
		m["ev"], m["why"] = "Skip", "not-cast"
		r.emit(m)
		return
	}
	src := r.source(to, key.w, protocol.VerifPushVote, h, rng)
	if src == nil {
		m["ev"], m["why"] = "Skip", "no-announcement"
		r.emit(m)
		return
	}
	v := src.h.VerifVoteEntry(h)
	why := r.transfer(src, to, protocol.VerifPushVote, h)
	m["from"] = src.id
	m["why"] = why
	m["acc"] = btoi(v != nil && r.hasVote(to, v.Hash()))
	if why == "not-pulled" {
		return // a second announcement of a vote the node has (or has asked for) already
	}
	if why != "" {
		m["ev"] = "Skip"
	}
	r.emit(m)
}

// byzVote: a member that does not run the protocol signs a vote of this round and head for whatever the schedule
// wants and shows it to `to` (a genuine vote of a committee member: it counts; showing other nodes another vote of the
// same step is equivocation).
func (r *rig) byzVote(key voteKey, to *bnode) {
	m := tr.M{"ev": "Deliver", "t": "vote", "n": to.id, "p": 0, "w": key.w, "s": key.s, "v": key.v, "forged": "", "from": key.w, "why": "", "acc": 0}
	hash := r.empty
	if key.v != 0 {
		bh, ok := r.blockOf[key.v]
		if !ok {
			m["ev"], m["why"] = "Skip", "no-block"
			r.emit(m)
			return
		}
		hash = bh
	}
	if to.late() || to.id == key.w {
		m["ev"], m["why"] = "Skip", "late"
		r.emit(m)
		return
	}
	vote := &types.Vote{Header: &types.VoteHeader{Round: r.round, Step: uint8(key.s), ParentHash: r.head.Hash(), VotedHash: hash}}
	sh := crypto.SignatureHash(vote)
	sig, err := crypto.Sign(sh[:], r.bs.w.Keys[r.sn.order[key.w-1]])
	if err != nil {
		fatal("sign: %v", err)
	}
	vote.Signature = sig
	if err := to.peers[key.w].HandleFrame(protocol.VerifMakeVoteFrame(vote)); err != nil {
		m["why"] = err.Error()
	}
	to.observe()
	wire := new(types.Vote)
	data, _ := vote.ToBytes()
	wire.FromBytes(data)
	m["acc"] = btoi(r.hasVote(to, wire.Hash()))
	r.emit(m)
}

// forgedVote injects a vote no honest node cast: signed by a committee member's real key (or by a
// stranger) over a header that must never count in this round's tally.
func (r *rig) forgedVote(kind string, w, s, v int, to *bnode) {
	hash := r.empty
	if v != 0 {
		bh, ok := r.blockOf[v]
		if !ok {
			r.emit(tr.M{"ev": "Skip", "t": "vote", "n": to.id, "p": 0, "w": w, "s": s, "v": v, "forged": kind, "why": "no-block"})
			return
		}
		hash = bh
	}
	hdr := &types.VoteHeader{Round: r.round, Step: uint8(s), ParentHash: r.head.Hash(), VotedHash: hash}
	keyIdx := r.sn.order[w-1]
	switch kind {
	case "round":
		hdr.Round = r.round - 1
	case "future":
		hdr.Round = r.round + 1
	case "parent":
		hdr.ParentHash = r.head.ParentHash()
	case "stranger":
		keyIdx = r.bs.N
	case "dupflag":
		// a second, differently flagged signature of a member over a vote the node already holds: one voter, not two
		hdr.Upgrade = 7
	}
	r.forgedSeq++
	hdr.TurnOffline = false
	vote := &types.Vote{Header: hdr}
	sh := crypto.SignatureHash(vote)
	sig, err := crypto.Sign(sh[:], r.bs.w.Keys[keyIdx])
	if err != nil {
		fatal("sign: %v", err)
	}
	vote.Signature = sig
	// it arrives from some peer as a plain Vote frame (what a pull answer looks like)
	from := 1
	if to.id == 1 {
		from = 2
	}
	frame := protocol.VerifMakeVoteFrame(vote)
	err = to.peers[from].HandleFrame(frame)
	to.observe()
	m := tr.M{"ev": "Deliver", "t": "vote", "n": to.id, "p": 0, "w": w, "s": s, "v": v, "forged": kind, "from": from, "why": "", "acc": 0}
	if err != nil {
		m["why"] = err.Error()
	}
	wire := new(types.Vote)
	data, _ := vote.ToBytes()
	wire.FromBytes(data)
	if mm := to.votes.GetVotesOfRound(hdr.Round); mm != nil {
		if _, ok := mm.Load(wire.Hash()); ok {
			m["acc"] = 1
		}
	}
	r.emit(m)
}

// ineligibleProposal: node x, whose sortition did NOT pass, proposes anyway - a real block built by its own chain, the
// real VRF proof of its key (below the threshold), real signatures - and the proposal reaches node `to`.  Nothing of it
// may be kept: a block of a non-proposer must never become a candidate.
func (r *rig) ineligibleProposal(x, to *bnode) {
	if x.id == to.id || x.id > r.bs.N-r.sn.k {
		return
	}
	bp, ok := r.badProp[x.id]
	if !ok {
		data := append(r.head.Seed().Bytes(), common.ToBytes(blockchain.ProposerRole)...)
		data = append(data, common.ToBytes(r.round)...)
		_, proof := x.n.Sec.VrfEvaluate(data)
		bp.block = x.n.Chain.ProposeBlock(proof)
		bp.proof = &types.ProofProposal{Proof: proof, Round: r.round}
		h := crypto.SignatureHash(bp.proof)
		bp.proof.Signature = x.n.Sec.Sign(h[:])
		r.badProp[x.id] = bp
		r.codes[bp.block.Hash()] = x.id
	}
	m := tr.M{"ev": "Deliver", "t": "block", "n": to.id, "p": x.id, "w": 0, "s": 0, "v": 0, "forged": "ineligible", "from": x.id, "why": ""}
	if err := to.peers[x.id].HandleFrame(protocol.VerifMakeProofProposalFrame(bp.proof)); err != nil {
		m["why"] = err.Error()
	}
	if err := to.peers[x.id].HandleFrame(protocol.VerifMakeBlockProposalFrame(bp.block)); err != nil {
		m["why"] = err.Error()
	}
	to.observe()
	_, err := to.props.GetBlockByHash(r.round, bp.block.Hash())
	m["stored"] = btoi(err == nil)
	m["best"] = r.bestOf(to)
	r.emit(m)
}

type badProposal struct {
	block *types.BlockProposal
	proof *types.ProofProposal
}

// fetch: the node asked its peers for a block by hash (getBlockByHash); `from` answers if it has it.
func (r *rig) fetch(b *bnode, from *bnode) {
	m := tr.M{"ev": "Fetch", "n": b.id, "from": from.id, "got": 0}
	box := b.outbox[from.id]
	var req *protocol.VerifFrame
	for i, f := range box {
		if f.Code == protocol.GetBlockByHash {
			req = &f
			b.outbox[from.id] = append(box[:i:i], box[i+1:]...)
			break
		}
	}
	if req == nil {
		m["ev"], m["why"] = "Skip", "no-request"
		r.emit(m)
		return
	}
	if err := from.peers[b.id].HandleFrame(req.Frame); err != nil {
		m["why"] = err.Error()
	}
	from.observe()
	fbox := from.outbox[b.id]
	for i, f := range fbox {
		if f.Code == protocol.Block {
			from.outbox[b.id] = append(fbox[:i:i], fbox[i+1:]...)
			if err := b.peers[from.id].HandleFrame(f.Frame); err == nil {
				m["got"] = 1
			}
			break
		}
	}
	b.observe()
	r.emit(m)
}

// ---------------------------------------------------------------------------------------------
// schedules

type act struct {
	A string `json:"a"`
	N int    `json:"n"`
	T string `json:"t,omitempty"` // Deliver: proof | block | vote
	P int    `json:"p,omitempty"`
	W int    `json:"w,omitempty"`
	S int    `json:"s,omitempty"`
	V int    `json:"v"`
	F string `json:"f,omitempty"` // forged kind
	M int    `json:"m,omitempty"` // Fetch: answering node
}

type tcase struct {
	N        int    `json:"n"`
	K        int    `json:"k"`
	MaxSteps int    `json:"maxsteps"`
	Src      string `json:"src"`
	Kind     string `json:"kind"`
	Sched    []act  `json:"sched"`
	Random   int64  `json:"random"` // != 0: generate the schedule with this seed while running
	Drain    string `json:"drain"`  // after the schedule: "timeout" (default) | "sync"
	Byz      []int  `json:"byz"`    // members that never run: the harness signs whatever votes the schedule wants with their keys
}

const maxReleases = 64

func (r *rig) node(id int) *bnode {
	if id < 1 || id > len(r.nodes) {
		fatal("schedule names node %d", id)
	}
	return r.nodes[id-1]
}

func (r *rig) start(b *bnode) {
	if b.state != "idle" || r.byz[b.id] {
		return
	}
	r.emit(tr.M{"ev": "Start", "n": b.id})
	b.launch()
	b.waitPark()
}

func (r *rig) sortDone(b *bnode) {
	if b.state != "sortwait" {
		return
	}
	r.emit(tr.M{"ev": "SortDone", "n": b.id, "sel": r.bestOf(b)})
	b.pastSort = true
	b.release()
}

// timeoutPhase releases the node's polls, delivering nothing, until the wait it is in has ended.
func (r *rig) timeoutPhase(b *bnode) {
	st, cnt := b.state, b.lastCount
	for i := 0; i < maxReleases && b.alive() && b.state == st && b.lastCount == cnt; i++ {
		b.release()
	}
}

func (r *rig) apply(a act, rng *rand.Rand) {
	b := r.node(a.N)
	switch a.A {
	case "Start":
		r.start(b)
	case "Deliver":
		if a.F != "" {
			r.forgedVote(a.F, a.W, a.S, a.V, b)
		} else if a.T == "vote" {
			r.deliverVote(voteKey{a.W, a.S, a.V}, b, rng)
		} else {
			r.deliverProposal(a.T, a.P, b, rng)
		}
	case "SortDone":
		r.sortDone(b)
	case "GotBlock":
		if b.state == "blockpoll" {
			b.release()
		}
	case "BlockTimeout":
		if b.state == "blockpoll" {
			r.timeoutPhase(b)
		}
	case "CountOK", "Poll":
		if b.state == "countpoll" {
			b.release()
		}
	case "CountTimeout":
		if b.state == "countpoll" {
			r.timeoutPhase(b)
		}
	case "Fetch":
		if b.state == "getblock" {
			r.fetch(b, r.node(a.M))
			b.release()
		}
	case "FetchTimeout":
		if b.state == "getblock" {
			r.timeoutPhase(b)
		}
	case "Cast", "Commit", "End", "ByzVote":
		// performed by the node itself (an equivocator's vote is signed when it is delivered)
	default:
		fatal("unknown schedule action %q", a.A)
	}
}

// drain ends the case: every node still running times out of every wait (nothing more is delivered).
func (r *rig) drain() {
	for round := 0; round < 400; round++ {
		busy := false
		for _, b := range r.nodes {
			switch {
			case r.byz[b.id]:
			case b.state == "idle":
				r.start(b)
				busy = true
			case !b.alive():
			case b.state == "sortwait":
				r.sortDone(b)
				busy = true
			default:
				r.timeoutPhase(b)
				busy = true
			}
		}
		if !busy {
			return
		}
	}
	for _, b := range r.nodes {
		if b.alive() {
			r.emit(tr.M{"ev": "End", "n": b.id, "kind": "stuck"})
		}
	}
}

// drainSync ends the case the friendly way: everything that was sent reaches everybody before anybody
// times out.
func (r *rig) drainSync(rng *rand.Rand) {
	for round := 0; round < 400; round++ {
		for _, b := range r.nodes {
			if b.state == "idle" && !r.byz[b.id] {
				r.start(b)
			}
		}
		moved := false
		for _, to := range r.nodes {
			if !to.alive() || to.late() {
				continue
			}
			for _, a := range r.nodes {
				if a.id == to.id {
					continue
				}
				for {
					var f *protocol.VerifFrame
					for _, x := range a.outbox[to.id] {
						if x.Code == protocol.BatchPush {
							x := x
							f = &x
							break
						}
					}
					if f == nil {
						break
					}
					r.deliverFrame(a, to, f)
					moved = true
				}
			}
		}
		for _, b := range r.nodes {
			if !b.alive() {
				continue
			}
			before := b.lastCount
			switch b.state {
			case "sortwait":
				r.sortDone(b)
				moved = true
			case "blockpoll", "countpoll":
				st := b.state
				if b.late() {
					r.timeoutPhase(b)
				} else {
					b.release()
				}
				if b.state != st || b.lastCount != before {
					moved = true
				}
			case "getblock":
				for _, o := range r.nodes {
					if o.id != b.id && o.n.Chain.Head.Height() >= r.round {
						r.fetch(b, o)
						break
					}
				}
				b.release()
				moved = true
			}
		}
		if !moved {
			break
		}
	}
	r.drain()
}

// deliverFrame delivers the item an announcement frame is about, whatever it is.
func (r *rig) deliverFrame(a, to *bnode, f *protocol.VerifFrame) {
	switch f.Kind {
	case protocol.VerifPushVote:
		if v := a.h.VerifVoteEntry(f.Hash); v != nil && v.Header.Round == r.round {
			key := voteKey{r.idOf(v.VoterAddr()), int(v.Header.Step), r.code(v.Header.VotedHash)}
			if h, ok := r.vote128[key]; ok && h == f.Hash {
				r.deliverVote(key, to, nil)
				return
			}
			if r.byz[key.w] && v.Header.ParentHash == r.head.Hash() && key.v >= 0 && key.v != 99 && v.Header.Upgrade == 0 && !to.late() {
				// an equivocator's vote relayed by an honest node that accepted it
				why := r.transfer(a, to, protocol.VerifPushVote, f.Hash)
				if why == "" {
					r.emit(tr.M{"ev": "Deliver", "t": "vote", "n": to.id, "p": 0, "w": key.w, "s": key.s, "v": key.v, "forged": "", "from": a.id,
						"why": "", "acc": btoi(r.hasVote(to, v.Hash()))})
				}
				return
			}
		}
	case protocol.VerifPushBlock:
		for p, h := range r.block128 {
			if h == f.Hash {
				r.deliverProposal("block", p, to, nil)
				return
			}
		}
	case protocol.VerifPushProof:
		for p, h := range r.proof128 {
			if h == f.Hash {
				r.deliverProposal("proof", p, to, nil)
				return
			}
		}
	}
	// something of the next round or unknown: drop the announcement
	box := a.outbox[to.id]
	takeFrame(&box, f.Code, f.Kind, f.Hash)
	a.outbox[to.id] = box
}

// probe: the node counts a step and one more vote for some hash would complete the quorum.  It gets a vote that
// must not count - a member's signature over another round or another parent, a stranger's signature, or a
// second signature of a member whose vote it already holds - and nothing else before its timer fires.
func (r *rig) probe(b *bnode, rng *rand.Rand, kinds []string) bool {
	if b.state != "countpoll" || b.late() {
		return false
	}
	m := b.votes.GetVotesOfRound(r.round)
	if m == nil {
		return false
	}
	by := map[int]map[int]bool{}
	m.Range(func(_, val interface{}) bool {
		vt := val.(*types.Vote)
		id := r.idOf(vt.VoterAddr())
		c := r.code(vt.Header.VotedHash)
		if id != 0 && int(vt.Header.Step) == b.curStep && vt.Header.ParentHash == r.head.Hash() && c >= 0 && c != 99 {
			if by[c] == nil {
				by[c] = map[int]bool{}
			}
			by[c][id] = true
		}
		return true
	})
	need := r.T
	if b.curStep == int(types.Final) {
		need = r.TF
	}
	var vals []int
	for c, set := range by {
		if len(set) == need-1 {
			vals = append(vals, c)
		}
	}
	if len(vals) == 0 {
		return false
	}
	sort.Ints(vals)
	v := vals[rng.Intn(len(vals))]
	var in, outside []int
	for id := 1; id <= len(r.nodes); id++ {
		if id == b.id {
			continue
		}
		if by[v][id] {
			in = append(in, id)
		} else {
			outside = append(outside, id)
		}
	}
	kind := append([]string{"dupflag", "dupflag"}, kinds...)[rng.Intn(len(kinds)+2)]
	if kind == "dupflag" {
		if len(in) == 0 {
			return false
		}
		r.forgedVote(kind, in[rng.Intn(len(in))], b.curStep, v, b)
	} else {
		if len(outside) == 0 {
			return false
		}
		r.forgedVote(kind, outside[rng.Intn(len(outside))], b.curStep, v, b)
	}
	r.timeoutPhase(b)
	return true
}

// ---------------------------------------------------------------------------------------------
// seeded random schedules: asynchronous deliveries to subsets, early and late votes, forged votes

func (r *rig) randomRun(rng *rand.Rand) {
	N := len(r.nodes)
	pDeliver := []float64{0.95, 0.8, 0.6, 0.4}[rng.Intn(4)]
	pForge := []float64{0, 0.05, 0.2}[rng.Intn(3)]
	pTimeout := []float64{0.05, 0.15, 0.4}[rng.Intn(3)]
	late := rng.Intn(3) == 0 // one node starts late
	for _, b := range r.nodes {
		if !(late && b.id == 2) {
			r.start(b)
		}
	}
	forgeKinds := []string{"round", "future", "parent", "stranger"}
	for it := 0; it < 600; it++ {
		var live []*bnode
		for _, b := range r.nodes {
			if (b.alive() || b.state == "idle") && !r.byz[b.id] {
				live = append(live, b)
			}
		}
		if len(live) == 0 {
			break
		}
		b := live[rng.Intn(len(live))]
		if b.state == "idle" {
			if rng.Intn(4) == 0 {
				r.start(b)
			}
			continue
		}
		if b.late() {
			r.timeoutPhase(b)
			continue
		}
		// deliveries to b: every announcement queued for it, each with probability pDeliver
		for _, a := range r.nodes {
			if a.id == b.id {
				continue
			}
			var pushes []protocol.VerifFrame
			for _, f := range a.outbox[b.id] {
				if f.Code == protocol.BatchPush {
					pushes = append(pushes, f)
				}
			}
			for _, f := range pushes {
				f := f
				if rng.Float64() < pDeliver {
					r.deliverFrame(a, b, &f)
				}
			}
		}
		if len(r.byz) > 0 && rng.Intn(3) == 0 {
			// the equivocator shows this node a vote of the step it counts (or will count first), for any candidate
			z := 0
			for id := range r.byz {
				z = id
			}
			s := int(types.ReductionOne)
			if b.state == "countpoll" && b.curStep != 0 {
				s = b.curStep
			}
			v := 0
			if rng.Intn(2) == 0 {
				for p := 1; p <= N; p++ {
					if _, ok := r.blockOf[p]; ok && rng.Intn(2) == 0 {
						v = p
					}
				}
			}
			r.byzVote(voteKey{z, s, v}, b)
		}
		if rng.Float64() < pForge && (b.state == "sortwait" || b.state == "blockpoll") {
			r.ineligibleProposal(r.nodes[rng.Intn(N)], b)
		}
		if rng.Float64() < pForge {
			if r.probe(b, rng, forgeKinds) {
				continue
			}
			// noise: a forged vote that completes nothing
			w := 1 + rng.Intn(N)
			v := 0
			if len(r.blockOf) > 0 && rng.Intn(2) == 0 {
				for p := 1; p <= N; p++ {
					if _, ok := r.blockOf[p]; ok {
						v = p
					}
				}
			}
			s := b.curStep
			if s == 0 || b.state != "countpoll" {
				s = int(types.ReductionOne)
			}
			if w != b.id {
				r.forgedVote(forgeKinds[rng.Intn(len(forgeKinds))], w, s, v, b)
			}
		}
		switch b.state {
		case "sortwait":
			r.sortDone(b)
		case "blockpoll", "countpoll":
			if rng.Float64() < pTimeout {
				r.timeoutPhase(b)
			} else {
				b.release()
			}
		case "getblock":
			for _, o := range r.nodes {
				if o.id != b.id && o.n.Chain.Head.Height() >= r.round && rng.Intn(2) == 0 {
					r.fetch(b, o)
					break
				}
			}
			if rng.Float64() < pTimeout {
				r.timeoutPhase(b)
			} else {
				b.release()
			}
		}
	}
	r.drain()
}

// ---------------------------------------------------------------------------------------------

var trackerEpoch sync.Map // *DefaultPushTracker -> case number it was created in

// Tracker loops of finished cases are ended at the top of their next iteration (they poll every 10 ms).
func trackerHook(d *pushpull.DefaultPushTracker, ev string, id peer.ID, hash common.Hash128) {
	if ev != "LoopTop" {
		return
	}
	e, _ := trackerEpoch.LoadOrStore(d, epochNow())
	if e.(int64) != epochNow() {
		trackerEpoch.Delete(d)
		runtime.Goexit()
	}
}

var epochMu sync.Mutex

func epochNow() int64 {
	epochMu.Lock()
	defer epochMu.Unlock()
	return epoch
}

func main() {
	casesPath := flag.String("cases", "", "cases (json lines)")
	outPath := flag.String("out", "", "trace output")
	part := flag.Int("part", 0, "run only the cases with index % parts == part")
	parts := flag.Int("parts", 1, "number of parts")
	verbose := flag.Bool("v", false, "progress on stderr")
	flag.Parse()
	// the repository's constructors litter the working directory: every driver process works in its own
	if *parts > 1 {
		wd := fmt.Sprintf("d_ba_part%d", *part)
		if err := os.MkdirAll(wd, 0o755); err == nil {
			if abs, err := filepath.Abs(*outPath); err == nil {
				*outPath = abs
			}
			if abs, err := filepath.Abs(*casesPath); err == nil {
				*casesPath = abs
			}
			os.Chdir(wd)
		}
	}
	pushpull.VerifHook = trackerHook
	seed := tr.Seed()
	out := tr.Create(*outPath)
	defer out.Close()
	bases := map[[2]int]*base{}
	idx, ran := -1, 0
	t0 := time.Now()
	tr.ReadLines(*casesPath, func(raw []byte) {
		idx++
		if idx%*parts != *part {
			return
		}
		var c tcase
		if err := json.Unmarshal(raw, &c); err != nil {
			fatal("bad case: %v", err)
		}
		key := [2]int{c.N, c.MaxSteps}
		bs := bases[key]
		if bs == nil {
			bs = buildBase(seed*131+int64(c.N), c.N, c.MaxSteps)
			bases[key] = bs
		}
		epochMu.Lock()
		epoch++
		epochMu.Unlock()
		r := bs.newRig(c.K, out, idx)
		byz := []int{}
		for _, z := range c.Byz {
			if z >= 1 && z <= c.N-c.K {
				r.byz[z] = true
				byz = append(byz, z)
			}
		}
		T := r.witness.Chain.GetCommitteeVotesThreshold(r.witness.App.ValidatorsCache, false)
		TF := r.witness.Chain.GetCommitteeVotesThreshold(r.witness.App.ValidatorsCache, true)
		props := []int{}
		for id := c.N - c.K + 1; id <= c.N; id++ {
			props = append(props, id)
		}
		r.emit(tr.M{"ev": "Reset", "N": c.N, "T": T, "TF": TF, "maxsteps": c.MaxSteps, "props": props, "byz": byz, "src": c.Src, "kind": c.Kind,
			"committee": r.witness.App.ValidatorsCache.ValidatorsSize()})
		var rng *rand.Rand
		if c.Random != 0 {
			rng = rand.New(rand.NewSource(c.Random))
			r.randomRun(rng)
		} else {
			for _, a := range c.Sched {
				r.apply(a, nil)
			}
			if c.Drain == "sync" {
				r.drainSync(nil)
			} else {
				r.drain()
			}
		}
		r.close()
		ran++
		if *verbose && ran%50 == 0 {
			fmt.Fprintf(os.Stderr, "%d cases, %.1fs\n", ran, time.Since(t0).Seconds())
		}
	})
	sim.Cleanup()
	fmt.Printf("cases=%d lines=%d wall=%.1fs\n", ran, out.N, time.Since(t0).Seconds())
}
