// d_snapshot exports real state snapshots (StateDB.WriteSnapshot2 / IdentityStateDB via WriteTreeTo2), applies the
// fault cases exported by TLC from spec/Snapshot.tla to the archive bytes (seeded positions inside each region) and
// imports each altered archive into a FRESH real state database (RecoverSnapshot2).  Logged per import: accepted,
// root equals the advertised one, full contents equal the source, target prefix database empty, panic (C11b).
package main

import (
	"bytes"
	"crypto/sha256"
	"encoding/binary"
	"encoding/json"
	"flag"
	"fmt"
	"math/big"
	"math/rand"
	"os"
	"strconv"
	"strings"

	"github.com/idena-network/idena-go/blockchain/types"
	"github.com/idena-network/idena-go/blockchain/validation"
	"github.com/idena-network/idena-go/common"
	"github.com/idena-network/idena-go/core/state"
	dbm "github.com/tendermint/tm-db"

	"verifh/internal/sim"
	"verifh/internal/tr"
)

type fcase struct {
	Blocks int    `json:"blocks"`
	Fault  string `json:"fault"`
	Pos    int    `json:"pos"`
}

type seg struct{ hdr, data, size, end int } // offsets of one tar entry: header, data, data size, end incl. padding

func segments(b []byte) []seg {
	var res []seg
	off := 0
	for off+512 <= len(b) {
		h := b[off : off+512]
		if bytes.Equal(h, make([]byte, 512)) {
			break
		}
		szs := strings.Trim(string(h[124:136]), " \x00")
		sz, err := strconv.ParseInt(szs, 8, 64)
		if err != nil {
			break
		}
		pad := (512 - int(sz)%512) % 512
		res = append(res, seg{off, off + 512, int(sz), off + 512 + int(sz) + pad})
		off = off + 512 + int(sz) + pad
	}
	return res
}

func digestState(s *state.StateDB) string {
	h := sha256.New()
	f := func(k, v []byte) bool {
		var l [8]byte
		binary.BigEndian.PutUint32(l[:4], uint32(len(k)))
		binary.BigEndian.PutUint32(l[4:], uint32(len(v)))
		h.Write(l[:])
		h.Write(k)
		h.Write(v)
		return false
	}
	s.IterateAccounts(f)
	s.IterateIdentities(f)
	s.IterateContractValues(f)
	return fmt.Sprintf("%x", h.Sum(nil)[:12])
}

type source struct {
	name   string
	st     *state.StateDB
	height uint64
	arch   []byte
	root   common.Hash
	digest string
}

func export(name string, st *state.StateDB, height uint64) *source {
	var buf bytes.Buffer
	root, err := st.WriteSnapshot2(height, &buf)
	if err != nil {
		panic(err)
	}
	return &source{name: name, st: st, height: height, arch: buf.Bytes(), root: root, digest: digestState(st)}
}

// alter applies one fault; returns nil when the fault is not applicable to this archive
func alter(src []byte, c fcase, rnd *rand.Rand) ([]byte, int) {
	segs := segments(src)
	if len(segs) == 0 {
		return nil, 0
	}
	p := c.Pos
	if p > len(segs) {
		return nil, 0
	}
	s := segs[p-1]
	out := append([]byte(nil), src...)
	flip := func(off int) {
		out[off] ^= byte(1 << uint(rnd.Intn(8)))
	}
	switch c.Fault {
	case "none":
		return out, -1
	case "flip-node":
		off := s.data + rnd.Intn(s.size)
		flip(off)
		return out, off
	case "flip-tar-header":
		off := s.hdr + rnd.Intn(512)
		flip(off)
		return out, off
	case "flip-padding":
		padStart := s.data + s.size
		if s.end > padStart {
			off := padStart + rnd.Intn(s.end-padStart)
			flip(off)
			return out, off
		}
		last := segs[len(segs)-1].end
		if last < len(out) {
			off := last + rnd.Intn(len(out)-last)
			flip(off)
			return out, off
		}
		return nil, 0
	case "drop-block":
		return append(append([]byte(nil), src[:s.hdr]...), src[s.end:]...), s.hdr
	case "dup-block":
		return append(append(append([]byte(nil), src[:s.end]...), src[s.hdr:s.end]...), src[s.end:]...), s.hdr
	case "swap-blocks":
		if p >= len(segs) {
			return nil, 0
		}
		n := segs[p]
		res := append([]byte(nil), src[:s.hdr]...)
		res = append(res, src[n.hdr:n.end]...)
		res = append(res, src[s.hdr:s.end]...)
		res = append(res, src[n.end:]...)
		return res, s.hdr
	case "truncate":
		// cut inside entry p (seeded) or exactly at its start
		cut := s.hdr
		if rnd.Intn(2) == 0 {
			cut = s.hdr + rnd.Intn(s.end-s.hdr)
		}
		return append([]byte(nil), src[:cut]...), cut
	case "append-garbage":
		last := segs[len(segs)-1].end
		g := make([]byte, 1024)
		rnd.Read(g)
		return append(append(append([]byte(nil), src[:last]...), g...), src[last:]...), last
	}
	panic("unknown fault " + c.Fault)
}

func importOne(src *source, arch []byte) tr.M {
	tdb := dbm.NewMemDB()
	target, err := state.NewLazy(tdb)
	if err != nil {
		panic(err)
	}
	res := tr.M{"accepted": false, "rootOk": false, "contentsEqual": false, "targetEmpty": false, "panic": false, "err": ""}
	func() {
		defer func() {
			if e := recover(); e != nil {
				res["panic"] = true
				res["err"] = fmt.Sprint(e)
				if len(res["err"].(string)) > 120 {
					res["err"] = res["err"].(string)[:120]
				}
			}
		}()
		err = target.RecoverSnapshot2(src.height, src.root, bytes.NewReader(arch))
		if err != nil {
			e := err.Error()
			if len(e) > 80 {
				e = e[:80]
			}
			res["err"] = e
			// nothing may be left under the snapshot prefix
			pdb := dbm.NewPrefixDB(tdb, state.StateDbKeys.BuildDbPrefix(src.height))
			it, _ := pdb.Iterator(nil, nil)
			n := 0
			for ; it.Valid(); it.Next() {
				n++
			}
			it.Close()
			res["targetEmpty"] = n == 0
			res["leftKeys"] = n
			return
		}
		res["accepted"] = true
		target.CommitSnapshot(src.height, nil)
		res["rootOk"] = target.Root() == src.root
		res["contentsEqual"] = digestState(target) == src.digest
	}()
	return res
}

func bigState(n int, rnd *rand.Rand) (*state.StateDB, uint64) {
	db := dbm.NewMemDB()
	st, err := state.NewLazy(db)
	if err != nil {
		panic(err)
	}
	for i := 0; i < n; i++ {
		var a common.Address
		rnd.Read(a[:])
		st.SetBalance(a, big.NewInt(int64(1+rnd.Intn(1000000))))
		if i%7 == 0 {
			st.SetState(a, state.Verified)
			st.AddStake(a, big.NewInt(int64(rnd.Intn(1000))))
		}
		if i%97 == 0 {
			st.SetContractValue(a, []byte{byte(i)}, []byte{})              // empty value
			st.SetContractValue(a, []byte{byte(i), 1}, []byte{1, 2, 3, 4}) // ordinary value
		}
	}
	if _, _, _, err := st.Commit(true); err != nil {
		panic(err)
	}
	return st, uint64(st.Version())
}

func chainState(seed int64) (*state.StateDB, uint64) {
	w := sim.NewWorld(seed, 8)
	w.Allocs = []sim.Alloc{
		{Key: 0, State: state.Verified, Balance: sim.Dna(100000, 1), Stake: sim.Dna(100, 1)},
		{Key: 1, State: state.Human, Balance: sim.Dna(5000, 1), Stake: sim.Dna(50, 1)},
		{Key: 2, State: state.Newbie, Balance: sim.Dna(1000, 1)},
		{Key: 3, State: state.Candidate, Balance: sim.Dna(1000, 1)},
	}
	n := w.NewNode(0)
	for i := 0; i < 12; i++ {
		to := w.Addrs[1+i%6]
		tx := w.Tx(sim.TxSpec{From: 0, To: &to, Type: types.SendTx, Amount: sim.Dna(int64(1+i), 1), MaxFee: sim.Dna(100, 1), Nonce: n.App.State.GetNonce(w.Addrs[0]) + 1})
		_ = n.Pool.AddExternalTxs(validation.InboundTx, tx)
		if err := n.Add(sim.Encode(n.Propose(20))); err != nil {
			panic(err)
		}
	}
	return n.App.State, n.Chain.Head.Height()
}

func main() {
	cases := flag.String("cases", "", "fault cases exported by TLC (json lines)")
	out := flag.String("out", "", "trace output")
	per := flag.Int("per", 3, "seeded positions per (source, case)")
	bigN := flag.Int("big", 12000, "accounts of the synthetic large state (several archive blocks)")
	flag.Parse()
	defer sim.Cleanup()
	rnd := rand.New(rand.NewSource(tr.Seed()))
	w := tr.Create(*out)
	defer w.Close()
	var cs []fcase
	tr.ReadLines(*cases, func(raw []byte) {
		var c fcase
		if err := json.Unmarshal(raw, &c); err != nil {
			panic(err)
		}
		cs = append(cs, c)
	})
	var srcs []*source
	st1, h1 := chainState(tr.Seed())
	srcs = append(srcs, export("chain", st1, h1))
	st2, h2 := bigState(*bigN, rnd)
	srcs = append(srcs, export("big", st2, h2))
	st3, h3 := bigState(40, rnd)
	srcs = append(srcs, export("small", st3, h3))
	n, skipped := 0, 0
	for _, src := range srcs {
		nb := len(segments(src.arch))
		w.Emit(tr.M{"ev": "Export", "source": src.name, "bytes": len(src.arch), "blocks": nb, "height": src.height})
		for _, c := range cs {
			if c.Blocks != nb && !(c.Blocks == 3 && nb >= 3) {
				continue // the case is for an archive with another number of blocks
			}
			for k := 0; k < *per; k++ {
				arch, off := alter(src.arch, c, rnd)
				if arch == nil {
					skipped++
					break
				}
				m := importOne(src, arch)
				m["ev"], m["source"], m["class"], m["pos"], m["offset"], m["blocks"] = "Import", src.name, c.Fault, c.Pos, off, nb
				w.Emit(m)
				n++
				if c.Fault == "none" || c.Fault == "drop-block" || c.Fault == "dup-block" || c.Fault == "swap-blocks" || c.Fault == "append-garbage" {
					if c.Fault != "append-garbage" {
						break // deterministic faults need one run
					}
				}
			}
		}
	}
	fmt.Fprintf(os.Stderr, "imports=%d skipped=%d sources=%d\n", n, skipped, len(srcs))
}
