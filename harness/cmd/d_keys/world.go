package main

import (
	"bytes"
	"crypto/sha256"
	"fmt"
	"runtime"
	"strings"
	"sync"
	"time"

	"github.com/idena-network/idena-go/blockchain/attachments"
	"github.com/idena-network/idena-go/blockchain/types"
	"github.com/idena-network/idena-go/common"
	"github.com/idena-network/idena-go/common/eventbus"
	"github.com/idena-network/idena-go/config"
	"github.com/idena-network/idena-go/core/appstate"
	"github.com/idena-network/idena-go/core/ceremony"
	"github.com/idena-network/idena-go/core/flip"
	"github.com/idena-network/idena-go/core/mempool"
	"github.com/idena-network/idena-go/core/state"
	"github.com/idena-network/idena-go/crypto"
	"github.com/idena-network/idena-go/crypto/ecies"
	"github.com/idena-network/idena-go/events"
	"github.com/idena-network/idena-go/ipfs"
	"github.com/idena-network/idena-go/rpc"
	"github.com/idena-network/idena-go/secstore"
	"github.com/idena-network/idena-go/stats/collector"
	"github.com/ipfs/go-cid"
	dbm "github.com/tendermint/tm-db"

	"verifh/internal/sim"
	"verifh/internal/vclock"
)

const (
	firstValidation = int64(200000)
	lotteryDur      = int64(300)
	shortDur        = int64(120)
	longDur         = int64(600)
	interval        = int64(7200)
)

// chain positions of a node (segments of the pre-built chain); see spec/KeysPool.tla
const (
	pReady = iota
	pLot
	pLotLate
	pShort
	pLong
	pLongLate
	pAfter
	pEpoch
	pReady2
	pLot2
	pLotLate2
	pShort2
	maxPos = pShort2
)

var posNames = []string{"Ready", "Lot", "LotLate", "Short", "Long", "LongLate", "After", "Epoch", "Ready2", "Lot2", "LotLate2", "Short2"}

// ---------------------------------------------------------------------------------------------
// ipfs store: the repository's in-memory proxy is a plain map; the ceremony loads flips from its own goroutines while
// the chain stores block bodies: serialise the accesses (the real proxy is concurrency-safe).  rec, when set, receives
// every blob that is added (the base world records them so that clones start with the same store).

type lockedIpfs struct {
	ipfs.Proxy
	mu  sync.Mutex
	rec *[][]byte
}

func (l *lockedIpfs) Add(data []byte, pin bool) (cid.Cid, error) {
	l.mu.Lock()
	defer l.mu.Unlock()
	if l.rec != nil {
		*l.rec = append(*l.rec, append([]byte(nil), data...))
	}
	return l.Proxy.Add(data, pin)
}

func (l *lockedIpfs) Get(key []byte, dataType ipfs.DataType) ([]byte, error) {
	l.mu.Lock()
	defer l.mu.Unlock()
	return l.Proxy.Get(key, dataType)
}

func (l *lockedIpfs) GetWithSizeLimit(key []byte, dataType ipfs.DataType, size int64) ([]byte, error) {
	l.mu.Lock()
	defer l.mu.Unlock()
	return l.Proxy.GetWithSizeLimit(key, dataType, size)
}

func (l *lockedIpfs) Unpin(key []byte) error {
	l.mu.Lock()
	defer l.mu.Unlock()
	return l.Proxy.Unpin(key)
}

type stubSyncer struct{}

func (stubSyncer) IsSyncing() bool { return false }

// ---------------------------------------------------------------------------------------------
// a real node with the ceremony stack attached in node.go's order

type pubRec struct {
	kd    int // 0 public key, 1 package
	bytes []byte
	own   bool
}

type knode struct {
	b   *base
	key int
	n   *sim.Node
	kp  *mempool.KeysPool
	fl  *flip.Flipper
	vc  *ceremony.ValidationCeremony

	mu   sync.Mutex
	pubs []pubRec // key / package events of the node's bus since the last take (what the gossip handler would broadcast)

	pos          int
	delayedArmed bool // the delayed package broadcast goroutine of the last lottery is parked and was not run yet
	timerFired   bool // the short-session timer of this process incarnation has fired (or died) already
	injected     map[uint64]bool
	async        mempool.FlipKeysPool
}

func (c *knode) attach() {
	n := c.n
	if n.Cfg.Sync == nil {
		n.Cfg.Sync = &config.SyncConfig{}
	}
	if n.Cfg.RPC == nil {
		n.Cfg.RPC = rpc.GetDefaultRPCConfig("localhost", 9009)
	}
	c.kp = mempool.NewKeysPool(n.DB, n.App, n.Bus, n.Sec)
	c.fl = flip.NewFlipper(n.DB, n.Ipfs, c.kp, n.Pool, n.Sec, n.App, n.Bus)
	c.fixFlipKeys()
	c.vc = ceremony.NewValidationCeremony(n.App, n.Bus, c.fl, n.Sec, n.DB, n.Pool, n.Chain, stubSyncer{}, c.kp, n.Cfg)
	c.async = nil
	// what the gossip handler subscribes to in order to broadcast keys (protocol/gossip.go)
	n.Bus.Subscribe(events.NewFlipKeyID, func(e eventbus.Event) {
		ev := e.(*events.NewFlipKeyEvent)
		b, _ := ev.Key.ToBytes()
		c.mu.Lock()
		c.pubs = append(c.pubs, pubRec{0, b, ev.Own})
		c.mu.Unlock()
	})
	n.Bus.Subscribe(events.NewFlipKeysPackageID, func(e eventbus.Event) {
		ev := e.(*events.NewFlipKeysPackageEvent)
		b, _ := ev.Key.ToBytes()
		c.mu.Lock()
		c.pubs = append(c.pubs, pubRec{1, b, ev.Own})
		c.mu.Unlock()
	})
	before := c.b.w.Clock.Sleepers()
	// start-up order of node.go
	c.kp.Initialize(n.Chain.Head)
	c.fl.Initialize()
	c.vc.Initialize(n.Chain.GetBlock(n.Chain.Head.Hash()))
	vc := c.vc
	n.Chain.ProvideApplyNewEpochFunc(func(height uint64, app *appstate.AppState, coll collector.StatsCollector) types.TotalValidationResult {
		return vc.ApplyNewEpoch(height, app, coll)
	})
	// the timer goroutine polls once per REAL second: the harness fires it itself (timer step)
	c.vc.VerifCancelShortSessionTimer()
	c.timerFired = false
	c.delayedArmed = false
	c.settle(before)
	// a node that restarts on the epoch block completes the epoch again (flipper.Clear drops the keys)
	c.fixFlipKeys()
}

// fixFlipKeys: the flipper derives an identity's flip encryption keys of an epoch from a signature through
// crypto.GenerateKeyFromSeed = ecdsa.GenerateKey(curve, reader).  The repository relies on that being a function of the
// reader's bytes: a restarted node must come up with the keys its flips were encrypted with.  With the toolchain of this
// sandbox (go >= 1.20) ecdsa.GenerateKey deliberately consumes one extra byte of the reader with probability 1/2
// (randutil.MaybeReadByte), so every flipper incarnation draws one of two key pairs.  That is an artefact of building the
// repository with a toolchain it does not support (the check reports it as an observation, see deriveProbe); to study the
// key pools under the behaviour the repository was written for, the harness re-creates the flipper's lazily generated
// keys until they are the ones the identity's flips of the epoch were encrypted with (Flipper.Clear drops them).
func (c *knode) fixFlipKeys() {
	round := int(c.n.App.State.Epoch()) - int(c.b.epoch1) + 1
	if c.b.epoch1 == 0 || round < 1 || round > 2 || c.b.akeys[round] == nil {
		return
	}
	want := c.b.akeys[round][c.key]
	if want == nil {
		return
	}
	for i := 0; i < 400; i++ {
		if c.fl.GetFlipPublicEncryptionKey().D.Cmp(want.pub.D) == 0 && c.fl.GetFlipPrivateEncryptionKey().D.Cmp(want.priv.D) == 0 {
			return
		}
		c.fl.Clear()
	}
	// not one of the two key pairs the toolchain's derivation can yield for this identity and epoch: the flipper holds on to
	// something else (the traces show what comes of it)
	rederiveFailed++
}

var rederiveFailed int

func (c *knode) takePubs() []pubRec {
	c.mu.Lock()
	defer c.mu.Unlock()
	p := c.pubs
	c.pubs = nil
	return p
}

func (c *knode) self() common.Address { return c.b.w.Addrs[c.key] }

func (c *knode) hasFlips() bool {
	return len(c.n.App.State.GetIdentity(c.self()).Flips) > 0
}

func newSleepers(clock *vclock.Clock, before []*vclock.Sleeper) []*vclock.Sleeper {
	old := map[*vclock.Sleeper]bool{}
	for _, s := range before {
		old[s] = true
	}
	var res []*vclock.Sleeper
	for _, s := range clock.Sleepers() {
		if !old[s] {
			res = append(res, s)
		}
	}
	return res
}

func fatal(format string, a ...interface{}) {
	panic("d_keys: " + fmt.Sprintf(format, a...))
}

// The ceremony reacts to the FlipLotteryStarted block on goroutines of its own: "go asyncFlipLotteryCalculations()" computes
// the lottery, starts "go delayedFlipPackageBroadcast()" (which sleeps a random 0..119 s on the virtual clock, i.e. parks
// until the harness runs it - or publishes at once when the draw is 0) and then evaluates tryToBroadcastFlipKeysPackage
// against the clock.  The harness must not move the clock or take the next step before those goroutines have come to
// rest, and nothing in the ceremony signals that.  busyGoroutines looks at the goroutines themselves: one with a frame of
// the lottery / package publication path is at work unless it is blocked on the virtual clock's sleeper channel (a zero
// draw only yields inside Sleep; on the way to parking a goroutine may wait for the clock's mutex).
// full = the textual dump of every goroutine (runtime.Stack): it also shows goroutines that were created but have not
// run yet - they stand in the compiler-made wrapper of their go statement (handleFlipLotteryPeriod.gowrapN,
// asyncFlipLotteryCalculations.gowrapN) - which the goroutine profile leaves out; used right after a lottery was started.
// Otherwise the (much cheaper) goroutine profile: enough once everything that was started has begun to run.
var hotFrames = []string{"asyncFlipLotteryCalculations", ".handleFlipLotteryPeriod.", "delayedFlipPackageBroadcast", "broadcastPrivateFlipKeysPackage",
	"tryToBroadcastFlipKeysPackage"}

func isHot(fn string) bool {
	for _, h := range hotFrames {
		if strings.Contains(fn, h) {
			return true
		}
	}
	return false
}

var stackClass = map[[32]uintptr]bool{}
var dumpBuf = make([]byte, 1<<22)

func busyGoroutines(full bool) int {
	if full {
		for {
			n := runtime.Stack(dumpBuf, true)
			if n < len(dumpBuf) {
				busy := 0
				for _, blk := range strings.Split(string(dumpBuf[:n]), "\n\n") {
					if !isHot(blk) || strings.Contains(blk, "main.busyGoroutines") {
						continue
					}
					parked := strings.Contains(blk, "vclock.(*Clock).Sleep") && strings.Contains(blk[:strings.IndexByte(blk+"\n", '\n')], "[chan receive")
					if !parked {
						busy++
					}
				}
				return busy
			}
			dumpBuf = make([]byte, 2*len(dumpBuf))
		}
	}
	self := callerIsHot()
	var recs []runtime.StackRecord
	for n := runtime.NumGoroutine() + 64; ; n *= 2 {
		recs = make([]runtime.StackRecord, n)
		k, ok := runtime.GoroutineProfile(recs)
		if ok {
			recs = recs[:k]
			break
		}
	}
	busy := 0
	for i := range recs {
		b, seen := stackClass[recs[i].Stack0]
		if !seen {
			hot, sleep, park := false, false, false
			frames := runtime.CallersFrames(recs[i].Stack())
			for {
				fr, more := frames.Next()
				switch {
				case isHot(fr.Function):
					hot = true
				case strings.Contains(fr.Function, "vclock.(*Clock).Sleep"):
					sleep = true
				case fr.Function == "runtime.chanrecv" || fr.Function == "runtime.chanrecv1":
					park = true
				}
				if !more {
					break
				}
			}
			b = hot && !(sleep && park)
			stackClass[recs[i].Stack0] = b
		}
		if b {
			busy++
		}
	}
	return busy - self
}

// the driver's own goroutine runs publication code too (shim steps, block handlers): it does not wait for itself
func callerIsHot() int {
	pcs := make([]uintptr, 64)
	frames := runtime.CallersFrames(pcs[:runtime.Callers(2, pcs)])
	for {
		fr, more := frames.Next()
		if isHot(fr.Function) {
			return 1
		}
		if !more {
			return 0
		}
	}
}

// settle waits (on progress of the node's own goroutines, bounded generously; a time-out means the harness cannot go on:
// exit 2) until the lottery that a FlipLotteryStarted head block starts is computed and the ceremony's goroutines rest.
func (c *knode) settle(before []*vclock.Sleeper) {
	st := c.n.App.State
	deadline := time.Now().Add(120 * time.Second)
	lot := st.ValidationPeriod() == state.FlipLotteryPeriod && c.n.Chain.Head.Flags().HasFlag(types.FlipLotteryStarted)
	for (lot && !c.vc.VerifLotteryReady()) || busyGoroutines(lot) > 0 {
		if time.Now().After(deadline) {
			fatal("node k%d: the goroutines of the flip lottery did not settle", c.key)
		}
		time.Sleep(100 * time.Microsecond)
	}
	if lot {
		c.delayedArmed = false
		for _, s := range newSleepers(c.b.w.Clock, before) {
			if s.D >= time.Second && s.D < ceremony.MaxFlipKeysPackageBroadcastDelaySec*time.Second {
				c.delayedArmed = true
			}
		}
	}
}

func (c *knode) close() {
	c.vc.VerifCancelShortSessionTimer()
	c.n.Close()
}

// ---------------------------------------------------------------------------------------------
// the base world: one chain built once per process by a builder node, from genesis to the short session of the SECOND
// scripted ceremony; scenario nodes are clones of the builder's database at "Ready" and are fed the pre-built blocks

type injection struct {
	epoch    uint16
	shards   int
	outcomes []ceremony.VerifOutcome
}

type authorKeys struct {
	pub, priv *ecies.PrivateKey // the author's flip encryption key pairs of the round (generated by the repository's flipper)
	recips    [][]byte          // PrivateEncryptionKeyCandidates of the author in the round's lottery
}

type base struct {
	name    string
	seed    int64
	w       *sim.World
	secs    []*secstore.SecStore
	nk      int
	tracked []int // world keys that own a node in scenarios, in model order (model node i = tracked[i-1])
	authors []int // every identity that authors flips (tracked ones first)
	cands   []int // candidates without flips
	isAuth  map[int]bool

	readyDB   dbm.DB
	readyTime int64
	ipfsData  [][]byte
	segs      [][][]byte // segs[p] = the blocks a node adds to get from position p-1 to p
	segTime   []int64    // time of the last block of segs[p]
	inject    map[uint64]*injection
	epoch1    uint16 // epoch of round 1

	flips  [3]map[int][][]byte    // round -> author -> cids
	plain  map[string][2][]byte   // cid -> plaintext public / private part
	akeys  [3]map[int]*authorKeys // round -> author -> keys
	forged map[string]*msg        // name -> pre-built message (see msgs.go)
	msgs   []*msg                 // all messages of the world by id-1 (forged ones; genuine ones are per scenario)
	vOf    [3]int64               // validation time of the round
	derive int                    // distinct public flip keys that 16 flipper incarnations of one identity derived for one epoch
}

// deriveProbe: how many different flip encryption keys do flipper incarnations of the same identity derive for the same
// epoch (1 = the derivation is the function of identity and epoch the repository relies on)
func (b *base) deriveProbe(bn *knode, k int) {
	seen := map[string]bool{}
	for i := 0; i < 16; i++ {
		tmp := flip.NewFlipper(bn.n.DB, bn.n.Ipfs, nil, bn.n.Pool, b.secs[k], bn.n.App, bn.n.Bus)
		seen[tmp.GetFlipPublicEncryptionKey().D.String()] = true
	}
	b.derive = len(seen)
}

func (b *base) addr(k int) common.Address { return b.w.Addrs[k] }

func (b *base) newIpfs(rec *[][]byte) *lockedIpfs {
	st := &lockedIpfs{Proxy: ipfs.NewMemoryIpfsProxy()}
	for _, d := range b.ipfsData {
		st.Proxy.Add(d, true)
	}
	st.rec = rec
	return st
}

func (b *base) boot(key int, db dbm.DB, store ipfs.Proxy) *knode {
	n := b.w.Boot(key, db, store)
	if n.BootErr != nil {
		fatal("boot of k%d failed: %v", key, n.BootErr)
	}
	c := &knode{b: b, key: key, n: n, injected: map[uint64]bool{}}
	c.attach()
	return c
}

func (c *knode) restart() {
	c.vc.VerifCancelShortSessionTimer()
	n := c.n.Restart()
	if n.BootErr != nil {
		fatal("restart of k%d failed: %v", c.key, n.BootErr)
	}
	c.n = n
	c.takePubs()
	c.attach()
}

// add validates and inserts one pre-built block; the epoch result of an epoch block is injected first (the scripted
// ceremonies carry no answers; what an identity becomes is scenario input, see VerifSetEpochResult)
func (c *knode) add(data []byte) {
	blk := sim.Decode(data)
	c.injectFor(blk.Height())
	before := c.b.w.Clock.Sleepers()
	if err := c.n.Add(data); err != nil {
		fatal("node k%d refused block %d: %v", c.key, blk.Height(), err)
	}
	if blk.Header.Flags().HasFlag(types.ValidationFinished) {
		// completeEpoch armed a new timer for the next validation and dropped the flipper's keys
		c.fixFlipKeys()
		c.vc.VerifCancelShortSessionTimer()
		c.timerFired = false
		c.delayedArmed = false
	}
	c.settle(before)
}

func (c *knode) injectFor(height uint64) {
	if inj, ok := c.b.inject[height]; ok {
		cp := make([]ceremony.VerifOutcome, len(inj.outcomes))
		copy(cp, inj.outcomes)
		c.vc.VerifSetEpochResult(height, inj.epoch, inj.shards, cp, nil, false)
	}
}

func (b *base) tx(bn *knode, used map[int]uint32, k int, typ types.TxType, to *common.Address, payload []byte, amount int64) *types.Transaction {
	s := bn.n.App.State
	a := b.addr(k)
	nonce := s.GetNonce(a)
	if s.GetEpoch(a) < s.Epoch() {
		nonce = 0
	}
	used[k]++
	spec := sim.TxSpec{From: k, To: to, Type: typ, Nonce: nonce + used[k], Epoch: s.Epoch(), Payload: payload, MaxFee: sim.Dna(5, 1)}
	if amount > 0 {
		spec.Amount = sim.Dna(amount, 1)
	}
	return b.w.Tx(spec)
}

func (b *base) craft(bn *knode, txs []*types.Transaction, t int64) []byte {
	if t < bn.n.Chain.Head.Time()+10 {
		t = bn.n.Chain.Head.Time() + 10
	}
	b.w.SetNow(t)
	bn.injectFor(bn.n.Chain.Head.Height() + 1)
	blk, err := bn.n.Chain.VerifCraftBlock(txs, t)
	if err != nil {
		fatal("cannot craft block at %d: %v", t, err)
	}
	data := sim.Encode(blk)
	bn.add(data)
	return data
}

// submitFlips: every author prepares its required flips with the repository's flipper (its own flip keys of the epoch,
// ECIES encryption, cid) and the SubmitFlipTx the RPC layer would build; the builder's flipper takes them the way it
// takes flips from the network (validation, ipfs store, mempool).
func (b *base) submitFlips(bn *knode, round int) [][]byte {
	var blocks [][]byte
	used := map[int]uint32{}
	var txs []*types.Transaction
	b.flips[round] = map[int][][]byte{}
	b.akeys[round] = map[int]*authorKeys{}
	flush := func() {
		if len(txs) > 0 {
			blocks = append(blocks, b.craft(bn, txs, bn.n.Chain.Head.Time()+30))
			used = map[int]uint32{}
			txs = nil
		}
	}
	for _, k := range b.authors {
		id := bn.n.App.State.GetIdentity(b.addr(k))
		tmp := flip.NewFlipper(bn.n.DB, bn.n.Ipfs, nil, bn.n.Pool, b.secs[k], bn.n.App, bn.n.Bus)
		b.akeys[round][k] = &authorKeys{pub: tmp.GetFlipPublicEncryptionKey(), priv: tmp.GetFlipPrivateEncryptionKey()}
		for i := 0; i < int(id.RequiredFlips); i++ {
			h := sha256.Sum256([]byte(fmt.Sprintf("keys-flip-%d-%s-%d-%d-%d", b.seed, b.name, round, k, i)))
			pubPart := append([]byte("public:"), h[:]...)
			privPart := append([]byte("private:"), h[:12]...)
			c, encPub, encPriv, err := tmp.PrepareFlip(pubPart, privPart)
			if err != nil {
				fatal("PrepareFlip: %v", err)
			}
			tx := b.tx(bn, used, k, types.SubmitFlipTx, nil, attachments.CreateFlipSubmitAttachment(c.Bytes(), uint8(i)), 0)
			if err := bn.fl.VerifAddNewFlipSync(&types.Flip{Tx: tx, PublicPart: encPub, PrivatePart: encPriv}); err != nil {
				fatal("flip of k%d refused: %v", k, err)
			}
			b.flips[round][k] = append(b.flips[round][k], c.Bytes())
			b.plain[string(c.Bytes())] = [2][]byte{pubPart, privPart}
			txs = append(txs, tx)
			if len(txs) >= 24 {
				flush()
			}
		}
	}
	flush()
	for _, k := range b.authors {
		if n := len(bn.n.App.State.GetIdentity(b.addr(k)).Flips); n != len(b.flips[round][k]) || n == 0 {
			fatal("author k%d has %d flips in the state, submitted %d", k, n, len(b.flips[round][k]))
		}
	}
	return blocks
}

func (b *base) injectEpoch(bn *knode, height uint64, next func(k int, id state.Identity) state.IdentityState) {
	s := bn.n.App.State
	var outs []ceremony.VerifOutcome
	s.IterateOverIdentities(func(addr common.Address, id state.Identity) {
		if id.State == state.Undefined || id.State == state.Killed {
			return
		}
		ns := next(b.w.Index(addr), id)
		o := ceremony.VerifOutcome{Addr: addr, PrevState: uint8(id.State), State: uint8(ns), Birthday: id.Birthday, Delegatee: id.Delegatee()}
		if id.State == state.Candidate && ns.NewbieOrBetter() {
			o.Birthday = s.Epoch() + 1
		}
		o.Missed = !ns.NewbieOrBetter()
		o.Participated = !o.Missed
		o.ShortFlipPoint = 5
		o.ShortQualifiedFlipsCount = 6
		outs = append(outs, o)
	})
	b.inject[height] = &injection{epoch: s.Epoch(), shards: int(s.ShardsNum()), outcomes: outs}
}

// ceremony builds the blocks of one scripted ceremony on the builder and returns them per segment
// (Lot, LotLate, Short, Long, LongLate, After, Epoch)
func (b *base) ceremony(bn *knode, round int, upto int, next func(k int, id state.Identity) state.IdentityState) [][][]byte {
	v := bn.n.App.State.NextValidationTime().Unix()
	b.vOf[round] = v
	times := []int64{v - lotteryDur + 20, v - 100, v + 1, v + shortDur + 1, v + 400, v + shortDur + longDur + 1}
	var segs [][][]byte
	for i, t := range times {
		if i >= upto {
			return segs
		}
		segs = append(segs, [][]byte{b.craft(bn, nil, t)})
		if i == 0 {
			b.afterLottery(bn, round)
		}
	}
	var last [][]byte
	for !bn.n.App.State.CanCompleteEpoch() {
		last = append(last, b.craft(bn, nil, bn.n.Chain.Head.Time()+20))
	}
	b.injectEpoch(bn, bn.n.Chain.Head.Height()+1, next)
	e := bn.n.App.State.Epoch()
	last = append(last, b.craft(bn, nil, bn.n.Chain.Head.Time()+20))
	if bn.n.App.State.Epoch() != e+1 {
		fatal("the ceremony of round %d did not complete the epoch", round)
	}
	return append(segs, last)
}

// afterLottery: the builder's lottery of the round is ready: record every author's recipient list (the repository's
// PrivateEncryptionKeyCandidates) and pre-build the messages of the round that are not produced by a scenario node
func (b *base) afterLottery(bn *knode, round int) {
	if round == 0 {
		return
	}
	if !bn.vc.VerifLotteryReady() {
		fatal("builder lottery not ready")
	}
	for _, k := range b.authors {
		pk, err := bn.vc.PrivateEncryptionKeyCandidates(b.addr(k))
		if err != nil {
			fatal("author k%d has no recipients: %v", k, err)
		}
		b.akeys[round][k].recips = pk
	}
	b.buildForged(bn, round)
}

type worldSpec struct {
	name    string
	authors int // tracked authors are world keys 1, 2 and 4; further authors are fillers without a node
	cands   int // world key 3 is the tracked candidate without flips; further ones are fillers
}

var worldSpecs = map[string]worldSpec{
	"small": {"small", 3, 1},
	"large": {"large", 11, 10},
}

func buildBase(seed int64, spec worldSpec) *base {
	b := &base{name: spec.name, seed: seed, inject: map[uint64]*injection{}, plain: map[string][2][]byte{}, forged: map[string]*msg{}, isAuth: map[int]bool{}}
	b.nk = 1 + spec.authors + spec.cands
	b.tracked = []int{1, 2, 3, 4}
	b.authors = []int{1, 2, 4}
	b.cands = []int{3}
	for k := 5; k < b.nk; k++ {
		if len(b.authors) < spec.authors {
			b.authors = append(b.authors, k)
		} else {
			b.cands = append(b.cands, k)
		}
	}
	for _, k := range b.authors {
		b.isAuth[k] = true
	}
	w := sim.NewWorld(seed*1000+int64(len(spec.name))*17+int64(spec.authors), b.nk)
	w.ValCfg.FlipLotteryDuration = time.Duration(lotteryDur) * time.Second
	w.ValCfg.ShortSessionDuration = time.Duration(shortDur) * time.Second
	w.ValCfg.LongSessionDuration = time.Duration(longDur) * time.Second
	w.ValCfg.ValidationInterval = time.Duration(interval) * time.Second
	w.FirstCeremony = firstValidation
	w.Allocs = append(w.Allocs, sim.Alloc{Key: 0, State: state.Human, Balance: sim.Dna(1000000, 1), Stake: sim.Dna(1000, 1)})
	b.w = w
	for k := 0; k < b.nk; k++ {
		s := secstore.NewSecStore()
		s.AddKey(crypto.FromECDSA(w.Keys[k]))
		b.secs = append(b.secs, s)
	}
	bn := b.boot(0, dbm.NewMemDB(), b.newIpfs(&b.ipfsData))
	invite := func(keys []int) {
		used := map[int]uint32{}
		var txs []*types.Transaction
		for _, k := range keys {
			to := b.addr(k)
			txs = append(txs, b.tx(bn, used, 0, types.InviteTx, &to, nil, 100))
		}
		b.craft(bn, txs, bn.n.Chain.Head.Time()+30)
		txs = nil
		for _, k := range keys {
			self := b.addr(k)
			txs = append(txs, b.tx(bn, map[int]uint32{}, k, types.ActivationTx, &self, crypto.FromECDSAPub(&w.Keys[k].PublicKey), 0))
		}
		b.craft(bn, txs, bn.n.Chain.Head.Time()+30)
		for _, k := range keys {
			id := bn.n.App.State.GetIdentity(b.addr(k))
			if id.State != state.Candidate || !bytes.Equal(id.PubKey, crypto.FromECDSAPub(&w.Keys[k].PublicKey)) {
				fatal("k%d was not activated (state %d)", k, id.State)
			}
		}
	}
	// epoch 0: the future authors are invited and activated (that is how an identity's public key gets into the state);
	// the first validation makes them newbies with required flips
	b.w.SetNow(1000)
	invite(b.authors)
	b.ceremony(bn, 0, 6, func(k int, id state.Identity) state.IdentityState {
		if id.State == state.Candidate {
			return state.Newbie
		}
		return id.State
	})
	// epoch 1: the candidates without flips are invited and activated, the authors submit their flips
	b.epoch1 = bn.n.App.State.Epoch()
	invite(b.cands)
	b.deriveProbe(bn, 1)
	b.submitFlips(bn, 1)
	b.readyDB = sim.CopyDB(bn.n.DB)
	b.readyTime = bn.n.Chain.Head.Time()
	b.segs = make([][][]byte, maxPos+1)
	b.segTime = make([]int64, maxPos+1)
	b.segTime[pReady] = b.readyTime
	r1 := b.ceremony(bn, 1, 6, func(k int, id state.Identity) state.IdentityState {
		switch {
		case b.isAuth[k]:
			return state.Verified
		case k == 3 || k%2 == 1:
			return state.Newbie // alive, but it will not submit its required flips: no candidate of round 2
		case k > 0:
			return state.Killed
		}
		return id.State
	})
	for i, s := range r1 {
		b.segs[pLot+i] = s
	}
	b.segs[pReady2] = b.submitFlips(bn, 2)
	r2 := b.ceremony(bn, 2, 3, nil)
	for i, s := range r2 {
		b.segs[pLot2+i] = s
	}
	for p := 1; p <= maxPos; p++ {
		if len(b.segs[p]) == 0 {
			fatal("segment %s is empty", posNames[p])
		}
		b.segTime[p] = sim.Decode(b.segs[p][len(b.segs[p])-1]).Header.Time()
	}
	bn.close()
	return b
}
