// d_keys runs schedules of flip key publication and delivery on REAL multi-node worlds and records, one ndjson line per
// step, what each key pool holds and what each identity can decrypt, for validation against spec/Trace_KeysPool
// (growth module KEYS of property C16).
//
//	d_keys -cases <file> -out <trace> [-random N] [-len L] [-first I]
//
// A world is a real chain (genesis -> invitations / activations -> a first validation -> flips submitted through the
// repository's flipper -> the ceremony under test -> epoch change -> a second round of flips -> the next ceremony up to
// its short session) built ONCE per process by a builder node; the nodes of a scenario are real nodes (Blockchain,
// AppState, TxPool, KeysPool, Flipper, ValidationCeremony constructed and initialised in node.go's order) booted over
// copies of the builder's database at "Ready" (flips in the state, lottery not started) and fed the pre-built blocks.
//
// What is real: admission (KeysPool.AddPublicFlipKey / AddPrivateKeysPackage and the batch entry points of the
// asynchronous pool, the asynchronous pool itself in bulk steps), publication by the ceremony's own block handlers
// (handleFlipLotteryPeriod, handleShortSessionPeriod, handleLongSessionPeriod, ...: broadcastPublicFipKey /
// broadcastPrivateFlipKeysPackage with the lottery's recipients), persistence and reload on restart (Initialize over the
// same database), Clear at the epoch block (completeEpoch), the sync offers (Get*ForSync), the pull interface (Has / Get),
// decryption through GetDecryptedFlip (GetFlipKeys, getPrivateKeyPackageIndex, GetEncryptedPrivateFlipKey, the secure
// store's DecryptMessage, ECIES).  The network is the harness: it takes what a node's bus announces (what the gossip
// handler would broadcast) and hands the BYTES to other nodes in the scheduled order.
//
// What is steered through shims (core/ceremony/verif_keys_shim.go): the two goroutines of the ceremony that wait on the
// wall clock - the short-session timer and the delayed package broadcast - are run when the schedule says so.
package main

import (
	"encoding/json"
	"flag"
	"fmt"
	"math/rand"
	"os"
	"sort"
	"strings"

	"verifh/internal/sim"
	"verifh/internal/tr"
)

var keyClasses = []string{"g", "g", "g", "x", "next", "old", "len", "nosig", "stranger", "flip"}
var pkgClasses = []string{"g", "g", "g", "e", "s", "next", "old", "big", "nosig", "stranger", "flip"}

// randomScenario: an open-loop seeded walk over the step vocabulary (steps that do not apply when they are reached are
// skipped by the runner); biased so that most walks go through the whole ceremony, many through the epoch change
func randomScenario(rnd *rand.Rand, id string, world string, n int) *scenario {
	sc := &scenario{Id: id, Kind: "random", World: world, Nodes: 3 + rnd.Intn(2)}
	clk := 0
	pos := make([]int, sc.Nodes+1)
	stopAt := []int{pAfter, pEpoch, pShort2, pShort2, pLong}[rnd.Intn(5)]
	lagMax := 1 + rnd.Intn(3)
	node := func() int { return 1 + rnd.Intn(sc.Nodes) }
	for i := 0; i < n; i++ {
		minPos := maxPos
		for k := 1; k <= sc.Nodes; k++ {
			if pos[k] < minPos {
				minPos = pos[k]
			}
		}
		x := rnd.Intn(100)
		switch {
		case x < 14:
			if clk < stopAt && clk-minPos < lagMax {
				clk++
				sc.Steps = append(sc.Steps, step{K: "rel"})
			}
		case x < 44:
			k := node()
			if pos[k] < clk {
				pos[k]++
				sc.Steps = append(sc.Steps, step{K: "adv", N: k})
			}
		case x < 49:
			sc.Steps = append(sc.Steps, step{K: "timer", N: node()})
		case x < 54:
			sc.Steps = append(sc.Steps, step{K: "delayed", N: node()})
		case x < 82:
			st := step{K: "dlv", N: node(), Via: "one"}
			if rnd.Intn(4) == 0 {
				st.Via = "batch"
			}
			cnt := 1 + rnd.Intn(3)
			for j := 0; j < cnt; j++ {
				a := amsg{Kd: rnd.Intn(2), A: 1 + rnd.Intn(4), R: roundOf(clk)}
				if rnd.Intn(10) == 0 {
					a.R = 3 - a.R
				}
				if a.Kd == 0 {
					a.C = keyClasses[rnd.Intn(len(keyClasses))]
				} else {
					a.C = pkgClasses[rnd.Intn(len(pkgClasses))]
				}
				if a.A == 3 && a.C == "g" {
					a.C = "x" // identity 3 has no flips: its "own" messages are the non-author's
					if a.Kd == 1 {
						a.C = "e"
					}
				}
				st.Ms = append(st.Ms, a)
			}
			sc.Steps = append(sc.Steps, st)
		case x < 86:
			sc.Steps = append(sc.Steps, step{K: "restart", N: node()})
		case x < 96:
			st := step{K: "sync", N: node(), Sh: rnd.Intn(3), Nf: 0, Rep: 1}
			if rnd.Intn(5) == 0 {
				st.Nf = 1
			}
			if rnd.Intn(4) == 0 {
				st.Rep = 22
				st.Sh = rnd.Intn(2)
			}
			sc.Steps = append(sc.Steps, st)
		default:
			if world == "large" {
				sc.Steps = append(sc.Steps, step{K: "bulk", N: node()})
			}
		}
	}
	return sc
}

func main() {
	casesPath := flag.String("cases", "", "scenarios (one JSON object per line)")
	outPath := flag.String("out", "trace.ndjson", "trace file")
	nRandom := flag.Int("random", 0, "number of seeded random scenarios")
	rlen := flag.Int("len", 60, "steps per random scenario")
	first := flag.Int("first", 0, "index of the first random scenario (shards of one run use disjoint ranges)")
	flag.Parse()

	seed := tr.Seed()
	out := tr.Create(*outPath)
	bases := map[string]*base{}
	get := func(name string) *base {
		if name == "" {
			name = "small"
		}
		if b, ok := bases[name]; ok {
			return b
		}
		spec, ok := worldSpecs[name]
		if !ok {
			fatal("unknown world %q", name)
		}
		b := buildBase(seed, spec)
		bases[name] = b
		return b
	}
	stats := map[string]int{}
	if *casesPath != "" {
		tr.ReadLines(*casesPath, func(raw []byte) {
			var sc scenario
			if err := json.Unmarshal(raw, &sc); err != nil {
				fatal("bad scenario: %v", err)
			}
			runScenario(get(sc.World), out, &sc, stats)
			stats["scenarios"]++
		})
	}
	for i := 0; i < *nRandom; i++ {
		ri := *first + i
		rnd := rand.New(rand.NewSource(seed*7919 + int64(ri)*104729 + 5))
		world := "small"
		if ri%3 == 2 {
			world = "large"
		}
		sc := randomScenario(rnd, fmt.Sprintf("r%d", ri), world, *rlen)
		runScenario(get(world), out, sc, stats)
		stats["scenarios"]++
		stats["random"]++
	}
	out.Close()
	sim.Cleanup()
	if rederiveFailed > 0 {
		stats["rederive-failed"] = rederiveFailed
	}
	keys := make([]string, 0, len(stats))
	for k := range stats {
		keys = append(keys, k)
	}
	sort.Strings(keys)
	var sb strings.Builder
	for _, k := range keys {
		fmt.Fprintf(&sb, "%s=%d ", strings.ReplaceAll(k, " ", "_"), stats[k])
	}
	fmt.Fprintln(os.Stdout, "d_keys: "+strings.TrimSpace(sb.String()))
}
