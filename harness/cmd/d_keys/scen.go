package main

import (
	"bytes"
	"crypto/ecdsa"
	"fmt"
	"sort"
	"strings"
	"time"

	"github.com/idena-network/idena-go/blockchain/types"
	"github.com/idena-network/idena-go/common"
	"github.com/idena-network/idena-go/core/mempool"
	"github.com/idena-network/idena-go/crypto"
	"github.com/idena-network/idena-go/crypto/ecies"

	"verifh/internal/sim"
	"verifh/internal/tr"
)

// abstract message of a schedule: kind (0 key / 1 package), model identity, class, round
type amsg struct {
	Kd int    `json:"kd"`
	A  int    `json:"a"`
	C  string `json:"c"`
	R  int    `json:"r"`
}

type step struct {
	K   string `json:"k"`   // rel | adv | timer | delayed | dlv | restart | sync | bulk
	N   int    `json:"n"`   // model node (1-based)
	Ms  []amsg `json:"ms"`  // dlv
	Via string `json:"via"` // dlv: one (AddPublicFlipKey / AddPrivateKeysPackage per message) | batch (AddPublicFlipKeys / AddPrivateFlipKeysPackages)
	Sh  int    `json:"sh"`  // sync: 0 every shard, 1 the shard of the keys, 2 another shard
	Nf  int    `json:"nf"`  // sync: noFilter
	Rep int    `json:"rep"` // sync: number of repetitions (default 1)
}

type scenario struct {
	Id    string `json:"id"`
	Kind  string `json:"kind"`
	World string `json:"world"`
	Nodes int    `json:"nodes"`
	Steps []step `json:"steps"`
}

type run struct {
	b     *base
	out   *tr.W
	sc    *scenario
	nodes []*knode // by model node - 1
	clk   int
	msgs  map[int]*msg    // id -> message (world ones and the scenario's genuine ones)
	byKey map[string]*msg // message bytes -> message
	byHsh map[common.Hash128]*msg
	gen   map[string]*msg // genuine messages of tracked authors published in this scenario, by name
	next  int
	stats map[string]int
}

func (r *run) modelOf(key int) int {
	for i, k := range r.b.tracked {
		if k == key {
			return i + 1
		}
	}
	return 100 + key
}

func (r *run) known(m *msg) {
	r.msgs[m.id] = m
	r.byKey[string(m.bytes)] = m
	if m.kd == 1 {
		r.byHsh[m.hash] = m
	}
}

// learn gives an id to a message that a scenario node has produced
func (r *run) learn(kd int, data []byte, round int) *msg {
	if m, ok := r.byKey[string(data)]; ok {
		return m
	}
	m := r.b.finish(&msg{kd: kd, bytes: append([]byte(nil), data...), c: "g", r: round})
	m.a = m.snd
	m.id = r.next
	r.next++
	r.known(m)
	nm := name(kd, m.a, "g", round)
	if _, dup := r.gen[nm]; !dup {
		r.gen[nm] = m
	}
	return m
}

func roundOf(pos int) int {
	if pos >= pEpoch {
		return 2
	}
	return 1
}

func code(err error) string {
	switch {
	case err == nil:
		return "ok"
	case err == mempool.KeyIsAlreadyPublished:
		return "already"
	case err == mempool.KeySkipped:
		return "skipped"
	}
	s := err.Error()
	switch {
	case s == "invalid signature":
		return "sig"
	case s == "invalid epoch":
		return "epoch"
	case s == "flips is missing":
		return "flips"
	case strings.HasPrefix(s, "invalid flip key length"):
		return "len"
	case strings.HasPrefix(s, "too big flip keys package"):
		return "big"
	}
	return "other:" + s
}

// ---------------------------------------------------------------------------------------------
// projections

func b2i(b bool) int {
	if b {
		return 1
	}
	return 0
}

func (r *run) poolOf(c *knode) tr.M {
	s := c.kp.VerifSnapshot()
	keys := [][]int{}
	for _, k := range s.Keys {
		id := -9
		if m, ok := r.byKey[string(k.Bytes)]; ok {
			id = m.id
		}
		keys = append(keys, []int{r.b.sender(k.Sender), id, int(k.Epoch), b2i(k.HighPriority), int(k.ShardId), k.SyncCount})
	}
	pkgs := [][]int{}
	for _, p := range s.Packages {
		id := -9
		if m, ok := r.byHsh[p.Hash]; ok {
			id = m.id
		}
		snd := -3 // only known by hash
		if p.BySender {
			snd = r.b.sender(p.Sender)
		}
		pkgs = append(pkgs, []int{snd, id, int(p.Epoch), b2i(p.BySender), b2i(p.ByHash), b2i(p.Own), int(p.ShardId), p.SyncCount})
	}
	sort.Slice(keys, func(i, j int) bool { return keys[i][1] < keys[j][1] })
	sort.Slice(pkgs, func(i, j int) bool { return pkgs[i][1] < pkgs[j][1] })
	cache := []int{}
	for _, a := range s.ArrayCache {
		cache = append(cache, r.b.sender(a))
	}
	dk, dp := []int{}, []int{}
	for _, kb := range s.DiskKeys {
		id := -9
		if m, ok := r.byKey[string(kb)]; ok {
			id = m.id
		}
		dk = append(dk, id)
	}
	for _, h := range s.DiskPackages {
		id := -9
		if m, ok := r.byHsh[h]; ok {
			id = m.id
		}
		dp = append(dp, id)
	}
	sort.Ints(dk)
	sort.Ints(dp)
	kc := [][]int{}
	for a, n := range s.KeyCounts {
		kc = append(kc, []int{r.b.sender(a), n})
	}
	sort.Slice(kc, func(i, j int) bool { return kc[i][0] < kc[j][0] })
	// what the pool serves to a peer that pulls by hash (pushpull holder interface): every package message known to the scenario
	has := []int{}
	for h, m := range r.byHsh {
		if !c.kp.Has(h) {
			continue
		}
		e, _, _, present := c.kp.Get(h)
		p, isPkg := e.(*types.PrivateFlipKeysPackage)
		ok := present && isPkg && p != nil
		if ok {
			data, _ := p.ToBytes()
			ok = bytes.Equal(data, m.bytes)
		}
		if ok {
			has = append(has, m.id)
		} else {
			has = append(has, -m.id)
		}
	}
	sort.Ints(has)
	return tr.M{"keys": keys, "pkgs": pkgs, "stop": b2i(s.StopSync), "cache": cache, "dk": dk, "dp": dp, "kc": kc, "has": has, "head": int(s.Head)}
}

func (r *run) viewOf(c *knode) tr.M {
	st := c.n.App.State
	au := []int{}
	for k := 0; k < r.b.nk; k++ {
		if len(st.GetIdentity(r.b.addr(k)).Flips) > 0 {
			au = append(au, k)
		}
	}
	ks, ps, ss, armed := c.vc.VerifKeysFlags()
	return tr.M{"ep": int(st.Epoch()), "au": au, "per": int(st.ValidationPeriod()), "h": int(c.n.Chain.Head.Height()), "pos": c.pos,
		"t": r.b.w.Clock.Ticks(), "v": st.NextValidationTime().Unix(), "lot": b2i(c.vc.VerifLotteryReady()),
		"ks": b2i(ks), "ps": b2i(ps), "ss": b2i(ss), "timer": b2i(armed && !c.timerFired), "delayed": b2i(c.delayedArmed)}
}

func errClass(err error) string {
	if err == nil {
		return ""
	}
	s := err.Error()
	switch {
	case s == "data is not ready":
		return "notready"
	case s == "bad flip":
		return "badflip"
	case s == "invalid private key index":
		return "noidx"
	case s == "public key is missing":
		return "nopub"
	case s == "private keys package is missing":
		return "nopkg"
	case s == "flip is missing":
		return "noflip"
	case strings.HasPrefix(s, "invalid private key"):
		return "undecryptable"
	case strings.Contains(s, "cannot decrypt flip public part"):
		return "pubpart"
	case strings.Contains(s, "cannot decrypt flip private part"):
		return "privpart"
	case strings.Contains(s, "not valid ECDSA key"):
		return "badkey"
	}
	return "other:" + s
}

// solve: what the node's own identity can decrypt right now, per author of the current round, through the calls the
// RPC layer makes (GetShort/LongFlipsToSolve, GetDecryptedFlip = GetFlipFromMemory + GetFlipKeys + DecryptMessage + ECIES).
// For a flip that is not in the lists of the identity the same call is made after loading the flip the way the ceremony
// loads assigned ones.  leak: whatever the package index says, some entry of the author's package held by this pool opens
// with the identity's key and decrypts the private part of one of the author's flips.
func (r *run) solve(c *knode) [][]interface{} {
	res := [][]interface{}{}
	round := roundOf(c.pos)
	flipsOf := r.b.flips[round]
	if flipsOf == nil || !c.vc.VerifLotteryReady() {
		// no lottery: nothing is assigned; one probe per tracked author shows that nothing can be read
		for _, a := range r.b.authors {
			fl := r.b.flips[1][a]
			if round == 2 && r.b.flips[2][a] != nil {
				fl = r.b.flips[2][a]
			}
			if len(fl) == 0 || r.modelOf(a) > 99 {
				continue
			}
			_, _, err := c.vc.GetDecryptedFlip(fl[0])
			res = append(res, []interface{}{a, 0, 0, 0, 1, b2i(err == nil), 0, errClass(err)})
		}
		return res
	}
	me := c.self()
	myId := c.n.App.State.GetIdentity(me)
	shardId := myId.ShiftedShardId()
	shards := c.vc.VerifShards()
	sh := shards[shardId]
	if sh == nil {
		return res
	}
	idx := map[common.Address]int{}
	for i, a := range sh.Addresses {
		idx[a] = i
	}
	myIdx, amCand := idx[me]
	assigned := map[string]bool{}
	for _, f := range c.vc.GetShortFlipsToSolve(me, shardId) {
		assigned[string(f)] = true
	}
	for _, f := range c.vc.GetLongFlipsToSolve(me, shardId) {
		assigned[string(f)] = true
	}
	for _, a := range r.b.authors {
		ai, isCand := idx[r.b.addr(a)]
		if !isCand {
			continue
		}
		rcp := false
		nrec := len(sh.CandidatesPerAuthor[ai])
		if amCand {
			for _, x := range sh.CandidatesPerAuthor[ai] {
				rcp = rcp || x == myIdx
			}
		}
		asg, dec, xtry, xdec := 0, 0, 0, 0
		first := ""
		try := func(f []byte) bool {
			if !c.vc.IsFlipInMemory(f) {
				c.fl.LoadInMemory([][]byte{f})
			}
			pub, priv, err := c.vc.GetDecryptedFlip(f)
			if err != nil {
				if first == "" {
					first = errClass(err)
				}
				return false
			}
			want := r.b.plain[string(f)]
			if !bytes.Equal(pub, want[0]) || !bytes.Equal(priv, want[1]) {
				if first == "" {
					first = "mismatch"
				}
				return false
			}
			return true
		}
		for _, f := range flipsOf[a] {
			if assigned[string(f)] {
				asg++
				if try(f) {
					dec++
				}
			} else if xtry < 1 {
				xtry++
				if try(f) {
					xdec++
				}
			}
		}
		leak := 0
		if !rcp && len(flipsOf[a]) > 0 {
			raw, err := c.fl.GetRawFlip(flipsOf[a][0])
			for i := 0; err == nil && i < nrec+2; i++ {
				enc := c.kp.GetEncryptedPrivateFlipKey(i, r.b.addr(a))
				if len(enc) == 0 {
					continue
				}
				d, err := c.n.Sec.DecryptMessage(enc)
				if err != nil {
					continue
				}
				k, err := crypto.ToECDSA(d)
				if err != nil {
					continue
				}
				if p, err := ecies.ImportECDSA(k).Decrypt(raw.PrivatePart, nil, nil); err == nil && bytes.Equal(p, r.b.plain[string(flipsOf[a][0])][1]) {
					leak = 1
					break
				}
			}
		}
		res = append(res, []interface{}{a, b2i(rcp), asg, dec, xtry, xdec, leak, first})
	}
	return res
}

// ---------------------------------------------------------------------------------------------
// steps

func (r *run) emit(ev string, c *knode, extra tr.M) {
	m := tr.M{"ev": ev, "w": r.sc.Id, "clk": r.clk}
	if c != nil {
		// the line describes a state at rest: nothing of the ceremony's own goroutines is at work while it is taken
		for deadline := time.Now().Add(120 * time.Second); busyGoroutines(false) > 0; {
			if time.Now().After(deadline) {
				fatal("node k%d: the ceremony's goroutines did not come to rest", c.key)
			}
			time.Sleep(100 * time.Microsecond)
		}
		pubs := [][]interface{}{}
		relays := 0
		for _, p := range c.takePubs() {
			if !p.own {
				relays++
				if _, ok := r.byKey[string(p.bytes)]; ok {
					continue
				}
			}
			mm := r.learn(p.kd, p.bytes, roundOf(c.pos))
			if p.own {
				pubs = append(pubs, append(mm.rec(), 1))
				r.stats[fmt.Sprintf("pub%d", p.kd)]++
			}
		}
		m["n"] = c.key
		m["pubs"] = pubs
		m["relays"] = relays
		m["view"] = r.viewOf(c)
		if ev != "Sync" {
			m["sol"] = r.solve(c)
		}
		m["pool"] = r.poolOf(c)
	}
	for k, v := range extra {
		m[k] = v
	}
	r.out.Emit(m)
	r.stats["lines"]++
	r.stats["ev:"+ev]++
}

func (r *run) resolve(a amsg) *msg {
	k := a.A
	if a.A >= 1 && a.A <= len(r.b.tracked) {
		k = r.b.tracked[a.A-1]
	} else if a.A >= 100 {
		k = a.A - 100
	}
	nm := name(a.Kd, k, a.C, a.R)
	if m, ok := r.gen[nm]; ok {
		return m
	}
	if m, ok := r.b.forged[nm]; ok {
		return m
	}
	return nil
}

func decodeKey(data []byte) *types.PublicFlipKey {
	k := new(types.PublicFlipKey)
	if err := k.FromBytes(data); err != nil {
		fatal("decode: %v", err)
	}
	return k
}

func decodePkg(data []byte) *types.PrivateFlipKeysPackage {
	p := new(types.PrivateFlipKeysPackage)
	if err := p.FromBytes(data); err != nil {
		fatal("decode: %v", err)
	}
	return p
}

func (r *run) deliver(c *knode, st step) {
	var ms []*msg
	missing := 0
	for _, a := range st.Ms {
		if m := r.resolve(a); m != nil {
			ms = append(ms, m)
		} else {
			missing++
		}
	}
	if len(ms) == 0 {
		r.stats["skip:dlv"]++
		return
	}
	recs := [][]interface{}{}
	codes := []string{}
	via := st.Via
	if via == "" {
		via = "one"
	}
	switch via {
	case "one":
		for _, m := range ms {
			var err error
			if m.kd == 0 {
				err = c.kp.AddPublicFlipKey(decodeKey(m.bytes), false)
			} else {
				err = c.kp.AddPrivateKeysPackage(decodePkg(m.bytes), false)
			}
			recs = append(recs, m.rec())
			codes = append(codes, code(err))
			r.stats["dlv:"+m.c+":"+code(err)]++
			r.stats["in:"+m.c]++
		}
	case "batch":
		// the entry points of the asynchronous pool's reader goroutines: one state snapshot per batch, keys and packages
		// in separate batches; the trace lists the messages in the order in which they were applied
		var kb []*types.PublicFlipKey
		var pb []*types.PrivateFlipKeysPackage
		var ko, po []*msg
		for _, m := range ms {
			if m.kd == 0 {
				kb = append(kb, decodeKey(m.bytes))
				ko = append(ko, m)
			} else {
				pb = append(pb, decodePkg(m.bytes))
				po = append(po, m)
			}
		}
		if len(kb) > 0 {
			c.kp.AddPublicFlipKeys(kb)
		}
		if len(pb) > 0 {
			c.kp.AddPrivateFlipKeysPackages(pb)
		}
		for _, m := range append(ko, po...) {
			recs = append(recs, m.rec())
			codes = append(codes, "?")
		}
		r.stats["dlv:batch"]++
	default:
		fatal("unknown delivery mode %q", via)
	}
	r.emit("Dlv", c, tr.M{"ms": recs, "codes": codes, "via": via, "missing": missing})
}

// bulk: every genuine message of the authors without a node goes through the REAL asynchronous pool (queues + reader
// goroutines) of the node.  The step is only taken when each of them is admissible by the published rule on this node
// right now (the authors have flips in the node's head state, the epoch matches, nothing is held for them), so that
// the reader goroutines are done exactly when all of them are held; the wait is on that progress (bounded generously).
func (r *run) bulk(c *knode) {
	round := roundOf(c.pos)
	var ms []*msg
	st := c.n.App.State
	snap := c.kp.VerifSnapshot()
	held := map[common.Address]bool{}
	for _, k := range snap.Keys {
		held[k.Sender] = true
	}
	for _, p := range snap.Packages {
		if p.BySender {
			held[p.Sender] = true
		}
	}
	for _, m := range r.b.msgs {
		if m.c == "g" && m.r == round && m.ep == int(st.Epoch()) && len(st.GetIdentity(r.b.addr(m.a)).Flips) > 0 && !held[r.b.addr(m.a)] {
			ms = append(ms, m)
		}
	}
	if len(ms) == 0 {
		r.stats["skip:bulk"]++
		return
	}
	if c.async == nil {
		c.async = mempool.NewAsyncKeysPool(c.kp)
	}
	recs := [][]interface{}{}
	codes := []string{}
	for _, m := range ms {
		var err error
		if m.kd == 0 {
			err = c.async.AddPublicFlipKey(decodeKey(m.bytes), false)
		} else {
			err = c.async.AddPrivateKeysPackage(decodePkg(m.bytes), false)
		}
		if err != nil {
			fatal("asynchronous pool refused to queue: %v", err)
		}
		recs = append(recs, m.rec())
		codes = append(codes, "?")
	}
	deadline := time.Now().Add(bulkPatience)
	for {
		snap := c.kp.VerifSnapshot()
		n := 0
		for _, k := range snap.Keys {
			if m, ok := r.byKey[string(k.Bytes)]; ok && m.c == "g" && r.modelOf(m.a) > 99 {
				n++
			}
		}
		for _, p := range snap.Packages {
			if m, ok := r.byHsh[p.Hash]; ok && p.BySender && m.c == "g" && r.modelOf(m.a) > 99 {
				n++
			}
		}
		if n >= len(ms) {
			break
		}
		if time.Now().After(deadline) {
			// the reader goroutines have had their time: the line shows what they made of the queue; later bulk steps of this
			// process do not wait that long again
			bulkPatience = 2 * time.Second
			r.stats["bulk-timeout"]++
			break
		}
		time.Sleep(200 * time.Microsecond)
	}
	r.stats["bulk"]++
	r.stats["bulkmsgs"] += len(ms)
	// keys and packages travel through separate queues: the order between the two kinds is not determined; within a kind
	// it is the queueing order.  No two messages of a bulk step compete, so any order explains the same pool.
	r.emit("Dlv", c, tr.M{"ms": recs, "codes": codes, "via": "async", "missing": 0})
}

func (r *run) ids(keys []*types.PublicFlipKey) []int {
	res := []int{}
	for _, k := range keys {
		data, _ := k.ToBytes()
		if m, ok := r.byKey[string(data)]; ok {
			res = append(res, m.id)
		} else {
			res = append(res, -9)
		}
	}
	sort.Ints(res)
	return res
}

func (r *run) hids(hs []common.Hash128) []int {
	res := []int{}
	for _, h := range hs {
		if m, ok := r.byHsh[h]; ok {
			res = append(res, m.id)
		} else {
			res = append(res, -9)
		}
	}
	sort.Ints(res)
	return res
}

func (r *run) sync(c *knode, st step) {
	rep := st.Rep
	if rep < 1 {
		rep = 1
	}
	for i := 0; i < rep; i++ {
		shard := common.MultiShard
		switch st.Sh {
		case 1:
			shard = c.n.App.State.ShardId(c.self())
		case 2:
			shard = common.ShardId(77)
		}
		nf := st.Nf == 1
		pk := r.ids(c.kp.GetPriorityFlipKeysForSync())
		k := r.ids(c.kp.GetFlipKeysForSync(shard, nf))
		pp := r.hids(c.kp.GetPriorityFlipPackagesHashesForSync())
		p := r.hids(c.kp.GetFlipPackagesHashesForSync(shard, nf))
		r.stats["sync"]++
		r.stats["offered"] += len(pk) + len(k) + len(pp) + len(p)
		r.emit("Sync", c, tr.M{"sh": int(shard), "nf": st.Nf, "pk": pk, "k": k, "pp": pp, "p": p})
	}
}

func (r *run) exec(st step) {
	var c *knode
	if st.K != "rel" {
		if st.N < 1 || st.N > len(r.nodes) {
			fatal("scenario %s: no node %d", r.sc.Id, st.N)
		}
		c = r.nodes[st.N-1]
	}
	b := r.b
	switch st.K {
	case "rel":
		if r.clk >= maxPos {
			r.stats["skip:rel"]++
			return
		}
		r.clk++
		if t := b.segTime[r.clk] + 1; b.w.Clock.Ticks() < t {
			b.w.SetNow(t)
		}
		r.emit("Rel", nil, tr.M{"t": b.w.Clock.Ticks()})
	case "adv":
		if c.pos >= r.clk {
			r.stats["skip:adv"]++
			return
		}
		c.pos++
		for _, blk := range b.segs[c.pos] {
			c.add(blk)
		}
		r.stats["adv:"+posNames[c.pos]]++
		r.emit("Adv", c, nil)
	case "timer":
		_, _, _, armed := c.vc.VerifKeysFlags()
		if !armed || c.timerFired || !b.w.Clock.Now().After(c.n.App.State.NextValidationTime()) {
			r.stats["skip:timer"]++
			return
		}
		c.timerFired = true
		if err := c.vc.VerifShortSessionTimerFires(); err != nil {
			fatal("timer: %v", err)
		}
		r.stats["timer"]++
		r.emit("Timer", c, nil)
	case "delayed":
		if !c.delayedArmed {
			r.stats["skip:delayed"]++
			return
		}
		c.delayedArmed = false
		c.vc.VerifDelayedFlipPackageBroadcast()
		r.stats["delayed"]++
		r.emit("Delayed", c, nil)
	case "dlv":
		r.deliver(c, st)
	case "bulk":
		r.bulk(c)
	case "restart":
		c.restart()
		r.stats["restart"]++
		r.emit("Restart", c, nil)
	case "sync":
		r.sync(c, st)
	default:
		fatal("unknown step %q", st.K)
	}
}

func runScenario(b *base, out *tr.W, sc *scenario, stats map[string]int) {
	r := &run{b: b, out: out, sc: sc, msgs: map[int]*msg{}, byKey: map[string]*msg{}, byHsh: map[common.Hash128]*msg{}, gen: map[string]*msg{}, stats: stats}
	for _, m := range b.msgs {
		r.known(m)
	}
	r.next = len(b.msgs) + 1
	b.w.Use()
	b.w.SetNow(b.readyTime + 1)
	nn := sc.Nodes
	if nn < 1 || nn > len(b.tracked) {
		nn = len(b.tracked)
	}
	ids := []int{}
	for i := 0; i < nn; i++ {
		c := b.boot(b.tracked[i], sim.CopyDB(b.readyDB), b.newIpfs(nil))
		c.takePubs()
		r.nodes = append(r.nodes, c)
		ids = append(ids, c.key)
	}
	// the pre-built messages the scenario may use, so that the trace specification knows every id it can meet
	tab := [][]interface{}{}
	for _, m := range b.msgs {
		tab = append(tab, m.rec())
	}
	out.Emit(tr.M{"ev": "World", "w": sc.Id, "kind": sc.Kind, "world": b.name, "nodes": ids, "authors": b.authors, "cands": b.cands, "nk": b.nk,
		"ep": int(b.epoch1), "tab": tab, "v1": b.vOf[1], "v2": b.vOf[2], "maxsync": 20, "derive": b.derive})
	stats["lines"]++
	stats["worlds"]++
	for _, c := range r.nodes {
		r.emit("Boot", c, nil)
	}
	for _, st := range sc.Steps {
		r.exec(st)
	}
	for _, c := range r.nodes {
		c.close()
	}
}

var bulkPatience = 60 * time.Second

var _ = ecdsa.PrivateKey{}
