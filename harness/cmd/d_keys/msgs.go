package main

import (
	"crypto/ecdsa"
	"crypto/sha256"
	"fmt"

	"github.com/idena-network/idena-go/blockchain/types"
	"github.com/idena-network/idena-go/common"
	"github.com/idena-network/idena-go/core/mempool"
	"github.com/idena-network/idena-go/crypto"
)

// msg is one flip key message as it travels between nodes (bytes), with what the harness knows about it.
type msg struct {
	id    int
	kd    int // 0 public flip key, 1 private keys package
	bytes []byte
	hash  common.Hash128 // packages: the push / pull hash
	snd   int            // who the repository's signature recovery says signed it: world key, -1 nobody (no address), -2 a stranger
	ep    int
	c     string // content class (see spec/KeysPool.tla)
	a     int    // the identity whose message this is or pretends to be (world key)
	r     int    // round it was made for
}

func (m *msg) rec() []interface{} {
	return []interface{}{m.id, m.kd, m.snd, m.ep, m.c}
}

func detKey(label string) *ecdsa.PrivateKey {
	for n := 0; ; n++ {
		h := sha256.Sum256([]byte(fmt.Sprintf("verif-keys/%s/%d", label, n)))
		k, err := crypto.ToECDSA(h[:])
		if err == nil {
			return k
		}
	}
}

func (b *base) sender(addr common.Address) int {
	if addr == (common.Address{}) {
		return -1
	}
	if i := b.w.Index(addr); i >= 0 {
		return i
	}
	return -2
}

// finish decodes the message from its bytes (as a receiving node does) and asks the repository who signed it
func (b *base) finish(m *msg) *msg {
	if m.kd == 0 {
		k := new(types.PublicFlipKey)
		if err := k.FromBytes(m.bytes); err != nil {
			fatal("key message does not decode: %v", err)
		}
		a, _ := types.SenderFlipKey(k)
		m.snd, m.ep = b.sender(a), int(k.Epoch)
	} else {
		p := new(types.PrivateFlipKeysPackage)
		if err := p.FromBytes(m.bytes); err != nil {
			fatal("package message does not decode: %v", err)
		}
		a, _ := types.SenderFlipKeysPackage(p)
		m.snd, m.ep, m.hash = b.sender(a), int(p.Epoch), p.Hash128()
	}
	return m
}

func name(kd int, a int, c string, r int) string {
	return fmt.Sprintf("%d:%d:%s:%d", kd, a, c, r)
}

func (b *base) register(m *msg) {
	m.id = len(b.msgs) + 1
	b.msgs = append(b.msgs, m)
	b.forged[name(m.kd, m.a, m.c, m.r)] = m
}

func mustKey(k *types.PublicFlipKey, err error) []byte {
	if err != nil {
		fatal("sign: %v", err)
	}
	data, _ := k.ToBytes()
	return data
}

func mustPkg(p *types.PrivateFlipKeysPackage, err error) []byte {
	if err != nil {
		fatal("sign: %v", err)
	}
	data, _ := p.ToBytes()
	return data
}

// buildForged pre-builds, for the round whose lottery the builder has just computed, every message that is not produced
// by the ceremony of a scenario node: what a second machine of the same identity, an equivocating author, a replaying or
// corrupting relay or a non-author could send, and the genuine messages of the authors that own no node in scenarios.
// Everything is built with the repository's own functions (EncryptPrivateKeysPackage, SignFlipKey, SignFlipKeysPackage).
func (b *base) buildForged(bn *knode, round int) {
	ep := uint16(int(b.epoch1) + round - 1)
	stranger := detKey(fmt.Sprintf("stranger/%d/%s", b.seed, b.name))
	for _, k := range b.tracked {
		key := b.w.Keys[k]
		alt := func(tag string) []byte {
			return crypto.FromECDSA(detKey(fmt.Sprintf("alt/%d/%s/%d/%d/%s", b.seed, b.name, round, k, tag)))
		}
		add := func(kd int, c string, data []byte) {
			b.register(b.finish(&msg{kd: kd, bytes: data, c: c, a: k, r: round}))
		}
		// public keys
		add(0, "x", mustKey(types.SignFlipKey(&types.PublicFlipKey{Key: alt("x"), Epoch: ep}, key)))
		add(0, "next", mustKey(types.SignFlipKey(&types.PublicFlipKey{Key: alt("next"), Epoch: ep + 1}, key)))
		add(0, "old", mustKey(types.SignFlipKey(&types.PublicFlipKey{Key: alt("old"), Epoch: ep - 1}, key)))
		add(0, "len", mustKey(types.SignFlipKey(&types.PublicFlipKey{Key: alt("len")[:31], Epoch: ep}, key)))
		add(0, "nosig", mustKey(&types.PublicFlipKey{Key: alt("nosig"), Epoch: ep, Signature: []byte{1, 2, 3}}, nil))
		add(0, "stranger", mustKey(types.SignFlipKey(&types.PublicFlipKey{Key: alt("stranger"), Epoch: ep}, stranger)))
		fk, _ := types.SignFlipKey(&types.PublicFlipKey{Key: alt("flip"), Epoch: ep}, key)
		fk.Signature[7] ^= 0x40
		add(0, "flip", mustKey(fk, nil))
		// packages
		ak := b.akeys[round][k]
		if ak == nil {
			// not an author: its packages are built with keys of its own making for the recipients of author 1
			ak = &authorKeys{pub: b.akeys[round][1].pub, priv: b.akeys[round][1].priv, recips: b.akeys[round][1].recips}
		}
		pk := func(recips [][]byte) []byte { return mempool.EncryptPrivateKeysPackage(ak.pub, ak.priv, recips) }
		add(1, "e", mustPkg(types.SignFlipKeysPackage(&types.PrivateFlipKeysPackage{Data: pk(ak.recips), Epoch: ep}, key)))
		add(1, "s", mustPkg(types.SignFlipKeysPackage(&types.PrivateFlipKeysPackage{Data: pk(ak.recips[:len(ak.recips)/2]), Epoch: ep}, key)))
		add(1, "next", mustPkg(types.SignFlipKeysPackage(&types.PrivateFlipKeysPackage{Data: pk(ak.recips), Epoch: ep + 1}, key)))
		add(1, "old", mustPkg(types.SignFlipKeysPackage(&types.PrivateFlipKeysPackage{Data: pk(ak.recips), Epoch: ep - 1}, key)))
		big := make([]byte, 1024*100+1)
		for i := range big {
			big[i] = byte(i * 7)
		}
		add(1, "big", mustPkg(types.SignFlipKeysPackage(&types.PrivateFlipKeysPackage{Data: big, Epoch: ep}, key)))
		add(1, "nosig", mustPkg(&types.PrivateFlipKeysPackage{Data: pk(ak.recips), Epoch: ep, Signature: []byte{4, 5}}, nil))
		add(1, "stranger", mustPkg(types.SignFlipKeysPackage(&types.PrivateFlipKeysPackage{Data: pk(ak.recips), Epoch: ep}, stranger)))
		fp, _ := types.SignFlipKeysPackage(&types.PrivateFlipKeysPackage{Data: pk(ak.recips), Epoch: ep}, key)
		fp.Signature[9] ^= 0x10
		add(1, "flip", mustPkg(fp, nil))
	}
	// the authors without a node: the harness is their node (same calls as broadcastPublicFipKey / broadcastPrivateFlipKeysPackage)
	for _, k := range b.authors {
		tr := false
		for _, t := range b.tracked {
			tr = tr || t == k
		}
		if tr {
			continue
		}
		ak := b.akeys[round][k]
		b.register(b.finish(&msg{kd: 0, c: "g", a: k, r: round,
			bytes: mustKey(types.SignFlipKey(&types.PublicFlipKey{Key: crypto.FromECDSA(ak.pub.ExportECDSA()), Epoch: ep}, b.w.Keys[k]))}))
		b.register(b.finish(&msg{kd: 1, c: "g", a: k, r: round,
			bytes: mustPkg(types.SignFlipKeysPackage(&types.PrivateFlipKeysPackage{Data: mempool.EncryptPrivateKeysPackage(ak.pub, ak.priv, ak.recips), Epoch: ep}, b.w.Keys[k]))}))
	}
}
