// d_blockcheck: conformance driver of C03 (a block with any inconsistent derived field is rejected,
// side-effect free).
//
// The driver builds a real chain (several proposers, blocks with plain txs, with contract receipts,
// without txs, empty blocks, identity-update blocks, a time-derived period flag).  Every block of that
// chain is an ORIGINAL: together with a copy of the database it was proposed on, an honest SIBLING
// (same parent, proposer and time, another body) and honest proposals of ineligible keys.  For every
// case exported by TLC from spec/BlockCheck.tla the tamper is applied to a DECODED copy of the
// original, the result is RE-ENCODED and decoded again, and offered to a FRESH node (booted over a
// copy of that database) through ValidateBlock and AddBlock; afterwards the honest original is
// inserted on the same node.  Everything observed is written as an ndjson trace; the verdict is
// TLC's (spec/Trace_BlockCheck.tla).  The driver decides nothing.
package main

import (
	"bytes"
	"encoding/binary"
	"encoding/hex"
	"encoding/json"
	"flag"
	"fmt"
	"math"
	"math/big"
	"math/rand"
	"os"
	"runtime"
	"sort"
	"strings"

	"github.com/idena-network/idena-go/blockchain/attachments"
	"github.com/idena-network/idena-go/blockchain/types"
	"github.com/idena-network/idena-go/blockchain/validation"
	"github.com/idena-network/idena-go/common"
	"github.com/idena-network/idena-go/core/appstate"
	"github.com/idena-network/idena-go/core/state"
	"github.com/idena-network/idena-go/crypto"
	"github.com/idena-network/idena-go/stats/collector"
	"github.com/idena-network/idena-go/vm/embedded"
	dbm "github.com/tendermint/tm-db"

	"verifh/internal/sim"
	"verifh/internal/tr"
)

// ------------------------------------------------------------------------------------------------
// cases (vocabulary of BlockCheck.tla)

type Case struct {
	T      string            `json:"t"`
	F      string            `json:"f,omitempty"`
	Op     string            `json:"op,omitempty"`
	E      string            `json:"e,omitempty"`
	Rehash *bool             `json:"rehash,omitempty"`
	C      string            `json:"c,omitempty"`
	Body   string            `json:"body,omitempty"`
	S      string            `json:"s,omitempty"`
	Src    map[string]string `json:"src,omitempty"`
	Parts  []*Case           `json:"parts,omitempty"`
	G      string            `json:"g,omitempty"`
	Rebuilt *bool            `json:"rebuilt,omitempty"`
}

type Exported struct {
	Kind   string   `json:"kind"`
	C      *Case    `json:"c"`
	Expect string   `json:"expect"`
	Cond   bool     `json:"cond"`
	Fail   []string `json:"fail"`
}

func (c *Case) sig() string {
	switch c.T {
	case "field":
		return "field:" + c.F + ":" + c.Op
	case "body":
		return fmt.Sprintf("body:%s:%v", c.E, c.Rehash != nil && *c.Rehash)
	case "time":
		if c.Rebuilt != nil && *c.Rebuilt {
			return "time:" + c.C + ":rebuilt"
		}
		return "time:" + c.C
	case "key", "free":
		return c.T + ":" + c.C
	case "struct":
		return "struct:" + c.S
	case "replay":
		return "replay:" + c.G
	case "mix":
		var ks []string
		for k, v := range c.Src {
			if v != c.Body {
				ks = append(ks, k)
			}
		}
		sort.Strings(ks)
		return "mix:" + c.Body + ":" + strings.Join(ks, "+")
	case "multi":
		var p []string
		for _, x := range c.Parts {
			p = append(p, x.sig())
		}
		return "multi[" + strings.Join(p, ",") + "]"
	}
	return c.T
}

// ------------------------------------------------------------------------------------------------
// field access on decoded blocks (canonical byte representation per field)

var pFields = []string{"parent", "height", "seed", "proof", "fee", "txhash", "bloom", "flags", "root", "idroot", "ipfs", "rcid"}
var eFields = []string{"parent", "height", "root", "idroot", "seed", "time", "flags"}
var bodyDep = []string{"txhash", "bloom", "flags", "root", "idroot", "ipfs", "rcid"}

var relGroup = map[string]int{"seed": 1, "proof": 1, "root": 2, "idroot": 2, "txhash": 3, "ipfs": 3, "bloom": 4, "rcid": 4, "parent": 5, "height": 5}

const derivedFlagMask = uint32(types.IdentityUpdate | types.FlipLotteryStarted | types.ShortSessionStarted | types.LongSessionStarted |
	types.AfterLongSessionStarted | types.ValidationFinished | types.Snapshot | types.NewGenesis)

func u64(x uint64) []byte { b := make([]byte, 8); binary.BigEndian.PutUint64(b, x); return b }
func u32(x uint32) []byte { b := make([]byte, 4); binary.BigEndian.PutUint32(b, x); return b }

func cp(b []byte) []byte { return append([]byte(nil), b...) }

// getField returns the canonical bytes of a header field (works on empty and proposed headers).
func getField(b *types.Block, f string) []byte {
	if e := b.Header.EmptyBlockHeader; e != nil && b.Header.ProposedHeader == nil {
		switch f {
		case "parent":
			return cp(e.ParentHash[:])
		case "height":
			return u64(e.Height)
		case "root":
			return cp(e.Root[:])
		case "idroot":
			return cp(e.IdentityRoot[:])
		case "seed":
			return cp(e.BlockSeed[:])
		case "time":
			return u64(uint64(e.Time))
		case "flags":
			return u32(uint32(e.Flags))
		}
		return nil
	}
	p := b.Header.ProposedHeader
	switch f {
	case "parent":
		return cp(p.ParentHash[:])
	case "height":
		return u64(p.Height)
	case "seed":
		return cp(p.BlockSeed[:])
	case "proof":
		return cp(p.SeedProof)
	case "fee":
		if p.FeePerGas == nil {
			return nil
		}
		return p.FeePerGas.Bytes()
	case "txhash":
		return cp(p.TxHash[:])
	case "bloom":
		return cp(p.TxBloom)
	case "flags":
		return u32(uint32(p.Flags))
	case "root":
		return cp(p.Root[:])
	case "idroot":
		return cp(p.IdentityRoot[:])
	case "ipfs":
		return cp(p.IpfsHash)
	case "rcid":
		return cp(p.TxReceiptsCid)
	case "time":
		return u64(uint64(p.Time))
	case "pubkey":
		return cp(p.ProposerPubKey)
	case "upgrade":
		return u32(p.Upgrade)
	case "offaddr":
		if p.OfflineAddr == nil {
			return nil
		}
		return cp(p.OfflineAddr[:])
	}
	return nil
}

func setField(b *types.Block, f string, v []byte) {
	if e := b.Header.EmptyBlockHeader; e != nil && b.Header.ProposedHeader == nil {
		switch f {
		case "parent":
			e.ParentHash = common.BytesToHash(v)
		case "height":
			e.Height = binary.BigEndian.Uint64(v)
		case "root":
			e.Root = common.BytesToHash(v)
		case "idroot":
			e.IdentityRoot = common.BytesToHash(v)
		case "seed":
			e.BlockSeed = types.BytesToSeed(v)
		case "time":
			e.Time = int64(binary.BigEndian.Uint64(v))
		case "flags":
			e.Flags = types.BlockFlag(binary.BigEndian.Uint32(v))
		default:
			panic("empty header has no field " + f)
		}
		return
	}
	p := b.Header.ProposedHeader
	switch f {
	case "parent":
		p.ParentHash = common.BytesToHash(v)
	case "height":
		p.Height = binary.BigEndian.Uint64(v)
	case "seed":
		p.BlockSeed = types.BytesToSeed(v)
	case "proof":
		p.SeedProof = cp(v)
	case "fee":
		if len(v) == 0 {
			p.FeePerGas = nil
		} else {
			p.FeePerGas = new(big.Int).SetBytes(v)
		}
	case "txhash":
		p.TxHash = common.BytesToHash(v)
	case "bloom":
		p.TxBloom = cp(v)
	case "flags":
		p.Flags = types.BlockFlag(binary.BigEndian.Uint32(v))
	case "root":
		p.Root = common.BytesToHash(v)
	case "idroot":
		p.IdentityRoot = common.BytesToHash(v)
	case "ipfs":
		p.IpfsHash = cp(v)
	case "rcid":
		p.TxReceiptsCid = cp(v)
	case "time":
		p.Time = int64(binary.BigEndian.Uint64(v))
	case "pubkey":
		p.ProposerPubKey = cp(v)
	default:
		panic("proposed header has no field " + f)
	}
}

func isZero(v []byte) bool {
	for _, x := range v {
		if x != 0 {
			return false
		}
	}
	return true
}

func fixedLen(f string) int {
	switch f {
	case "parent", "seed", "txhash", "root", "idroot":
		return 32
	case "height", "time":
		return 8
	case "flags":
		return 4
	}
	return 0 // variable length
}

// applyOp computes the tampered value of a field; ok=false when the operator is not applicable.
func applyOp(f, op string, cur []byte, rnd *rand.Rand, donor func() []byte) (res []byte, ok bool) {
	v := cp(cur)
	if f == "flags" {
		// only the derived bits belong to the claim: the offline-vote bits are the proposer's free choice
		old := binary.BigEndian.Uint32(v)
		d := old & derivedFlagMask
		var nd uint32
		switch op {
		case "flip":
			bits := []uint{0, 1, 2, 3, 4, 5, 6}
			nd = d ^ (1 << bits[rnd.Intn(len(bits))])
		case "inc":
			nd = (d + 1) & derivedFlagMask
		case "dec":
			nd = (d - 1) & derivedFlagMask
		case "zero":
			nd = 0
		case "foreign":
			x := donor()
			if x == nil {
				return nil, false
			}
			nd = binary.BigEndian.Uint32(x) & derivedFlagMask
		}
		return u32((old &^ derivedFlagMask) | nd), true
	}
	if f == "fee" {
		x := new(big.Int).SetBytes(v)
		var y *big.Int
		switch op {
		case "flip":
			if len(v) == 0 {
				y = big.NewInt(1 << uint(rnd.Intn(20)))
			} else {
				w := cp(v)
				w[rnd.Intn(len(w))] ^= 1 << uint(rnd.Intn(8))
				y = new(big.Int).SetBytes(w)
			}
		case "inc":
			y = new(big.Int).Add(x, big.NewInt(1))
		case "dec":
			y = new(big.Int).Sub(x, big.NewInt(1))
		case "zero":
			return nil, true
		case "foreign":
			d := donor()
			if d == nil {
				return nil, false
			}
			y = new(big.Int).SetBytes(d)
		}
		if y.Sign() <= 0 {
			// a zero rate is an ABSENT rate (free choice), a negative one is not encodable
			return nil, false
		}
		return y.Bytes(), true
	}
	n := fixedLen(f)
	switch op {
	case "flip":
		if len(v) == 0 {
			return []byte{1 << uint(rnd.Intn(8))}, true
		}
		i := rnd.Intn(len(v))
		if n == 8 {
			i = 6 + rnd.Intn(2) // low 16 bits of an integer
		}
		v[i] ^= 1 << uint(rnd.Intn(8))
		return v, true
	case "inc":
		if len(v) == 0 {
			return []byte{1}, true
		}
		for i := len(v) - 1; i >= 0; i-- {
			v[i]++
			if v[i] != 0 {
				break
			}
		}
		return v, true
	case "dec":
		if len(v) == 0 {
			return []byte{0xff}, true
		}
		for i := len(v) - 1; i >= 0; i-- {
			v[i]--
			if v[i] != 0xff {
				break
			}
		}
		return v, true
	case "zero":
		if n == 0 {
			return nil, true
		}
		return make([]byte, n), true
	case "foreign":
		d := donor()
		if d == nil {
			return nil, false
		}
		return d, true
	}
	panic("unknown op " + op)
}

// diffFields lists the header fields / inputs in which t differs from base.
func diffFields(t, base *types.Block) []string {
	res := []string{}
	if t.IsEmpty() != base.IsEmpty() || (t.Header.ProposedHeader == nil) != (base.Header.ProposedHeader == nil) {
		return []string{"kind"}
	}
	fs := eFields
	if t.Header.ProposedHeader != nil {
		fs = append(append([]string{}, pFields...), "time", "pubkey", "upgrade", "offaddr")
	}
	for _, f := range fs {
		if !bytes.Equal(getField(t, f), getField(base, f)) {
			res = append(res, f)
		}
	}
	if !bytes.Equal(t.Body.ToBytes(), base.Body.ToBytes()) {
		res = append(res, "body")
	}
	return res
}

// ------------------------------------------------------------------------------------------------
// originals

type Original struct {
	ID       int
	Kind     string
	Height   uint64
	Snap     dbm.DB // database the block was proposed on (never mutated; copied per node)
	Bytes    []byte
	Blk      *types.Block
	Parent   *types.Header
	Proposer int
	Sib      []byte            // honest sibling (same parent/proposer/time, another body); nil for empty blocks
	E        []byte            // the honest EMPTY block of this height (the original itself when it is empty)
	P        []byte            // an honest PROPOSAL of this height (the original itself when it is proposed)
	Inelig   map[string][]byte // honest proposals of ineligible keys: "unknown", "offline"
	Other    int               // key used for the "swap" case
	Now      int64             // the validators' clock while the block travels
	Note     string
	refs     map[int][]string
	twins    map[string][]string
	byHash   map[common.Hash][]byte
	names    map[common.Hash]string
}

type chainBuilder struct {
	w      *sim.World
	rnd    *rand.Rand
	full   map[int]*sim.Node // nodes following the chain (the proposers)
	nonce  map[int]uint32
	online map[int]bool
	killed map[int]bool
	origs  []*Original
	blocks []*types.Block // every block of the chain so far (donors of foreign values)
	deploy int
}

const (
	kGod     = 0
	kVal1    = 1
	kHuman   = 2 // validated, never online: the "offline identity" proposer; deploys the contracts
	kVictim  = 3
	kNewbie  = 4
	kUnknown = 7
	kRich1   = 10
	kRich2   = 11
	nKeys    = 13
)

var killable = []int{5, 6, 8, 9}

func newChain(seed int64, heights int) *chainBuilder {
	w := sim.NewWorld(seed, nKeys)
	w.Cons.StatusSwitchRange = 5
	w.Allocs = []sim.Alloc{
		{Key: kGod, State: state.Verified, Balance: sim.Dna(200000, 1), Stake: sim.Dna(100, 1)},
		{Key: kVal1, State: state.Verified, Balance: sim.Dna(50000, 1), Stake: sim.Dna(50, 1)},
		{Key: kHuman, State: state.Human, Balance: sim.Dna(400000, 1), Stake: sim.Dna(50, 1)},
		{Key: kVictim, State: state.Verified, Balance: sim.Dna(50000, 1), Stake: sim.Dna(50, 1)},
		{Key: kNewbie, State: state.Newbie, Balance: sim.Dna(10000, 1), Stake: sim.Dna(50, 1)},
		{Key: kRich1, State: state.Undefined, Balance: sim.Dna(100000, 1)},
		{Key: kRich2, State: state.Undefined, Balance: sim.Dna(100000, 1)},
		{Key: 12, State: state.Undefined, Balance: sim.Dna(100000, 1)},
	}
	for _, k := range killable {
		w.Allocs = append(w.Allocs, sim.Alloc{Key: k, State: state.Verified, Balance: sim.Dna(20000, 1), Stake: sim.Dna(50, 1)})
	}
	// the flip lottery starts (time-derived period flag) three blocks before the end of the chain
	w.FirstCeremony = int64(heights-3)*20 + 5*60 + 7
	cb := &chainBuilder{w: w, rnd: rand.New(rand.NewSource(seed*7919 + 13)), full: map[int]*sim.Node{}, nonce: map[int]uint32{},
		online: map[int]bool{}, killed: map[int]bool{}}
	for _, k := range []int{kGod, kVal1} {
		n := w.NewNode(k)
		if n.BootErr != nil {
			panic(n.BootErr)
		}
		cb.full[k] = n
	}
	g := cb.full[kGod].Chain.GetBlockByHeight(1)
	cb.blocks = append(cb.blocks, g)
	return cb
}

func (cb *chainBuilder) tx(s sim.TxSpec) *types.Transaction {
	cb.nonce[s.From]++
	s.Nonce = cb.nonce[s.From]
	if s.MaxFee == nil {
		s.MaxFee = sim.Dna(100, 1)
	}
	return cb.w.Tx(s)
}

func (cb *chainBuilder) sends(n int) []*types.Transaction {
	senders := []int{kVal1, kVictim, kNewbie, kRich1, 12, kGod}
	var res []*types.Transaction
	for i := 0; i < n; i++ {
		from := senders[cb.rnd.Intn(len(senders))]
		to := cb.rnd.Intn(nKeys)
		amt := sim.Dna(int64(1+cb.rnd.Intn(50)), int64(1+cb.rnd.Intn(4)))
		res = append(res, cb.tx(sim.TxSpec{From: from, To: &cb.w.Addrs[to], Type: types.SendTx, Amount: amt}))
	}
	return res
}

func (cb *chainBuilder) deployTx() *types.Transaction {
	cb.deploy++
	var data [][]byte
	data = append(data, common.ToBytes(byte(2+cb.deploy%3)))
	data = append(data, common.ToBytes(byte(2)))
	att := attachments.CreateDeployContractAttachment(embedded.MultisigContract, nil, nil, data...)
	payload, err := att.ToBytes()
	if err != nil {
		panic(err)
	}
	return cb.tx(sim.TxSpec{From: kHuman, Type: types.DeployContractTx, Amount: sim.Dna(9000, 1), MaxFee: sim.Dna(3000, 1), Payload: payload})
}

type plan struct {
	kind     string
	proposer int
	txs      []*types.Transaction
	special  int // index of the tx the sibling leaves out (-1: the last one)
	note     string
}

func (cb *chainBuilder) eligible() []int {
	var res []int
	for _, k := range []int{kGod, kVal1} {
		if cb.online[k] {
			res = append(res, k)
		}
	}
	if len(res) == 0 {
		return []int{kGod}
	}
	return res
}

func (cb *chainBuilder) plan(h uint64, last uint64) *plan {
	el := cb.eligible()
	p := &plan{proposer: el[cb.rnd.Intn(len(el))], special: -1}
	switch {
	case h == 2:
		p.kind, p.txs, p.note = "ptx", cb.sends(2+cb.rnd.Intn(3)), "first block, fee rate absent"
	case h == 3:
		p.kind = "pnotx"
	case h == 4:
		p.kind = "ptx"
		p.txs = append(p.txs, cb.tx(sim.TxSpec{From: kVal1, Type: types.OnlineStatusTx, Payload: attachments.CreateOnlineStatusAttachment(true)}))
		p.txs = append(p.txs, cb.sends(1+cb.rnd.Intn(2))...)
		p.note = "online status tx (from height 6 on the god address is no longer eligible)"
	case h == 5:
		p.kind, p.note = "pnotx", "status switch block (identity update without txs)"
	case h == 6:
		p.kind, p.proposer = "ptx", kVal1
		p.txs = cb.sends(1 + cb.rnd.Intn(2))
		p.special = len(p.txs)
		p.txs = append(p.txs, cb.tx(sim.TxSpec{From: killable[0], Type: types.KillTx}))
		cb.killed[killable[0]] = true
		p.txs = append(p.txs, cb.sends(1)...)
		p.note = "KillTx (identity update by tx)"
	case h == 7:
		p.kind = "empty"
	case h == 8:
		p.kind = "prc"
		p.txs = cb.sends(1)
		p.special = len(p.txs)
		p.txs = append(p.txs, cb.deployTx())
		p.txs = append(p.txs, cb.sends(1)...)
		p.note = "contract deployment (receipts)"
	case h == 9:
		p.kind = "ptx"
		p.txs = append(p.txs, cb.tx(sim.TxSpec{From: kGod, Type: types.OnlineStatusTx, Payload: attachments.CreateOnlineStatusAttachment(true)}))
		p.txs = append(p.txs, cb.sends(1+cb.rnd.Intn(3))...)
		p.note = "god address goes online"
	case h == last-2:
		p.kind, p.txs, p.note = "ptx", cb.sends(2+cb.rnd.Intn(2)), "flip lottery starts (time-derived period flag)"
	case h > last-2:
		p.kind, p.note = "pnotx", "inside the flip lottery period"
	default:
		switch x := cb.rnd.Intn(10); {
		case x < 4:
			p.kind, p.txs = "ptx", cb.sends(2+cb.rnd.Intn(4))
		case x < 6:
			p.kind = "pnotx"
		case x < 7:
			p.kind = "empty"
		case x < 8:
			var k = -1
			for _, c := range killable {
				if !cb.killed[c] {
					k = c
					break
				}
			}
			p.kind, p.txs = "ptx", cb.sends(1+cb.rnd.Intn(3))
			if k >= 0 {
				p.special = len(p.txs)
				p.txs = append(p.txs, cb.tx(sim.TxSpec{From: k, Type: types.KillTx}))
				cb.killed[k] = true
				p.note = "KillTx"
			}
			p.txs = append(p.txs, cb.sends(1)...)
		default:
			p.kind = "prc"
			p.txs = cb.sends(1 + cb.rnd.Intn(2))
			p.special = len(p.txs)
			p.txs = append(p.txs, cb.deployTx())
			p.txs = append(p.txs, cb.sends(cb.rnd.Intn(2))...)
		}
	}
	return p
}

func mustAddTxs(n *sim.Node, txs []*types.Transaction) {
	for _, tx := range txs {
		if err := n.Pool.AddExternalTxs(validation.InboundTx, tx); err != nil {
			panic(fmt.Sprintf("mempool refused a planned tx (type %d nonce %d): %v", tx.Type, tx.AccountNonce, err))
		}
	}
}

// proposeOn boots a node with the given key over a copy of snap, fills its pool and proposes at `now`.
func (cb *chainBuilder) proposeOn(snap dbm.DB, key int, txs []*types.Transaction, now int64) *types.Block {
	n := cb.w.Boot(key, sim.CopyDB(snap), nil)
	if n.BootErr != nil {
		panic(n.BootErr)
	}
	mustAddTxs(n, txs)
	cb.w.SetNow(now)
	blk := n.Chain.ProposeBlock([]byte{}).Block
	wipe(n)
	return blk
}

func (cb *chainBuilder) step(h uint64, last uint64) {
	w := cb.w
	head := cb.full[kGod].Chain.Head
	p := cb.plan(h, last)
	snap := sim.CopyDB(cb.full[kGod].DB)
	now := head.Time() + 20
	o := &Original{ID: len(cb.origs), Kind: p.kind, Height: h, Snap: snap, Parent: head, Proposer: p.proposer, Inelig: map[string][]byte{},
		Note: p.note, refs: map[int][]string{}, twins: map[string][]string{}}
	var blk *types.Block
	inCeremony := head.Flags().HasFlag(types.FlipLotteryStarted) || cb.full[kGod].App.State.ValidationPeriod() != state.NonePeriod
	o.E = sim.Encode(cb.full[kGod].Chain.GenerateEmptyBlock())
	if p.kind == "empty" {
		blk = cb.full[p.proposer].Chain.GenerateEmptyBlock()
		o.Now = blk.Header.Time() + 1
		// an honest proposal of the same height (ingredient of the structural cases)
		var ptxs []*types.Transaction
		if !inCeremony {
			ptxs = []*types.Transaction{w.Tx(sim.TxSpec{From: kRich2, To: &w.Addrs[kVictim], Type: types.SendTx, Amount: sim.Dna(3, 1),
				MaxFee: sim.Dna(100, 1), Nonce: 1})}
		}
		o.P = sim.Encode(cb.proposeOn(snap, p.proposer, ptxs, now))
	} else {
		pn := cb.full[p.proposer]
		mustAddTxs(pn, p.txs)
		w.SetNow(now)
		blk = pn.Chain.ProposeBlock([]byte{}).Block
		if len(blk.Body.Transactions) != len(p.txs) {
			panic(fmt.Sprintf("height %d: proposer included %d of %d planned txs", h, len(blk.Body.Transactions), len(p.txs)))
		}
		o.Now = now + 1
		// honest sibling
		var alt []*types.Transaction
		if len(p.txs) == 0 {
			alt = []*types.Transaction{w.Tx(sim.TxSpec{From: kRich2, To: &w.Addrs[kVictim], Type: types.SendTx, Amount: sim.Dna(3, 1),
				MaxFee: sim.Dna(100, 1), Nonce: 1})}
		} else {
			// the sibling leaves out the special tx and everything after it from the same sender
			sp := p.special
			if sp < 0 {
				sp = len(p.txs) - 1
			}
			spSender, _ := types.Sender(p.txs[sp])
			for i, tx := range p.txs {
				s, _ := types.Sender(tx)
				if i == sp || (i > sp && s == spSender) {
					continue
				}
				alt = append(alt, tx)
			}
		}
		if inCeremony {
			// inside the ceremony the mempool takes no ordinary txs: no sibling with another body
			o.Note += " (no sibling)"
		} else {
			sib := cb.proposeOn(snap, p.proposer, alt, now)
			if len(sib.Body.Transactions) != len(alt) {
				panic("sibling proposal dropped txs")
			}
			o.Sib = sim.Encode(sib)
		}
		// honest proposals of ineligible keys
		o.Inelig["unknown"] = sim.Encode(cb.proposeOn(snap, kUnknown, p.txs, now))
		// a validated identity that is not online; while other identities are online and the god address is
		// not, the god address itself is such a proposer
		offKey := kHuman
		if cb.online[kVal1] && !cb.online[kGod] {
			offKey = kGod
			o.Note += " (ineligible god address)"
		}
		o.Inelig["offline"] = sim.Encode(cb.proposeOn(snap, offKey, p.txs, now))
		o.Other = kVal1
		if p.proposer == kVal1 {
			o.Other = kGod
		}
		if len(p.txs) > 0 && p.kind == "pnotx" || len(p.txs) == 0 && p.kind != "pnotx" {
			panic("plan kind does not match its txs")
		}
		hasRc := len(blk.Header.ProposedHeader.TxReceiptsCid) > 0
		if hasRc != (p.kind == "prc") {
			panic(fmt.Sprintf("height %d: kind %s but receipts cid present=%v", h, p.kind, hasRc))
		}
	}
	o.Bytes = sim.Encode(blk)
	o.Blk = sim.Decode(o.Bytes)
	if p.kind == "empty" {
		if !bytes.Equal(o.E, o.Bytes) {
			panic("two honest empty blocks of one height differ")
		}
	} else {
		o.P = o.Bytes
	}
	cb.origs = append(cb.origs, o)
	for _, k := range []int{kGod, kVal1} {
		n := cb.full[k]
		w.SetNow(o.Now)
		if err := n.Chain.AddBlock(sim.Decode(o.Bytes), nil, collector.NewStatsCollector()); err != nil {
			panic(fmt.Sprintf("height %d (%s): honest block rejected by full node %d: %v", h, p.kind, k, err))
		}
	}
	cb.blocks = append(cb.blocks, sim.Decode(o.Bytes))
	vc := cb.full[kGod].App.ValidatorsCache
	for _, k := range []int{kGod, kVal1} {
		cb.online[k] = vc.IsOnlineIdentity(w.Addrs[k])
	}
}

// ------------------------------------------------------------------------------------------------
// tampering

type tamperCtx struct {
	cb  *chainBuilder
	o   *Original
	rnd *rand.Rand
}

// donor returns the value of field f in another valid block, different from cur.
func (tc *tamperCtx) donor(f string, cur []byte, wantProposed bool) []byte {
	var cands []*types.Block
	if tc.o.Sib != nil && f != "proof" {
		cands = append(cands, sim.Decode(tc.o.Sib))
	}
	// other blocks of the chain, nearest first (never a block on the same parent for the proof: any
	// valid proof of the same key over the same seed data is a valid proof)
	for i := len(tc.cb.blocks) - 1; i >= 0; i-- {
		b := tc.cb.blocks[i]
		if b.Height() == tc.o.Height {
			continue
		}
		cands = append(cands, b)
	}
	for _, b := range cands {
		if wantProposed && b.Header.ProposedHeader == nil {
			continue
		}
		v := getField(b, f)
		if f == "flags" {
			if binary.BigEndian.Uint32(v)&derivedFlagMask == binary.BigEndian.Uint32(cur)&derivedFlagMask {
				continue
			}
			return v
		}
		if len(v) == 0 {
			continue // an empty foreign value is the "zero" operator
		}
		if !bytes.Equal(v, cur) {
			return v
		}
	}
	return nil
}

var replayGroups = map[string][]string{"seed": {"seed"}, "proof": {"proof"}, "seedpair": {"seed", "proof"}, "roots": {"root", "idroot"},
	"bodyhdr": {"txhash", "bloom", "ipfs", "rcid"}, "flags": {"flags"}, "fee": {"fee"},
	"derived": {"seed", "proof", "root", "idroot", "txhash", "bloom", "ipfs", "rcid", "flags", "fee"}}

// replayDonor: the nearest earlier PROPOSED block of the same proposer key, at most maxWarm heights back (the validator of a
// replay case is warmed up from that block on: it validates and inserts the donor and everything after it itself).
const maxWarm = 8

func (tc *tamperCtx) replayDonor(b *types.Block) *types.Block {
	for i := len(tc.cb.blocks) - 1; i >= 0; i-- {
		x := tc.cb.blocks[i]
		if x.Height() >= tc.o.Height || x.Header.ProposedHeader == nil {
			continue
		}
		if x.Height()+maxWarm < tc.o.Height {
			break
		}
		if bytes.Equal(x.Header.ProposedHeader.ProposerPubKey, b.Header.ProposedHeader.ProposerPubKey) {
			return x
		}
	}
	return nil
}

type built struct {
	warmFrom uint64 // > 0: the validator must have validated and inserted the blocks from this height on itself
	blk   *types.Block // tampered (decoded, not yet re-encoded)
	base  *types.Block // honest block with the same inputs, when there is one
	na    string       // non-empty: not applicable to this original
	isOri bool
}

func (tc *tamperCtx) applyOne(cur *built, c *Case, first bool) {
	o, w := tc.o, tc.cb.w
	b := cur.blk
	proposed := b.Header.ProposedHeader != nil
	switch c.T {
	case "none":
	case "replay":
		if !proposed {
			cur.na = "empty block"
			return
		}
		d := tc.replayDonor(b)
		if d == nil {
			cur.na = "no earlier block of this proposer within reach"
			return
		}
		for _, f := range replayGroups[c.G] {
			v := getField(d, f)
			if f == "flags" {
				old := binary.BigEndian.Uint32(getField(b, f))
				v = u32((old &^ derivedFlagMask) | (binary.BigEndian.Uint32(v) & derivedFlagMask))
			}
			if f == "fee" && len(v) == 0 {
				continue // an absent rate is a free choice of its own (case fee_absent)
			}
			setField(b, f, v)
		}
		cur.warmFrom = d.Height()
	case "field":
		val := getField(b, c.F)
		isPropOnly := c.F == "proof" || c.F == "fee" || c.F == "txhash" || c.F == "bloom" || c.F == "ipfs" || c.F == "rcid"
		nv, ok := applyOp(c.F, c.Op, val, tc.rnd, func() []byte { return tc.donor(c.F, val, isPropOnly) })
		if !ok {
			cur.na = "operator not applicable to this value"
			return
		}
		setField(b, c.F, nv)
	case "body":
		if !proposed {
			cur.na = "empty block"
			return
		}
		txs := append([]*types.Transaction{}, b.Body.Transactions...)
		switch c.E {
		case "drop":
			if len(txs) < 1 {
				cur.na = "no txs"
				return
			}
			i := tc.rnd.Intn(len(txs))
			txs = append(txs[:i], txs[i+1:]...)
		case "dup":
			if len(txs) < 1 {
				cur.na = "no txs"
				return
			}
			i := tc.rnd.Intn(len(txs))
			d := new(types.Transaction)
			raw, _ := txs[i].ToBytes()
			if err := d.FromBytes(raw); err != nil {
				panic(err)
			}
			j := i + 1 + tc.rnd.Intn(len(txs)-i)
			txs = append(txs[:j], append([]*types.Transaction{d}, txs[j:]...)...)
		case "strip":
			if len(txs) < 1 {
				cur.na = "no txs"
				return
			}
			txs = nil
		case "swap":
			if len(txs) < 2 {
				cur.na = "fewer than two txs"
				return
			}
			i := tc.rnd.Intn(len(txs))
			j := tc.rnd.Intn(len(txs) - 1)
			if j >= i {
				j++
			}
			txs[i], txs[j] = txs[j], txs[i]
		case "app_epoch":
			// a well-formed, funded tx of the NEXT epoch
			ro, err := tc.cb.full[kGod].App.Readonly(o.Parent.Height())
			if err != nil {
				panic(err)
			}
			txs = append(txs, w.Tx(sim.TxSpec{From: kRich2, To: &w.Addrs[kVictim], Type: types.SendTx, Amount: sim.Dna(1, 1),
				MaxFee: sim.Dna(100, 1), Nonce: 1, Epoch: ro.State.Epoch() + 1}))
		case "app_poor":
			// a well-formed tx of an address that cannot pay for it
			txs = append(txs, w.Tx(sim.TxSpec{From: kUnknown, To: &w.Addrs[kVictim], Type: types.SendTx, Amount: sim.Dna(1, 1),
				MaxFee: sim.Dna(100, 1), Nonce: 1}))
		default:
			panic("unknown body edit " + c.E)
		}
		b.Body = &types.Body{Transactions: txs}
		if c.Rehash != nil && *c.Rehash {
			b.Header.ProposedHeader.TxHash = types.DeriveSha(types.Transactions(txs))
		}
		cur.base = nil
	case "time":
		if !proposed {
			cur.na = "empty block"
			return
		}
		var t int64
		switch c.C {
		case "below1":
			t = o.Parent.Time() + 9 // MinBlockDelay is 10 s
		case "atprev":
			t = o.Parent.Time()
		case "beforeprev":
			t = o.Parent.Time() - 1 - int64(tc.rnd.Intn(100))
		case "above1":
			t = o.Now + 121 // MaxFutureBlockOffset is 2 min
		case "farabove":
			t = o.Now + 122 + int64(tc.rnd.Intn(1000000))
		case "maxint":
			t = math.MaxInt64 - int64(tc.rnd.Intn(200))
		case "minint":
			t = math.MinInt64 + 1 + int64(tc.rnd.Intn(200))
		default:
			panic("unknown time case " + c.C)
		}
		if c.Rebuilt != nil && *c.Rebuilt {
			// the proposer builds the block honestly FOR that timestamp: every derived field comes from the node's own functions
			// (VerifCraftBlock), only the window is wrong
			if !first {
				panic("a rebuilt block must be the first part of a case")
			}
			n := w.Boot(o.Proposer, sim.CopyDB(o.Snap), nil)
			if n.BootErr != nil {
				panic(n.BootErr)
			}
			var nb *types.Block
			var err error
			func() {
				defer func() {
					if r := recover(); r != nil {
						err = fmt.Errorf("panic: %v", r)
					}
				}()
				nb, err = n.Chain.VerifCraftBlock(b.Body.Transactions, t)
			}()
			wipe(n)
			if err != nil || nb == nil {
				cur.na = "the block cannot be built for this timestamp"
				return
			}
			cur.blk = sim.Decode(sim.Encode(nb))
			cur.base = nil
			return
		}
		b.Header.ProposedHeader.Time = t
		cur.base = nil
	case "key":
		if !proposed {
			cur.na = "empty block"
			return
		}
		if c.C == "swap" {
			b.Header.ProposedHeader.ProposerPubKey = crypto.FromECDSAPub(&w.Keys[o.Other].PublicKey)
			cur.base = nil
			return
		}
		if !first {
			panic("an honest proposal of another key must be the first part of a case")
		}
		raw := o.Inelig[c.C]
		if raw == nil {
			cur.na = "no proposal of such a key"
			return
		}
		cur.blk = sim.Decode(raw)
		cur.base = sim.Decode(raw)
		cur.isOri = false
	case "mix":
		if !proposed || o.Sib == nil {
			cur.na = "no sibling"
			return
		}
		if !first {
			panic("a mix must be the first part of a case")
		}
		A, B := sim.Decode(o.Bytes), sim.Decode(o.Sib)
		base, other := A, B
		if c.Body == "sib" {
			base, other = B, A
		}
		for _, f := range bodyDep {
			if c.Src[f] != c.Body {
				setField(base, f, getField(other, f))
			}
		}
		cur.blk = base
		if c.Body == "sib" {
			cur.base = sim.Decode(o.Sib)
		} else {
			cur.base = sim.Decode(o.Bytes)
		}
	case "struct":
		if !first {
			panic("a structural case must be the first part of a case")
		}
		tc.applyStruct(cur, c.S)
	case "free":
		if !proposed {
			cur.na = "empty block"
			return
		}
		ph := b.Header.ProposedHeader
		switch c.C {
		case "fee_absent":
			ph.FeePerGas = nil
		case "time_inwin":
			ph.Time++
		case "offline_propose":
			ph.Flags |= types.OfflinePropose
			a := w.Addrs[kNewbie]
			ph.OfflineAddr = &a
		default:
			panic("unknown free case " + c.C)
		}
	case "multi":
		for i, p := range c.Parts {
			tc.applyOne(cur, p, first && i == 0)
			if cur.na != "" {
				return
			}
		}
	default:
		panic("unknown case type " + c.T)
	}
}

// someTxs returns a non-empty tx list to attach: the body of an honest proposal of this height when it has
// one, else a fabricated (well-formed, signed) transfer.
func (tc *tamperCtx) someTxs() []*types.Transaction {
	for _, raw := range [][]byte{tc.o.P, tc.o.Sib} {
		if raw != nil {
			if b := sim.Decode(raw); len(b.Body.Transactions) > 0 {
				return b.Body.Transactions
			}
		}
	}
	w := tc.cb.w
	return []*types.Transaction{w.Tx(sim.TxSpec{From: kRich2, To: &w.Addrs[kVictim], Type: types.SendTx, Amount: sim.Dna(2, 1),
		MaxFee: sim.Dna(100, 1), Nonce: 1})}
}

// applyStruct builds the structural cases: E = the honest empty header of this height, A = an honest
// proposal of this height (the original when it is proposed), B = its honest sibling.
func (tc *tamperCtx) applyStruct(cur *built, s string) {
	o, w := tc.o, tc.cb.w
	E := sim.Decode(o.E)
	A := sim.Decode(o.P)
	isEmpty := o.Kind == "empty"
	cur.base = nil
	both := func(e *types.Block, p *types.Block, body *types.Body) {
		cur.blk = &types.Block{Header: &types.Header{EmptyBlockHeader: e.Header.EmptyBlockHeader, ProposedHeader: p.Header.ProposedHeader}, Body: body}
	}
	switch s {
	case "attach_p_sib", "attach_p_sib_nobody":
		d := A
		if !isEmpty {
			if o.Sib == nil {
				cur.na = "no sibling"
				return
			}
			d = sim.Decode(o.Sib)
		}
		body := d.Body
		if s == "attach_p_sib_nobody" {
			if len(body.Transactions) == 0 {
				cur.na = "the donor has no txs"
				return
			}
			body = &types.Body{}
		}
		both(E, d, body)
	case "attach_p_other":
		var d *types.Block
		for i := len(tc.cb.blocks) - 1; i >= 0; i-- {
			if x := tc.cb.blocks[i]; x.Header.ProposedHeader != nil && x.Height() != o.Height {
				d = sim.Decode(sim.Encode(x))
				break
			}
		}
		if d == nil {
			cur.na = "no proposed block of another height"
			return
		}
		both(E, d, d.Body)
	case "attach_p_fab":
		rb := func(n int) []byte { x := make([]byte, n); tc.rnd.Read(x); return x }
		ph := &types.ProposedHeader{
			ParentHash:     o.Parent.Hash(),
			Height:         o.Height,
			Time:           E.Header.Time(),
			TxHash:         common.BytesToHash(rb(32)),
			ProposerPubKey: crypto.FromECDSAPub(&w.Keys[kUnknown].PublicKey),
			Root:           common.BytesToHash(rb(32)),
			IdentityRoot:   common.BytesToHash(rb(32)),
			IpfsHash:       rb(34),
			TxBloom:        rb(8),
			BlockSeed:      types.BytesToSeed(rb(32)),
			FeePerGas:      big.NewInt(1 + int64(tc.rnd.Intn(1000))),
			SeedProof:      rb(129),
			TxReceiptsCid:  rb(34),
		}
		txs := []*types.Transaction{w.Tx(sim.TxSpec{From: kUnknown, To: &w.Addrs[kUnknown], Type: types.SendTx, Amount: sim.Dna(1000000, 1),
			MaxFee: sim.Dna(1, 1), Nonce: 1})}
		cur.blk = &types.Block{Header: &types.Header{EmptyBlockHeader: E.Header.EmptyBlockHeader, ProposedHeader: ph}, Body: &types.Body{Transactions: txs}}
	case "attach_e", "attach_e_nobody":
		if isEmpty {
			cur.na = "covered by attach_p_sib on an empty original"
			return
		}
		body := A.Body
		if s == "attach_e_nobody" {
			if len(body.Transactions) == 0 {
				cur.na = "no txs"
				return
			}
			body = &types.Body{}
		}
		both(E, A, body)
	case "both_e_tampered":
		f := eFields[tc.rnd.Intn(len(eFields))]
		nv, _ := applyOp(f, []string{"inc", "dec", "flip"}[tc.rnd.Intn(3)], getField(E, f), tc.rnd, nil)
		setField(E, f, nv)
		both(E, A, A.Body)
	case "both_p_tampered":
		fs := []string{"parent", "height", "seed", "proof", "txhash", "bloom", "flags", "root", "idroot", "ipfs", "rcid"}
		f := fs[tc.rnd.Intn(len(fs))]
		nv, _ := applyOp(f, []string{"inc", "dec", "flip"}[tc.rnd.Intn(3)], getField(A, f), tc.rnd, nil)
		setField(A, f, nv)
		both(E, A, A.Body)
	case "neither":
		cur.blk = &types.Block{Header: &types.Header{}, Body: &types.Body{}}
	case "neither_body":
		cur.blk = &types.Block{Header: &types.Header{}, Body: &types.Body{Transactions: tc.someTxs()}}
	case "body_on_empty":
		cur.blk = &types.Block{Header: &types.Header{EmptyBlockHeader: E.Header.EmptyBlockHeader}, Body: &types.Body{Transactions: tc.someTxs()}}
	case "to_empty":
		if isEmpty {
			cur.na = "the original is the empty block"
			return
		}
		cur.blk = E
	case "to_proposed":
		if !isEmpty {
			cur.na = "the original is a proposal"
			return
		}
		cur.blk = A
	default:
		panic("unknown structural case " + s)
	}
}

func (tc *tamperCtx) build(c *Case) *built {
	cur := &built{blk: sim.Decode(tc.o.Bytes), base: sim.Decode(tc.o.Bytes), isOri: true}
	tc.applyOne(cur, c, true)
	return cur
}

// ------------------------------------------------------------------------------------------------
// observation and offering

func hx(b []byte) string { return hex.EncodeToString(b) }

func obs(n *sim.Node) []string {
	h := n.Chain.Head
	lr := n.App.State.Root()
	lir := n.App.IdentityState.Root()
	hash := h.Hash()
	next := "-"
	if nh := n.Chain.GetBlockHeaderByHeight(h.Height() + 1); nh != nil {
		x := nh.Hash()
		next = hx(x[:8])
	}
	return []string{
		sim.DBDigest(n.DB),
		hx(hash[:12]),
		fmt.Sprint(h.Height()),
		hx(lr[:12]),
		hx(lir[:12]),
		fmt.Sprint(n.App.State.Version()),
		fmt.Sprint(n.App.IdentityState.Version()),
		next,
	}
}

func stageOf(kind string, err error) string {
	if err == nil {
		return ""
	}
	if kind == "empty" {
		return "emptyhash"
	}
	m := err.Error()
	has := func(s string) bool { return strings.Contains(m, s) }
	switch {
	case has("Height is invalid"), has("parentHash is invalid"):
		return "link"
	case has("block from future"), has("too close to previous"):
		return "window"
	case has("seed is invalid"), has("VRF"), has("invalid coinbase"), has("invalid public key"), has("P256 curve"), has("invalid secp256k1"):
		return "seed"
	case has("fee rate is invalid"):
		return "fee"
	case has("proposer is not identity"):
		return "proposer"
	case has("txHash is invalid"):
		return "txhash"
	case has("tx bloom is invalid"):
		return "bloom"
	case has("flags are invalid"), has("flag NewGenesis"):
		return "flags"
	case has("invalid block roots"), has("invalid block root"), has("invalid block identity root"):
		return "roots"
	case has("invalid block cid"):
		return "ipfs"
	case has("invalid receipt cid"):
		return "rcid"
	}
	return "txs"
}

type offerRes struct {
	R     string
	Stage string
	Err   string
}

func offer(kind string, fn func() error) (res offerRes) {
	defer func() {
		if r := recover(); r != nil {
			res = offerRes{R: "panic", Err: fmt.Sprint(r)}
		}
	}()
	err := fn()
	if err == nil {
		return offerRes{R: "accept"}
	}
	e := err.Error()
	if len(e) > 160 {
		e = e[:160]
	}
	return offerRes{R: "reject", Stage: stageOf(kind, err), Err: e}
}

// ipfsHas reports whether the node's content store holds the given bytes.
func ipfsHas(n *sim.Node, data []byte) bool {
	if len(data) == 0 {
		return false
	}
	c, err := n.Ipfs.Cid(data)
	if err != nil {
		return false
	}
	v, err := n.Ipfs.Get(c.Bytes(), 0)
	return err == nil && len(v) > 0
}

type runner struct {
	cb       *chainBuilder
	out      *tr.W
	seed     int64
	cnt      map[string]int
	batch    int
	node     *sim.Node // node under test (nil: take a fresh one)
	nodeOrig *Original
	nodeUses int
	nodeWarm uint64 // the node under test was warmed up from this height (0: booted over the parent's database)
	nodeKey  int
	warmRefs map[string][]string
}

// wipe empties the database of a node that is no longer used.  InitializeChain starts a goroutine that
// lives as long as the process and keeps the whole node reachable; without this every fresh node would
// pin a complete copy of the chain database.
func wipe(n *sim.Node) {
	var keys [][]byte
	it, err := n.DB.Iterator(nil, nil)
	if err != nil {
		return
	}
	for ; it.Valid(); it.Next() {
		keys = append(keys, append([]byte(nil), it.Key()...))
	}
	it.Close()
	for _, k := range keys {
		n.DB.Delete(k)
	}
}

func (r *runner) fresh(o *Original, key int) *sim.Node {
	n := r.cb.w.Boot(key, sim.CopyDB(o.Snap), nil)
	if n.BootErr != nil {
		panic(n.BootErr)
	}
	r.cb.w.SetNow(o.Now)
	return n
}

// warm boots a node over the database as it was BEFORE the block of height `from` and lets it validate and insert the
// honest blocks from..o.Height-1 itself, each at the time it travelled: a validator that has followed the chain in
// this process, with whatever that leaves in its memory.
func (r *runner) warm(o *Original, key int, from uint64) *sim.Node {
	var start *Original
	for _, x := range r.cb.origs {
		if x.Height == from {
			start = x
		}
	}
	if start == nil {
		panic("no original at the warm-up height")
	}
	n := r.cb.w.Boot(key, sim.CopyDB(start.Snap), nil)
	if n.BootErr != nil {
		panic(n.BootErr)
	}
	for _, x := range r.cb.origs {
		if x.Height < from || x.Height >= o.Height {
			continue
		}
		r.cb.w.SetNow(x.Now)
		if _, err := n.Chain.ValidateBlock(sim.Decode(x.Bytes), nil, collector.NewStatsCollector()); err != nil {
			panic(fmt.Sprintf("warm-up: honest block %d refused by ValidateBlock: %v", x.Height, err))
		}
		if err := n.Chain.AddBlock(sim.Decode(x.Bytes), nil, collector.NewStatsCollector()); err != nil {
			panic(fmt.Sprintf("warm-up: honest block %d refused by AddBlock: %v", x.Height, err))
		}
	}
	r.cb.w.SetNow(o.Now)
	return n
}

func (r *runner) ref(o *Original, key int) []string {
	if x := o.refs[key]; x != nil {
		return x
	}
	n := r.fresh(o, key)
	if err := n.Chain.AddBlock(sim.Decode(o.Bytes), nil, collector.NewStatsCollector()); err != nil {
		panic(fmt.Sprintf("original %d rejected by a clean node: %v", o.ID, err))
	}
	o.refs[key] = obs(n)
	wipe(n)
	return o.refs[key]
}

// honestByHash: the honest blocks of this height (original, sibling, empty block, proposals of other keys).
func (o *Original) honestByHash() map[common.Hash][]byte {
	if o.byHash == nil {
		o.byHash, o.names = map[common.Hash][]byte{}, map[common.Hash]string{}
		add := func(name string, raw []byte) {
			if raw != nil {
				h := sim.Decode(raw).Hash()
				if _, ok := o.byHash[h]; !ok {
					o.byHash[h], o.names[h] = raw, name
				}
			}
		}
		add("original", o.Bytes)
		add("empty", o.E)
		add("proposal", o.P)
		add("sibling", o.Sib)
		for k, raw := range o.Inelig {
			add("proposal-of-"+k, raw)
		}
	}
	return o.byHash
}

func (o *Original) honestName(h common.Hash) string {
	o.honestByHash()
	return o.names[h]
}

// twin: observation of a clean node after inserting the honest block with the given hash.
func (r *runner) twin(o *Original, key int, h common.Hash, raw []byte) []string {
	k := fmt.Sprintf("%d/%x", key, h[:8])
	if x, ok := o.twins[k]; ok {
		return x
	}
	n := r.fresh(o, key)
	var res []string
	if err := n.Chain.AddBlock(sim.Decode(raw), nil, collector.NewStatsCollector()); err == nil {
		res = obs(n)
	}
	wipe(n)
	o.twins[k] = res
	return res
}

func (r *runner) runCase(o *Original, ex *Exported, idx int, vkey int) {
	c := ex.C
	rnd := rand.New(rand.NewSource(r.seed*1000003 + int64(o.ID)*7919 + int64(idx)))
	tc := &tamperCtx{cb: r.cb, o: o, rnd: rnd}
	bt := tc.build(c)
	if bt.na != "" {
		r.out.Emit(tr.M{"ev": "Skip", "kind": o.Kind, "c": c, "why": "na", "note": bt.na, "orig": o.ID})
		r.cnt["skip_na"]++
		return
	}
	data := sim.Encode(bt.blk)
	var diff []string
	if bt.base != nil {
		diff = diffFields(sim.Decode(data), bt.base)
	} else {
		diff = diffFields(sim.Decode(data), sim.Decode(o.Bytes))
	}
	if c.T == "struct" {
		// the header carries other parts / the body was attached: not a field-by-field difference
		diff = []string{"shape"}
		if c.S == "to_empty" || c.S == "to_proposed" {
			diff = []string{}
		}
	}
	if len(diff) == 0 && (ex.Cond || ex.Expect == "free") {
		r.out.Emit(tr.M{"ev": "Skip", "kind": o.Kind, "c": c, "why": "same", "orig": o.ID})
		r.cnt["skip_same"]++
		return
	}
	// A node is used for up to `batch` consecutive cases as long as every attempt on it was rejected; then
	// (or when the original changes) the honest original is inserted on it.  batch = 1: a fresh node per case.
	if bt.warmFrom > 0 {
		// a replay case needs a validator that has itself validated the donor block: the node of the earlier cases is
		// finished first, the warm node serves this one case
		r.finishNode()
		r.node, r.nodeOrig, r.nodeUses = r.warm(o, vkey, bt.warmFrom), o, r.batch
		r.nodeWarm, r.nodeKey = bt.warmFrom, vkey
	}
	reuse := r.node != nil && bt.warmFrom == 0
	if r.node == nil {
		r.node, r.nodeOrig, r.nodeUses = r.fresh(o, vkey), o, 0
	}
	n := r.node
	r.cb.w.SetNow(o.Now)
	pre := obs(n)
	bodyBytes := sim.Decode(data).Body.ToBytes()
	r.out.Emit(tr.M{"ev": "Begin", "orig": o.ID, "case": idx, "kind": o.Kind, "c": c, "sig": c.sig(), "diff": diff, "pre": pre, "vkey": vkey,
		"h": o.Height, "reuse": reuse, "warm": bt.warmFrom})
	v := offer(o.Kind, func() error {
		_, err := n.Chain.ValidateBlock(sim.Decode(data), nil, collector.NewStatsCollector())
		return err
	})
	if c.T == "struct" {
		v.Stage = "" // the model names no code stage for malformed shapes
	}
	r.out.Emit(tr.M{"ev": "Validate", "r": v.R, "stage": v.Stage, "err": v.Err, "post": obs(n), "stored": ipfsHas(n, bodyBytes)})
	r.cnt["validate_"+v.R]++
	if v.R == "panic" {
		// the node object may be wedged (mutexes): continue on a fresh one
		wipe(n)
		if r.nodeWarm > 0 {
			r.node = r.warm(o, vkey, r.nodeWarm)
		} else {
			r.node, r.nodeUses = r.fresh(o, vkey), 0
		}
		n = r.node
	}
	// every second case goes in the way the full-sync loader inserts (protocol/full.go): with an explicit
	// overwriting check state of the node's own head
	mode := "engine"
	if idx%2 == 1 {
		mode = "sync"
	}
	a := offer(o.Kind, func() error {
		var cs *appstate.AppState
		if mode == "sync" {
			var err error
			if cs, err = n.App.ForCheckWithOverwrite(n.Chain.Head.Height()); err != nil {
				panic(err)
			}
		}
		return n.Chain.AddBlock(sim.Decode(data), cs, collector.NewStatsCollector())
	})
	stored := false
	if a.R != "accept" {
		stored = ipfsHas(n, bodyBytes)
	}
	if c.T == "struct" {
		a.Stage = ""
	}
	addLine := tr.M{"ev": "Add", "r": a.R, "stage": a.Stage, "err": a.Err, "post": obs(n), "stored": stored, "mode": mode, "twin": []string{}}
	if a.R == "accept" {
		// what was stored, compared with the honest block the new head claims (by hash) to be
		hh := n.Chain.Head.Hash()
		if raw := o.honestByHash()[hh]; raw != nil && r.nodeWarm == 0 {
			if tw := r.twin(o, vkey, hh, raw); tw != nil {
				addLine["twin"] = tw
				addLine["twin_is"] = o.honestName(hh)
			}
			hb := sim.Decode(raw)
			stHdr := n.Chain.GetBlockHeaderByHeight(hb.Height())
			var stBytes, hBytes []byte
			if stHdr != nil {
				stBytes, _ = stHdr.ToBytes()
			}
			hBytes, _ = hb.Header.ToBytes()
			addLine["stored_header_is_honest"] = bytes.Equal(stBytes, hBytes)
			addLine["honest_txs"] = len(hb.Body.Transactions)
		}
		idx := 0
		for _, tx := range sim.Decode(data).Body.Transactions {
			if n.Chain.GetTxIndex(tx.Hash()) != nil {
				idx++
			}
		}
		addLine["tx_index_entries"] = idx
	}
	r.out.Emit(addLine)
	r.cnt["add_"+a.R]++
	r.cnt["offered"]++
	r.cnt["offered_"+c.T]++
	if v.R == "reject" && a.R == "reject" {
		r.nodeUses++
		if r.nodeUses >= r.batch {
			r.finishNode()
		}
	} else {
		// something went in (a control, a free choice - or a violation): this node is spent
		wipe(n)
		r.node, r.nodeWarm = nil, 0
	}
}

// finishNode inserts the honest original on the node that has seen only rejected attempts.
func (r *runner) finishNode() {
	n, o := r.node, r.nodeOrig
	if n == nil {
		return
	}
	r.cb.w.SetNow(o.Now)
	i := offer(o.Kind, func() error {
		return n.Chain.AddBlock(sim.Decode(o.Bytes), nil, collector.NewStatsCollector())
	})
	line := tr.M{"ev": "Insert", "r": i.R, "err": i.Err, "post": obs(n), "after": r.nodeUses}
	if r.nodeWarm > 0 {
		// a warmed-up node keeps node-specific records of the blocks it inserted itself: its reference is a node warmed
		// up the same way that was offered nothing but the honest original
		k := fmt.Sprintf("%d/%d/%d", o.ID, r.nodeKey, r.nodeWarm)
		if r.warmRefs == nil {
			r.warmRefs = map[string][]string{}
		}
		if r.warmRefs[k] == nil {
			w := r.warm(o, r.nodeKey, r.nodeWarm)
			if err := w.Chain.AddBlock(sim.Decode(o.Bytes), nil, collector.NewStatsCollector()); err != nil {
				panic(fmt.Sprintf("original %d rejected by a clean warmed-up node: %v", o.ID, err))
			}
			r.warmRefs[k] = obs(w)
			wipe(w)
		}
		line["ref"] = r.warmRefs[k]
		r.cnt["warm_nodes"]++
	}
	r.out.Emit(line)
	r.cnt["insert_"+i.R]++
	wipe(n)
	r.node, r.nodeWarm = nil, 0
}

func main() {
	casesPath := flag.String("cases", "", "ndjson of cases exported by TLC")
	outPath := flag.String("out", "trace.ndjson", "trace output")
	heights := flag.Int("heights", 12, "number of blocks (originals) of the chain")
	pairs := flag.Int("pairs", 40, "two-part cases sampled per original")
	mixes := flag.Int("mixes", 0, "sibling mixes per original (0 = all)")
	only := flag.String("only", "", "comma separated original ids (debug)")
	shard := flag.Int("shard", 0, "this process handles the originals with id % of == shard")
	of := flag.Int("of", 1, "number of shards")
	batch := flag.Int("batch", 1, "consecutive rejected cases offered to the same node before the original is inserted")
	flag.Parse()
	defer sim.Cleanup()
	seed := tr.Seed()

	byKind := map[string][]*Exported{}
	tr.ReadLines(*casesPath, func(raw []byte) {
		e := new(Exported)
		if err := json.Unmarshal(raw, e); err != nil {
			panic(err)
		}
		byKind[e.Kind] = append(byKind[e.Kind], e)
	})
	for _, l := range byKind {
		sort.SliceStable(l, func(i, j int) bool { return l[i].C.sig() < l[j].C.sig() })
	}

	if *heights < 12 {
		*heights = 12
	}
	cb := newChain(seed, *heights)
	last := uint64(*heights + 1)
	for h := uint64(2); h <= last; h++ {
		cb.step(h, last)
	}

	out := tr.Create(*outPath)
	defer out.Close()
	r := &runner{cb: cb, out: out, seed: seed, cnt: map[string]int{}, batch: *batch}
	onlySet := map[string]bool{}
	for _, s := range strings.Split(*only, ",") {
		if s != "" {
			onlySet[s] = true
		}
	}
	vkeys := []int{kVictim, kVal1, kGod, kHuman}
	sel := rand.New(rand.NewSource(seed*31 + 5))
	for _, o := range cb.origs {
		if len(onlySet) > 0 && !onlySet[fmt.Sprint(o.ID)] || o.ID%*of != *shard {
			continue
		}
		vkey := vkeys[o.ID%len(vkeys)]
		flags := uint32(o.Blk.Header.Flags())
		out.Emit(tr.M{"ev": "Orig", "id": o.ID, "kind": o.Kind, "h": o.Height, "ref": r.ref(o, vkey), "txs": len(o.Blk.Body.Transactions),
			"flags": flags, "proposer": o.Proposer, "note": o.Note, "vkey": vkey})
		r.cnt["orig_"+o.Kind]++
		if flags&uint32(types.IdentityUpdate) != 0 {
			r.cnt["orig_identity_update"]++
		}
		if flags&uint32(types.FlipLotteryStarted) != 0 {
			r.cnt["orig_flip_lottery"]++
		}
		var singles, multi, mix []*Exported
		for _, e := range byKind[o.Kind] {
			switch e.C.T {
			case "multi":
				multi = append(multi, e)
			case "mix":
				mix = append(mix, e)
			default:
				singles = append(singles, e)
			}
		}
		if *mixes > 0 && len(mix) > *mixes {
			sel.Shuffle(len(mix), func(i, j int) { mix[i], mix[j] = mix[j], mix[i] })
			mix = mix[:*mixes]
		}
		// two-part cases: all pairs of RELATED fields (a faulty check of one may be satisfied by rewriting the
		// other: seed/proof, root/identity root, txHash/body cid, bloom/receipts cid, parent/height) + a sample
		var related, rest []*Exported
		for _, e := range multi {
			if p := e.C.Parts; len(p) == 2 && p[0].T == "field" && p[1].T == "field" && relGroup[p[0].F] != 0 && relGroup[p[0].F] == relGroup[p[1].F] {
				related = append(related, e)
			} else {
				rest = append(rest, e)
			}
		}
		if len(rest) > *pairs {
			sel.Shuffle(len(rest), func(i, j int) { rest[i], rest[j] = rest[j], rest[i] })
			rest = rest[:*pairs]
		}
		multi = append(related, rest...)
		idx := 0
		for _, l := range [][]*Exported{singles, mix, multi} {
			for _, e := range l {
				r.runCase(o, e, idx, vkey)
				idx++
			}
		}
		r.finishNode()
	}
	var ms runtime.MemStats
	runtime.ReadMemStats(&ms)
	r.cnt["heap_mb"] = int(ms.HeapInuse >> 20)
	sum, _ := json.Marshal(r.cnt)
	fmt.Printf("SUMMARY %s\n", sum)
	fmt.Printf("originals=%d lines=%d\n", len(cb.origs), out.N)
	_ = os.Stdout.Sync()
}
