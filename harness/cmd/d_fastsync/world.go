package main

import (
	"context"
	"crypto/sha256"
	"encoding/hex"
	"fmt"
	"io"
	"io/ioutil"
	"math/rand"
	"os"
	"sync"
	"time"

	"github.com/idena-network/idena-go/blockchain/attachments"
	"github.com/idena-network/idena-go/blockchain/types"
	"github.com/idena-network/idena-go/blockchain/validation"
	"github.com/idena-network/idena-go/common"
	"github.com/idena-network/idena-go/core/state"
	"github.com/idena-network/idena-go/core/state/snapshot"
	"github.com/idena-network/idena-go/ipfs"
	"github.com/ipfs/go-cid"
	dbm "github.com/tendermint/tm-db"

	"verifh/internal/sim"
)

// ---------------------------------------------------------------------------------------------
// content transport (the part of IPFS a sync uses): snapshot files by cid, block bodies of other nodes

type netStore struct {
	mu    sync.Mutex
	files map[string][]byte
}

func newNetStore() *netStore { return &netStore{files: map[string][]byte{}} }

func (s *netStore) put(c cid.Cid, data []byte) {
	s.mu.Lock()
	s.files[c.String()] = data
	s.mu.Unlock()
}

func (s *netStore) get(key []byte) ([]byte, bool) {
	c, err := cid.Cast(key)
	if err != nil {
		return nil, false
	}
	s.mu.Lock()
	defer s.mu.Unlock()
	d, ok := s.files[c.String()]
	return d, ok
}

// netIpfs is the node's own in-memory IPFS proxy (the repository's memoryIpfs) plus the two file operations the
// repository's memory proxy leaves unimplemented (AddFile / LoadTo, used by the SnapshotManager) and a fallback
// of Get to the stores of the other nodes (content the node does not hold is fetched from the network).
type netIpfs struct {
	ipfs.Proxy
	net      *netStore
	others   []ipfs.Proxy
	override map[string][]byte // what a bad provider returns for a cid
	loads    int
}

func (i *netIpfs) AddFile(absPath string, data io.ReadCloser, fi os.FileInfo) (cid.Cid, error) {
	b, err := ioutil.ReadAll(data)
	if err != nil {
		return cid.Cid{}, err
	}
	c, err := i.Proxy.Cid(b)
	if err != nil {
		return cid.Cid{}, err
	}
	i.net.put(c, b)
	return c, nil
}

func (i *netIpfs) LoadTo(key []byte, to io.Writer, ctx context.Context, onLoading func(size, loaded int64)) error {
	i.loads++
	c, err := cid.Cast(key)
	if err != nil {
		return err
	}
	data, ok := i.override[c.String()]
	if !ok {
		data, ok = i.net.get(key)
	}
	if !ok {
		return fmt.Errorf("content %s not found", c.String())
	}
	if _, err := to.Write(data); err != nil {
		return err
	}
	if onLoading != nil {
		onLoading(int64(len(data)), int64(len(data)))
	}
	return nil
}

func (i *netIpfs) Get(key []byte, dataType ipfs.DataType) ([]byte, error) {
	d, err := i.Proxy.Get(key, dataType)
	if err == nil {
		return d, nil
	}
	for _, o := range i.others {
		if d, err2 := o.Get(key, dataType); err2 == nil {
			return d, nil
		}
	}
	return nil, err
}

// ---------------------------------------------------------------------------------------------
// the canonical chain: a proposing / serving node and a reference node that applies every block

type blockInfo struct {
	H        uint64 `json:"h"`
	Kind     string `json:"kind"` // P (proposed) | E (empty)
	Flags    int    `json:"flags"`
	Need     bool   `json:"need"`     // a certificate is mandatory (IdentityUpdate | Snapshot | NewGenesis)
	Diff     bool   `json:"diff"`     // the identity diff is non-empty
	Cert     bool   `json:"cert"`     // the serving node holds a certificate
	Hash     string `json:"hash"`     // header hash
	DiffD    string `json:"diffd"`    // digest of the stored identity diff ("" when none)
	CertD    string `json:"certd"`    // digest of the stored certificate ("" when none)
	CertFull string `json:"certfull"` // digest of the block's certificate whether the serving node keeps it or not
	IdRoot   string `json:"idroot"`   // identity root of the header
	Root     string `json:"root"`
	Snap     bool   `json:"snap"` // Snapshot flag
	NTxs     int    `json:"ntxs"`
	header   *types.Header
	signers  []int
	certB    []byte // the certificate (every block has one when it is produced)
	perm     bool
	kept     bool // the serving node keeps it
}

type manRec struct {
	height   uint64
	manifest *snapshot.Manifest
	data     []byte
}

type canon struct {
	w         *sim.World
	rnd       *rand.Rand
	net       *netStore
	prop      *sim.Node // proposer and serving node (god key)
	ref       *sim.Node // reference: applied every block
	propIpfs  *netIpfs
	blocks    map[uint64][]byte
	info      map[uint64]*blockInfo
	manifests map[uint64]*manRec
	copies    map[uint64]dbm.DB // reference database copies at chosen heights (early copies a syncing node may start from)
	genDB     dbm.DB
	seq       int
	dirSeq    *int
	ownTxs    map[uint64][]common.Hash // txs per height that involve key ownKey
	ownKey    int
	views     map[uint64]string
	cut       map[uint64]*canon
}

func dig(b []byte) string {
	if len(b) == 0 {
		return ""
	}
	h := sha256.Sum256(b)
	return hex.EncodeToString(h[:8])
}

var dirCounter int

func freshDir(prefix string) string {
	dirCounter++
	d := fmt.Sprintf("./%s-%d", prefix, dirCounter)
	os.RemoveAll(d)
	return d
}

// bootNode boots a real node over db with a network-backed IPFS proxy and the configuration knobs the driver needs.
func bootNode(w *sim.World, key int, db dbm.DB, net *netStore, others ...ipfs.Proxy) (*sim.Node, *netIpfs) {
	ip := &netIpfs{Proxy: ipfs.NewMemoryIpfsProxy(), net: net, others: others, override: map[string][]byte{}}
	n := w.Boot(key, db, ip)
	if n.BootErr != nil {
		panic(n.BootErr)
	}
	n.Cfg.Blockchain.StoreCertRange = storeCertRange
	n.Cfg.DataDir = freshDir("datadir")
	return n, ip
}

func newWorld(seed int64, nkeys int) *sim.World {
	w := sim.NewWorld(seed, nkeys)
	w.Cons.StatusSwitchRange = 5
	w.Cons.DelegationSwitchRange = 7
	w.Cons.DiscriminationSwitchRange = 1000
	w.Cons.SnapshotRange = 9
	sts := []state.IdentityState{state.Verified, state.Human, state.Verified, state.Human, state.Verified, state.Newbie}
	w.Allocs = append(w.Allocs, sim.Alloc{Key: 0, State: state.Verified, Balance: sim.Dna(100000, 1), Stake: sim.Dna(1000, 1)})
	for i := 1; i < nkeys; i++ {
		w.Allocs = append(w.Allocs, sim.Alloc{Key: i, State: sts[i%len(sts)], Balance: sim.Dna(int64(3000+37*i), 1), Stake: sim.Dna(int64(100+11*i), 1)})
	}
	return w
}

func newCanon(w *sim.World, rnd *rand.Rand, ownKey int) *canon {
	c := &canon{w: w, rnd: rnd, net: newNetStore(), blocks: map[uint64][]byte{}, info: map[uint64]*blockInfo{}, manifests: map[uint64]*manRec{},
		copies: map[uint64]dbm.DB{}, ownTxs: map[uint64][]common.Hash{}, ownKey: ownKey, views: map[uint64]string{}}
	c.prop, c.propIpfs = bootNode(w, 0, dbm.NewMemDB(), c.net)
	c.ref, _ = bootNode(w, 1, dbm.NewMemDB(), c.net, c.propIpfs)
	c.genDB = sim.CopyDB(c.ref.DB)
	c.attachSnapshots()
	g := c.ref.Chain.Head
	c.info[g.Height()] = c.describe(g.Height(), nil)
	return c
}

// cloneCanon continues an existing canonical chain in a copy (used to grow many different chains from one prefix).
func (c *canon) clone(rnd *rand.Rand) *canon {
	d := &canon{w: c.w, rnd: rnd, net: newNetStore(), blocks: map[uint64][]byte{}, info: map[uint64]*blockInfo{}, manifests: map[uint64]*manRec{},
		copies: map[uint64]dbm.DB{}, ownTxs: map[uint64][]common.Hash{}, ownKey: c.ownKey, genDB: c.genDB, views: map[uint64]string{}}
	for k, v := range c.blocks {
		d.blocks[k] = v
	}
	for k, v := range c.info {
		d.info[k] = v
	}
	for k, v := range c.manifests {
		d.manifests[k] = v
		cc, _ := cid.Cast(v.manifest.CidV2)
		d.net.put(cc, v.data)
	}
	for k, v := range c.copies {
		d.copies[k] = v
	}
	for k, v := range c.ownTxs {
		d.ownTxs[k] = v
	}
	for k, v := range c.views {
		d.views[k] = v
	}
	d.prop, d.propIpfs = bootNode(c.w, 0, sim.CopyDB(c.prop.DB), d.net, c.propIpfs)
	d.ref, _ = bootNode(c.w, 1, sim.CopyDB(c.ref.DB), d.net, d.propIpfs, c.propIpfs)
	d.attachSnapshots()
	return d
}

// attachSnapshots gives the serving node the repository's SnapshotManager: it writes a snapshot file and the manifest
// whenever a block with the Snapshot flag is added (state.LastSnapshot() == height), exactly as on a real node.
func (c *canon) attachSnapshots() {
	_ = state.NewSnapshotManager(c.prop.DB, c.prop.App.State, c.prop.Bus, c.propIpfs, c.prop.Cfg)
}

func (c *canon) head() uint64 { return c.ref.Chain.Head.Height() }

func (c *canon) nonce(k int) (uint32, uint16) {
	s := c.ref.App.State
	a := c.w.Addrs[k]
	ep := s.Epoch()
	n := s.GetNonce(a)
	if s.GetEpoch(a) < ep {
		n = 0
	}
	return n + 1, ep
}

func (c *canon) tx(from int, typ types.TxType, to *common.Address, amount int64, payload []byte, nonceOff uint32) *types.Transaction {
	n, ep := c.nonce(from)
	spec := sim.TxSpec{From: from, To: to, Type: typ, MaxFee: sim.Dna(80, 1), Nonce: n + nonceOff, Epoch: ep, Payload: payload}
	if amount > 0 {
		spec.Amount = sim.Dna(amount, 1)
	}
	return c.w.Tx(spec)
}

func (c *canon) onlineTx(k int, online bool) *types.Transaction {
	return c.tx(k, types.OnlineStatusTx, nil, 0, attachments.CreateOnlineStatusAttachment(online), 0)
}

// signers returns the keys whose votes count for the block that follows the current head.
func (c *canon) signersForNext() []int {
	vc := c.prop.App.ValidatorsCache
	head := c.prop.Chain.Head
	sv := vc.GetOnlineValidators(head.Seed(), head.Height()+1, types.Final, c.prop.Chain.GetCommitteeSize(vc, true))
	var res []int
	if sv == nil {
		return res
	}
	for k, a := range c.w.Addrs {
		if sv.Approved(a) {
			res = append(res, k)
		}
	}
	return res
}

// add appends one block to the canonical chain.  keepCert: the serving node keeps the certificate although it is not a
// permanent one (a node only keeps the last ~100 weak certificates; an older chain segment has certificates on
// permanent-certificate blocks only).
func (c *canon) add(empty bool, txs []*types.Transaction, keepCert bool) *blockInfo {
	height := c.head() + 1
	for _, tx := range txs {
		if err := c.prop.Pool.AddExternalTxs(validation.InboundTx, tx); err != nil {
			panic(fmt.Sprintf("driver: tx refused by the pool at height %d: %v", height, err))
		}
	}
	signers := c.signersForNext()
	var blk *types.Block
	if empty {
		blk = c.prop.Chain.GenerateEmptyBlock()
	} else {
		blk = c.prop.Propose(int64(20 + c.rnd.Intn(30)))
	}
	if blk == nil {
		panic("driver: no block proposed")
	}
	if !empty && len(blk.Body.Transactions) != len(txs) {
		panic(fmt.Sprintf("driver: block %d includes %d of %d submitted txs", height, len(blk.Body.Transactions), len(txs)))
	}
	data := sim.Encode(blk)
	cert := c.w.Cert(blk, signers)
	certB, _ := cert.ToBytes()
	perm := false
	if err := c.prop.Chain.ValidateBlockCertOnHead(blk.Header, cert); err != nil {
		panic(fmt.Sprintf("driver: own certificate for block %d is not valid: %v (signers %v)", height, err, signers))
	}
	for _, n := range []*sim.Node{c.prop, c.ref} {
		if err := n.Add(data); err != nil {
			panic(fmt.Sprintf("driver: canonical block %d refused: %v", height, err))
		}
		hdr := n.Chain.Head
		perm = n.Chain.IsPermanentCert(hdr)
		if perm || keepCert {
			writeCert(n, certB, perm)
		}
	}
	c.blocks[height] = data
	for _, tx := range blk.Body.Transactions {
		s, _ := types.Sender(tx)
		if s == c.w.Addrs[c.ownKey] || (tx.To != nil && *tx.To == c.w.Addrs[c.ownKey]) {
			c.ownTxs[height] = append(c.ownTxs[height], tx.Hash())
		}
	}
	bi := c.describe(height, signers)
	bi.NTxs = len(blk.Body.Transactions)
	bi.certB, bi.perm, bi.kept = certB, perm, perm || keepCert
	bi.CertFull = dig(certB)
	c.info[height] = bi
	if c.prop.App.State.LastSnapshot() == height {
		c.awaitManifest(height)
	}
	return bi
}

func (c *canon) awaitManifest(height uint64) {
	deadline := time.Now().Add(20 * time.Second)
	for time.Now().Before(deadline) {
		if m := c.prop.Chain.ReadSnapshotManifest(); m != nil && m.Height == height {
			data, ok := c.net.get(m.CidV2)
			if !ok {
				panic("driver: manifest without snapshot content")
			}
			c.manifests[height] = &manRec{height: height, manifest: m, data: data}
			return
		}
		time.Sleep(200 * time.Microsecond)
	}
	panic(fmt.Sprintf("driver: the serving node's SnapshotManager produced no manifest for height %d", height))
}

func (c *canon) describe(height uint64, signers []int) *blockInfo {
	n := c.ref
	hdr := n.Chain.GetBlockHeaderByHeight(height)
	bi := &blockInfo{H: height, Kind: "P", Flags: int(hdr.Flags()), header: hdr, signers: signers}
	if hdr.EmptyBlockHeader != nil {
		bi.Kind = "E"
	}
	bi.Need = hdr.Flags().HasFlag(types.IdentityUpdate | types.Snapshot | types.NewGenesis)
	bi.Snap = hdr.Flags().HasFlag(types.Snapshot)
	bi.Hash = hx(hdr.Hash().Bytes())
	bi.IdRoot = hx(hdr.IdentityRoot().Bytes())
	bi.Root = hx(hdr.Root().Bytes())
	if d := n.Chain.GetIdentityDiff(height); d != nil {
		b, _ := d.ToBytes()
		bi.Diff = !d.Empty()
		bi.DiffD = dig(b)
	}
	if ct := c.prop.Chain.GetCertificate(hdr.Hash()); ct != nil {
		b, _ := ct.ToBytes()
		bi.Cert = !ct.Empty()
		bi.CertD = dig(b)
	}
	return bi
}

func writeCert(n *sim.Node, certB []byte, perm bool) {
	cc := new(types.BlockCert)
	if err := cc.FromBytes(certB); err != nil {
		panic(err)
	}
	n.Chain.WriteCertificate(n.Chain.Head.Hash(), cc, perm)
}

// upTo returns a view of the canonical chain whose reference node applied exactly the blocks up to height t.
func (c *canon) upTo(t uint64) *canon {
	if t == c.head() {
		return c
	}
	if c.cut == nil {
		c.cut = map[uint64]*canon{}
	}
	if d, ok := c.cut[t]; ok {
		return d
	}
	d := *c
	d.ref, _ = bootNode(c.w, 1, sim.CopyDB(c.genDB), c.net, c.propIpfs)
	for h := uint64(2); h <= t; h++ {
		if err := d.ref.Add(c.blocks[h]); err != nil {
			panic(err)
		}
		if bi := c.info[h]; bi.kept {
			writeCert(d.ref, bi.certB, bi.perm)
		}
	}
	c.cut[t] = &d
	return &d
}

func hx(b []byte) string {
	if len(b) > 8 {
		b = b[:8]
	}
	return hex.EncodeToString(b)
}

func (c *canon) saveCopy() {
	c.copies[c.head()] = sim.CopyDB(c.ref.DB)
}
