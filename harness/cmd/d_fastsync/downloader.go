package main

import (
	"fmt"
	"sync/atomic"
	"time"

	"github.com/idena-network/idena-go/common/eventbus"
	"github.com/idena-network/idena-go/config"
	"github.com/idena-network/idena-go/events"
	"github.com/idena-network/idena-go/protocol"
	"github.com/idena-network/idena-go/stats/collector"
	dbm "github.com/tendermint/tm-db"

	"verifh/internal/sim"
	"verifh/internal/tr"
)

// Whole-Downloader scenarios: nothing of the orchestration is mirrored.  The repository's Downloader (NewDownloader,
// SyncBlockchain -> Load -> createBlockApplier / getBestManifest -> fastSync -> consumeBlocks goroutine -> postConsuming, then
// fullSync for the blocks after the manifest height) runs against the same serving peers; the driver only carries the frames
// (pump goroutine) and releases the Downloader's back-off sleeps on the virtual clock (a refusal costs the real node 5 s).
// What happened in between is not observable step by step, so the trace carries the answers that went over the wire, one
// "Synced" line with the end state, and the final comparison.

type noFork struct{}

func (noFork) HasLoadedFork() bool { return false }

func (r *runCtx) runDownloader(sc *scenario, L, S, T uint64, db dbm.DB) {
	r.seq++
	sid := fmt.Sprintf("d%d", r.seq)
	r.chainLine(sid, sc, L, S, T)
	defer r.guard(sid)()
	s := newSyncNode(r.c, ownKey, sim.CopyDB(db), S, r.out, sid)
	// the Downloader starts and stops the sync mode itself
	s.n.Chain.StopSync()
	s.sm.StopSync()
	good := r.c.manifests[S]
	for _, name := range sortedKeys(sc.Plans) {
		pl := &plan{Faults: map[uint64]string{}}
		for hs, f := range sc.Plans[name] {
			var rel int
			fmt.Sscan(hs, &rel)
			pl.Faults[L+uint64(rel)] = f
		}
		s.plans[name] = pl
		s.names = append(s.names, name)
		switch mk := sc.Mans[name]; mk {
		case "", "ok":
			s.mans[name] = good.manifest
		case "none":
		default:
			s.mans[name] = r.badManifest(mk, S)
		}
		s.connect(name)
		s.peers[name].SetHeight(T)
	}
	s.top = T
	cfg := *s.n.Cfg
	cfg.Sync = &config.SyncConfig{FastSync: true, ForceFullSync: 2}
	ks, sub := sharedStores()
	d := protocol.NewDownloader(s.h, &cfg, s.n.Chain, s.ip, s.n.App, s.sm, s.n.Bus, s.n.Sec, collector.NewStatsCollector(), sub, ks, s.n.Upgrader)
	fastDone := int32(0)
	s.n.Bus.Subscribe(events.FastSyncCompleted, func(e eventbus.Event) { atomic.AddInt32(&fastDone, 1) })
	r.c.w.SetNow(r.c.info[T].header.Time() + 5)

	s.served = nil
	atomic.StoreInt32(&s.stop, 0)
	done := make(chan struct{})
	go s.pump(done)
	relDone := make(chan struct{})
	go func() { // back-off sleeps end at once, time-outs never fire
		defer close(relDone)
		for atomic.LoadInt32(&s.stop) == 0 {
			for _, sl := range r.c.w.Clock.Sleepers() {
				if sl.D <= 5*time.Second {
					r.c.w.Clock.Advance(int64(sl.D / time.Second)) // the sleeper's time passes (the wait for manifests measures it)
					r.c.w.Clock.Release(sl)
				}
			}
			time.Sleep(100 * time.Microsecond)
		}
	}()
	var err error
	rounds := 0
	t0 := time.Now()
	for rounds = 1; rounds <= 4; rounds++ {
		err = d.SyncBlockchain(noFork{})
		if err == nil || !d.HasPotentialFork() {
			break
		}
		// the engine hands the suspected peers to the fork resolver, which finds no fork (they serve the same chain) and clears them
		d.ClearPotentialForks()
	}
	atomic.StoreInt32(&s.stop, 1)
	<-done
	<-relDone
	if time.Since(t0) > 12*time.Second {
		r.out.Emit(tr.M{"ev": "Unreliable", "sid": sid, "why": fmt.Sprintf("the sync took %v (a 20 s block time-out may have fired)", time.Since(t0))})
	}
	for _, rec := range s.served {
		r.out.Emit(tr.M{"ev": "Wire", "sid": sid, "peer": rec.Peer, "from": s.rel(rec.From), "to": s.rel(rec.To), "blocks": rec.Blocks})
	}
	time.Sleep(2 * time.Millisecond)
	s.lastArt = nil
	o := s.observe()
	r.out.Emit(tr.M{"ev": "Synced", "sid": sid, "res": map[bool]string{true: "ok", false: "err"}[err == nil], "err": errText(err), "rounds": rounds,
		"fast": int(atomic.LoadInt32(&fastDone)), "downloads": s.ip.loads, "top": s.rel(T), "obs": o, "leftover": s.leftover(), "reboot": s.rebootProbe()})
	r.final(s, sid, L, S, T, s.n.Chain.Head.Height() == T)
}
