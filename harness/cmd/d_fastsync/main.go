// d_fastsync drives the REAL fast-sync code of idena-go (protocol/fast.go: fastSync.preConsuming, processBatch with its
// reload recursion, validateHeader, validateIdentityState, applyDeferredBlocks, postConsuming; blockchain.AddHeaderUnsafe,
// AtomicSwitchToPreliminary; state.CreatePreliminaryCopy / LoadPreliminary / SwitchToPreliminary / RecoverSnapshot2 /
// CommitSnapshot / SaveForcedVersion; SnapshotManager.DownloadSnapshot) against real serving peers whose answers are altered
// on the wire, and records an ndjson trace for Trace_FastSync.tla.
//
// A canonical chain is produced by a real proposing / serving node (real ProposeBlock, real transactions: OnlineStatusTx,
// KillTx, DelegateTx, SendTx; empty blocks; real certificates signed by the real committee of every block) and applied by a
// reference node that adds every block.  The serving node's SnapshotManager writes the snapshot archives and manifests.
// A syncing node (from genesis or from an early copy) runs the real fastSync object through the verif shim in package
// protocol (only the libp2p stream is replaced by an in-memory pipe); the request loop of Downloader.Load is mirrored by the
// driver (createBlockApplier -> preConsuming -> one GetBlocksRange + processBatch per batch -> postConsuming), which is the
// only mirrored orchestration.  Afterwards the node applies the remaining canonical blocks normally and its summary is
// recorded next to the reference node's.
//
//	-cases f   scenarios exported by TLC from FastSync.tla (chain shape x fault placement x batch split x resume mode)
//	-random n  n seeded scenarios on a long chain (>= 60 blocks) with everything mixed
package main

import (
	"bytes"
	"encoding/json"
	"flag"
	"fmt"
	"math/rand"
	"os"
	"runtime/debug"
	"runtime/pprof"
	"sort"
	"strings"
	"sync/atomic"
	"time"

	"github.com/idena-network/idena-go/blockchain/types"
	"github.com/idena-network/idena-go/common"
	"github.com/idena-network/idena-go/core/state"
	"github.com/idena-network/idena-go/core/state/snapshot"
	"github.com/idena-network/idena-go/core/validators"
	"github.com/ipfs/go-cid"
	dbm "github.com/tendermint/tm-db"

	"verifh/internal/sim"
	"verifh/internal/tr"
)

const ownKey = 7 // the syncing node's key: transactions from / to it must end up in its transaction index

type step struct {
	Op   string `json:"op"`   // new | batch | post | restart
	Peer string `json:"peer"` // batch: whom the range is requested from
	N    int    `json:"n"`    // batch: number of blocks requested
}

type scenario struct {
	Id    string                       `json:"id"`
	Shape []string                     `json:"shape"` // abstract chain between the local head and the manifest height
	Plans map[string]map[string]string `json:"plans"` // peer -> relative height -> fault
	Mans  map[string]string            `json:"mans"`  // peer -> manifest it announces ("ok" | "snap-..." | "none")
	Steps []step                       `json:"steps"`
	Class string                       `json:"class"`
}

// ---------------------------------------------------------------------------------------------
// chains

var storeCertRange uint64 = 9

// prefixChain: the common start of all shape chains: four validators go online (status switch block), one identity is killed.
// The shape's identity-update blocks kill the online validators one by one, so that every such block changes the committee and
// the vote threshold the following certificates are checked against.
func prefixChain(seed int64, nShape int) *canon {
	w := newWorld(seed, 16)
	L := uint64(7)
	w.Cons.SnapshotRange = L + uint64(nShape)
	rnd := rand.New(rand.NewSource(seed))
	c := newCanon(w, rnd, ownKey)
	var txs []*types.Transaction
	for k := 0; k <= 3; k++ {
		txs = append(txs, c.onlineTx(k, true))
	}
	c.add(false, txs, true)                                                                       // 2
	c.add(false, []*types.Transaction{c.tx(6, types.SendTx, &w.Addrs[ownKey], 3, nil, 0)}, false) // 3
	c.add(true, nil, false)                                                                       // 4
	c.add(false, nil, true)                                                                       // 5: status switch, the four go online
	c.add(false, []*types.Transaction{c.tx(9, types.KillTx, nil, 0, nil, 0)}, true)               // 6
	c.add(false, []*types.Transaction{c.tx(ownKey, types.SendTx, &w.Addrs[6], 2, nil, 0)}, false) // 7
	if c.head() != L {
		panic("prefix length")
	}
	if !c.info[5].Diff || !c.info[6].Diff || c.prop.App.ValidatorsCache.OnlineSize() != 4 {
		panic(fmt.Sprintf("driver: prefix chain is not what the scenarios assume: %+v %+v online=%d", c.info[5], c.info[6], c.prop.App.ValidatorsCache.OnlineSize()))
	}
	c.saveCopy()
	return c
}

// growShape continues a copy of the prefix chain with the abstract shape and `tail` further blocks.
func growShape(pre *canon, shape []string, tail int, rnd *rand.Rand) *canon {
	c := pre.clone(rnd)
	w := c.w
	spare := 1
	for i, k := range shape {
		last := i == len(shape)-1
		send := []*types.Transaction{c.tx(6, types.SendTx, &w.Addrs[ownKey], 1, nil, 0)}
		var bi *blockInfo
		switch k {
		case "P":
			bi = c.add(false, send, false)
		case "Pc":
			bi = c.add(false, send, true)
		case "E":
			bi = c.add(true, nil, false)
		case "Ec":
			bi = c.add(true, nil, true)
		case "U":
			bi = c.add(false, []*types.Transaction{c.tx(spare, types.KillTx, nil, 0, nil, 0)}, true)
			spare++
		case "F":
			bi = c.add(false, send, true)
		default:
			panic("shape kind " + k)
		}
		want := map[string][4]bool{ // empty, need, diff, cert
			"P": {false, false, false, false}, "Pc": {false, false, false, true}, "E": {true, false, false, false}, "Ec": {true, false, false, true},
			"U": {false, true, true, true}, "F": {false, true, false, true}}[k]
		if last {
			if !bi.Snap {
				panic(fmt.Sprintf("driver: the last block of the shape (%d) has no Snapshot flag", bi.H))
			}
		} else if bi.Snap {
			panic("driver: Snapshot flag inside the shape")
		}
		got := [4]bool{bi.Kind == "E", bi.Need, bi.Diff, bi.Cert}
		if got != want {
			panic(fmt.Sprintf("driver: block %d of shape %v came out as %+v", bi.H, shape, bi))
		}
	}
	for i := 0; i < tail; i++ {
		switch i % 3 {
		case 0:
			c.add(false, []*types.Transaction{c.tx(6, types.SendTx, &w.Addrs[ownKey], 1, nil, 0)}, true)
		case 1:
			c.add(false, []*types.Transaction{c.tx(8, types.KillTx, nil, 0, nil, 0)}, true)
		default:
			c.add(true, nil, true)
		}
	}
	return c
}

// longChain: >= n blocks with everything mixed: online / offline switches, kills, delegations (pools), empty blocks,
// transfers, certificates kept on a seeded subset of the non-permanent blocks, snapshots every SnapshotRange blocks.
func longChain(seed int64, n int) *canon {
	w := newWorld(seed, 22)
	rnd := rand.New(rand.NewSource(seed*31 + 7))
	w.Cons.SnapshotRange = uint64(8 + rnd.Intn(5))
	w.Cons.StatusSwitchRange = uint64(4 + rnd.Intn(3))
	w.Cons.DelegationSwitchRange = uint64(6 + rnd.Intn(3))
	c := newCanon(w, rnd, ownKey)
	online := map[int]bool{}
	pendingOn := map[int]uint64{}
	killed := map[int]bool{}
	delegated := map[int]bool{}
	// keys: 0 god, 1..5 validators that go online first, 6 funded sender (Verified), 7 the syncing node's key, 8.. spare identities
	var first []*types.Transaction
	for k := 0; k <= 4; k++ {
		first = append(first, c.onlineTx(k, true))
		pendingOn[k] = 2
	}
	c.add(false, first, true)
	copyAt := map[uint64]bool{uint64(3 + rnd.Intn(4)): true, uint64(12 + rnd.Intn(8)): true, uint64(26 + rnd.Intn(10)): true}
	for c.head() < uint64(n) {
		h := c.head() + 1
		s := c.ref.App.State
		vc := c.ref.App.ValidatorsCache
		for k := range pendingOn {
			if vc.IsOnlineIdentity(w.Addrs[k]) {
				online[k] = true
				delete(pendingOn, k)
			}
		}
		for k := range online {
			if !vc.IsOnlineIdentity(w.Addrs[k]) {
				delete(online, k)
			}
		}
		keep := rnd.Intn(3) == 0 || h == uint64(n) // a serving node always holds the certificate of its head
		if h > 3 && rnd.Intn(7) == 0 {
			c.add(true, nil, keep)
		} else {
			var txs []*types.Transaction
			used := map[int]bool{}
			try := func(k int, f func() *types.Transaction) {
				if used[k] || killed[k] {
					return
				}
				used[k] = true
				txs = append(txs, f())
			}
			if rnd.Intn(2) == 0 {
				try(6, func() *types.Transaction {
					return c.tx(6, types.SendTx, &w.Addrs[ownKey], int64(1+rnd.Intn(3)), nil, 0)
				})
			}
			if rnd.Intn(4) == 0 {
				try(ownKey, func() *types.Transaction { return c.tx(ownKey, types.SendTx, &w.Addrs[10], 1, nil, 0) })
			}
			switch rnd.Intn(6) {
			case 0: // somebody goes online
				k := 8 + rnd.Intn(10)
				if !online[k] && pendingOn[k] == 0 && !delegated[k] && !killed[k] && vc.IsValidated(w.Addrs[k]) && !s.HasStatusSwitchAddresses(w.Addrs[k]) {
					try(k, func() *types.Transaction { return c.onlineTx(k, true) })
					pendingOn[k] = h
				}
			case 1: // somebody goes offline (never the god node: it proposes)
				var on []int
				for k := range online {
					on = append(on, k)
				}
				sort.Ints(on)
				for _, k := range on {
					if k != 0 && !s.HasStatusSwitchAddresses(w.Addrs[k]) && !used[k] && len(online) > 2 {
						kk := k
						try(kk, func() *types.Transaction { return c.onlineTx(kk, false) })
						break
					}
				}
			case 2: // kill
				k := 8 + rnd.Intn(12)
				st := s.GetIdentityState(w.Addrs[k])
				if !killed[k] && (st == state.Verified || st == state.Human) && pendingOn[k] == 0 && !used[k] {
					try(k, func() *types.Transaction { return c.tx(k, types.KillTx, nil, 0, nil, 0) })
					killed[k] = true
				}
			case 3: // delegation into a pool (pool = key 1 or 2)
				k := 8 + rnd.Intn(12)
				pool := 1 + rnd.Intn(2)
				if !killed[k] && !delegated[k] && !online[k] && pendingOn[k] == 0 && vc.IsValidated(w.Addrs[k]) && s.Delegatee(w.Addrs[k]) == nil && !killed[pool] && !used[k] {
					try(k, func() *types.Transaction { return c.tx(k, types.DelegateTx, &w.Addrs[pool], 0, nil, 0) })
					delegated[k] = true
				}
			}
			c.add(false, txs, keep)
		}
		if copyAt[c.head()] {
			c.saveCopy()
		}
	}
	return c
}

// ---------------------------------------------------------------------------------------------
// scenarios on a chain

type runCtx struct {
	c    *canon
	out  *tr.W
	rnd  *rand.Rand
	seq  int
	kind string
}

var lastProgress int64 // unix nanoseconds of the last scenario start (watchdog)

// watchdog: a scenario that does not finish is a harness failure (exit 3 with the goroutine dump), not a verdict
func watchdog() {
	atomic.StoreInt64(&lastProgress, time.Now().UnixNano())
	go func() {
		for {
			time.Sleep(2 * time.Second)
			if time.Since(time.Unix(0, atomic.LoadInt64(&lastProgress))) > 150*time.Second {
				fmt.Println("driver: scenario stuck for 150 s, goroutines:")
				pprof.Lookup("goroutine").WriteTo(os.Stdout, 1)
				os.Exit(3)
			}
		}
	}()
}

func (r *runCtx) chainLine(sid string, sc *scenario, L, S, T uint64) {
	atomic.StoreInt64(&lastProgress, time.Now().UnixNano())
	var shape []*blockInfo
	for h := L + 1; h <= T; h++ {
		bi := *r.c.info[h]
		bi.H = int64ToU(int(h) - int(L))
		shape = append(shape, &bi)
	}
	r.out.Emit(tr.M{"ev": "Chain", "sid": sid, "kind": r.kind, "class": sc.Class, "scenario": sc.Id, "L": L, "N": S - L, "T": T - L, "blocks": shape,
		"abstract": sc.Shape, "plans": sc.Plans, "mans": sc.Mans, "peers": sortedKeys(sc.Plans)})
}

func int64ToU(x int) uint64 { return uint64(x) }

func sortedKeys(m map[string]map[string]string) []string {
	res := []string{}
	for k := range m {
		res = append(res, k)
	}
	sort.Strings(res)
	return res
}

// badManifest builds what a bad provider announces: a manifest for height S whose content is not the state at S.
func (r *runCtx) badManifest(kind string, S uint64) *snapshot.Manifest {
	good := r.c.manifests[S]
	var data []byte
	root := good.manifest.Root
	switch kind {
	case "snap-otherheight":
		// the archive of another height, announced for height S with the root it really has
		var other *manRec
		for h, m := range r.c.manifests {
			if h != S && (other == nil || h > other.height) {
				other = m
			}
		}
		if other == nil {
			// no other snapshot on this chain: export the reference state one block earlier
			var buf bytes.Buffer
			rt, err := r.c.ref.App.State.WriteSnapshot2(S-1, &buf)
			if err != nil {
				panic(err)
			}
			data, root = buf.Bytes(), rt
		} else {
			data, root = other.data, other.manifest.Root
		}
	case "snap-truncated":
		data = append([]byte(nil), good.data[:512+(len(good.data)-512)/4]...)
	case "snap-garbled":
		data = append([]byte(nil), good.data...)
		data[700+r.rnd.Intn(200)] ^= 0x5a
	case "snap-unavailable":
		data = nil
	default:
		panic("manifest kind " + kind)
	}
	var c cid.Cid
	if data != nil {
		c, _ = r.c.propIpfs.Cid(data)
		r.c.net.put(c, data)
	} else {
		c, _ = r.c.propIpfs.Cid([]byte(fmt.Sprintf("nowhere-%d-%d", S, r.seq)))
	}
	badManifests[fmt.Sprintf("%s@%d", c.String(), S)] = kind
	return &snapshot.Manifest{Height: S, Root: root, CidV2: c.Bytes()}
}

// guard: a panic inside the repository's code while syncing is an observation, a panic of the driver is not
func (r *runCtx) guard(sid string) func() {
	return func() {
		if e := recover(); e != nil {
			msg := fmt.Sprint(e)
			if strings.HasPrefix(msg, "driver:") {
				panic(e)
			}
			st := string(debug.Stack())
			if i := strings.Index(st, "panic("); i >= 0 {
				st = st[i:]
			}
			if len(st) > 1500 {
				st = st[:1500]
			}
			if len(msg) > 200 {
				msg = msg[:200]
			}
			r.out.Emit(tr.M{"ev": "Panic", "sid": sid, "msg": msg, "stack": st})
		}
	}
}

// run executes one scenario: the scripted steps, then an honest completion, the tail and the final comparison.
func (r *runCtx) run(sc *scenario, L, S, T uint64, db dbm.DB) {
	r.seq++
	sid := fmt.Sprintf("%s%d", r.kind[:1], r.seq)
	r.chainLine(sid, sc, L, S, T)
	defer r.guard(sid)()
	s := newSyncNode(r.c, ownKey, sim.CopyDB(db), S, r.out, sid)
	if s.L != L {
		panic(fmt.Sprintf("driver: syncing node starts at %d, expected %d", s.L, L))
	}
	good := r.c.manifests[S]
	if good == nil {
		panic(fmt.Sprintf("driver: no manifest at %d", S))
	}
	for _, name := range sortedKeys(sc.Plans) {
		pl := &plan{Faults: map[uint64]string{}}
		for hs, f := range sc.Plans[name] {
			var rel int
			fmt.Sscan(hs, &rel)
			pl.Faults[L+uint64(rel)] = f
		}
		s.plans[name] = pl
		s.names = append(s.names, name)
		switch mk := sc.Mans[name]; mk {
		case "", "ok":
			s.mans[name] = good.manifest
		case "none":
		default:
			s.mans[name] = r.badManifest(mk, S)
		}
		s.connect(name)
	}
	switched := false
	for _, st := range sc.Steps {
		if switched {
			break
		}
		switch st.Op {
		case "new":
			s.stepNew()
		case "batch":
			if s.fs == nil || s.peers[st.Peer] == nil || !s.peers[st.Peer].Registered() || s.cursor > S {
				r.out.Emit(tr.M{"ev": "Skip", "sid": sid, "op": st.Op})
				continue
			}
			s.stepBatch(st.Peer, st.N)
		case "post":
			if s.fs == nil {
				r.out.Emit(tr.M{"ev": "Skip", "sid": sid, "op": st.Op})
				continue
			}
			switched = s.stepPost()
		case "restart":
			s.stepRestart()
		}
	}
	// honest completion: a peer that never lies serves everything that is missing
	for round := 0; round < 8 && !switched; round++ {
		hn := fmt.Sprintf("H%d", round)
		s.mans[hn] = good.manifest
		s.connect(hn)
		s.stepNew()
		if s.fs == nil {
			break
		}
		if s.cursor <= S {
			s.stepBatch(hn, int(S-s.cursor+1))
		}
		if s.fs != nil {
			switched = s.stepPost()
		}
	}
	if switched {
		s.stepTail(T)
	}
	r.final(s, sid, L, S, T, switched)
}

type summary struct {
	Canon     canonObs `json:"canon"`
	Ledger    string   `json:"ledger"`
	Params    string   `json:"params"`
	Arts      []art    `json:"arts"`
	NeedCerts []int    `json:"needCerts"` // relative heights of certificate-mandatory blocks whose certificate is stored
	IdVers    []int    `json:"idVers"`    // of {S, head}: which identity versions exist
	StVers    []int    `json:"stVers"`
	Replay    []int    `json:"replayBad"` // heights where replaying the stored diffs does not give the header's identity root
	FreshView string   `json:"freshView"`
	OwnTx     []int    `json:"ownTx"` // [indexed, total] own transactions in the synced range
	Reboot    string   `json:"reboot"`
}

func (r *runCtx) summarize(n *sim.Node, L, S, T uint64, startDB dbm.DB) summary {
	w := r.c.w
	sm := summary{Canon: canonOf(w, n, L), NeedCerts: []int{}, IdVers: []int{}, StVers: []int{}, Replay: []int{}, OwnTx: []int{0, 0}}
	head := n.Chain.Head.Height()
	if l, err := n.Project(head); err == nil {
		b, _ := json.Marshal(l)
		sm.Ledger = dig(b)
	} else {
		sm.Ledger = "err:" + errText(err)
	}
	o := n.Obs()
	o.StateRootLive = ""
	ob, _ := json.Marshal(o)
	sm.Params = dig(ob)
	top := S
	if head < top {
		top = head
	}
	sm.Arts = artsOf(n, L, L+1, top)
	for h := L + 1; h <= top; h++ {
		if r.c.info[h].Need {
			if hd := n.Chain.GetBlockHeaderByHeight(h); hd != nil && !n.Chain.GetCertificate(hd.Hash()).Empty() {
				sm.NeedCerts = append(sm.NeedCerts, int(h-L))
			}
		}
		for _, th := range r.c.ownTxs[h] {
			sm.OwnTx[1]++
			if n.Chain.GetTxIndex(th) != nil {
				sm.OwnTx[0]++
			}
		}
	}
	for _, h := range []uint64{S, head} {
		if n.App.IdentityState.HasVersion(h) {
			sm.IdVers = append(sm.IdVers, int(h-L))
		}
		if n.App.State.HasVersion(h) {
			sm.StVers = append(sm.StVers, int(h-L))
		}
	}
	fresh := validators.NewValidatorsCache(n.App.IdentityState, n.App.State.GodAddress())
	fresh.Load()
	sm.FreshView = viewDigest(w, fresh)
	// follower replay of the stored diffs from the identity state at L
	func() {
		defer func() {
			if e := recover(); e != nil {
				sm.Replay = append(sm.Replay, -1)
			}
		}()
		ids, err := state.NewLazyIdentityState(sim.CopyDB(startDB))
		if err != nil {
			panic(err)
		}
		if err := ids.Load(L); err != nil {
			panic(err)
		}
		for x := L + 1; x <= head; x++ {
			hdr := n.Chain.GetBlockHeaderByHeight(x)
			if hdr == nil {
				sm.Replay = append(sm.Replay, int(x-L))
				break
			}
			if d := n.Chain.GetIdentityDiff(x); d != nil {
				data, _ := d.ToBytes()
				d2 := new(state.IdentityStateDiff)
				_ = d2.FromBytes(data)
				ids.AddDiff(x, d2)
			}
			if ids.Root() != hdr.IdentityRoot() {
				sm.Replay = append(sm.Replay, int(x-L))
				break
			}
			if _, _, err := ids.CommitTree(int64(x)); err != nil {
				panic(err)
			}
		}
	}()
	return sm
}

func (r *runCtx) final(s *syncNode, sid string, L, S, T uint64, switched bool) {
	startDB := r.c.copies[L]
	if L == 1 {
		startDB = r.c.genDB
	}
	syn := r.summarize(s.n, L, S, T, startDB)
	// the same node after a restart (C10: "as a restarted or fast-synced node does")
	func() {
		defer func() {
			if e := recover(); e != nil {
				syn.Reboot = "panic: " + fmt.Sprint(e)
			}
		}()
		ip := &netIpfs{Proxy: s.ip.Proxy, net: r.c.net, others: s.ip.others, override: map[string][]byte{}}
		n2 := r.c.w.Boot(ownKey, sim.CopyDB(s.n.DB), ip)
		if n2.BootErr != nil {
			syn.Reboot = "boot: " + errText(n2.BootErr)
			return
		}
		c2 := canonOf(r.c.w, n2, L)
		b, _ := json.Marshal(c2)
		syn.Reboot = string(b)
	}()
	// the reference at the same height
	refNode := r.c.ref
	ref := r.summarize(refNode, L, S, T, startDB)
	cb, _ := json.Marshal(ref.Canon)
	ref.Reboot = string(cb)
	if refNode.Chain.Head.Height() != T {
		panic("driver: reference head is not T")
	}
	r.out.Emit(tr.M{"ev": "Final", "sid": sid, "switched": switched, "sync": syn, "ref": ref})
}

// ---------------------------------------------------------------------------------------------

func readScenarios(path string) []*scenario {
	var res []*scenario
	tr.ReadLines(path, func(raw []byte) {
		sc := new(scenario)
		if err := json.Unmarshal(raw, sc); err != nil {
			panic(err)
		}
		res = append(res, sc)
	})
	return res
}

var blockFaults = []string{"diff-wrong", "diff-missing", "diff-stale", "diff-drop-entry", "hdr-parent", "hdr-seed", "hdr-forged", "hdr-time", "hdr-gap",
	"cert-missing", "cert-outsider", "cert-few", "cert-otherblock", "trunc"}
var manFaults = []string{"snap-otherheight", "snap-truncated", "snap-garbled", "snap-unavailable"}

// randomScenario: seeded scenario on the long chain
func randomScenario(rnd *rand.Rand, c *canon, id int) (*scenario, uint64, uint64, dbm.DB) {
	// where the node starts
	starts := []uint64{1}
	for h := range c.copies {
		starts = append(starts, h)
	}
	sort.Slice(starts, func(i, j int) bool { return starts[i] < starts[j] })
	L := starts[rnd.Intn(len(starts))]
	var snaps []uint64
	for h := range c.manifests {
		if h > L+1 {
			snaps = append(snaps, h)
		}
	}
	sort.Slice(snaps, func(i, j int) bool { return snaps[i] < snaps[j] })
	S := snaps[rnd.Intn(len(snaps))]
	db := c.genDB
	if L > 1 {
		db = c.copies[L]
	}
	N := int(S - L)
	sc := &scenario{Id: fmt.Sprintf("r%d", id), Plans: map[string]map[string]string{"A": {}, "B": {}, "C": {}}, Mans: map[string]string{}, Class: "random"}
	nf := rnd.Intn(4)
	// half of the faults aim at the blocks where they matter (certificate-mandatory blocks, blocks with an identity diff)
	var hot []int
	for h := L + 1; h <= S; h++ {
		if c.info[h].Need || c.info[h].Diff {
			hot = append(hot, int(h-L))
		}
	}
	for i := 0; i < nf; i++ {
		p := []string{"A", "B", "A"}[rnd.Intn(3)]
		at := 1 + rnd.Intn(N)
		if rnd.Intn(2) == 0 {
			at = hot[rnd.Intn(len(hot))]
		}
		sc.Plans[p][fmt.Sprint(at)] = blockFaults[rnd.Intn(len(blockFaults))]
	}
	if rnd.Intn(4) == 0 {
		sc.Mans["A"] = manFaults[rnd.Intn(len(manFaults))]
		if rnd.Intn(2) == 0 {
			sc.Mans["B"] = "none"
			sc.Mans["C"] = "none"
		}
	}
	// steps: appliers, batches of random sizes from random peers, occasional restarts and early posts
	left := N
	sc.Steps = append(sc.Steps, step{Op: "new"})
	for guard := 0; left > 0 && guard < 40; guard++ {
		switch x := rnd.Intn(12); {
		case x == 0:
			sc.Steps = append(sc.Steps, step{Op: "restart"}, step{Op: "new"})
		case x == 1:
			sc.Steps = append(sc.Steps, step{Op: "post"}, step{Op: "new"})
		default:
			n := 1 + rnd.Intn(left)
			if rnd.Intn(3) == 0 {
				n = 1 + rnd.Intn(3)
			}
			if n > left {
				n = left
			}
			sc.Steps = append(sc.Steps, step{Op: "batch", Peer: []string{"A", "B", "C"}[rnd.Intn(3)], N: n})
			left -= n
		}
	}
	sc.Steps = append(sc.Steps, step{Op: "post"})
	return sc, L, S, db
}

func main() {
	cases := flag.String("cases", "", "scenario file exported by TLC")
	nRandom := flag.Int("random", 0, "number of seeded random scenarios on the long chain")
	nDown := flag.Int("downloader", 0, "of the random scenarios, how many run the repository's whole Downloader instead of the step-wise applier")
	chainLen := flag.Int("len", 70, "length of the long chain")
	outPath := flag.String("out", "trace.ndjson", "trace file")
	tail := flag.Int("tail", 3, "blocks applied normally after the switch")
	flag.Parse()
	defer sim.Cleanup()
	watchdog()
	seed := tr.Seed()
	out := tr.Create(*outPath)
	defer out.Close()
	stats := map[string]int{}

	if *cases != "" {
		scs := readScenarios(*cases)
		if len(scs) > 0 {
			storeCertRange = 100000
			n := len(scs[0].Shape)
			pre := prefixChain(seed, n)
			L := pre.head()
			byShape := map[string][]*scenario{}
			var order []string
			for _, sc := range scs {
				if len(sc.Shape) != n {
					panic("driver: scenarios of different shape lengths in one file")
				}
				k := strings.Join(sc.Shape, ",")
				if _, ok := byShape[k]; !ok {
					order = append(order, k)
				}
				byShape[k] = append(byShape[k], sc)
			}
			for _, k := range order {
				c := growShape(pre, byShape[k][0].Shape, *tail, rand.New(rand.NewSource(seed)))
				r := &runCtx{c: c, out: out, rnd: rand.New(rand.NewSource(seed + 5)), kind: "model", seq: stats["scenarios"]}
				for _, sc := range byShape[k] {
					r.run(sc, L, L+uint64(n), c.head(), pre.copies[L])
					stats["scenarios"]++
				}
				stats["shapes"]++
			}
		}
	}
	if *nRandom > 0 {
		storeCertRange = 9
		c := longChain(seed, *chainLen)
		kinds := map[string]int{}
		for h := uint64(2); h <= c.head(); h++ {
			bi := c.info[h]
			k := bi.Kind
			if bi.Diff {
				k += "+diff"
			}
			if bi.Need {
				k += "+need"
			}
			if bi.Snap {
				k += "+snap"
			}
			kinds[k]++
		}
		stats["long_chain_blocks"] = int(c.head())
		stats["long_chain_snapshots"] = len(c.manifests)
		kb, _ := json.Marshal(kinds)
		fmt.Println("long chain:", string(kb))
		rnd := rand.New(rand.NewSource(seed*977 + 3))
		r := &runCtx{c: c, out: out, rnd: rnd, kind: "random"}
		T := c.head()
		for i := 0; i < *nRandom; i++ {
			sc, L, S, db := randomScenario(rnd, c, i)
			t := S + uint64(*tail) + uint64(rnd.Intn(6))
			if t > T {
				t = T
			}
			// the reference for heights below the chain's head: a node that applied exactly the blocks up to t
			rr := *r
			rr.c = c.upTo(t)
			rr.seq = r.seq
			if i < *nDown {
				rr.kind = "downloader"
				rr.c = c
				rr.runDownloader(sc, L, S, T, db)
				stats["downloader"]++
			} else {
				rr.run(sc, L, S, t, db)
				stats["random"]++
			}
			r.seq = rr.seq
		}
	}
	sb, _ := json.Marshal(stats)
	fmt.Println("STATS", string(sb))
	_ = common.Hash{}
	_ = os.Stdout
}
